(* Decision translator — the expression language of the DATA conditions that
   `hx gen-tables` (harness/cmd/hx/gentables_dec.go) reads out of pkg/action, pkg/storage and
   pkg/release on every check run (coq/Gen/ActionDecisions.v), and its interpreter.
   Definitions only.  See notes/DEC.md.

   A condition of the Go source is a [dexp] over variables named by a normalised access path
   ("Last.status", "len(History)", "revsorted(History)[0].status", "len(arg2)", …), each with
   the type the translator read off the source, the option flags of the action ([DFlag]),
   the error answers of calls ([DErr] "the error of this call is non-nil", [DErrIs] "… and
   it is this error"), nil tests of pointers / slices / maps ([DNil]), boolean expressions
   the translator cannot read ([DOpaque]: an unconstrained boolean per name), and the
   constants of pkg/release/v1 by their string value.  [deval] is total: a type error, an
   unknown constant or a [DUnknown] node evaluates to [None], and no obligation accepts
   [None].  The table of a Go function lists its guarded items (returns, calls, appends,
   assignments, predicates) by key, each with its path condition. *)
From Coq Require Import List String Bool ZArith.
From Helm Require Import Engine.Types Engine.Ops.
Import ListNotations.
Local Open Scope string_scope.

Inductive dty := TB | TS | TN | TE | TP | TStr.

Inductive dexp :=
| DVar (t : dty) (x : string)
| DFlag (f : string)
| DErr (src : string)
| DErrIs (src what : string)
| DNil (x : string)
| DOpaque (name : string)
| DStatus (v : string) | DEvent (v : string) | DPolicy (v : string)
| DInt (z : Z) | DStr (s : string) | DBool (b : bool)
| DEq (a b : dexp) | DNe (a b : dexp)
| DLt (a b : dexp) | DLe (a b : dexp) | DGt (a b : dexp) | DGe (a b : dexp)
| DAdd (a b : dexp) | DSub (a b : dexp)
| DAnd (a b : dexp) | DOr (a b : dexp) | DNot (a : dexp)
| DIsPending (a : dexp)
| DLower (a : dexp) | DTrim (a : dexp)      (* strings.ToLower, strings.TrimSpace *)
| DIn (a : dexp) (l : list dexp)
| DIf (c a b : dexp)
| DUnknown (text : string).

Inductive value :=
| VB (b : bool) | VS (s : status) | VN (z : Z) | VE (e : event) | VP (p : policy) | VStr (s : string).

(* an environment: one total assignment per kind of variable.  The numbers are unbounded
   integers (Go int; the obligations are proved for ALL of them). *)
Record menv := mkEnv {
  m_b : string -> bool;
  m_s : string -> status;
  m_n : string -> Z;
  m_e : string -> event;
  m_p : string -> policy;
  m_str : string -> string;
  m_flag : string -> bool;
  m_err : string -> bool;        (* key: the call that produced the error; "src is what" for DErrIs *)
  m_nil : string -> bool;
  m_opq : string -> bool }.       (* a condition the translator could not read: an unconstrained boolean *)

Definition all_events : list event :=
  [PreInstall; PostInstall; PreDelete; PostDelete; PreUpgrade; PostUpgrade; PreRollback; PostRollback; TestHook].

Definition all_policies : list policy := [BeforeHookCreation; HookSucceeded; HookFailed].

(* pkg/release/v1/hook.go: HookDeletePolicy values *)
Definition policy_str (p : policy) : string :=
  match p with
  | BeforeHookCreation => "before-hook-creation"
  | HookSucceeded => "hook-succeeded"
  | HookFailed => "hook-failed"
  end.

Definition status_of_str (x : string) : option status :=
  find (fun s => String.eqb (status_str s) x) all_statuses.
Definition event_of_str (x : string) : option event :=
  find (fun e => String.eqb (event_str e) x) all_events.
Definition policy_of_str (x : string) : option policy :=
  find (fun p => String.eqb (policy_str p) x) all_policies.

(* comparison of two strings held in variables stays folded in the proofs *)
Definition vstr_eqb (a b : string) : bool := String.eqb a b.
Definition vstr_ltb (a b : string) : bool := str_ltb a b.

Definition err_is_key (src what : string) : string := src ++ " is " ++ what.

Definition veq (a b : value) : option bool :=
  match a, b with
  | VB x, VB y => Some (Bool.eqb x y)
  | VS x, VS y => Some (status_eqb x y)
  | VN x, VN y => Some (Z.eqb x y)
  | VE x, VE y => Some (event_eqb x y)
  | VP x, VP y => Some (policy_eqb x y)
  | VStr x, VStr y => Some (vstr_eqb x y)
  | _, _ => None
  end.

(* a < b *)
Definition vlt (a b : value) : option bool :=
  match a, b with
  | VN x, VN y => Some (Z.ltb x y)
  | VStr x, VStr y => Some (vstr_ltb x y)
  | _, _ => None
  end.

(* a <= b *)
Definition vle (a b : value) : option bool :=
  match a, b with
  | VN x, VN y => Some (Z.leb x y)
  | VStr x, VStr y => Some (negb (vstr_ltb y x))
  | _, _ => None
  end.

Definition vbool (o : option bool) : option value :=
  match o with Some b => Some (VB b) | None => None end.

Definition bin (f : value -> value -> option value) (a b : option value) : option value :=
  match a, b with Some x, Some y => f x y | _, _ => None end.

Definition vnum (f : Z -> Z -> Z) (a b : value) : option value :=
  match a, b with VN x, VN y => Some (VN (f x y)) | _, _ => None end.

Definition vlog (f : bool -> bool -> bool) (a b : value) : option value :=
  match a, b with VB x, VB y => Some (VB (f x y)) | _, _ => None end.

Fixpoint deval (m : menv) (e : dexp) : option value :=
  match e with
  | DVar TB x => Some (VB (m_b m x))
  | DVar TS x => Some (VS (m_s m x))
  | DVar TN x => Some (VN (m_n m x))
  | DVar TE x => Some (VE (m_e m x))
  | DVar TP x => Some (VP (m_p m x))
  | DVar TStr x => Some (VStr (m_str m x))
  | DFlag f => Some (VB (m_flag m f))
  | DErr src => Some (VB (m_err m src))
  | DErrIs src what => Some (VB (m_err m (err_is_key src what)))
  | DNil x => Some (VB (m_nil m x))
  | DOpaque x => Some (VB (m_opq m x))
  | DStatus v => match status_of_str v with Some s => Some (VS s) | None => None end
  | DEvent v => match event_of_str v with Some s => Some (VE s) | None => None end
  | DPolicy v => match policy_of_str v with Some s => Some (VP s) | None => None end
  | DInt z => Some (VN z)
  | DStr s => Some (VStr s)
  | DBool b => Some (VB b)
  | DEq a b => bin (fun x y => vbool (veq x y)) (deval m a) (deval m b)
  | DNe a b => bin (fun x y => vbool (option_map negb (veq x y))) (deval m a) (deval m b)
  | DLt a b => bin (fun x y => vbool (vlt x y)) (deval m a) (deval m b)
  | DLe a b => bin (fun x y => vbool (vle x y)) (deval m a) (deval m b)
  | DGt a b => bin (fun x y => vbool (vlt y x)) (deval m a) (deval m b)
  | DGe a b => bin (fun x y => vbool (vle y x)) (deval m a) (deval m b)
  | DAdd a b => bin (vnum Z.add) (deval m a) (deval m b)
  | DSub a b => bin (vnum Z.sub) (deval m a) (deval m b)
  | DAnd a b => bin (vlog andb) (deval m a) (deval m b)
  | DOr a b => bin (vlog orb) (deval m a) (deval m b)
  | DNot a => match deval m a with Some (VB x) => Some (VB (negb x)) | _ => None end
  | DIsPending a => match deval m a with Some (VS s) => Some (VB (is_pending s)) | _ => None end
  | DLower a => match deval m a with Some (VStr s) => Some (VStr (to_lower s)) | _ => None end
  | DTrim a => match deval m a with Some (VStr s) => Some (VStr (trim_space s)) | _ => None end
  | DIn a l =>
      match deval m a with
      | Some va =>
          (fix go (l : list dexp) : option value :=
             match l with
             | [] => Some (VB false)
             | c :: t =>
                 match deval m c, go t with
                 | Some vc, Some (VB r) =>
                     match veq va vc with Some b => Some (VB (b || r)) | None => None end
                 | _, _ => None
                 end
             end) l
      | None => None
      end
  | DIf c a b =>
      match deval m c, deval m a, deval m b with
      | Some (VB x), Some (VB va), Some (VB vb) => Some (VB (if x then va else vb))
      | Some (VB x), Some (VN va), Some (VN vb) => Some (VN (if x then va else vb))
      | _, _, _ => None
      end
  | DUnknown _ => None
  end.

(* ---- the table kept on the Coq side ------------------------------------------------------ *)

(* the restrictions on ALL environments -- facts of the Go language about the variables the
   translator names:
   - "len(x)" is the value of the builtin len: never negative;
   - the length of a nil slice / map is 0;
   - a lookup in an empty (or nil) map finds nothing: "has(x[k])" is the `ok` of `v, ok := x[k]`;
   - a lookup that finds nothing yields the zero value: the string "x[k]" is "" *)
Definition is_len (x : string) : bool := prefix "len(" x.
Definition len_of (x : string) : string := "len(" ++ x ++ ")".
Definition has_of (p : string) : string := "has(" ++ p ++ ")".
Definition has_key (x y : string) : bool := prefix ("has(" ++ x ++ "[") y.
(* "len(x)" -> "x" *)
Definition unlen (l : string) : string := substring 4 (String.length l - 5) l.

Definition env_wf (m : menv) : Prop :=
  (forall x, is_len x = true -> (0 <= m_n m x)%Z) /\
  (forall x, m_nil m x = true -> m_n m (len_of x) = 0%Z) /\
  (forall x y, has_key x y = true -> m_n m (len_of x) = 0%Z -> m_b m y = false) /\
  (forall p, m_b m (has_of p) = false -> m_str m p = "").

(* assumptions under which a function of the model stands for the Go function: the part of
   the Go function's environment that the model does not have (each comes with its reason in
   the table) *)
Inductive assumption :=
| ANoErr (src : string)                  (* this call does not fail *)
| AErrIs (src what : string) (b : bool)  (* errors.Is(err of src, what) = b *)
| AErrOnly (src what : string)           (* if this call fails, then with this error *)
| AFlag (f : string) (b : bool)          (* an option the model does not have has this value *)
| AOpaque (name : string) (b : bool)     (* a condition the translator cannot read has this value *)
| ANil (x : string) (b : bool)
| ANonNeg (x : string).                  (* an integer the model keeps in nat *)

Definition holds (m : menv) (a : assumption) : Prop :=
  match a with
  | ANoErr s => m_err m s = false
  | AErrIs s w b => m_err m (err_is_key s w) = b
  | AErrOnly s w => m_err m s = true -> m_err m (err_is_key s w) = true
  | AFlag f b => m_flag m f = b
  | AOpaque n b => m_opq m n = b
  | ANil x b => m_nil m x = b
  | ANonNeg x => (0 <= m_n m x)%Z
  end.

Fixpoint all_hold (m : menv) (l : list assumption) : Prop :=
  match l with
  | [] => True
  | a :: t => holds m a /\ all_hold m t
  end.

(* what the model says about one guarded item of a Go function: its path condition (or, for
   a predicate, the predicate; for an integer local, its value) as a function of the
   environment *)
Inductive mitem :=
| IB (c : menv -> bool)
| IN (v : menv -> Z).

Definition mvalue (it : mitem) (m : menv) : value :=
  match it with IB c => VB (c m) | IN v => VN (v m) end.

Record fmodel := mkFn {
  fn_name : string;
  fn_pre : list (assumption * string);          (* assumption, reason *)
  fn_items : list (string * mitem) }.           (* item key, model *)

(* the item of function f with key k in the generated table *)
Definition go_item (gt : list (string * list (string * dexp))) (f k : string) : dexp :=
  match find (fun fl => String.eqb (fst fl) f) gt with
  | Some fl =>
      match find (fun kv => String.eqb (fst kv) k) (snd fl) with
      | Some kv => snd kv
      | None => DUnknown "no such item"
      end
  | None => DUnknown "no such function"
  end.

(* the items of function f whose key is k or "k:<text>" (a returned error is identified by
   where it comes from; the text of its message is not part of its identity) *)
Definition key_matches (k k' : string) : bool := String.eqb k k' || prefix (k ++ ":") k'.

Definition go_items (gt : list (string * list (string * dexp))) (f k : string) : list dexp :=
  match find (fun fl => String.eqb (fst fl) f) gt with
  | Some fl => map snd (filter (fun kv => key_matches k (fst kv)) (snd fl))
  | None => []
  end.

(* the obligation for one item: for ALL environments that meet the function's assumptions
   the Go expression evaluates, to the model's value *)
Definition item_ok (pre : list assumption) (it : mitem) (g : dexp) : Prop :=
  forall m : menv, env_wf m -> all_hold m pre -> deval m g = Some (mvalue it m).

Fixpoint items_ok (gt : list (string * list (string * dexp))) (f : string) (pre : list assumption)
         (l : list (string * mitem)) : Prop :=
  match l with
  | [] => True
  | (k, it) :: t => (exists g, In g (go_items gt f k) /\ item_ok pre it g) /\ items_ok gt f pre t
  end.

Definition fn_ok (gt : list (string * list (string * dexp))) (fm : fmodel) : Prop :=
  items_ok gt (fn_name fm) (map fst (fn_pre fm)) (fn_items fm).

Definition table_ok (mt : list fmodel) (gt : list (string * list (string * dexp))) : Prop :=
  Forall (fn_ok gt) mt.

Definition model_of (mt : list fmodel) (f : string) : fmodel :=
  match find (fun fm => String.eqb (fn_name fm) f) mt with
  | Some fm => fm
  | None => mkFn f [] []
  end.

(* ---- environments -------------------------------------------------------------------------- *)

Definition env0 : menv :=
  mkEnv (fun _ => false) (fun _ => SUnknown) (fun _ => 0%Z) (fun _ => TestHook) (fun _ => BeforeHookCreation)
        (fun _ => "") (fun _ => false) (fun _ => false) (fun _ => false) (fun _ => false).

Definition upd {A} (x : string) (v : A) (f : string -> A) : string -> A :=
  fun y => if String.eqb y x then v else f y.

Definition set_b x v m := mkEnv (upd x v (m_b m)) (m_s m) (m_n m) (m_e m) (m_p m) (m_str m) (m_flag m) (m_err m) (m_nil m) (m_opq m).
Definition set_s x v m := mkEnv (m_b m) (upd x v (m_s m)) (m_n m) (m_e m) (m_p m) (m_str m) (m_flag m) (m_err m) (m_nil m) (m_opq m).
Definition set_n x v m := mkEnv (m_b m) (m_s m) (upd x v (m_n m)) (m_e m) (m_p m) (m_str m) (m_flag m) (m_err m) (m_nil m) (m_opq m).
Definition set_e x v m := mkEnv (m_b m) (m_s m) (m_n m) (upd x v (m_e m)) (m_p m) (m_str m) (m_flag m) (m_err m) (m_nil m) (m_opq m).
Definition set_p x v m := mkEnv (m_b m) (m_s m) (m_n m) (m_e m) (upd x v (m_p m)) (m_str m) (m_flag m) (m_err m) (m_nil m) (m_opq m).
Definition set_str x v m := mkEnv (m_b m) (m_s m) (m_n m) (m_e m) (m_p m) (upd x v (m_str m)) (m_flag m) (m_err m) (m_nil m) (m_opq m).
Definition set_flags f m := mkEnv (m_b m) (m_s m) (m_n m) (m_e m) (m_p m) (m_str m) f (m_err m) (m_nil m) (m_opq m).
Definition set_err x v m := mkEnv (m_b m) (m_s m) (m_n m) (m_e m) (m_p m) (m_str m) (m_flag m) (upd x v (m_err m)) (m_nil m) (m_opq m).
Definition set_nil x v m := mkEnv (m_b m) (m_s m) (m_n m) (m_e m) (m_p m) (m_str m) (m_flag m) (m_err m) (upd x v (m_nil m)) (m_opq m).

(* the option flags of the Go actions as the model's flag record sees them, by Go field
   name; options the model does not have (IsUpgrade, SkipCRDs, …) are off *)
Definition flag_env (fl : flags) (f : string) : bool :=
  if String.eqb f "Atomic" then f_atomic fl
  else if String.eqb f "CleanupOnFail" then f_cleanup fl
  else if String.eqb f "KeepHistory" then f_keep_history fl
  else if String.eqb f "Replace" then f_replace fl
  else if String.eqb f "DisableHooks" then f_no_hooks fl
  else if String.eqb f "DryRun" then f_dry_run fl
  else if String.eqb f "ClientOnly" then f_client_only fl
  else if String.eqb f "TakeOwnership" then f_take_ownership fl
  else false.

(* length of a list as a Go int *)
Definition zlen {A} (l : list A) : Z := Z.of_nat (List.length l).

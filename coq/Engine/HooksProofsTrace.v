(* C12 — executions of effect programs as traces of (effect, response) pairs, for EVERY
   way the environment may answer (every cluster behaviour, storage fault, crash), the link
   to the interpreter Seq.run, and the trace of execHook. *)
From Coq Require Import List String Ascii Bool Arith ZArith Lia.
From Helm Require Import Common.Assoc Engine.Types Engine.Eff Engine.Ops Engine.Cluster Engine.Seq
  Engine.HooksProofsSort.
Import ListNotations.
Local Open Scope prog_scope.

(* one step of an execution: the effect performed and the answer it got *)
Inductive er := ER (e : eff) (r : resp e).

Definition eff_of (x : er) : eff := match x with ER e _ => e end.

(* [exec p tr a]: program p can run to result a performing exactly the effects of tr, in
   order, when answered as recorded *)
Inductive exec {A : Type} : prog A -> list er -> A -> Prop :=
| ExRet a : exec (Ret a) [] a
| ExEff e k r tr a : exec (k r) tr a -> exec (Eff e k) (ER e r :: tr) a.

Lemma exec_inv {A} (p : prog A) tr a :
  exec p tr a ->
  match p with
  | Ret a' => tr = [] /\ a = a'
  | Eff e k => exists r tr', tr = ER e r :: tr' /\ exec (k r) tr' a
  end.
Proof. intros H. destruct H; eauto. Qed.

Lemma exec_ret_inv {A} (a b : A) tr : exec (Ret a) tr b -> tr = [] /\ b = a.
Proof. intros H. exact (exec_inv _ _ _ H). Qed.

Lemma exec_eff_inv {A} e (k : resp e -> prog A) tr a :
  exec (Eff e k) tr a -> exists r tr', tr = ER e r :: tr' /\ exec (k r) tr' a.
Proof. intros H. exact (exec_inv _ _ _ H). Qed.

Lemma exec_bind_inv {A B} (p : prog A) (f : A -> prog B) :
  forall tr b, exec (bind p f) tr b ->
    exists tr1 a tr2, exec p tr1 a /\ exec (f a) tr2 b /\ tr = (tr1 ++ tr2)%list.
Proof.
  induction p as [a|e k IH]; simpl; intros tr b H.
  - exists [], a, tr. repeat split; auto. constructor.
  - apply exec_eff_inv in H. destruct H as (r & tr' & -> & H).
    apply IH in H. destruct H as (tr1 & a & tr2 & H1 & H2 & ->).
    exists (ER e r :: tr1), a, tr2. repeat split; auto. now constructor.
Qed.

Lemma exec_bind {A B} (p : prog A) (f : A -> prog B) tr1 a tr2 b :
  exec p tr1 a -> exec (f a) tr2 b -> exec (bind p f) (tr1 ++ tr2)%list b.
Proof.
  intros H. induction H; simpl; auto. intros H2. constructor. auto.
Qed.

Lemma exec_perform_inv e tr (r : resp e) : exec (perform e) tr r -> tr = [ER e r].
Proof.
  unfold perform. intros H. apply exec_eff_inv in H. destruct H as (r' & tr' & -> & H).
  apply exec_ret_inv in H. destruct H as [-> ->]. reflexivity.
Qed.

Lemma exec_perform_bind_inv {B} e (f : resp e -> prog B) tr b :
  exec (bind (perform e) f) tr b -> exists r tr', tr = ER e r :: tr' /\ exec (f r) tr' b.
Proof.
  simpl. intros H. apply exec_eff_inv in H. exact H.
Qed.

(* ---- every run of the interpreter is such an execution ---- *)
Section RunTrace.
  Variable K : Type.
  Variable kh : forall e : eff, K -> K * resp e * list kev.
  Variable dresp : forall e : eff, resp e.

  Fixpoint run_tr {A} (f : sfaults) (p : prog A) (s : rstate K) : rstate K * A * list er :=
    match p with
    | Ret a => (s, a, [])
    | Eff e k =>
        let '(s', r) := step K kh dresp f e s in
        let '(s'', a, t) := run_tr f (k r) s' in
        (s'', a, ER e r :: t)
    end.

  Lemma run_tr_run {A} f (p : prog A) : forall s, fst (run_tr f p s) = run K kh dresp f p s.
  Proof.
    induction p as [a|e k IH]; intros s; simpl; auto.
    destruct (step K kh dresp f e s) as [s' r].
    specialize (IH r s'). destruct (run_tr f (k r) s') as [[s'' a] t]. simpl in *. exact IH.
  Qed.

  Lemma run_tr_exec {A} f (p : prog A) :
    forall s, exec p (snd (run_tr f p s)) (snd (fst (run_tr f p s))).
  Proof.
    induction p as [a|e k IH]; intros s; simpl.
    - constructor.
    - destruct (step K kh dresp f e s) as [s' r].
      specialize (IH r s'). destruct (run_tr f (k r) s') as [[s'' a] t]. simpl in *.
      now constructor.
  Qed.

  (* the result of Seq.run is the result of an execution in the sense of [exec] *)
  Lemma run_is_exec {A} f (p : prog A) s :
    exists tr, exec p tr (snd (run K kh dresp f p s)).
  Proof.
    exists (snd (run_tr f p s)). rewrite <- run_tr_run. apply run_tr_exec.
  Qed.
End RunTrace.

(* ---- the cluster-visible part of a trace ---- *)
Inductive cev :=
| CCreate (rs : list res) (ok : bool)
| CWatch (ev : event) (h : hook) (ok : bool)
| CDelete (rs : list res) (ok : bool)
| CUpdate (cur tgt : list res) (ok : bool).

Definition view1 (x : er) : list cev :=
  match x with
  | ER e r =>
      match e return resp e -> list cev with
      | KCreate rs => fun ok => [CCreate rs ok]
      | KHookWatch ev h => fun ok => [CWatch ev h ok]
      | KDelete rs => fun ok => [CDelete rs ok]
      | KUpdate c t => fun u => [CUpdate c t (fst u)]
      | _ => fun _ => []
      end r
  end.

(* creations, hook watches, deletions and updates, in order *)
Definition cview (tr : list er) : list cev := flat_map view1 tr.

Lemma cview_app a b : cview (a ++ b) = (cview a ++ cview b)%list.
Proof. unfold cview. apply flat_map_app. Qed.

Lemma cview_cons x t : cview (x :: t) = (view1 x ++ cview t)%list.
Proof. reflexivity. Qed.

(* only creations and hook watches *)
Definition is_cw (c : cev) : bool :=
  match c with CCreate _ _ | CWatch _ _ _ => true | _ => false end.
Definition cwview (tr : list er) : list cev := filter is_cw (cview tr).

Lemma cwview_app a b : cwview (a ++ b) = (cwview a ++ cwview b)%list.
Proof. unfold cwview. rewrite cview_app. apply filter_app. Qed.

(* no deletion (KDelete / KWaitDelete) was answered with an error *)
Definition del_ok (x : er) : Prop :=
  match x with
  | ER e r =>
      match e return resp e -> Prop with
      | KDelete _ => fun ok => ok = true
      | KWaitDelete _ => fun ok => ok = true
      | _ => fun _ => True
      end r
  end.

Definition is_crd (h : hook) : bool := String.eqb (h_kind h) "CustomResourceDefinition".

(* the deletion that policy p prescribes for hook h *)
Definition pol_del (h : hook) (p : policy) : list cev :=
  if negb (is_crd h) && has_policy h p then [CDelete [h_res h] true] else [].

(* one complete, successful hook run *)
Definition run_ok (ev : event) (h : hook) : list cev :=
  (pol_del h BeforeHookCreation ++ [CCreate [h_res h] true; CWatch ev h true])%list.

Definition cw_ok (ev : event) (h : hook) : list cev := [CCreate [h_res h] true; CWatch ev h true].

(* ---- deleteHookByPolicy / deleteHooksByPolicy ---- *)
Lemma delete_hook_trace h p tr b :
  exec (delete_hook_by_policy h p) tr b -> Forall del_ok tr ->
  cview tr = pol_del h p /\ b = true /\ cwview tr = [].
Proof.
  unfold delete_hook_by_policy, pol_del, is_crd.
  destruct (String.eqb (h_kind h) "CustomResourceDefinition"); simpl.
  - intros H _. apply exec_ret_inv in H. destruct H as [-> ->]. auto.
  - destruct (has_policy h p); simpl.
    + intros H Hd. apply exec_eff_inv in H. destruct H as (ok & tr' & -> & H).
      inversion Hd as [|? ? Hok Hd']; subst. simpl in Hok. subst ok.
      apply (exec_perform_inv (KWaitDelete [h_res h])) in H. subst tr'.
      inversion Hd' as [|? ? Hok2 _]; subst. simpl in Hok2. subst b. auto.
    + intros H _. apply exec_ret_inv in H. destruct H as [-> ->]. auto.
Qed.

Lemma delete_hooks_trace p : forall hs tr b,
  exec (delete_hooks_by_policy hs p) tr b -> Forall del_ok tr ->
  cview tr = flat_map (fun h => pol_del h p) hs /\ b = true /\ cwview tr = [].
Proof.
  induction hs as [|h t IH]; simpl; intros tr b H Hd.
  - apply exec_ret_inv in H. destruct H as [-> ->]. auto.
  - apply exec_bind_inv in H. destruct H as (tr1 & ok & tr2 & H1 & H2 & ->).
    apply Forall_app in Hd. destruct Hd as [Hd1 Hd2].
    destruct (delete_hook_trace _ _ _ _ H1 Hd1) as (E1 & -> & W1).
    destruct (IH _ _ H2 Hd2) as (E2 & -> & W2).
    rewrite cview_app, cwview_app, E1, E2, W1, W2. auto.
Qed.

(* general facts, also when deletions fail: no creation or watch happens inside the
   deletion helpers *)
Lemma delete_hook_cw h p tr b : exec (delete_hook_by_policy h p) tr b -> cwview tr = [].
Proof.
  unfold delete_hook_by_policy.
  destruct (String.eqb (h_kind h) "CustomResourceDefinition").
  - intros H. apply exec_ret_inv in H. destruct H as [-> _]. auto.
  - destruct (has_policy h p).
    + intros H. apply exec_perform_bind_inv in H. destruct H as (ok & tr' & -> & H).
      destruct ok.
      * apply (exec_perform_inv (KWaitDelete [h_res h])) in H. subst. reflexivity.
      * apply exec_ret_inv in H. destruct H as [-> _]. reflexivity.
    + intros H. apply exec_ret_inv in H. destruct H as [-> _]. auto.
Qed.

Lemma delete_hooks_cw p : forall hs tr b, exec (delete_hooks_by_policy hs p) tr b -> cwview tr = [].
Proof.
  induction hs as [|h t IH]; simpl; intros tr b H.
  - apply exec_ret_inv in H. destruct H as [-> _]. auto.
  - apply exec_bind_inv in H. destruct H as (tr1 & ok & tr2 & H1 & H2 & ->).
    rewrite cwview_app, (delete_hook_cw _ _ _ _ H1). simpl.
    destruct ok.
    + eapply IH; eauto.
    + apply exec_ret_inv in H2. destruct H2 as [-> _]. auto.
Qed.

(* ---- the main loop of execHook, when no deletion fails ---- *)
Definition succ_dels (hs : list hook) : list cev := flat_map (fun h => pol_del h HookSucceeded) hs.

Lemma loop_trace rl ev : forall todo done tr b,
  exec (exec_hooks_loop rl ev todo done) tr b -> Forall del_ok tr ->
  (b = true /\
   cview tr = (flat_map (run_ok ev) todo ++ succ_dels (List.rev (done ++ todo)))%list)
  \/
  (b = false /\ exists pre h post, todo = (pre ++ h :: post)%list /\
     (cview tr = (flat_map (run_ok ev) pre ++ pol_del h BeforeHookCreation ++ [CCreate [h_res h] false])%list
      \/
      cview tr = (flat_map (run_ok ev) pre ++ pol_del h BeforeHookCreation
                  ++ [CCreate [h_res h] true; CWatch ev h false]
                  ++ pol_del h HookFailed ++ succ_dels (done ++ pre))%list)).
Proof.
  induction todo as [|h t IH]; intros done tr b H Hd.
  - simpl in H. left. destruct (delete_hooks_trace _ _ _ _ H Hd) as (E & -> & _).
    rewrite app_nil_r. simpl. auto.
  - simpl in H.
    apply exec_bind_inv in H. destruct H as (tr1 & ok & tr2 & H1 & H2 & ->).
    apply Forall_app in Hd. destruct Hd as [Hd1 Hd2].
    destruct (delete_hook_trace _ _ _ _ H1 Hd1) as (E1 & -> & _).
    simpl in H2.
    (* record_release *)
    unfold record_release in H2.
    apply exec_eff_inv in H2. destruct H2 as (se & tr3 & -> & H2). simpl in H2.
    apply exec_eff_inv in H2. destruct H2 as (created & tr4 & -> & H2). simpl in H2.
    inversion Hd2 as [|? ? _ Hd3]; subst. inversion Hd3 as [|? ? _ Hd4]; subst.
    destruct created; simpl in H2.
    + apply exec_eff_inv in H2. destruct H2 as (ready & tr5 & -> & H2).
      inversion Hd4 as [|? ? _ Hd5]; subst.
      destruct ready.
      * (* the hook completed: continue *)
        destruct (IH _ _ _ H2 Hd5) as [[-> E]|[-> (pre & h' & post & -> & E)]].
        -- left. split; auto. rewrite cview_app, !cview_cons, E1, E. simpl.
           unfold run_ok. rewrite <- !app_assoc. simpl. reflexivity.
        -- right. split; auto. exists (h :: pre), h', post. split; auto.
           destruct E as [E|E]; [left|right]; rewrite cview_app, !cview_cons, E1, E; simpl;
             unfold run_ok; rewrite <- !app_assoc; simpl; reflexivity.
      * (* the watch failed *)
        right. split.
        -- apply exec_bind_inv in H2. destruct H2 as (t6 & x & t7 & _ & H7 & _).
           apply exec_bind_inv in H7. destruct H7 as (t8 & y & t9 & _ & H9 & _).
           apply exec_ret_inv in H9. tauto.
        -- exists [], h, t. split; auto. right.
           apply exec_bind_inv in H2. destruct H2 as (t6 & x & t7 & H6 & H7 & ->).
           apply exec_bind_inv in H7. destruct H7 as (t8 & y & t9 & H8 & H9 & ->).
           apply exec_ret_inv in H9. destruct H9 as [-> _].
           apply Forall_app in Hd5. destruct Hd5 as [Hd6 Hd7].
           apply Forall_app in Hd7. destruct Hd7 as [Hd8 _].
           destruct (delete_hook_trace _ _ _ _ H6 Hd6) as (E6 & _ & _).
           destruct (delete_hooks_trace _ _ _ _ H8 Hd8) as (E8 & _ & _).
           rewrite cview_app, !cview_cons, !cview_app, E1, E6, E8. simpl.
           rewrite !app_nil_r. unfold succ_dels. reflexivity.
    + (* the creation was refused *)
      apply exec_ret_inv in H2. destruct H2 as [-> ->].
      right. split; auto. exists [], h, t. split; auto. left.
      rewrite cview_app, !cview_cons, E1. simpl. reflexivity.
Qed.

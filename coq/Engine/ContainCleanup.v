(* C03 (stretch) — cleanup-on-fail: when a cluster-side failure occurs in a non-atomic
   upgrade with cleanup-on-fail, every resource of Result.Created is absent afterwards
   (object-store cluster, any storage behaviour, no crash, no DELETE fault pending). *)
From Coq Require Import List String Bool Arith ZArith Lia.
From Helm Require Import Common.Assoc Engine.Types Engine.Eff Engine.Ops Engine.Cluster Engine.Seq
  Engine.HooksProofsTrace Engine.HooksProofsGate Engine.ContainLedger Engine.ContainReported
  Engine.ContainCluster.
Import ListNotations.
Local Open Scope prog_scope.

(* the effects execHook performs *)
Definition hook_kind (e : eff) : Prop :=
  match e with
  | SUpdate _ | KCreate _ | KHookWatch _ _ | KDelete _ | KWaitDelete _ => True
  | _ => False
  end.

Section LoopOnly.
  Variable Q : eff -> Prop.
  Hypothesis HQ : forall e, hook_kind e -> Q e.

  Lemma delete_hook_only h p : only Q (delete_hook_by_policy h p).
  Proof.
    unfold delete_hook_by_policy.
    destruct (String.eqb (h_kind h) "CustomResourceDefinition"); simpl; auto.
    destruct (has_policy h p); simpl; auto. split; [apply HQ; exact I|].
    intros []; simpl; auto. split; auto. apply HQ. exact I.
  Qed.

  Lemma delete_hooks_only p hs : only Q (delete_hooks_by_policy hs p).
  Proof.
    induction hs as [|h t IH]; simpl; auto.
    apply only_bind; [apply delete_hook_only|]. intros []; simpl; auto.
  Qed.

  Lemma loop_only rl ev : forall todo done, only Q (exec_hooks_loop rl ev todo done).
  Proof.
    induction todo as [|h t IH]; intros done; simpl.
    - apply delete_hooks_only.
    - apply only_bind; [apply delete_hook_only|].
      intros []; simpl; auto. split; [apply HQ; exact I|]. intros _. split; [apply HQ; exact I|].
      intros []; simpl; auto. split; [apply HQ; exact I|].
      intros []; [apply IH|].
      apply only_bind; [apply delete_hook_only|]. intros _.
      apply only_bind; [apply delete_hooks_only|]. intros _. exact I.
  Qed.

  Lemma run_hooks_only fl rl ev : only Q (run_hooks fl rl ev).
  Proof. unfold run_hooks, exec_hook. destruct (f_no_hooks fl); [exact I|apply loop_only]. Qed.
End LoopOnly.

Definition upd_created (x : er) : option (list res) :=
  match x with
  | ER e r => match e return resp e -> option (list res) with
              | KUpdate _ _ => fun u => Some (snd u)
              | _ => fun _ => None
              end r
  end.

Definition no_update (e : eff) : Prop := match e with KUpdate _ _ => False | _ => True end.
Definition nu (tr : list er) : Prop := Forall (fun x => no_update (eff_of x)) tr.

Lemma nu_not_in tr c t r : nu tr -> ~ In (ER (KUpdate c t) r) tr.
Proof. intros H Hin. exact (proj1 (Forall_forall _ _) H _ Hin). Qed.

Lemma nu_app a b : nu a -> nu b -> nu (a ++ b).
Proof. intros. apply Forall_app. auto. Qed.

Lemma storage_nu {A} (p : prog A) tr a : only storage_eff p -> exec p tr a -> nu tr.
Proof.
  intros Ho H. eapply Forall_impl; [|eapply only_exec; eauto].
  intros x Hx. unfold storage_eff in Hx. destruct (eff_of x); simpl in *; auto; discriminate.
Qed.

Section Cleanup.
  Variable rn ns : string.
  Notation krun := (krun rn ns).

  Ltac kbind H k1 a t1 t2 H1 := apply krun_bind_inv in H; destruct H as (k1 & a & t1 & t2 & H1 & H & ?); subst.
  Ltac kret H := apply krun_ret_inv in H; destruct H as (? & ? & ?); subst.
  Ltac ksto H r t := apply krun_storage_inv in H; [destruct H as (r & t & ? & H); subst|reflexivity].
  Ltac kclu H t := apply krun_cluster_inv in H; [destruct H as (t & ? & H); subst|reflexivity].
  Ltac case_if H := match type of H with ContainCluster.krun _ _ (if ?c then _ else _) _ _ _ _ => destruct c eqn:? end.

  Lemma hooks_krun fl rl ev k k' b tr :
    krun (run_hooks fl rl ev) k k' b tr -> nu tr /\ (has_failure tr = true -> b = false) /\ fault_le k' k.
  Proof.
    intros H. split; [|split].
    - eapply Forall_impl; [|eapply only_exec; [apply (run_hooks_only no_update)|eapply krun_exec; eauto]].
      + auto.
      + intros e He. destruct e; simpl in *; auto.
    - intros F. eapply run_hooks_flagged; [eapply krun_exec; eauto|exact F].
    - eapply krun_fault; eauto.
  Qed.

  (* upgrade_fail with cleanup: everything created is gone afterwards *)
  Lemma upgrade_fail_cleans fl up created k k' out tr :
    f_atomic fl = false -> f_cleanup fl = true -> nodel k ->
    krun (upgrade_fail rn ns fl up created) k k' out tr ->
    nu tr /\ forall r, In r created -> amem (rkey r) (objs k') = false.
  Proof.
    intros Hat Hcl Hn H. unfold upgrade_fail in H. rewrite Hat, Hcl in H.
    kbind H k1 u t1 t2 Hr.
    assert (k1 = k) by (eapply krun_storage_only; [apply record_release_storage|eauto]). subst k1.
    pose proof (storage_nu _ _ _ (record_release_storage _) (krun_exec _ _ _ _ _ _ _ Hr)) as N1.
    kbind H k2 cleaned t3 t4 Hc.
    assert (k' = k2 /\ t4 = []) as [-> ->].
    { destruct cleaned; cbv beta iota delta [negb] in H; kret H; auto. }
    rewrite app_nil_r.
    destruct created as [|x t]; simpl in Hc.
    - kret Hc. rewrite app_nil_r. split; auto. intros r [].
    - unfold perform in Hc. kclu Hc t5. kret Hc. split.
      + apply nu_app; auto. repeat constructor.
      + intros r Hin.
        change (kstate_of rn ns (KDelete (x :: t)) k)
          with (fst (fst (let '(k', ok, muts) := k_delete k (x :: t) true [] in (k', ok, [KCall "delete" muts])))).
        pose proof (k_delete_removes (x :: t) k true [] Hn r Hin) as G.
        destruct (k_delete k (x :: t) true []) as [[k3 ok] m]. exact G.
  Qed.

  Theorem cleanup_on_fail_krun fl cid vid mani hks k0 k' out tr :
    f_atomic fl = false -> f_cleanup fl = true -> f_dry_run fl = false -> nodel k0 ->
    krun (upgrade rn ns fl cid vid mani hks) k0 k' out tr ->
    has_failure tr = true ->
    forall cur tgt ok created, In (ER (KUpdate cur tgt) (ok, created)) tr ->
      forall r, In r created -> amem (rkey r) (objs k') = false.
  Proof.
    intros Hat Hcl Hdry Hn H Hf cur tgt ok created Hin.
    unfold upgrade in H. rewrite Hdry in H. cbv beta iota zeta in H.
    ksto H h0 t0.
    assert (N0 : nu [ER SHistory h0]) by (repeat constructor).
    destruct (max_rev_of h0) as [last|].
    2:{ kret H. exfalso. eapply nu_not_in; [|exact Hin]. exact N0. }
    case_if H.
    { kret H. exfalso. eapply nu_not_in; [|exact Hin]. exact N0. }
    kbind H ka cu ta tb Ha.
    assert (ka = k0 /\ nu ta /\ has_failure ta = false) as (-> & Na & Fa).
    { case_if Ha.
      - kret Ha. repeat split; auto. constructor.
      - ksto Ha ds t1. assert (ka = k0 /\ t1 = []) as [-> ->].
        { destruct (max_rev_of ds); [kret Ha; auto|]. case_if Ha; kret Ha; auto. }
        repeat split; auto. repeat constructor. }
    clear Ha.
    destruct cu as [current|].
    2:{ kret H. exfalso. eapply nu_not_in; [|exact Hin].
        apply (nu_app [_]); auto. apply nu_app; auto. constructor. }
    unfold perform in H. simpl in H. kclu H t2.
    set (kex := KExisting (filter (fun r => negb (in_keys (rkey r) (manifest current))) (stamp_all rn ns mani))
                          (f_take_ownership fl)) in *.
    pose proof (kube_handle_fault rn ns kex k0) as Fk.
    destruct (kresp_of rn ns kex k0) as [adopted|] eqn:Ead.
    2:{ kret H. exfalso. eapply nu_not_in; [|exact Hin].
        apply (nu_app [_]); auto. apply nu_app; auto. repeat constructor. }
    kbind H kd e te tf He.
    assert (kd = kstate_of rn ns kex k0) by (eapply krun_storage_only; [apply storage_create_storage|eauto]).
    subst kd.
    pose proof (storage_nu _ _ _ (storage_create_storage _ _) (krun_exec _ _ _ _ _ _ _ He)) as Ne.
    assert (Fe : has_failure te = false).
    { eapply only_quiet_no_failure; [|eapply krun_exec; eauto].
      eapply only_mono; [|apply storage_create_storage]. apply storage_is_quiet. }
    assert (Npre : nu (ER SHistory h0 :: ta ++ ER kex (Some adopted) :: te)).
    { apply (nu_app [_]); auto. apply nu_app; auto. apply (nu_app [_]); auto. repeat constructor. }
    assert (Fpre : has_failure (ER SHistory h0 :: ta ++ ER kex (Some adopted) :: te) = false).
    { change (has_failure ([ER SHistory h0] ++ ta ++ [ER kex (Some adopted)] ++ te) = false).
      rewrite !has_failure_app, Fa, Fe. reflexivity. }
    assert (Hn1 : nodel (kstate_of rn ns kex k0)) by (eapply nodel_le; eauto).
    destruct e; try (kret H; exfalso; eapply nu_not_in; [|exact Hin];
                     rewrite app_nil_r; exact Npre).
    set (up := mkRelease (S (rev last)) SPendingUpgrade cid vid mani hks) in *.
    (* pre-upgrade hooks *)
    kbind H k2 pre th t4 Hpre.
    destruct (hooks_krun _ _ _ _ _ _ _ Hpre) as (Nh & Fh & Lh).
    assert (Hn2 : nodel k2) by (eapply nodel_le; eauto).
    destruct pre; cbv beta iota delta [negb] in H.
    2:{ (* nothing was updated *)
        exfalso. eapply nu_not_in; [|exact Hin].
        destruct (upgrade_fail_cleans _ _ _ _ _ _ _ Hat Hcl Hn2 H) as [Nf _].
        change (nu ([ER SHistory h0] ++ ta ++ [ER kex (Some adopted)] ++ te ++ th ++ t4)).
        repeat apply nu_app; auto; repeat constructor. }
    kclu H t5.
    set (kupd := KUpdate (manifest current ++ adopted) (stamp_all rn ns mani)) in *.
    set (u := kresp_of rn ns kupd k2) in *.
    set (k3 := kstate_of rn ns kupd k2) in *.
    assert (Hn3 : nodel k3) by (eapply nodel_le; [apply kube_handle_fault|exact Hn2]).
    (* the only update of the trace is this one *)
    assert (Hcreated : forall rest, nu rest ->
              In (ER (KUpdate cur tgt) (ok, created))
                 (ER SHistory h0 :: ta ++ ER kex (Some adopted) :: te ++ th ++ ER kupd u :: rest) ->
              created = snd u).
    { intros rest Nr Hi.
      assert (Hno : forall l, nu l -> In (ER (KUpdate cur tgt) (ok, created)) l -> False).
      { intros l Nl Hl. eapply nu_not_in; eauto. }
      destruct Hi as [Hi|Hi]; [discriminate|].
      apply in_app_or in Hi. destruct Hi as [Hi|Hi]; [exfalso; exact (Hno _ Na Hi)|].
      destruct Hi as [Hi|Hi]; [discriminate|].
      apply in_app_or in Hi. destruct Hi as [Hi|Hi]; [exfalso; exact (Hno _ Ne Hi)|].
      apply in_app_or in Hi. destruct Hi as [Hi|Hi]; [exfalso; exact (Hno _ Nh Hi)|].
      destruct Hi as [Hi|Hi]; [|exfalso; exact (Hno _ Nr Hi)].
      apply (f_equal upd_created) in Hi. unfold kupd in Hi. simpl in Hi.
      inversion Hi. reflexivity. }
    destruct (fst u) eqn:Eu; cbv beta iota in H.
    2:{ ksto H x t6. cbv beta in H.
        destruct (upgrade_fail_cleans _ _ _ _ _ _ _ Hat Hcl Hn3 H) as [Nf Hclean].
        rewrite (Hcreated (ER (SUpdate current) x :: t6)%list); [exact Hclean| |exact Hin].
        apply (nu_app [_]); [repeat constructor|exact Nf]. }
    kclu H t6.
    set (kw := KWait (stamp_all rn ns mani)) in *.
    assert (k4eq : kstate_of rn ns kw k3 = k3 \/ True) by (right; exact I). clear k4eq.
    assert (Hn4 : nodel (kstate_of rn ns kw k3)) by (eapply nodel_le; [apply kube_handle_fault|exact Hn3]).
    destruct (kresp_of rn ns kw k3) eqn:Ew; cbv beta iota in H.
    2:{ ksto H x t7. cbv beta in H.
        destruct (upgrade_fail_cleans _ _ _ _ _ _ _ Hat Hcl Hn4 H) as [Nf Hclean].
        rewrite (Hcreated (ER kw false :: ER (SUpdate current) x :: t7)%list); [exact Hclean| |exact Hin].
        apply (nu_app [_]); [repeat constructor|]. apply (nu_app [_]); [repeat constructor|exact Nf]. }
    kbind H k5 post tp t9 Hpost.
    destruct (hooks_krun _ _ _ _ _ _ _ Hpost) as (Np & Fp & Lp).
    assert (Hn5 : nodel k5) by (eapply nodel_le; eauto).
    destruct post; cbv beta iota in H.
    2:{ destruct (upgrade_fail_cleans _ _ _ _ _ _ _ Hat Hcl Hn5 H) as [Nf Hclean].
        rewrite (Hcreated (ER kw true :: tp ++ t9)%list); [exact Hclean| |].
        - apply (nu_app [_]); [repeat constructor|now apply nu_app].
        - exact Hin. }
    (* every phase succeeded: there is no failure in the trace *)
    exfalso.
    ksto H x t10. cbv beta in H.
    ksto H e2 t12.
    assert (Et : t12 = []) by (clear -H; destruct e2; apply krun_ret_inv in H; tauto). subst t12.
    assert (Fh' : has_failure th = false).
    { destruct (has_failure th) eqn:E; auto. }
    assert (Fp' : has_failure tp = false).
    { destruct (has_failure tp) eqn:E; auto. }
    change (has_failure ([ER SHistory h0] ++ ta ++ [ER kex (Some adopted)] ++ te ++ th ++ [ER kupd u]
                         ++ [ER kw true] ++ tp ++ [ER (SUpdate (with_status current SSuperseded)) x;
                                                    ER (SUpdate (with_status up SDeployed)) e2]) = true) in Hf.
    rewrite !has_failure_app, Fa, Fe, Fh', Fp' in Hf. simpl in Hf.
    fold u in Hf. rewrite Eu in Hf. discriminate.
  Qed.
End Cleanup.

(* in terms of the interpreter ([run_tr] = Seq.run that also returns the trace of (effect,
   answer) pairs; [fst (run_tr ...) = run ...] is HooksProofsTrace.run_tr_run): the
   object-store cluster with a one-shot fault plan that is not a DELETE fault (a DELETE fault
   could only hit the clean-up itself: a second failure) *)
Theorem cleanup_on_fail :
  forall rn ns fl cid vid mani hks cf l0 objs0 s' out tr,
    f_atomic fl = false -> f_cleanup fl = true -> f_dry_run fl = false ->
    (forall key, cf_k cf <> Some (VDelete, key)) ->
    run_tr kstate (kube_handle rn ns) dead_resp nofault (upgrade rn ns fl cid vid mani hks)
           (mkR l0 (mkK objs0 (cf_k cf) (cf_h cf) (cf_wait cf)) 0 0 false []) = (s', out, tr) ->
    has_failure tr = true ->
    forall cur tgt ok created, In (ER (KUpdate cur tgt) (ok, created)) tr ->
      forall r, In r created -> amem (rkey r) (objs (ks s')) = false.
Proof.
  intros rn ns fl cid vid mani hks cf l0 objs0 s' out tr Hat Hcl Hdry Hnd H Hf.
  apply run_tr_krun in H; [|reflexivity]. destruct H as [Hk _]. cbn [ks] in Hk.
  eapply cleanup_on_fail_krun; eauto.
  unfold nodel. cbn [kfault]. destruct (cf_k cf) as [[v key]|] eqn:Ek; auto. destruct v; auto.
  exfalso. now apply (Hnd key).
Qed.

(* ---- example: install {a}; upgrade --cleanup-on-fail to {a',c,d} with CREATE d rejected ---- *)
Local Open Scope string_scope.
Definition cu_fl : flags := mkFlags false true false false 0 false false false false 0.
Definition cu_cm (n v : string) : res := mkRes "ConfigMap" n [("d:k", v)].
Definition cu_install : op := OpInstall (mkFlags false false false false 0 false false false false 0) 1 1 [cu_cm "a" "v1"] [].
Definition cu_w1 : world :=
  fst (fst (run_store_op "rel" "default" (mkOp cu_install nofault (mkCF None None false)) (mkW [] []))).
Definition cu_mani : list res := [cu_cm "a" "v2"; cu_cm "c" "v2"; cu_cm "d" "v2"].
Definition cu_cf : cfaults := mkCF (Some (VCreate, "ConfigMap/d")) None false.
Definition cu_run :=
  run_tr kstate (kube_handle "rel" "default") dead_resp nofault (upgrade "rel" "default" cu_fl 2 2 cu_mani [])
         (mkR (w_led cu_w1) (mkK (w_objs cu_w1) (cf_k cu_cf) (cf_h cu_cf) (cf_wait cu_cf)) 0 0 false []).

Lemma cleanup_example :
  (forall key, cf_k cu_cf <> Some (VDelete, key)) /\
  has_failure (snd cu_run) = true /\
  (exists cur tgt, In (ER (KUpdate cur tgt) (false, map (stamp "rel" "default") [cu_cm "c" "v2"; cu_cm "d" "v2"])) (snd cu_run)) /\
  map fst (objs (ks (fst (fst cu_run)))) = ["ConfigMap/a"].
Proof.
  split; [intros key; discriminate|]. split; [vm_compute; reflexivity|]. split.
  - eexists. eexists. vm_compute. repeat (first [left; reflexivity | right]).
  - vm_compute. reflexivity.
Qed.

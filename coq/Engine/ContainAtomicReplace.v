(* C03 (stretch) — a failed atomic install ends with an EMPTY ledger and none of the
   manifest's resources in the cluster, for ANY initial history (install --replace over an
   uninstalled / failed history included: the automatic uninstall purges the whole history). *)
From Coq Require Import List String Bool Arith ZArith Lia Permutation.
From Helm Require Import Common.Assoc Engine.Types Engine.Eff Engine.Ops Engine.Cluster Engine.Seq
  Engine.SeqProofs Engine.HooksProofsTrace Engine.HooksProofsGate Engine.ContainLedger Engine.ContainProofs
  Engine.ContainDeployed Engine.ContainCluster Engine.ContainWorld Engine.ContainAtomic Engine.ContainRollback
  Engine.ContainAtomicUp.
Import ListNotations.
Local Open Scope prog_scope.

Lemma insert_by_rev_perm r l : Permutation (insert_by_rev r l) (r :: l).
Proof.
  induction l as [|x t IH]; simpl; auto.
  destruct (Nat.leb (rev r) (rev x)); auto.
  eapply perm_trans; [apply perm_skip, IH|apply perm_swap].
Qed.

Lemma sort_by_rev_perm l : Permutation (sort_by_rev l) l.
Proof.
  induction l as [|x t IH]; simpl; auto.
  eapply perm_trans; [apply insert_by_rev_perm|]. now apply perm_skip.
Qed.

Lemma max_rev_of_snoc l r : (forall x, In x l -> rev x < rev r) -> max_rev_of (l ++ [r]) = Some r.
Proof.
  induction l as [|y t IH]; simpl; intros H; auto.
  rewrite IH by (intros x Hx; apply H; now right).
  assert (rev y < rev r) by (apply H; now left).
  destruct (Nat.ltb (rev r) (rev y)) eqn:E; auto. apply Nat.ltb_lt in E. lia.
Qed.

Lemma in_revs_remove v v' l : In v' (revs l) -> v' <> v -> In v' (revs (remove_rev v l)).
Proof.
  unfold revs, remove_rev. intros H Hne. apply in_map_iff in H. destruct H as (x & <- & Hx).
  apply in_map. apply filter_In. split; auto. apply negb_true_iff, Nat.eqb_neq. exact Hne.
Qed.

Section Replace.
  Variable rn ns : string.
  Notation wrun := (wrun rn ns).

  Ltac wbind H l1 k1 a H1 := apply wrun_bind_inv in H; destruct H as (l1 & k1 & a & H1 & H).
  Ltac wret H := apply wrun_ret_inv in H; destruct H as (? & ? & ?); subst.
  Ltac wsto H := apply wrun_storage_inv in H; [|reflexivity].
  Ltac wclu H := apply wrun_cluster_inv in H; [|reflexivity].
  Ltac case_if H := match type of H with ContainWorld.wrun _ _ (if ?c then _ else _) _ _ _ _ _ => destruct c eqn:? end.

  (* purge of every stored revision empties the ledger *)
  Lemma purge_all : forall vs l k l' k' ok,
    NoDup vs -> (forall r, In r l -> In (rev r) vs) -> (forall v, In v vs -> In v (revs l)) ->
    wrun (purge vs) l k l' k' ok -> l' = [] /\ k' = k.
  Proof.
    induction vs as [|v t IH]; intros l k l' k' ok Hnd Hcov Hin H; simpl in H.
    - wret H. split; auto. destruct l as [|x l]; auto. destruct (Hcov x (or_introl eq_refl)).
    - wsto H. unfold sresp, sled in H. simpl in H.
      assert (Hh : has_rev v l = true) by (apply has_rev_revs; apply Hin; now left).
      rewrite Hh in H. simpl in H.
      inversion Hnd as [|? ? Hnot Hnd']; subst.
      eapply IH; [exact Hnd'| | |exact H].
      + intros r Hr. unfold remove_rev in Hr. apply filter_In in Hr. destruct Hr as [Hr Hne].
        apply negb_true_iff, Nat.eqb_neq in Hne. destruct (Hcov r Hr) as [E|E]; [congruence|exact E].
      + intros v' Hv'. apply in_revs_remove; [apply Hin; now right|]. intros ->. contradiction.
  Qed.

  Lemma hooks_world_stable fl rl ev l k l' k' b :
    upd rl l = l -> wrun (run_hooks fl rl ev) l k l' k' b -> l' = l /\ fault_le k' k.
  Proof.
    intros Hs H. split.
    - eapply (lrun_rec_stable dead_resp); [apply run_hooks_rec|exact Hs|eapply wrun_lrun; eauto].
    - destruct (wrun_krun _ _ _ _ _ _ _ _ H) as [tr Hk]. eapply krun_fault; eauto.
  Qed.

  (* the automatic uninstall on any ledger whose latest revision is x *)
  Lemma uninstall_cleans_gen fl l x k l' k' out :
    f_dry_run fl = false -> f_keep_history fl = false ->
    NoDup (revs l) -> max_rev_of l = Some x -> st x <> SUninstalled ->
    (forall r, In r (manifest x) -> manifest_keep r = false) ->
    (f_no_hooks fl = true \/ (hooks_for PreDelete (hooks x) = [] /\ hooks_for PostDelete (hooks x) = [])) ->
    nodel k ->
    wrun (uninstall fl) l k l' k' out ->
    l' = [] /\ forall r, In r (manifest x) -> amem (rkey r) (objs k') = false.
  Proof.
    intros Hdry Hkeep Hnd Hmax Hst Hnk Hnh Hn H.
    unfold uninstall in H. rewrite Hdry in H. cbv beta iota zeta in H.
    wsto H. unfold sresp, sled in H. cbn [storage_apply fst snd] in H. rewrite Hmax in H.
    assert (Es : status_eqb (st x) SUninstalled = false).
    { destruct (st x); simpl; auto. now elim Hst. }
    rewrite Es in H.
    assert (Hpre : run_hooks fl (with_status x SUninstalling) PreDelete = Ret true).
    { apply run_hooks_nothing. simpl. tauto. }
    assert (Hpost : run_hooks fl (with_status x SUninstalling) PostDelete = Ret true).
    { apply run_hooks_nothing. simpl. tauto. }
    rewrite Hpre, Hpost in H. cbn [bind negb] in H. cbv beta iota in H.
    set (relu := with_status x SUninstalling) in *.
    (* record_release uninstalling *)
    wbind H l1 k1 u Hr.
    assert (l1 = upd relu l /\ k1 = k) as [-> ->].
    { unfold record_release in Hr. wsto Hr. wret Hr.
      unfold sled, upd. cbn [storage_apply]. destruct (has_rev (rev relu) l); auto. }
    assert (Hrevs1 : revs (upd relu l) = revs l) by apply revs_upd.
    assert (Hpurge : forall kx ly ky ok,
               wrun (purge (map rev (sort_by_rev l))) (upd relu l) kx ly ky ok -> ly = [] /\ ky = kx).
    { intros kx ly ky ok Hp. eapply purge_all; [| | |exact Hp].
      - apply (Permutation_NoDup (l := revs l)); [|exact Hnd].
        apply Permutation_sym. unfold revs. apply Permutation_map. apply sort_by_rev_perm.
      - intros r Hr2. assert (In (rev r) (revs (upd relu l))) by (unfold revs; now apply in_map).
        rewrite Hrevs1 in H0. eapply Permutation_in; [|exact H0].
        apply Permutation_sym. unfold revs. apply Permutation_map. apply sort_by_rev_perm.
      - intros v Hv. rewrite Hrevs1. eapply Permutation_in; [|exact Hv].
        unfold revs. apply Permutation_map. apply sort_by_rev_perm. }
    cbn [manifest with_status relu] in H. unfold relu in H. cbn [manifest with_status] in H.
    rewrite (filter_no_keep _ Hnk) in H. rewrite Hkeep in H.
    destruct (manifest x) as [|m0 mt] eqn:Em.
    - cbn [bind] in H. cbv beta iota delta [negb] in H.
      unfold perform in H. cbn [bind] in H. wclu H.
      unfold kresp_of, kstate_of in H. cbn [kube_handle fst snd] in H.
      wbind H l2 k2 ok Hp. wret H.
      destruct (Hpurge _ _ _ _ Hp) as [-> ->]. split; auto. intros r [].
    - unfold perform in H. cbn [bind] in H. wclu H.
      set (kd := KDelete (m0 :: mt)) in *.
      assert (Eok : kresp_of rn ns kd k = true).
      { unfold kresp_of, kd. cbn [kube_handle].
        pose proof (k_delete_ok (m0 :: mt) k [] Hn) as G.
        destruct (k_delete k (m0 :: mt) true []) as [[? ?] ?]. exact G. }
      assert (Habs : forall r, In r (m0 :: mt) -> amem (rkey r) (objs (kstate_of rn ns kd k)) = false).
      { intros r Hin. unfold kstate_of, kd. cbn [kube_handle].
        pose proof (k_delete_removes (m0 :: mt) k true [] Hn r Hin) as G.
        destruct (k_delete k (m0 :: mt) true []) as [[k3 ok] mm]. exact G. }
      rewrite Eok in H. cbv beta iota delta [negb] in H.
      wclu H. unfold kresp_of at 1, kstate_of at 1 in H. cbn [kube_handle fst snd] in H.
      wbind H l2 k2 ok Hp. wret H.
      destruct (Hpurge _ _ _ _ Hp) as [-> ->]. split; auto.
  Qed.

  Theorem atomic_install_any_wrun fl cid vid mani hks l0 k0 l' k' :
    f_atomic fl = true -> f_dry_run fl = false -> NoDup (revs l0) ->
    (forall r, In r mani -> manifest_keep r = false) ->
    (f_no_hooks fl = true \/ (hooks_for PreDelete hks = [] /\ hooks_for PostDelete hks = [])) ->
    nodel k0 ->
    wrun (install rn ns fl cid vid mani hks) l0 k0 l' k' (OErr EOtherErr) ->
    l' = [] /\ forall r, In r mani -> amem (rkey r) (objs k') = false.
  Proof.
    intros Hat Hdry Hnd Hnk Hnh Hn H.
    unfold install in H. rewrite Hdry in H. cbv beta iota zeta delta [negb] in H.
    wbind H la ka avail Hav.
    wsto Hav. unfold sresp, sled in Hav. cbn [storage_apply fst snd] in Hav.
    assert (la = l0 /\ ka = k0 /\
            avail = match max_rev_of l0 with
                    | None => true
                    | Some last => f_replace fl && (status_eqb (st last) SUninstalled || status_eqb (st last) SFailed)
                    end) as (-> & -> & Eavail) by (destruct (max_rev_of l0); wret Hav; auto).
    clear Hav.
    destruct avail; cbv beta iota in H; [|wret H; discriminate].
    wbind H lb kb adopt Ha.
    assert (lb = l0 /\ fault_le kb k0) as (-> & Fb).
    { case_if Ha.
      - unfold perform in Ha. wclu Ha. wret Ha. split; auto. apply kube_handle_fault.
      - wret Ha. split; auto. apply fault_le_refl. }
    clear Ha.
    assert (Hnb : nodel kb) by (eapply nodel_le; eauto).
    destruct adopt as [adopted|]; [|wret H; discriminate].
    wbind H lc kc rr Hc.
    set (rel0 := mkRelease 1 SPendingInstall cid vid mani hks) in *.
    assert (Hrr : kc = kb /\ revs lc = revs l0 /\
                  match rr with
                  | None => False
                  | Some rel => manifest rel = mani /\ hooks rel = hks /\ st rel = SPendingInstall /\
                                (forall x, In x lc -> rev x < rev rel)
                  end).
    { case_if Hc.
      - wsto Hc. unfold sresp, sled in Hc. cbn [storage_apply fst snd] in Hc.
        destruct (max_rev_of l0) as [last|] eqn:Hlast.
        + assert (Hlt : forall l, revs l = revs l0 -> forall x, In x l -> rev x < S (rev last)).
          { intros l E x Hx. assert (In (rev x) (revs l)) by (unfold revs; now apply in_map).
            rewrite E in H0. unfold revs in H0. apply in_map_iff in H0. destruct H0 as (y & Ey & Hy).
            pose proof (max_rev_of_ge _ _ Hlast _ Hy). lia. }
          case_if Hc.
          * wret Hc. repeat split; auto. simpl. now apply Hlt.
          * wsto Hc. unfold sresp, sled in Hc. cbn [storage_apply] in Hc.
            assert (Hh : has_rev (rev (with_status last SSuperseded)) l0 = true).
            { apply has_rev_revs. simpl. unfold revs. apply in_map. now apply max_rev_of_in. }
            rewrite Hh in Hc. cbn [fst snd] in Hc. wret Hc.
            assert (E : revs (replace_rev (with_status last SSuperseded) l0) = revs l0) by apply revs_replace.
            repeat split; auto. simpl. now apply Hlt.
        + wret Hc. repeat split; auto. destruct l0 as [|y l0]; [intros x []|].
          simpl in Hlast. destruct (max_rev_of l0); [destruct (Nat.ltb _ _)|]; discriminate.
      - wret Hc. repeat split; auto.
        (* without --replace the name is only available on an empty history *)
        destruct (max_rev_of l0) eqn:Hlast.
        + (* without --replace a non-empty history makes the name unavailable *)
          exfalso. simpl in Eavail. discriminate.
        + destruct l0 as [|y l0]; [intros x []|].
          simpl in Hlast. destruct (max_rev_of l0); [destruct (Nat.ltb _ _)|]; discriminate. }
    destruct Hrr as (-> & Hrevs & Hrel).
    destruct rr as [rel|]; [|contradiction].
    pose proof (proj2 (proj2 (proj2 Hrel))) as Hlt.
    wbind H ld kd e He.
    unfold storage_create, perform in He. wsto He. unfold sresp, sled in He. cbn [storage_apply] in He.
    assert (Hfresh : has_rev (rev rel) lc = false).
    { destruct (has_rev (rev rel) lc) eqn:E; auto. apply has_rev_revs in E.
      unfold revs in E. apply in_map_iff in E. destruct E as (x & Ex & Hx). specialize (Hlt x Hx). lia. }
    rewrite Hfresh in He. cbn [fst snd] in He. wret He.
    set (l2 := (lc ++ [rel])%list) in *.
    assert (Hs : upd rel l2 = l2) by (apply upd_last_stable; exact Hfresh).
    assert (Hnd2 : NoDup (revs l2)).
    { apply nodup_snoc; auto. unfold revs in *. rewrite Hrevs. exact Hnd. }
    assert (Hmax2 : max_rev_of l2 = Some rel) by (apply max_rev_of_snoc; exact Hlt).
    assert (Hfail : forall k lx kx o, nodel k -> wrun (install_fail fl rel) l2 k lx kx o ->
                     lx = [] /\ forall r, In r mani -> amem (rkey r) (objs kx) = false).
    { intros k lx kx o Hk Hf. unfold install_fail in Hf. rewrite Hat in Hf.
      destruct Hrel as (Hm & Hh & Hst & _).
      wbind Hf l3 k3 u Hu. apply wrun_ret_inv in Hf. destruct Hf as (-> & -> & _). rewrite <- Hm.
      eapply (uninstall_cleans_gen _ l2 rel); [..|exact Hu]; auto.
      - rewrite Hst. discriminate.
      - rewrite Hm. exact Hnk.
      - simpl. rewrite Hh. exact Hnh. }
    wbind H l3 k3 pre Hpre.
    destruct (hooks_world_stable _ _ _ _ _ _ _ _ Hs Hpre) as [-> F3].
    assert (Hn3 : nodel k3) by (eapply nodel_le; eauto).
    destruct pre; cbv beta iota in H; [|eapply Hfail; eauto].
    wbind H l4 k4 ok Hok.
    assert (l4 = l2 /\ fault_le k4 k3) as [-> F4].
    { destruct (stamp_all rn ns mani).
      - wret Hok. split; auto. apply fault_le_refl.
      - destruct adopted.
        + unfold perform in Hok. wclu Hok. wret Hok. split; auto. apply kube_handle_fault.
        + wclu Hok. wret Hok. split; auto. apply kube_handle_fault. }
    assert (Hn4 : nodel k4) by (eapply nodel_le; eauto).
    destruct ok; cbv beta iota in H; [|eapply Hfail; eauto].
    unfold perform in H. cbn [bind] in H. wclu H.
    set (kw := KWait (stamp_all rn ns mani)) in *.
    assert (Hn5 : nodel (kstate_of rn ns kw k4)) by (eapply nodel_le; [apply kube_handle_fault|exact Hn4]).
    destruct (kresp_of rn ns kw k4); cbv beta iota in H; [|eapply Hfail; eauto].
    wbind H l6 k6 post Hpost.
    destruct (hooks_world_stable _ _ _ _ _ _ _ _ Hs Hpost) as [-> F6].
    assert (Hn6 : nodel k6) by (eapply nodel_le; eauto).
    destruct post; cbv beta iota in H; [|eapply Hfail; eauto].
    wbind H l7 k7 u Hr. apply wrun_ret_inv in H. destruct H as (_ & _ & E). discriminate.
  Qed.
End Replace.

(* in terms of the interpreter *)
Theorem atomic_install_any :
  forall rn ns fl cid vid mani hks cf w w' t,
    f_atomic fl = true -> f_dry_run fl = false -> NoDup (revs (w_led w)) ->
    (forall r, In r mani -> manifest_keep r = false) ->
    (f_no_hooks fl = true \/ (hooks_for PreDelete hks = [] /\ hooks_for PostDelete hks = [])) ->
    (forall key, cf_k cf <> Some (VDelete, key)) ->
    run_store_op rn ns (mkOp (OpInstall fl cid vid mani hks) nofault cf) w = (w', OErr EOtherErr, t) ->
    w_led w' = [] /\ forall r, In r mani -> amem (rkey r) (w_objs w') = false.
Proof.
  intros rn ns fl cid vid mani hks cf w w' t Hat Hdry Hnd Hnk Hnh Hndel H.
  unfold run_store_op in H. cbn [oc_op oc_sf oc_cf] in H.
  set (k0 := mkK (w_objs w) (cf_k cf) (cf_h cf) (cf_wait cf)) in *.
  destruct (run_op kstate (kube_handle rn ns) dead_resp rn ns (OpInstall fl cid vid mani hks) nofault (w_led w) k0)
    as [[[l k] o] t'] eqn:E.
  inversion H; subst. clear H.
  unfold run_op in E. cbn [op_prog] in E.
  destruct (run kstate (kube_handle rn ns) dead_resp nofault (install rn ns fl cid vid mani hks)
                (mkR (w_led w) k0 0 0 false [])) as [s o'] eqn:E2.
  apply run_wrun in E2; [|reflexivity]. destruct E2 as [Hw Hd]. cbn [led ks] in Hw.
  rewrite Hd in E. inversion E; subst. clear E. cbn [w_led w_objs].
  refine (atomic_install_any_wrun rn ns fl cid vid mani hks (w_led w) k0 (led s) (ks s) Hat Hdry Hnd Hnk Hnh _ Hw).
  unfold nodel, k0. cbn [kfault]. destruct (cf_k cf) as [[v key]|] eqn:Ek; auto. destruct v; auto.
  exfalso. now apply (Hndel key).
Qed.

(* ---- example: a failed install left 1:failed with a in the cluster; install --replace --atomic
   of {a',b} with CREATE b rejected: the whole history and both resources are gone ---- *)
From Helm Require Import Engine.Contain.
Local Open Scope string_scope.
Definition ar_w0 : world :=
  fst (fst (run_store_op "rel" "default"
    (mkOp (OpInstall fl0 1 1 [cmr "a" "v1"; cmr "c" "v1"] []) nofault (mkCF (Some (VCreate, "ConfigMap/c")) None false))
    (mkW [] []))).
Definition ar_fl : flags := mkFlags true false false true 0 false false false false 0.
Definition ar_cf : cfaults := mkCF (Some (VCreate, "ConfigMap/b")) None false.

Lemma atomic_install_replace_example :
  statuses (w_led ar_w0) = [(1, SFailed)] /\ map fst (w_objs ar_w0) = ["ConfigMap/a"] /\
  f_atomic ar_fl = true /\ f_replace ar_fl = true /\ NoDup (revs (w_led ar_w0)) /\
  exists w' t, run_store_op "rel" "default" (mkOp (OpInstall ar_fl 2 2 [cmr "a" "v2"; cmr "b" "v2"] []) nofault ar_cf) ar_w0
               = (w', OErr EOtherErr, t) /\ w_led w' = [] /\ w_objs w' = [].
Proof.
  split; [vm_compute; reflexivity|]. split; [vm_compute; reflexivity|].
  split; [reflexivity|]. split; [reflexivity|].
  split; [vm_compute; repeat constructor; simpl; tauto|].
  eexists. eexists. vm_compute. repeat split.
Qed.

(* C06 — the richer model's upgrade follows the generated flow table (failure-free), and the
   second install flag set. *)
From Coq Require Import List String Bool Arith NArith.
From Helm Require Import Engine.Types Engine.DryOps Engine.DryFlow Engine.DryFlowModel.
From Helm Require Import Gen.DryFlow Gen.DryRunSpellings.
Import ListNotations.
Local Open Scope string_scope.

Lemma upgrade_fact :
  forallb (fun on => forallb (fun opt => forallb (fun g => forallb (fun h =>
    upgrade_ok flow upgrade_dry_spellings None g (mkXF on opt 2 0) (sc_chart sc_crds 1) h)
    upgrade_hists) upgrade_cfgs) sc_opts3) (subsets upgrade_flags) = true.
Proof. vm_cast_no_check (eq_refl true). Qed.

Lemma upgrade_follows :
  forall on opt g h, In on (subsets upgrade_flags) -> In opt sc_opts3 -> In g upgrade_cfgs -> In h upgrade_hists ->
    upgrade_ok flow upgrade_dry_spellings None g (mkXF on opt 2 0) (sc_chart sc_crds 1) h = true.
Proof. exact (lift4 _ _ _ _ _ upgrade_fact). Qed.

Lemma install_more_fact :
  forallb (fun on => forallb (fun opt =>
    install_ok flow install_dry_spellings None (mkXG true true) (mkXF on opt 0 0) (sc_chart sc_crds 1) [])
    sc_opts2) (subsets install_flags_more) = true.
Proof. vm_cast_no_check (eq_refl true). Qed.

Lemma install_more_follows :
  forall on opt, In on (subsets install_flags_more) -> In opt sc_opts2 ->
    install_ok flow install_dry_spellings None (mkXG true true) (mkXF on opt 0 0) (sc_chart sc_crds 1) [] = true.
Proof. exact (lift2 _ _ _ install_more_fact). Qed.

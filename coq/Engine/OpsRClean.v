(* Release engine with failing storage reads — the side condition of [RLift].

   [rfail n] counts the [RTry] nodes: the n-th STORAGE READ of the operation is the n-th [RTry] reached.
   That is the harness's count (every Driver.Get / Query / List through the recording wrapper) only if the
   programs embedded with [RLift] perform no storage read themselves.  [liftclean_op]: they do not — for
   every operation and every flag assignment each [RLift]ed program of Engine/Ops.v (hooks, recordRelease,
   purge, the deletions of removeLeastRecent, the supersede loop, single cluster calls and storage writes) is
   free of SHistory / SDeployedAll / SGet, and every [RTry] node IS one of those three reads. *)
From Coq Require Import List String Bool Arith ZArith Lia.
From Helm Require Import Common.Assoc Engine.Types Engine.Eff Engine.Ops Engine.OpsR Engine.OpsRProofs.
Import ListNotations.
Local Open Scope string_scope.

Inductive noread {A} : prog A -> Prop :=
| nr_ret : forall a, noread (Ret a)
| nr_eff : forall e k, is_read e = false -> (forall r, noread (k r)) -> noread (Eff e k).

Lemma noread_bind {A B} (p : prog A) (f : A -> prog B) :
  noread p -> (forall a, noread (f a)) -> noread (bind p f).
Proof. induction 1 as [a | e k He Hk IH]; intros Hf; cbn [bind]; [apply Hf|]. constructor; auto. Qed.

Lemma noread_perform e : is_read e = false -> noread (perform e).
Proof. intros H. unfold perform. constructor; [exact H | intro; constructor]. Qed.

Create HintDb nrdb.
Ltac nr :=
  repeat first
    [ apply nr_ret
    | match goal with |- noread (perform ?e) => exact (noread_perform e eq_refl) end
    | solve [auto with nrdb]
    | apply noread_bind; [| intro]
    | match goal with
      | |- noread (if ?b then _ else _) => destruct b
      | |- noread (match ?x with _ => _ end) => destruct x
      end ].

Lemma noread_record r : noread (record_release r).
Proof. unfold record_release. nr. Qed.
#[export] Hint Resolve noread_record : nrdb.

Lemma noread_delete_all vs : noread (delete_all vs).
Proof. induction vs as [|v t IH]; cbn [delete_all]; nr. Qed.
#[export] Hint Resolve noread_delete_all : nrdb.

Lemma noread_purge vs : noread (purge vs).
Proof. induction vs as [|v t IH]; cbn [purge]; nr. Qed.
#[export] Hint Resolve noread_purge : nrdb.

Lemma noread_supersede ds : noread (supersede_all ds).
Proof. induction ds as [|d t IH]; cbn [supersede_all]; nr. Qed.
#[export] Hint Resolve noread_supersede : nrdb.

Lemma noread_dhp h p : noread (delete_hook_by_policy h p).
Proof. unfold delete_hook_by_policy. nr. Qed.
#[export] Hint Resolve noread_dhp : nrdb.

Lemma noread_dhsp hs p : noread (delete_hooks_by_policy hs p).
Proof. induction hs as [|h t IH]; cbn [delete_hooks_by_policy]; nr. Qed.
#[export] Hint Resolve noread_dhsp : nrdb.

Lemma noread_loop rl ev todo : forall done, noread (exec_hooks_loop rl ev todo done).
Proof.
  induction todo as [|h t IH]; intros done; cbn [exec_hooks_loop]; [apply noread_dhsp|].
  apply noread_bind; [apply noread_dhp | intro ok]. destruct (negb ok); [constructor|].
  apply noread_bind; [apply noread_record | intro].
  apply noread_bind; [exact (noread_perform (KCreate _) eq_refl) | intro created]. destruct (negb created); [constructor|].
  apply noread_bind; [exact (noread_perform (KHookWatch _ _) eq_refl) | intro ready]. destruct ready; [apply IH|].
  apply noread_bind; [apply noread_dhp | intro]. apply noread_bind; [apply noread_dhsp | intro]. constructor.
Qed.

Lemma noread_hooks fl rl ev : noread (run_hooks fl rl ev).
Proof. unfold run_hooks, exec_hook. destruct (f_no_hooks fl); [constructor | apply noread_loop]. Qed.

(* every RTry is a read, every RLift is read-free *)
Inductive liftclean {A} : rprog A -> Prop :=
| lc_ret : forall a, liftclean (RRet a)
| lc_try : forall e k h, is_read e = true -> (forall r, liftclean (k r)) -> liftclean h -> liftclean (RTry e k h)
| lc_lift : forall B (p : prog B) k, noread p -> (forall b, liftclean (k b)) -> liftclean (RLift p k).

Lemma liftclean_rbind {A B} (p : rprog A) (f : A -> rprog B) :
  liftclean p -> (forall a, liftclean (f a)) -> liftclean (rbind p f).
Proof.
  induction 1 as [a | e k h He Hk IHk Hh IHh | C q k Hq Hk IH]; intros Hf; cbn [rbind]; [apply Hf| |];
    constructor; auto.
Qed.

Ltac head_scrut p :=
  match p with
  | rbind ?q _ => head_scrut q
  | match ?x with _ => _ end => x
  end.

Ltac nr_leaf :=
  first [ apply noread_record | apply noread_hooks | apply noread_purge | apply noread_delete_all
        | apply noread_supersede
        | match goal with |- noread (perform ?e) => exact (noread_perform e eq_refl) end ].

Ltac lc_step :=
  cbv beta delta [rlift rperform record_releaseR run_hooksR read_err]; cbn [rbind];
  lazymatch goal with
  | |- liftclean (RRet _) => apply lc_ret
  | |- liftclean (RLift _ _) => apply lc_lift; [nr_leaf | intro]
  | |- liftclean (RTry _ _ _) => apply lc_try; [reflexivity | intro | ]
  | |- liftclean ?p => let x := head_scrut p in destruct x
  end.

Section Clean.
  Variable rn ns : string.

  Lemma lc_rlr m : liftclean (remove_least_recentR m).
  Proof. unfold remove_least_recentR. repeat lc_step. Qed.

  Lemma lc_storage_create r m : liftclean (storage_createR r m).
  Proof.
    unfold storage_createR. destruct m as [|m]; [repeat lc_step|].
    apply liftclean_rbind; [apply lc_rlr | intro a; destruct a; repeat lc_step].
  Qed.

  Ltac lc_step1 :=
    cbv beta delta [rlift rperform record_releaseR run_hooksR read_err]; cbn [rbind];
    lazymatch goal with
    | |- liftclean (rbind (storage_createR _ _) _) => apply liftclean_rbind; [apply lc_storage_create | intro]
    | _ => lc_step
    end.

  Lemma lc_uninstall fl : liftclean (uninstallR fl).
  Proof. unfold uninstallR. repeat lc_step1. Qed.

  Lemma lc_rollback fl : liftclean (rollbackR rn ns fl).
  Proof. unfold rollbackR. repeat lc_step1. Qed.

  Lemma lc_install_fail fl rel : liftclean (install_failR fl rel).
  Proof.
    unfold install_failR. destruct (f_atomic fl); [|repeat lc_step1].
    apply liftclean_rbind; [apply lc_uninstall | intro; apply lc_ret].
  Qed.

  Lemma lc_upgrade_fail fl up created : liftclean (upgrade_failR rn ns fl up created).
  Proof.
    unfold upgrade_failR. repeat lc_step1.
    all: try (apply liftclean_rbind; [apply lc_rollback | intro; apply lc_ret]).
  Qed.

  Ltac lc_step2 :=
    cbv beta delta [rlift rperform record_releaseR run_hooksR read_err]; cbn [rbind];
    lazymatch goal with
    | |- liftclean (install_failR _ _) => apply lc_install_fail
    | |- liftclean (upgrade_failR _ _ _ _ _) => apply lc_upgrade_fail
    | _ => lc_step1
    end.

  Lemma lc_install fl c v m hs : liftclean (installR rn ns fl c v m hs).
  Proof. unfold installR. repeat lc_step2. Qed.

  Lemma lc_upgrade fl c v m hs : liftclean (upgradeR rn ns fl c v m hs).
  Proof. unfold upgradeR. repeat lc_step2. Qed.

  Theorem liftclean_op o : liftclean (op_progR rn ns o).
  Proof. destruct o; cbn [op_progR]; [apply lc_install | apply lc_upgrade | apply lc_rollback | apply lc_uninstall]. Qed.
End Clean.

(* The semantic fall-back of the per-run obligation (Engine/SkeletonSource.v), evaluated on
   the expected table once: the model follows it under the finer path language
   (Engine/SkeletonFine.v), and the call sites that are neither needed nor excused. *)
From Coq Require Import List String Bool Arith.
From Helm Require Import Engine.Types Engine.Eff Engine.Ops Engine.Skeleton Engine.SkeletonExpected
                         Engine.SkeletonModel Engine.SkeletonProofs Engine.SkeletonCover Engine.SkeletonNorm
                         Engine.SkeletonFine.
Import ListNotations.
Local Open Scope string_scope.

(* the probes: the witness runs of Engine/SkeletonCover.v (scenario descriptions, independent of
   any table), without repetitions, grouped by operation *)
Definition wit_eqb (a b : wit) : bool :=
  let '(a1, a2, a3, a4, a5) := a in
  let '(b1, b2, b3, b4, b5) := b in
  Nat.eqb a1 b1 && Nat.eqb a2 b2 && Nat.eqb a3 b3 && Bool.eqb a4 b4 &&
  (if list_eq_dec Nat.eq_dec a5 b5 then true else false).

Fixpoint dedupe (l : list wit) : list wit :=
  match l with
  | [] => []
  | x :: r => if existsb (wit_eqb x) r then dedupe r else x :: dedupe r
  end.

Definition opk_eqb (a b : opk) : bool :=
  match a, b with
  | OInstall, OInstall | OUpgrade, OUpgrade | ORollback, ORollback | OUninstall, OUninstall => true
  | _, _ => false
  end.

Definition the_probes : probes :=
  Eval vm_compute in
  map (fun o => (o, flat_map (fun w => match wit_run w with
                                        | Some sf => if opk_eqb (sc_op (fst sf)) o then [sf] else []
                                        | None => []
                                        end) (dedupe (map snd needed)))) ops.

(* the sites of the expected table that no probe needs and nothing excuses *)
Definition all_model_kinds : list kind :=
  [DHistory; DDeployed; DGet; DCreate; DUpdate; DDelete; KcCreate; KcUpdate; KcDelete; KcWait; KcWaitDelete;
   KcWatch ""].

(* (a literal: Engine/SkeletonFineCoverCheck.v, outside the checked closure because of its cost
   in coqchk, proves it equal to [unneeded expected the_probes]) *)
Definition expected_unneeded : list (list kind) :=
  [ [DUpdate]; [DUpdate];                                   (* updates next to a loop of updates *)
    all_model_kinds; all_model_kinds; all_model_kinds;      (* reportToPerformUpgrade handed nil / behind a
                                                               failed GetWaiter, handleContext *)
    [KcDelete]; [KcDelete];                                 (* the alternative deletes of deleteRelease *)
    [DGet];                                                 (* releaseContent with a version *)
    [KcDelete; KcWaitDelete]; [KcDelete; KcWaitDelete]; [KcDelete; KcWaitDelete] ].
                                                            (* hook deletions that read like their siblings *)

(* a table passes when it has no other such site (by label: kind of the call / name of the run) *)
Definition coverage_ok (t : table) : bool := multi_incl (unneeded t the_probes) expected_unneeded.

Definition semantic_ok (t : table) : bool := fine_ok t && coverage_ok t.

(* the model follows the expected table under the finer language (its unneeded sites are
   expected_unneeded by definition) *)
Lemma expected_fine : fine_ok expected = true.
Proof. vm_cast_no_check (eq_refl true). Qed.

(* ... in quantified form, failure-free *)
Lemma fine_ok_spec (t : table) :
  fine_ok t = true ->
  forall o fl l ad, In fl (flag_space o) -> In l ledgers ->
    ofollows (oroot t o) (mkScen o fl l ad) [] = true.
Proof.
  intros H o fl l ad Hfl Hl. unfold fine_ok in H.
  assert (Ho : In o ops) by (destruct o; cbn; tauto).
  pose proof (forallb_In _ _ H o Ho) as H1. cbv beta in H1.
  apply andb_prop in H1. destruct H1 as [H1 _]. unfold ocheck_ok in H1. cbv zeta in H1.
  exact (lift3 (flag_space o) ledgers (fun fl l ad => ofollows (oroot t o) (mkScen o fl l ad) []) H1 fl l ad Hfl Hl).
Qed.

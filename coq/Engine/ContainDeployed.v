(* C03 — a failed, non-atomic install / upgrade leaves the revision that was deployed
   before it deployed: for EVERY cluster behaviour (no storage fault, no crash), also when
   the history is pruned (max-history). *)
From Coq Require Import List String Bool Arith ZArith Lia.
From Helm Require Import Common.Assoc Engine.Types Engine.Eff Engine.Ops Engine.Cluster Engine.Seq
  Engine.SeqProofs Engine.HooksProofsTrace Engine.HooksProofsGate Engine.ContainLedger Engine.ContainProofs.
Import ListNotations.
Local Open Scope prog_scope.

Definition deployed_of (l : list release) : list release :=
  filter (fun r => status_eqb (st r) SDeployed) l.

Lemma max_rev_of_in l m : max_rev_of l = Some m -> In m l.
Proof.
  revert m. induction l as [|r t IH]; simpl; intros m H; [discriminate|].
  destruct (max_rev_of t) as [m'|].
  - destruct (Nat.ltb (rev m') (rev r)); inversion H; subst; auto.
  - inversion H; subst. now left.
Qed.

Lemma max_rev_of_ge l m : max_rev_of l = Some m -> forall x, In x l -> rev x <= rev m.
Proof.
  revert m. induction l as [|r t IH]; simpl; intros m H x Hx; [contradiction|].
  destruct (max_rev_of t) as [m'|] eqn:E.
  - destruct (Nat.ltb (rev m') (rev r)) eqn:L; inversion H; subst.
    + apply Nat.ltb_lt in L. destruct Hx as [<-|Hx]; auto. specialize (IH _ eq_refl _ Hx). lia.
    + apply Nat.ltb_ge in L. destruct Hx as [<-|Hx]; auto.
  - inversion H; subst. destruct Hx as [<-|Hx]; auto.
    destruct t; [contradiction|]. simpl in E. destruct (max_rev_of t); [destruct (Nat.ltb _ _)|]; discriminate.
Qed.

Lemma status_eqb_eq a b : status_eqb a b = true -> a = b.
Proof. destruct a, b; simpl; intros H; try discriminate; reflexivity. Qed.

Lemma nodup_same_rev l a b : NoDup (revs l) -> In a l -> In b l -> rev a = rev b -> a = b.
Proof.
  induction l as [|x t IH]; simpl; intros Hn Ha Hb E; [contradiction|].
  inversion Hn as [|? ? Hnot Hn']; subst.
  destruct Ha as [<-|Ha]; destruct Hb as [<-|Hb]; auto.
  - exfalso. apply Hnot. rewrite E. unfold revs. now apply in_map.
  - exfalso. apply Hnot. rewrite <- E. unfold revs. now apply in_map.
Qed.

Section Deployed.
  Variable dresp : forall e : eff, resp e.
  Notation lrun := (@lrun dresp).
  Variable d : release.

  Lemma in_upd_keep x l : In d l -> (rev x <> rev d \/ x = d) -> In d (upd x l).
  Proof.
    intros Hd Hx. unfold upd. destruct (has_rev (rev x) l); auto.
    unfold replace_rev. apply in_map_iff. exists d. split; auto.
    destruct (Nat.eqb (rev d) (rev x)) eqn:E; auto.
    apply Nat.eqb_eq in E. destruct Hx as [Hx|Hx]; congruence.
  Qed.

  (* effects that cannot remove or change the record d *)
  Definition safe_for (e : eff) : Prop :=
    match e with
    | SDelete v => v <> rev d
    | SUpdate x => rev x <> rev d \/ x = d
    | _ => True
    end.

  Lemma lrun_safe {A} (p : prog A) : only safe_for p ->
    forall l l' a, lrun p l l' a -> In d l -> In d l'.
  Proof.
    induction p as [x|e k IH]; simpl; intros Ho l l' a H Hd.
    - apply lrun_ret_inv in H. destruct H as [-> _]. exact Hd.
    - destruct Ho as [He Hk]. apply lrun_inv in H. destruct H as [[Hc [r H]]|[Hc H]].
      + eapply IH; eauto.
      + eapply IH; [apply Hk|exact H|]. unfold sled.
        destruct e; simpl in *; try discriminate; auto.
        * destruct (has_rev (rev r) l); simpl; auto. apply in_or_app. now left.
        * fold (upd r l). destruct (has_rev (rev r) l) eqn:Eh; simpl; auto.
          pose proof (in_upd_keep r l Hd He) as G. unfold upd in G. now rewrite Eh in G.
        * destruct (has_rev v l); simpl; auto. unfold remove_rev. apply filter_In. split; auto.
          apply negb_true_iff, Nat.eqb_neq. congruence.
  Qed.

  Lemma safe_of_cluster {A} (p : prog A) : only (fun e => is_cluster_call e = true) p -> only safe_for p.
  Proof. apply only_mono. intros e. destruct e; simpl; auto; discriminate. Qed.

  Lemma delete_hook_safe h p : only safe_for (delete_hook_by_policy h p).
  Proof.
    unfold delete_hook_by_policy.
    destruct (String.eqb (h_kind h) "CustomResourceDefinition"); simpl; auto.
    destruct (has_policy h p); simpl; auto. split; auto. intros []; simpl; auto.
  Qed.

  Lemma delete_hooks_safe p hs : only safe_for (delete_hooks_by_policy hs p).
  Proof.
    induction hs as [|h t IH]; simpl; auto.
    apply only_bind; [apply delete_hook_safe|]. intros []; simpl; auto.
  Qed.

  Lemma loop_safe rl ev : rev rl <> rev d -> forall todo done, only safe_for (exec_hooks_loop rl ev todo done).
  Proof.
    intros Hr. induction todo as [|h t IH]; intros done; simpl.
    - apply delete_hooks_safe.
    - apply only_bind; [apply delete_hook_safe|].
      intros []; simpl; auto. split; auto. intros _. split; auto.
      intros []; simpl; auto. split; auto.
      intros []; [apply IH|].
      apply only_bind; [apply delete_hook_safe|]. intros _.
      apply only_bind; [apply delete_hooks_safe|]. intros _. exact I.
  Qed.

  Lemma run_hooks_safe fl rl ev : rev rl <> rev d -> only safe_for (run_hooks fl rl ev).
  Proof.
    intros Hr. unfold run_hooks, exec_hook. destruct (f_no_hooks fl); [exact I|now apply loop_safe].
  Qed.

  (* ---- pruning never removes the highest deployed revision ---- *)
  Lemma prune_pick_skips dv : forall h total maxkeep picked, ~ In dv (prune_pick h (Some dv) total maxkeep picked).
  Proof.
    induction h as [|r t IH]; simpl; intros total maxkeep picked; auto.
    destruct (Nat.eqb (total - picked) maxkeep); simpl; auto.
    destruct (Nat.eqb (rev r) dv) eqn:E; auto.
    simpl. intros [H|H]; [apply Nat.eqb_neq in E; congruence|]. eapply IH; eauto.
  Qed.

  Lemma lrun_remove_least_recent_keeps m l l' e :
    max_rev_of (deployed_of l) = Some d ->
    lrun (remove_least_recent m) l l' e -> In d l'.
  Proof.
    intros Hmax H.
    assert (Hd : In d l).
    { apply max_rev_of_in in Hmax. unfold deployed_of in Hmax. apply filter_In in Hmax. tauto. }
    unfold remove_least_recent in H. apply lrun_shistory_inv in H.
    destruct l as [|x t]; [contradiction|].
    match type of H with ContainLedger.lrun (if ?c then _ else _) _ _ _ => destruct c end.
    - apply lrun_ret_inv in H. destruct H as [-> _]. exact Hd.
    - apply lrun_sdeployed_inv in H. fold (deployed_of (x :: t)) in H. rewrite Hmax in H.
      apply lrun_bind_inv in H. destruct H as (l1 & r & H1 & H2).
      apply lrun_delete_all in H1. destruct H1 as [_ K1].
      assert (l' = l1).
      { destruct (fst r) as [|[|n]]; apply lrun_ret_inv in H2; tauto. }
      subst. apply K1; auto. apply prune_pick_skips.
  Qed.

  Lemma lrun_storage_create_keeps x m l l' e :
    max_rev_of (deployed_of l) = Some d ->
    lrun (storage_create x m) l l' e -> In d l'.
  Proof.
    intros Hmax H.
    assert (Hd : In d l).
    { apply max_rev_of_in in Hmax. unfold deployed_of in Hmax. apply filter_In in Hmax. tauto. }
    assert (Hc : forall l1 l2 e2, In d l1 -> lrun (perform (SCreate x)) l1 l2 e2 -> In d l2).
    { intros l1 l2 e2 Hd1 Hp. unfold perform in Hp. apply lrun_screate_inv in Hp.
      destruct Hp as [[_ Hp]|[_ Hp]]; apply lrun_ret_inv in Hp; destruct Hp as [-> _]; auto.
      apply in_or_app. now left. }
    unfold storage_create in H. destruct m as [|m]; [eapply Hc; eauto|].
    apply lrun_bind_inv in H. destruct H as (l1 & e1 & H1 & H2).
    pose proof (lrun_remove_least_recent_keeps _ _ _ _ Hmax H1) as Hd1.
    destruct e1; first [solve [eapply Hc; eauto] | (apply lrun_ret_inv in H2; destruct H2 as [-> _]; exact Hd1)].
  Qed.
End Deployed.

Section DeployedOps.
  Variable dresp : forall e : eff, resp e.
  Notation lrun := (@lrun dresp).
  Variable rn ns : string.
  Variable d : release.

  Ltac lbind H l1 a H1 := apply lrun_bind_inv in H; destruct H as (l1 & a & H1 & H).
  Ltac lret H := apply lrun_ret_inv in H; destruct H as [? ?]; subst.
  Ltac lclu H r := apply lrun_cluster_inv in H; [destruct H as [r H]|reflexivity].
  Ltac case_if H := match type of H with ContainLedger.lrun (if ?c then _ else _) _ _ _ => destruct c eqn:? end.
  Ltac lrec H :=
    first [ apply lrun_supdate_inv in H; cbv beta in H
          | let l3 := fresh "l" in let x := fresh "x" in let Hr := fresh "Hr" in
            lbind H l3 x Hr; apply lrun_record_release in Hr; subst l3 ].

  Lemma hooks_keep fl rl ev l l' b :
    rev rl <> rev d -> lrun (run_hooks fl rl ev) l l' b -> In d l -> In d l'.
  Proof. intros Hr H. eapply lrun_safe; [|exact H]. now apply run_hooks_safe. Qed.

  Lemma has_rev_false_neq v l : has_rev v l = false -> In d l -> v <> rev d.
  Proof.
    intros Hh Hd E. subst v.
    assert (has_rev (rev d) l = true).
    { unfold has_rev. apply existsb_exists. exists d. split; auto. apply Nat.eqb_refl. }
    congruence.
  Qed.

  (* ================= install ================= *)
  Theorem install_previous_deployed fl cid vid mani hks l0 l' c :
    NoDup (revs l0) -> max_rev_of (deployed_of l0) = Some d ->
    f_atomic fl = false -> f_dry_run fl = false ->
    lrun (install rn ns fl cid vid mani hks) l0 l' (OErr c) ->
    In d l'.
  Proof.
    intros Hnd Hmax Hat Hdry H.
    assert (Hd0 : In d l0 /\ st d = SDeployed).
    { apply max_rev_of_in in Hmax. unfold deployed_of in Hmax. apply filter_In in Hmax.
      destruct Hmax as [Hi Hs]. split; auto. now apply status_eqb_eq. }
    destruct Hd0 as [Hd0 Hst].
    unfold install in H. rewrite Hdry in H.
    cbv beta iota zeta delta [negb] in H.
    lbind H la avail Hav.
    apply lrun_shistory_inv in Hav.
    destruct (max_rev_of l0) as [last|] eqn:Hlast.
    2:{ destruct l0; [contradiction|]. simpl in Hlast.
        destruct (max_rev_of l0); [destruct (Nat.ltb _ _)|]; discriminate. }
    lret Hav.
    case_if H; [lret H; auto|].
    rename Heqb into Havail.
    lbind H lb adopt Ha.
    assert (lb = l0).
    { case_if Ha.
      - unfold perform in Ha. lclu Ha r. lret Ha. auto.
      - lret Ha. auto. }
    subst lb. clear Ha.
    destruct adopt as [adopted|]; [|lret H; auto].
    lbind H lc rr Hc.
    assert (Hdc : In d lc).
    { case_if Hc.
      - apply lrun_shistory_inv in Hc. rewrite Hlast in Hc.
        case_if Hc.
        + lret Hc. auto.
        + apply lrun_supdate_inv in Hc.
          assert (lc = upd (with_status last SSuperseded) l0).
          { destruct (has_rev (rev (with_status last SSuperseded)) l0); lret Hc; auto. }
          subst lc. apply in_upd_keep; auto. left. simpl. intros E.
          (* last = d would make d uninstalled or failed *)
          assert (last = d).
          { eapply nodup_same_rev; eauto. now apply max_rev_of_in. }
          subst last. rewrite Hst in Havail.
          destruct (f_replace fl); simpl in Havail; discriminate.
      - lret Hc. auto. }
    destruct rr as [rel|]; [|lret H; auto].
    lbind H ld e He.
    unfold storage_create, perform in He. apply lrun_screate_inv in He.
    destruct He as [[_ He]|[Hh He]]; lret He; [lret H; auto|].
    assert (Hr : rev rel <> rev d) by (eapply has_rev_false_neq; eauto).
    assert (Hd1 : In d (lc ++ [rel])) by (apply in_or_app; now left).
    assert (Hfail : forall l lx o, In d l -> lrun (install_fail fl rel) l lx o -> In d lx).
    { intros l lx o Hl Hf. apply (install_fail_lrun dresp _ _ _ _ _ Hat) in Hf. subst lx.
      apply in_upd_keep; auto. }
    lbind H l2 pre Hpre. pose proof (hooks_keep _ _ _ _ _ _ Hr Hpre Hd1) as Hd2.
    destruct pre; cbv beta iota in H; [|eapply Hfail; eauto].
    lbind H l3 ok Hok.
    assert (Hd3 : In d l3).
    { eapply lrun_safe; [|exact Hok|exact Hd2].
      destruct (stamp_all rn ns mani); [exact I|]. destruct adopted; simpl; auto. }
    destruct ok; cbv beta iota in H; [|eapply Hfail; eauto].
    unfold perform in H. simpl in H. lclu H w.
    destruct w; cbv beta iota in H; [|eapply Hfail; eauto].
    lbind H l4 post Hpost. pose proof (hooks_keep _ _ _ _ _ _ Hr Hpost Hd3) as Hd4.
    destruct post; cbv beta iota in H; [|eapply Hfail; eauto].
    lrec H. lret H. apply in_upd_keep; auto.
  Qed.

  (* ================= upgrade ================= *)
  Theorem upgrade_previous_deployed fl cid vid mani hks l0 l' c :
    NoDup (revs l0) -> max_rev_of (deployed_of l0) = Some d ->
    f_atomic fl = false -> f_dry_run fl = false ->
    lrun (upgrade rn ns fl cid vid mani hks) l0 l' (OErr c) ->
    In d l'.
  Proof.
    intros Hnd Hmax Hat Hdry H.
    assert (Hd0 : In d l0).
    { apply max_rev_of_in in Hmax. unfold deployed_of in Hmax. apply filter_In in Hmax. tauto. }
    unfold upgrade in H. rewrite Hdry in H.
    cbv beta iota zeta in H.
    apply lrun_shistory_inv in H.
    destruct (max_rev_of l0) as [last|] eqn:Hlast; [|lret H; auto].
    case_if H; [lret H; auto|].
    lbind H la cur Ha.
    assert (la = l0 /\ forall current, cur = Some current -> In current l0) as [-> Hcur].
    { case_if Ha.
      - lret Ha. split; auto. intros current E. inversion E; subst. now apply max_rev_of_in.
      - apply lrun_sdeployed_inv in Ha. fold (deployed_of l0) in Ha. rewrite Hmax in Ha.
        lret Ha. split; auto. intros current E. inversion E; subst. exact Hd0. }
    clear Ha.
    destruct cur as [current|]; [|lret H; auto].
    specialize (Hcur _ eq_refl).
    unfold perform in H. simpl in H. lclu H adopt.
    destruct adopt as [adopted|]; [|lret H; auto].
    lbind H ld e He.
    pose proof (lrun_storage_create_keeps dresp d _ _ _ _ _ Hmax He) as Hd1.
    apply (lrun_storage_create dresp) in He.
    destruct He as [[-> (l1 & S1 & Hh & ->)]|[Hne S]].
    2:{ assert (ld = l') by (destruct e; try congruence; lret H; auto). subst ld. exact Hd1. }
    set (up := mkRelease (S (rev last)) SPendingUpgrade cid vid mani hks) in *.
    assert (F : fresh l0 (l1 ++ [up]) (rev up)) by (apply fresh_create; exact S1).
    assert (Hr : rev up <> rev d).
    { pose proof (max_rev_of_ge _ _ Hlast _ Hd0). simpl. lia. }
    assert (Hcd : rev current <> rev d \/ current = d).
    { destruct (Nat.eq_dec (rev current) (rev d)) as [E|E]; auto. right. eapply nodup_same_rev; eauto. }
    clear Hh S1.
    assert (Hfail : forall cr l lx o, In d l -> lrun (upgrade_fail rn ns fl up cr) l lx o -> In d lx).
    { intros cr l lx o Hl Hf. apply (upgrade_fail_lrun dresp _ _ _ _ _ _ _ _ Hat) in Hf. subst lx.
      apply in_upd_keep; auto. }
    lbind H l2 pre Hpre. pose proof (hooks_keep _ _ _ _ _ _ Hr Hpre Hd1) as Hd2.
    pose proof (fresh_revs _ _ _ _ (lrun_keeps_revs dresp _ (run_hooks_keeps _ _ _) _ _ _ Hpre) F) as F2.
    destruct pre; cbv beta iota delta [negb] in H; [|eapply Hfail; eauto].
    lclu H u.
    destruct (fst u); cbv beta iota in H.
    2:{ lrec H. eapply Hfail; [|exact H]. now apply in_upd_keep. }
    lclu H w.
    destruct w; cbv beta iota in H.
    2:{ lrec H. eapply Hfail; [|exact H]. now apply in_upd_keep. }
    lbind H l4 post Hpost. pose proof (hooks_keep _ _ _ _ _ _ Hr Hpost Hd2) as Hd4.
    pose proof (fresh_revs _ _ _ _ (lrun_keeps_revs dresp _ (run_hooks_keeps _ _ _) _ _ _ Hpost) F2) as F4.
    destruct post; cbv beta iota in H; [|eapply Hfail; eauto].
    (* the success path cannot end in an error: the new revision is stored *)
    lrec H.
    apply lrun_supdate_inv in H.
    assert (Hh : has_rev (rev (with_status up SDeployed)) (upd (with_status current SSuperseded) l4) = true).
    { apply (fresh_has_rev l0). now apply fresh_upd. }
    rewrite Hh in H. apply lrun_ret_inv in H. destruct H as [_ E]. discriminate.
  Qed.
End DeployedOps.

(* for EVERY cluster handler, in terms of the interpreter *)
Theorem previous_stays_deployed :
  forall (K : Type) (kh : forall e : eff, K -> K * resp e * list kev) (dresp : forall e, resp e)
         (rn ns : string) (o : op) (l0 : list release) (k0 : K) l' k' c t (d : release),
    (match o with OpInstall _ _ _ _ _ | OpUpgrade _ _ _ _ _ => True | _ => False end) ->
    f_atomic (op_flags o) = false -> f_dry_run (op_flags o) = false ->
    NoDup (revs l0) ->
    max_rev_of (filter (fun r => status_eqb (st r) SDeployed) l0) = Some d ->
    run_op K kh dresp rn ns o nofault l0 k0 = (l', k', OErr c, t) ->
    In d l' /\ st d = SDeployed.
Proof.
  intros K kh dresp rn ns o l0 k0 l' k' c t d Ho Hat Hdry Hnd Hmax H.
  assert (Hst : st d = SDeployed).
  { apply max_rev_of_in in Hmax. apply filter_In in Hmax. destruct Hmax as [_ Hs]. now apply status_eqb_eq. }
  split; auto.
  unfold run_op in H.
  destruct (run K kh dresp nofault (op_prog rn ns o) (mkR l0 k0 0 0 false [])) as [s out] eqn:E.
  apply run_lrun in E; [|reflexivity]. destruct E as [E Hd]. simpl in E.
  rewrite Hd in H. inversion H; subst.
  destruct o; simpl in *; try contradiction.
  - eapply install_previous_deployed; eauto.
  - eapply upgrade_previous_deployed; eauto.
Qed.

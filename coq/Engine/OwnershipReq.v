(* C07 — proofs, part 8: the request level of the pre-flight check.
   existingResourceConflict / requireAdoption (validate.go:41/:65) visit the resources in order
   and send one GET each, stopping after the first rejected GET or (without take-ownership) after
   the GET of the first un-owned object.  [existing_gets] is that list of GETs; the handler
   [kube_handle_rq] is [kube_handle] that also logs them (as a call "existing" — the plain
   handler logs nothing for the look-up).  Theorems: the logging handler computes the same
   world, outcome and (erasing the look-up events) trace; and in the logged trace of EVERY
   operation a look-up event can only be the FIRST event: no storage write and no POST / PATCH /
   DELETE precedes a pre-flight GET, and there is at most one pre-flight. *)
From Coq Require Import List String Bool Arith ZArith Lia.
From Helm Require Import Common.Assoc Engine.Types Engine.Eff Engine.Ops Engine.Cluster Engine.Seq
                         Engine.DryRun Engine.DryRunProofs Engine.Ownership Engine.OwnershipProofs.
Import ListNotations.
Local Open Scope string_scope.

Section Gets.
  Variable rn ns : string.

  (* the GETs of existingResourceConflict / requireAdoption, in order *)
  Fixpoint existing_gets (k : kstate) (rs : list res) (take : bool) : list string :=
    match rs with
    | [] => []
    | r :: t =>
        if fault_hits k VGet (rkey r) then [rkey r]
        else match aget (rkey r) (objs k) with
             | None => rkey r :: existing_gets k t take
             | Some live =>
                 if take || owned_by rn ns live then rkey r :: existing_gets k t take
                 else [rkey r]
             end
    end.

  Definition kube_handle_rq (e : eff) (k : kstate) : kstate * resp e * list kev :=
    match e return kstate * resp e * list kev with
    | KExisting rs take =>
        let '(k', r, _) := kube_handle rn ns (KExisting rs take) k in
        (k', r, [KCall "existing" (map (fun key => (VGet, key)) (existing_gets k rs take))])
    | other => kube_handle rn ns other k
    end.
End Gets.

Definition run_store_op_rq (rn ns : string) (c : opcase) (w : world) : world * outcome * list tev :=
  let k0 := mkK (w_objs w) (cf_k (oc_cf c)) (cf_h (oc_cf c)) (cf_wait (oc_cf c)) in
  let '(l, k, out, t) := run_op kstate (kube_handle_rq rn ns) dead_resp rn ns (oc_op c) (oc_sf c) (w_led w) k0 in
  (mkW l (objs k), out, t).

Fixpoint run_history_rq (rn ns : string) (h : list hstep) (w : world) : list (world * outcome * list tev) :=
  match h with
  | [] => []
  | HOp c :: t => let '(w', out, tr) := run_store_op_rq rn ns c w in (w', out, tr) :: run_history_rq rn ns t w'
  | HEdit e :: t => let w' := apply_edit w e in (w', OOk, []) :: run_history_rq rn ns t w'
  end.

Definition is_existing_ev (t : tev) : bool :=
  match t with TKube (KCall n _) => String.eqb n "existing" | TStore _ _ _ => false end.

Definition erase_rq (t : list tev) : list tev := filter (fun e => negb (is_existing_ev e)) t.

(* no look-up event *)
Definition ex_free (t : list tev) : Prop := Forall (fun e => is_existing_ev e = false) t.

(* a look-up event only at the head; its requests are GETs *)
Definition preflight_first (t : list tev) : Prop :=
  ex_free t \/
  exists g rest, t = TKube (KCall "existing" (map (fun key => (VGet, key)) g)) :: rest /\ ex_free rest.

Lemma ex_free_app a b : ex_free a -> ex_free b -> ex_free (a ++ b).
Proof. unfold ex_free. intros. apply Forall_app. auto. Qed.

Lemma erase_ex_free t : ex_free t -> erase_rq t = t.
Proof.
  unfold ex_free, erase_rq. induction t as [|e t IH]; simpl; auto.
  intros H. inversion H; subst. rewrite H2. simpl. now rewrite IH.
Qed.

(* the plain handler never logs a call named "existing" *)
Lemma kube_handle_ex_free rn ns e k : ex_free (map TKube (snd (kube_handle rn ns e k))).
Proof.
  unfold ex_free. destruct e; simpl; try constructor.
  - destruct (k_existing rn ns k rs take []). simpl. constructor.
  - destruct rs; [repeat constructor|]. destruct (k_create k (r :: rs) true []) as [[? ?] ?]. repeat constructor.
  - destruct (k_update k cur tgt) as [[? ?] ?]. repeat constructor.
  - destruct rs; [repeat constructor|]. destruct (k_delete k (r :: rs) true []) as [[? ?] ?]. repeat constructor.
  - destruct (waitfail k); repeat constructor.
  - destruct (hfault k) as [[n c]|]; [|repeat constructor].
    destruct (String.eqb n (h_name h)); [destruct c|]; repeat constructor.
Qed.

Lemma kube_handle_rq_same rn ns e k :
  fst (kube_handle_rq rn ns e k) = fst (kube_handle rn ns e k) /\
  erase_rq (map TKube (snd (kube_handle_rq rn ns e k))) = map TKube (snd (kube_handle rn ns e k)).
Proof.
  destruct e; try (split; [reflexivity|apply erase_ex_free, kube_handle_ex_free]).
  simpl. destruct (k_existing rn ns k rs take []) as [k' r]. simpl. split; reflexivity.
Qed.

(* ------------------------------------------------------------------ *)
(* the logging handler refines the plain one                            *)

Section Erase.
  Variable rn ns : string.
  Variable f : sfaults.

  Definition sim_rq (s s' : rstate kstate) : Prop :=
    led s' = led s /\ ks s' = ks s /\ nwrites s' = nwrites s /\ nmut s' = nmut s /\ dead s' = dead s /\
    erase_rq (tr s') = tr s.

  Lemma erase_app a b : erase_rq (a ++ b) = (erase_rq a ++ erase_rq b)%list.
  Proof. unfold erase_rq. apply filter_app. Qed.

  Lemma erase_store e l : erase_rq (snd (storage_apply dead_resp e l)) = snd (storage_apply dead_resp e l).
  Proof.
    destruct e; simpl; auto;
      match goal with |- context [if ?b then _ else _] => destruct b end; reflexivity.
  Qed.

  Lemma step_sim e s s' : sim_rq s s' ->
    sim_rq (fst (step kstate (kube_handle rn ns) dead_resp f e s))
           (fst (step kstate (kube_handle_rq rn ns) dead_resp f e s')) /\
    snd (step kstate (kube_handle_rq rn ns) dead_resp f e s') = snd (step kstate (kube_handle rn ns) dead_resp f e s).
  Proof.
    intros Hs. unfold step.
    set (s1 := if negb (dead s) && (is_storage_write e || is_cluster_mutation e) && eq_opt (crash f) (nmut s)
               then mkR (led s) (ks s) (nwrites s) (nmut s) true (tr s) else s).
    set (s1' := if negb (dead s') && (is_storage_write e || is_cluster_mutation e) && eq_opt (crash f) (nmut s')
                then mkR (led s') (ks s') (nwrites s') (nmut s') true (tr s') else s').
    assert (Hs1 : sim_rq s1 s1').
    { destruct Hs as (H1 & H2 & H3 & H4 & H5 & H6). subst s1 s1'. rewrite H4, H5.
      destruct (negb (dead s) && (is_storage_write e || is_cluster_mutation e) && eq_opt (crash f) (nmut s));
        repeat split; auto. }
    clearbody s1 s1'. clear Hs s s'. destruct Hs1 as (H1 & H2 & H3 & H4 & H5 & H6).
    rewrite H5. destruct (dead s1) eqn:Hd.
    - destruct (is_storage_write e || is_cluster_call e) eqn:Ew; cbn [fst snd].
      + split; [repeat split; auto; congruence|reflexivity].
      + rewrite H1. destruct (storage_apply dead_resp e (led s1)) as [[l' r] evs]. cbn [fst snd].
        split; [repeat split; auto; congruence|reflexivity].
    - destruct (is_cluster_call e) eqn:Ec.
      + rewrite H2. pose proof (kube_handle_rq_same rn ns e (ks s1)) as [Ha Hb].
        destruct (kube_handle_rq rn ns e (ks s1)) as [[k1 r1] ev1].
        destruct (kube_handle rn ns e (ks s1)) as [[k2 r2] ev2]. cbn [fst snd] in *.
        inversion Ha; subst. rewrite H1, H3, H4.
        split; [|reflexivity]. repeat split; auto; try congruence. cbn [tr]. rewrite erase_app, H6, Hb. reflexivity.
      + destruct (is_storage_write e) eqn:Ew.
        * rewrite H3. destruct (eq_opt (wfail f) (nwrites s1)); cbn [fst snd].
          -- rewrite H1, H2, H4. split; [repeat split; auto; congruence|reflexivity].
          -- rewrite H1. pose proof (erase_store e (led s1)) as He.
             destruct (storage_apply dead_resp e (led s1)) as [[l' r] evs]. cbn [fst snd] in *.
             rewrite H2, H4. split; [|reflexivity]. repeat split; auto; try congruence. cbn [tr]. now rewrite erase_app, H6, He.
        * rewrite H1. destruct (storage_apply dead_resp e (led s1)) as [[l' r] evs]. cbn [fst snd].
          split; [repeat split; auto; congruence|reflexivity].
  Qed.

  Lemma run_sim {A} (p : prog A) : forall s s', sim_rq s s' ->
    sim_rq (fst (run kstate (kube_handle rn ns) dead_resp f p s))
           (fst (run kstate (kube_handle_rq rn ns) dead_resp f p s')) /\
    snd (run kstate (kube_handle_rq rn ns) dead_resp f p s') = snd (run kstate (kube_handle rn ns) dead_resp f p s).
  Proof.
    induction p as [a|e k IH]; intros s s' Hs; simpl; auto.
    pose proof (step_sim e s s' Hs) as [H1 H2].
    destruct (step kstate (kube_handle rn ns) dead_resp f e s) as [s1 r1].
    destruct (step kstate (kube_handle_rq rn ns) dead_resp f e s') as [s2 r2]. cbn [fst snd] in *. subst r2.
    now apply IH.
  Qed.
End Erase.

(* C07_request_log_refines: same world, same outcome, same trace once the look-up events are erased *)
Theorem run_store_op_rq_refines rn ns c w :
  fst (run_store_op_rq rn ns c w) = fst (run_store_op rn ns c w) /\
  erase_rq (snd (run_store_op_rq rn ns c w)) = snd (run_store_op rn ns c w).
Proof.
  unfold run_store_op_rq, run_store_op, run_op.
  set (k0 := mkK (w_objs w) (cf_k (oc_cf c)) (cf_h (oc_cf c)) (cf_wait (oc_cf c))).
  pose proof (run_sim rn ns (oc_sf c) (op_prog rn ns (oc_op c)) (mkR (w_led w) k0 0 0 false []) (mkR (w_led w) k0 0 0 false [])) as H.
  destruct H as [(H1 & H2 & H3 & H4 & H5 & H6) H7]; [repeat split|].
  destruct (run kstate (kube_handle rn ns) dead_resp (oc_sf c) (op_prog rn ns (oc_op c)) (mkR (w_led w) k0 0 0 false [])) as [s out].
  destruct (run kstate (kube_handle_rq rn ns) dead_resp (oc_sf c) (op_prog rn ns (oc_op c)) (mkR (w_led w) k0 0 0 false [])) as [s' out'].
  cbn [fst snd] in *. subst out'. rewrite H1, H2, H5. split; [reflexivity|exact H6].
Qed.

(* ------------------------------------------------------------------ *)
(* programs without a look-up                                           *)

Definition Qne (e : eff) : Prop := match e with KExisting _ _ => False | _ => True end.

Section NoExisting.
  Variable rn ns : string.
  Notation AE p := (all_eff Qne p).
  Ltac aeb := apply all_eff_bind; [ | intros ? ].
  Ltac oth := simpl; exact I.

  Lemma ne_delete_all vs : AE (delete_all vs).
  Proof.
    induction vs as [|v t IH]; simpl; [apply AE_ret|].
    apply AE_eff; [oth|]. intros e. aeb; [exact IH|]. destruct e; apply AE_ret.
  Qed.

  Lemma ne_remove_least_recent m : AE (remove_least_recent m).
  Proof.
    unfold remove_least_recent. simpl. apply AE_eff; [oth|]. intros h.
    destruct h as [|x t]; [apply AE_ret|].
    destruct (Nat.leb (List.length (x :: t)) m); [apply AE_ret|].
    simpl. apply AE_eff; [oth|]. intros ds.
    aeb; [apply ne_delete_all|].
    destruct (fst a) as [|[|n]]; apply AE_ret.
  Qed.

  Lemma ne_storage_create r mh : AE (storage_create r mh).
  Proof.
    unfold storage_create. destruct mh as [|m].
    - apply AE_eff; [oth|]. intros e. apply AE_ret.
    - aeb; [apply ne_remove_least_recent|].
      destruct a; try apply AE_ret; (apply AE_eff; [oth|]; intros e; apply AE_ret).
  Qed.

  Lemma ne_record_release r : AE (record_release r).
  Proof. unfold record_release. simpl. apply AE_eff; [oth|]. intros e. apply AE_ret. Qed.

  Lemma ne_delete_hook_by_policy h p : AE (delete_hook_by_policy h p).
  Proof.
    unfold delete_hook_by_policy.
    destruct (String.eqb (h_kind h) "CustomResourceDefinition"); [apply AE_ret|].
    destruct (has_policy h p); [|apply AE_ret].
    simpl. apply AE_eff; [oth|]. intros ok. destruct ok; [|apply AE_ret].
    apply AE_eff; [oth|]. intros w. apply AE_ret.
  Qed.

  Lemma ne_delete_hooks_by_policy hs p : AE (delete_hooks_by_policy hs p).
  Proof.
    induction hs as [|h t IH]; simpl; [apply AE_ret|].
    aeb; [apply ne_delete_hook_by_policy|]. destruct a; [apply IH|apply AE_ret].
  Qed.

  Lemma ne_exec_hooks_loop rl ev todo : forall done, AE (exec_hooks_loop rl ev todo done).
  Proof.
    induction todo as [|h t IH]; intros done; simpl.
    - apply ne_delete_hooks_by_policy.
    - aeb; [apply ne_delete_hook_by_policy|].
      destruct a; simpl; [|apply AE_ret].
      apply AE_eff; [oth|]. intros e. simpl.
      apply AE_eff; [oth|]. intros created.
      destruct created; simpl; [|apply AE_ret].
      apply AE_eff; [oth|]. intros ready.
      destruct ready; [apply IH|].
      aeb; [apply ne_delete_hook_by_policy|].
      aeb; [apply ne_delete_hooks_by_policy|]. apply AE_ret.
  Qed.

  Lemma ne_run_hooks fl rl ev : AE (run_hooks fl rl ev).
  Proof.
    unfold run_hooks. destruct (f_no_hooks fl); [apply AE_ret|]. apply ne_exec_hooks_loop.
  Qed.

  Lemma ne_purge vs : AE (purge vs).
  Proof.
    induction vs as [|v t IH]; simpl; [apply AE_ret|].
    apply AE_eff; [oth|]. intros e. destruct e; auto; apply AE_ret.
  Qed.

  Lemma ne_supersede_all ds : AE (supersede_all ds).
  Proof.
    induction ds as [|d t IH]; simpl; [apply AE_ret|].
    apply AE_eff; [oth|]. intros e. simpl. auto.
  Qed.

  Local Opaque run_hooks storage_create record_release purge supersede_all.

  Ltac st1 :=
    match goal with
    | |- all_eff _ (Ret _) => apply AE_ret
    | |- all_eff _ (Eff _ _) =>
        apply AE_eff; [ first [ oth | idtac ] | intros ? ]
    | |- all_eff _ (bind (run_hooks _ _ _) _) => aeb; [ apply ne_run_hooks | ]
    | |- all_eff _ (bind (storage_create _ _) _) => aeb; [ apply ne_storage_create | ]
    | |- all_eff _ (bind (record_release _) _) => aeb; [ apply ne_record_release | ]
    | |- all_eff _ (bind (purge _) _) => aeb; [ apply ne_purge | ]
    | |- all_eff _ (bind (supersede_all _) _) => aeb; [ apply ne_supersede_all | ]
    | |- all_eff _ (bind (match ?x with _ => _ end) _) => destruct x eqn:?
    | |- all_eff _ (match ?x with _ => _ end) => destruct x eqn:?
    end.

  Ltac gs := repeat (st1; simpl).

  Lemma ne_uninstall fl : AE (uninstall fl).
  Proof. unfold uninstall. simpl. gs. Qed.

  Local Opaque uninstall.

  Lemma ne_rollback fl : AE (rollback rn ns fl).
  Proof. unfold rollback. simpl. gs. Qed.

  Local Opaque rollback.

  Lemma ne_install_fail fl rel : AE (install_fail fl rel).
  Proof.
    unfold install_fail. destruct (f_atomic fl).
    - aeb; [apply ne_uninstall|]. apply AE_ret.
    - aeb; [apply ne_record_release|]. apply AE_ret.
  Qed.

  Lemma ne_upgrade_fail fl up created : AE (upgrade_fail rn ns fl up created).
  Proof.
    unfold upgrade_fail.
    aeb; [apply ne_record_release|].
    aeb.
    { destruct (f_cleanup fl && negb (match created with [] => true | _ :: _ => false end)).
      - apply AE_eff; [oth|]. intros ok. apply AE_ret.
      - apply AE_ret. }
    destruct (negb a0); [apply AE_ret|].
    destruct (f_atomic fl); [|apply AE_ret].
    simpl. apply AE_eff; [oth|]. intros h.
    match goal with |- all_eff _ (match ?x with _ => _ end) => destruct x end; [|apply AE_ret].
    aeb; [apply ne_rollback|]. apply AE_ret.
  Qed.


  Ltac st2 :=
    match goal with
    | |- all_eff _ (install_fail _ _) => apply ne_install_fail
    | |- all_eff _ (upgrade_fail _ _ _ _ _) => apply ne_upgrade_fail
    | _ => st1
    end.

  Ltac gs2 := repeat (st2; simpl).

  (* programs that read storage, then maybe look resources up ONCE, then never again *)
  Inductive preflight {A : Type} : prog A -> Prop :=
  | PF_tail : forall p, all_eff Qne p -> preflight p
  | PF_read : forall e k, storage_read e -> (forall r, preflight (k r)) -> preflight (Eff e k)
  | PF_check : forall rs take (k : resp (KExisting rs take) -> prog A),
      (forall r, all_eff Qne (k r)) -> preflight (Eff (KExisting rs take) k).

  Lemma install_preflight fl cid vid mani hks : preflight (install rn ns fl cid vid mani hks).
  Proof.
    unfold install.
    destruct (f_dry_run fl) eqn:Hd; simpl.
    - destruct (negb (f_client_only fl) && negb (match stamp_all rn ns mani with [] => true | _ => false end)); simpl.
      + apply PF_check. intros l. gs2.
      + apply PF_tail. gs2.
    - apply PF_read; [exact I|]. intros h.
      destruct (max_rev_of h) as [last|]; simpl.
      + destruct (f_replace fl && (status_eqb (st last) SUninstalled || status_eqb (st last) SFailed)); simpl.
        * destruct (negb (f_client_only fl) && negb (match stamp_all rn ns mani with [] => true | _ => false end)); simpl.
          -- apply PF_check. intros l. gs2.
          -- apply PF_tail. gs2.
        * apply PF_tail. gs2.
      + destruct (negb (f_client_only fl) && negb (match stamp_all rn ns mani with [] => true | _ => false end)); simpl.
        * apply PF_check. intros l. gs2.
        * apply PF_tail. gs2.
  Qed.

  Lemma upgrade_preflight fl cid vid mani hks : preflight (upgrade rn ns fl cid vid mani hks).
  Proof.
    unfold upgrade. apply PF_read; [exact I|]. intros h.
    destruct (max_rev_of h) as [last|]; simpl; [|apply PF_tail; gs2].
    destruct (is_pending (st last)); simpl; [apply PF_tail; gs2|].
    destruct (status_eqb (st last) SDeployed); simpl.
    - apply PF_check. intros l. gs2.
    - apply PF_read; [exact I|]. intros ds.
      destruct (max_rev_of ds) as [d|]; simpl.
      + apply PF_check. intros l. gs2.
      + destruct (status_eqb (st last) SFailed || status_eqb (st last) SSuperseded); simpl.
        * apply PF_check. intros l. gs2.
        * apply PF_tail. gs2.
  Qed.

  Lemma op_preflight o : preflight (op_prog rn ns o).
  Proof.
    destruct o; simpl.
    - apply install_preflight.
    - apply upgrade_preflight.
    - apply PF_tail. apply ne_rollback.
    - apply PF_tail. apply ne_uninstall.
  Qed.
End NoExisting.

(* ------------------------------------------------------------------ *)
(* the logged trace                                                     *)

Section RqTrace.
  Variable rn ns : string.

  Definition grows (s s' : rstate kstate) : Prop := exists t, tr s' = (tr s ++ t)%list /\ ex_free t.

  Lemma grows_refl s : grows s s.
  Proof. exists []. split; [now rewrite app_nil_r|constructor]. Qed.

  Lemma grows_trans a b c : grows a b -> grows b c -> grows a c.
  Proof.
    intros [t1 [H1 F1]] [t2 [H2 F2]]. exists (t1 ++ t2)%list. split.
    - rewrite H2, H1. now rewrite app_assoc.
    - now apply ex_free_app.
  Qed.

  Lemma store_ex_free e l : ex_free (snd (storage_apply dead_resp e l)).
  Proof.
    unfold ex_free. destruct e; simpl; try constructor;
      match goal with |- context [if ?b then _ else _] => destruct b end; repeat constructor.
  Qed.

  Lemma step_grows f e s : Qne e -> grows s (fst (step kstate (kube_handle_rq rn ns) dead_resp f e s)).
  Proof.
    intros HQ. unfold step.
    set (s1 := if negb (dead s) && (is_storage_write e || is_cluster_mutation e) && eq_opt (crash f) (nmut s)
               then mkR (led s) (ks s) (nwrites s) (nmut s) true (tr s) else s).
    assert (Ht : tr s1 = tr s) by (subst s1; destruct (negb (dead s) && (is_storage_write e || is_cluster_mutation e) && eq_opt (crash f) (nmut s)); reflexivity).
    clearbody s1. unfold grows. rewrite <- Ht. clear Ht s.
    destruct (dead s1).
    - destruct (is_storage_write e || is_cluster_call e); cbn [fst].
      + apply grows_refl.
      + destruct (storage_apply dead_resp e (led s1)) as [[l' r] evs]. apply grows_refl.
    - destruct (is_cluster_call e) eqn:Ec.
      + assert (Hk : kube_handle_rq rn ns e (ks s1) = kube_handle rn ns e (ks s1))
          by (destruct e; simpl in HQ; try contradiction; reflexivity).
        rewrite Hk. pose proof (kube_handle_ex_free rn ns e (ks s1)) as Hf.
        destruct (kube_handle rn ns e (ks s1)) as [[k' r] evs]. cbn [fst snd tr] in *.
        eexists. split; [reflexivity|exact Hf].
      + destruct (is_storage_write e).
        * destruct (eq_opt (wfail f) (nwrites s1)); cbn [fst tr].
          -- exists []. split; [now rewrite app_nil_r|constructor].
          -- pose proof (store_ex_free e (led s1)) as Hf.
             destruct (storage_apply dead_resp e (led s1)) as [[l' r] evs]. cbn [fst snd tr] in *.
             eexists. split; [reflexivity|exact Hf].
        * destruct (storage_apply dead_resp e (led s1)) as [[l' r] evs]. apply grows_refl.
  Qed.

  Lemma run_grows {A} f (p : prog A) : all_eff Qne p -> forall s,
    grows s (fst (run kstate (kube_handle_rq rn ns) dead_resp f p s)).
  Proof.
    intros H s. apply run_all_eff with (Q := Qne) (R := grows); auto.
    - apply grows_refl.
    - apply grows_trans.
    - intros. now apply step_grows.
  Qed.

  Lemma step_read_tr f e s : storage_read e ->
    tr (fst (step kstate (kube_handle_rq rn ns) dead_resp f e s)) = tr s.
  Proof.
    intros He. unfold step.
    destruct e; simpl in He; try contradiction; simpl; rewrite ?andb_false_r; simpl;
      destruct (dead s); reflexivity.
  Qed.

  Lemma run_preflight {A} f (p : prog A) : preflight p -> forall s, tr s = [] ->
    preflight_first (tr (fst (run kstate (kube_handle_rq rn ns) dead_resp f p s))).
  Proof.
    intros H. induction H as [p Hp|e k He Hk IH|rs take k Hk]; intros s Hs.
    - left. destruct (run_grows f p Hp s) as [t [Ht Hf]]. rewrite Ht, Hs. exact Hf.
    - simpl. pose proof (step_read_tr f e s He) as Ht.
      destruct (step kstate (kube_handle_rq rn ns) dead_resp f e s) as [s' r]. cbn [fst] in *.
      apply IH. now rewrite Ht.
    - simpl.
      assert (Hst : tr (fst (step kstate (kube_handle_rq rn ns) dead_resp f (KExisting rs take) s)) = [] \/
                    exists g, tr (fst (step kstate (kube_handle_rq rn ns) dead_resp f (KExisting rs take) s))
                              = [TKube (KCall "existing" (map (fun key => (VGet, key)) g))]).
      { unfold step. simpl. rewrite ?andb_false_r. simpl. destruct (dead s); cbn [fst tr]; [now left|].
        destruct (k_existing rn ns (ks s) rs take []) as [k' r]. cbn [fst tr]. rewrite Hs. right. eexists. reflexivity. }
      destruct (step kstate (kube_handle_rq rn ns) dead_resp f (KExisting rs take) s) as [s' r]. cbn [fst] in *.
      destruct (run_grows f (k r) (Hk r) s') as [t [Ht Hf]]. rewrite Ht.
      destruct Hst as [Hst|[g Hst]]; rewrite Hst.
      + left. exact Hf.
      + right. exists g, t. split; [reflexivity|exact Hf].
  Qed.
End RqTrace.

(* C07_preflight_gets_first: in the logged trace of every operation — any of the four, any
   flags, world and fault plan — a look-up event can only be the first event *)
Theorem preflight_gets_first rn ns c w : preflight_first (snd (run_store_op_rq rn ns c w)).
Proof.
  unfold run_store_op_rq, run_op.
  set (k0 := mkK (w_objs w) (cf_k (oc_cf c)) (cf_h (oc_cf c)) (cf_wait (oc_cf c))).
  pose proof (run_preflight rn ns (oc_sf c) (op_prog rn ns (oc_op c)) (op_preflight rn ns (oc_op c))
                (mkR (w_led w) k0 0 0 false []) eq_refl) as H.
  destruct (run kstate (kube_handle_rq rn ns) dead_resp (oc_sf c) (op_prog rn ns (oc_op c)) (mkR (w_led w) k0 0 0 false [])) as [s out].
  exact H.
Qed.

(* a refused operation (empty trace at the kube.Interface level) sent nothing but the
   pre-flight GETs, if anything *)
Theorem refused_log_is_gets rn ns c w :
  snd (run_store_op rn ns c w) = [] ->
  snd (run_store_op_rq rn ns c w) = [] \/
  exists g, snd (run_store_op_rq rn ns c w) = [TKube (KCall "existing" (map (fun key => (VGet, key)) g))].
Proof.
  intros H. destruct (run_store_op_rq_refines rn ns c w) as [_ He]. rewrite H in He.
  destruct (preflight_gets_first rn ns c w) as [Hf|[g [rest [Ht Hf]]]].
  - left. now rewrite <- (erase_ex_free _ Hf).
  - right. exists g. rewrite Ht in *. unfold erase_rq in He. simpl in He.
    fold (erase_rq rest) in He. rewrite (erase_ex_free _ Hf) in He. now subst rest.
Qed.

(* the GETs are GETs of the looked-up resources, in order, without repetition of the list *)
Lemma existing_gets_prefix rn ns rs : forall k take,
  exists n, existing_gets rn ns k rs take = firstn n (map rkey rs).
Proof.
  induction rs as [|r t IH]; intros k take; simpl.
  - exists 0. reflexivity.
  - destruct (fault_hits k VGet (rkey r)); [exists 1; reflexivity|].
    destruct (IH k take) as [n Hn].
    destruct (aget (rkey r) (objs k)) as [live|].
    + destruct (take || owned_by rn ns live); [exists (S n); simpl; now rewrite Hn|exists 1; reflexivity].
    + exists (S n). simpl. now rewrite Hn.
Qed.

Example preflight_example :
  let cm n := mkRes "ConfigMap" n [("d:k", "v")] in
  let fl := mkFlags false false false false 0 false false false false 0 in
  let run objs := snd (run_store_op_rq "rel" "default"
                         (mkOp (OpInstall fl 1 1 [cm "a"; cm "b"; cm "c"] []) (mkSF None None) (mkCF None None false)) (mkW [] objs)) in
  (* nothing in the way: three GETs, then the release record, the creates, ... *)
  firstn 3 (run []) = [TKube (KCall "existing" [(VGet, "ConfigMap/a"); (VGet, "ConfigMap/b"); (VGet, "ConfigMap/c")]);
                       TStore "create" 1 SPendingInstall;
                       TKube (KCall "create" [(VCreate, "ConfigMap/a"); (VCreate, "ConfigMap/b"); (VCreate, "ConfigMap/c")])] /\
  (* a foreign object at the second resource: two GETs and nothing else *)
  run [("ConfigMap/b", [("d:k", "live")])] = [TKube (KCall "existing" [(VGet, "ConfigMap/a"); (VGet, "ConfigMap/b")])].
Proof. vm_compute. split; reflexivity. Qed.

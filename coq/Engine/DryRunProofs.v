(* C06 — proofs.
   1. [is_dry_run] table facts.
   2. all_eff: closure under bind, weakening; a relation on interpreter states that every
      single Q-effect preserves is preserved by every program all of whose effects satisfy Q.
   3. The four programs under dry-run flags consist of silent effects only (storage reads and
      the ownership look-up); client-only + dry-run install has NO effect at all.
   4. Semantics: under every handler the ledger is unchanged, no TStore is logged and the
      process cannot crash (no crash point is ever reached); under the object-store handler
      the world is unchanged and the trace is empty. *)
From Coq Require Import List String Bool Arith ZArith Lia.
From Helm Require Import Common.Assoc Engine.Types Engine.Eff Engine.Ops Engine.Cluster Engine.Seq Engine.DryRun.
Import ListNotations.
Local Open Scope string_scope.

(* ------------------------------------------------------------------ *)
(* 1. spellings                                                         *)

Lemma is_dry_run_tbl_eq b opt : is_dry_run b opt = is_dry_run_tbl dry_spellings b opt.
Proof.
  unfold is_dry_run, is_dry_run_tbl, dry_spellings. simpl.
  rewrite orb_false_r. now rewrite !orb_assoc.
Qed.

Lemma is_dry_run_spec b opt :
  is_dry_run b opt = true <-> b = true \/ In opt dry_spellings.
Proof.
  rewrite is_dry_run_tbl_eq. unfold is_dry_run_tbl. rewrite orb_true_iff, existsb_exists.
  split.
  - intros [H|[x [Hin Hx]]]; [now left|]. right. apply String.eqb_eq in Hx. now subst.
  - intros [H|H]; [now left|]. right. exists opt. split; auto. apply String.eqb_refl.
Qed.

Lemma dry_spellings_are_dry : forall opt, In opt dry_spellings -> forall b, is_dry_run b opt = true.
Proof. intros opt H b. apply is_dry_run_spec. now right. Qed.

Lemma not_dry_spellings :
  is_dry_run false "none" = false /\ is_dry_run false "false" = false /\ is_dry_run false "" = false.
Proof. repeat split; reflexivity. Qed.

Lemma bool_alone_is_dry : forall opt, is_dry_run true opt = true.
Proof. reflexivity. Qed.

Lemma is_dry_run_false_iff opt : is_dry_run false opt = false <-> ~ In opt dry_spellings.
Proof.
  split.
  - intros H Hin. rewrite (dry_spellings_are_dry opt Hin false) in H. discriminate.
  - intros H. destruct (is_dry_run false opt) eqn:E; auto.
    apply is_dry_run_spec in E. destruct E as [E|E]; [discriminate|tauto].
Qed.

(* ------------------------------------------------------------------ *)
(* 2. all_eff                                                           *)

Lemma all_eff_weaken {A} (Q Q' : eff -> Prop) (p : prog A) :
  (forall e, Q e -> Q' e) -> all_eff Q p -> all_eff Q' p.
Proof. intros HQ H. induction H; constructor; auto. Qed.

Lemma all_eff_bind {A B} (Q : eff -> Prop) (p : prog A) (f : A -> prog B) :
  all_eff Q p -> (forall a, all_eff Q (f a)) -> all_eff Q (bind p f).
Proof. intros H Hf. induction H; simpl; auto. constructor; auto. Qed.

Lemma all_eff_perform (Q : eff -> Prop) e : Q e -> all_eff Q (perform e).
Proof. intros H. constructor; auto. intros r. constructor. Qed.

Lemma silent_non_mutating e : silent e -> non_mutating e.
Proof. destruct e; simpl; intros H; try contradiction; split; reflexivity. Qed.

Lemma storage_read_silent e : storage_read e -> silent e.
Proof. destruct e; simpl; auto. Qed.

Section RunAll.
  Variable K : Type.
  Variable kh : forall e : eff, K -> K * resp e * list kev.
  Variable dresp : forall e : eff, resp e.
  Variable Q : eff -> Prop.
  Variable R : rstate K -> rstate K -> Prop.
  Hypothesis R_refl : forall s, R s s.
  Hypothesis R_trans : forall a b c, R a b -> R b c -> R a c.
  Hypothesis R_step : forall f e s, Q e -> R s (fst (step K kh dresp f e s)).

  Lemma run_all_eff {A} f (p : prog A) : all_eff Q p -> forall s, R s (fst (run K kh dresp f p s)).
  Proof.
    intros H. induction H as [a|e k HQ Hk IH]; intros s; simpl; auto.
    destruct (step K kh dresp f e s) as [s' r] eqn:E.
    apply R_trans with s'.
    - replace s' with (fst (step K kh dresp f e s)) by (rewrite E; reflexivity). now apply R_step.
    - apply IH.
  Qed.
End RunAll.

Lemma run_all_ret K kh dresp {A} (P : A -> Prop) f (p : prog A) :
  all_ret P p -> forall s, P (snd (run K kh dresp f p s)).
Proof.
  intros H. induction H as [a Ha|e k Hk IH]; intros s; simpl; auto.
  destruct (step K kh dresp f e s) as [s' r]. apply IH.
Qed.

(* ------------------------------------------------------------------ *)
(* 3. the programs under dry-run flags                                  *)

Ltac ae_step :=
  first
    [ discriminate
    | apply AE_ret
    | apply AE_eff; [ simpl; exact I | intro ]
    | match goal with |- all_eff _ (match ?x with _ => _ end) => destruct x end
    | match goal with |- all_eff _ (bind (match ?x with _ => _ end) _) => destruct x end ].

Ltac ae := simpl; repeat (ae_step; simpl).

Ltac ar_step :=
  first
    [ discriminate
    | apply AR_ret; cbv beta; discriminate
    | apply AR_eff; intro
    | match goal with |- all_ret _ (match ?x with _ => _ end) => destruct x end
    | match goal with |- all_ret _ (bind (match ?x with _ => _ end) _) => destruct x end ].

Ltac ar := simpl; repeat (ar_step; simpl).

Definition not_crashed (o : outcome) : Prop := o <> OCrashed.

Section DryPrograms.
  Variable rn ns : string.

  Lemma uninstall_dry_silent fl : f_dry_run fl = true -> all_eff storage_read (uninstall fl).
  Proof. intros H. unfold uninstall. ae. Qed.

  Lemma rollback_dry_silent fl : f_dry_run fl = true -> all_eff storage_read (rollback rn ns fl).
  Proof. intros H. unfold rollback. ae. Qed.

  Lemma install_dry_silent fl cid vid mani hks :
    f_dry_run fl = true -> all_eff silent (install rn ns fl cid vid mani hks).
  Proof. intros H. unfold install. ae. Qed.

  Lemma upgrade_dry_silent fl cid vid mani hks :
    f_dry_run fl = true -> all_eff silent (upgrade rn ns fl cid vid mani hks).
  Proof. intros H. unfold upgrade. ae. Qed.

  (* helm template: no effect whatsoever *)
  Lemma install_client_only_no_effect fl cid vid mani hks :
    f_dry_run fl = true -> f_client_only fl = true ->
    install rn ns fl cid vid mani hks = Ret OOk.
  Proof. intros H1 H2. unfold install. rewrite H1, H2. reflexivity. Qed.

  Lemma op_dry_silent o : op_dry o = true -> all_eff silent (op_prog rn ns o).
  Proof.
    destruct o; simpl; intros H.
    - now apply install_dry_silent.
    - now apply upgrade_dry_silent.
    - eapply all_eff_weaken; [apply storage_read_silent|]. now apply rollback_dry_silent.
    - eapply all_eff_weaken; [apply storage_read_silent|]. now apply uninstall_dry_silent.
  Qed.

  Lemma op_dry_not_crashed o : op_dry o = true -> all_ret not_crashed (op_prog rn ns o).
  Proof.
    unfold not_crashed, op_dry.
    destruct o; simpl; intros H;
      [unfold install | unfold upgrade | unfold rollback | unfold uninstall]; ar.
  Qed.

  Lemma op_dry_non_mutating o : op_dry o = true -> all_eff non_mutating (op_prog rn ns o).
  Proof. intros H. eapply all_eff_weaken; [apply silent_non_mutating|]. now apply op_dry_silent. Qed.

  (* rollback and uninstall never reach the cluster in a dry run *)
  Lemma op_dry_rollback_uninstall_storage_only o :
    op_dry o = true -> (match o with OpRollback _ | OpUninstall _ => True | _ => False end) ->
    all_eff storage_read (op_prog rn ns o).
  Proof.
    destruct o; simpl; intros H Hk; try contradiction.
    - now apply rollback_dry_silent.
    - now apply uninstall_dry_silent.
  Qed.
End DryPrograms.

(* ------------------------------------------------------------------ *)
(* 4. semantics                                                         *)

Section GenericHandler.
  Variable K : Type.
  Variable kh : forall e : eff, K -> K * resp e * list kev.
  Variable dresp : forall e : eff, resp e.

  (* what a non-mutating effect leaves alone, for EVERY cluster handler *)
  Definition quiet (s s' : rstate K) : Prop :=
    led s' = led s /\ nwrites s' = nwrites s /\ nmut s' = nmut s /\ dead s' = dead s /\
    exists evs, tr s' = (tr s ++ map TKube evs)%list.

  Lemma quiet_refl s : quiet s s.
  Proof. repeat split; auto. exists []. simpl. now rewrite app_nil_r. Qed.

  Lemma quiet_trans a b c : quiet a b -> quiet b c -> quiet a c.
  Proof.
    intros (A1 & A2 & A3 & A4 & [e1 A5]) (B1 & B2 & B3 & B4 & [e2 B5]).
    repeat split; try congruence.
    exists (e1 ++ e2)%list. rewrite B5, A5, map_app, app_assoc. reflexivity.
  Qed.

  Lemma step_quiet f e s : non_mutating e -> quiet s (fst (step K kh dresp f e s)).
  Proof.
    intros [Hw Hm]. unfold step. rewrite Hw, Hm. simpl.
    rewrite andb_false_r. simpl.
    destruct (dead s) eqn:Hd.
    - destruct (is_cluster_call e); simpl.
      + apply quiet_refl.
      + destruct (storage_apply dresp e (led s)) as [[? ?] ?]. simpl. apply quiet_refl.
    - destruct (is_cluster_call e).
      + destruct (kh e (ks s)) as [[k' r] evs]. simpl. repeat split; auto. now exists evs.
      + destruct (storage_apply dresp e (led s)) as [[? ?] ?]. simpl. apply quiet_refl.
  Qed.

  Lemma run_quiet {A} f (p : prog A) s : all_eff non_mutating p -> quiet s (fst (run K kh dresp f p s)).
  Proof.
    intros H. apply run_all_eff with (Q := non_mutating); auto.
    - apply quiet_refl.
    - apply quiet_trans.
    - intros. now apply step_quiet.
  Qed.

  Lemma Forall_not_tstore_kube evs : Forall (fun t => is_tstore t = false) (map TKube evs).
  Proof. induction evs; simpl; constructor; auto. Qed.

  (* ledger unchanged, no storage write logged, no crash point reached *)
  Theorem dry_generic rn ns o f l k :
    op_dry o = true ->
    fst (fst (fst (run_op K kh dresp rn ns o f l k))) = l /\
    Forall (fun t => is_tstore t = false) (snd (run_op K kh dresp rn ns o f l k)) /\
    snd (fst (run_op K kh dresp rn ns o f l k)) <> OCrashed.
  Proof.
    intros H. unfold run_op.
    pose proof (run_quiet f (op_prog rn ns o) (mkR l k 0 0 false []) (op_dry_non_mutating rn ns o H)) as Hq.
    pose proof (run_all_ret K kh dresp not_crashed f (op_prog rn ns o) (op_dry_not_crashed rn ns o H)
                  (mkR l k 0 0 false [])) as Hr.
    destruct (run K kh dresp f (op_prog rn ns o) (mkR l k 0 0 false [])) as [s out]. simpl in *.
    destruct Hq as (H1 & _ & _ & H4 & [evs H5]). simpl in *.
    repeat split; auto.
    - rewrite H5. apply Forall_not_tstore_kube.
    - rewrite H4. exact Hr.
  Qed.
End GenericHandler.

(* ---- the object-store handler ---- *)

Lemma k_existing_objs rn ns rs : forall k take acc,
  objs (fst (k_existing rn ns k rs take acc)) = objs k.
Proof.
  induction rs as [|r t IH]; intros k take acc; simpl; auto.
  destruct (fault_hits k VGet (rkey r)); simpl; auto.
  destruct (aget (rkey r) (objs k)); auto.
  destruct (take || owned_by rn ns f); simpl; auto.
Qed.

Definition still (s s' : rstate kstate) : Prop :=
  led s' = led s /\ objs (ks s') = objs (ks s) /\ tr s' = tr s /\ dead s' = dead s /\
  nwrites s' = nwrites s /\ nmut s' = nmut s.

Lemma still_refl s : still s s.
Proof. repeat split. Qed.

Lemma still_trans a b c : still a b -> still b c -> still a c.
Proof. unfold still. intuition congruence. Qed.

Lemma step_still rn ns f e s :
  silent e -> still s (fst (step kstate (kube_handle rn ns) dead_resp f e s)).
Proof.
  intros Hs. unfold step.
  destruct e; simpl in Hs; try contradiction; simpl; rewrite ?andb_false_r; simpl.
  - destruct (dead s); simpl; apply still_refl.
  - destruct (dead s); simpl; apply still_refl.
  - destruct (dead s); simpl; apply still_refl.
  - destruct (dead s) eqn:Hd; simpl; [apply still_refl|].
    pose proof (k_existing_objs rn ns rs (ks s) take []) as Ho.
    destruct (k_existing rn ns (ks s) rs take []) as [k' r]. simpl in *.
    repeat split; auto. now rewrite app_nil_r.
Qed.

Lemma run_still rn ns {A} f (p : prog A) s :
  all_eff silent p -> still s (fst (run kstate (kube_handle rn ns) dead_resp f p s)).
Proof.
  intros H. apply run_all_eff with (Q := silent); auto.
  - apply still_refl.
  - apply still_trans.
  - intros. now apply step_still.
Qed.

Theorem dry_store rn ns c w :
  op_dry (oc_op c) = true ->
  fst (fst (run_store_op rn ns c w)) = w /\
  snd (run_store_op rn ns c w) = [] /\
  snd (fst (run_store_op rn ns c w)) <> OCrashed.
Proof.
  intros H. unfold run_store_op, run_op.
  set (k0 := mkK (w_objs w) (cf_k (oc_cf c)) (cf_h (oc_cf c)) (cf_wait (oc_cf c))).
  pose proof (run_still rn ns (oc_sf c) (op_prog rn ns (oc_op c)) (mkR (w_led w) k0 0 0 false [])
                (op_dry_silent rn ns (oc_op c) H)) as Hq.
  pose proof (run_all_ret kstate (kube_handle rn ns) dead_resp not_crashed (oc_sf c) (op_prog rn ns (oc_op c))
                (op_dry_not_crashed rn ns (oc_op c) H) (mkR (w_led w) k0 0 0 false [])) as Hr.
  destruct (run kstate (kube_handle rn ns) dead_resp (oc_sf c) (op_prog rn ns (oc_op c))
                (mkR (w_led w) k0 0 0 false [])) as [s out]. simpl in *.
  destruct Hq as (H1 & H2 & H3 & H4 & _). simpl in *.
  repeat split.
  - rewrite H1, H2. now destruct w.
  - exact H3.
  - rewrite H4. exact Hr.
Qed.

(* with the dry flag computed from a spelling *)
Corollary dry_store_spelled rn ns o sf cf w b opt :
  (b = true \/ In opt dry_spellings) ->
  let c := mkOp (set_dry_op o (is_dry_run b opt)) sf cf in
  fst (fst (run_store_op rn ns c w)) = w /\
  snd (run_store_op rn ns c w) = [] /\
  snd (fst (run_store_op rn ns c w)) <> OCrashed.
Proof.
  intros H c. apply dry_store. subst c. simpl.
  apply is_dry_run_spec in H. rewrite H. destruct o; reflexivity.
Qed.

(* client-only: the run does not even start an effect; every component of the interpreter
   state, the cluster state included, is literally untouched, for every handler *)
Theorem client_only_silent_run K kh dresp rn ns fl cid vid mani hks f l k :
  f_dry_run fl = true -> f_client_only fl = true ->
  run_op K kh dresp rn ns (OpInstall fl cid vid mani hks) f l k = (l, k, OOk, []).
Proof.
  intros H1 H2. unfold run_op. simpl.
  rewrite (install_client_only_no_effect rn ns fl cid vid mani hks H1 H2). reflexivity.
Qed.

(* ---- the forms stated in Props/C06.v ---- *)
From Helm Require Import Gen.DryRunSpellings.

Lemma spellings_all :
  (forall b opt, is_dry_run b opt = (b || existsb (String.eqb opt) install_dry_spellings)) /\
  (forall b opt, is_dry_run b opt = true <-> b = true \/ In opt ["client"; "server"; "true"]) /\
  (forall opt, is_dry_run true opt = true) /\
  is_dry_run false "client" = true /\ is_dry_run false "server" = true /\ is_dry_run false "true" = true /\
  is_dry_run false "none" = false /\ is_dry_run false "false" = false /\ is_dry_run false "" = false.
Proof.
  split; [exact is_dry_run_tbl_eq|].
  split; [exact is_dry_run_spec|].
  split; [exact bool_alone_is_dry|].
  repeat split; reflexivity.
Qed.

Lemma op_dry_effects (rn ns : string) (o : op) :
  f_dry_run (op_flags o) = true ->
  all_eff (fun e => match e with
                    | SHistory | SDeployedAll | SGet _ | KExisting _ _ => True
                    | _ => False
                    end) (op_prog rn ns o)
  /\ all_eff (fun e => is_storage_write e = false /\ is_cluster_mutation e = false) (op_prog rn ns o).
Proof. intros H. split; [exact (op_dry_silent rn ns o H) | exact (op_dry_non_mutating rn ns o H)]. Qed.

Lemma rollback_uninstall_dry_effects (rn ns : string) (fl : flags) :
  f_dry_run fl = true ->
  all_eff (fun e => match e with SHistory | SDeployedAll | SGet _ => True | _ => False end) (rollback rn ns fl) /\
  all_eff (fun e => match e with SHistory | SDeployedAll | SGet _ => True | _ => False end) (uninstall fl).
Proof. intros H. split; [exact (rollback_dry_silent rn ns fl H) | exact (uninstall_dry_silent fl H)]. Qed.

Lemma dry_generic' :
  forall (K : Type) (kh : forall e : eff, K -> K * resp e * list kev) (dresp : forall e, resp e)
         (rn ns : string) (o : op) (f : sfaults) (l : list release) (k : K),
    f_dry_run (op_flags o) = true ->
    fst (fst (fst (run_op K kh dresp rn ns o f l k))) = l /\
    Forall (fun t => match t with TStore _ _ _ => false | TKube _ => true end = true)
           (snd (run_op K kh dresp rn ns o f l k)) /\
    snd (fst (run_op K kh dresp rn ns o f l k)) <> OCrashed.
Proof.
  intros K kh dresp rn ns o f l k H.
  destruct (dry_generic K kh dresp rn ns o f l k H) as (H1 & H2 & H3).
  repeat split; auto.
  eapply Forall_impl; [|exact H2]. intros t Ht. destruct t; simpl in *; congruence.
Qed.

(* ---- examples ---- *)
Definition ex_res (n : string) : res := mkRes "ConfigMap" n [("d:k", "v")].
Definition ex_hook : hook := mkHook (mkRes "ConfigMap" "h" []) [PreInstall; PreUpgrade; PreRollback; PreDelete] 0%Z [].
Definition ex_flags (dry : bool) : flags := mkFlags true true false true 2 false dry false false 0.
Definition ex_world : world :=
  mkW [mkRelease 1 SSuperseded 1 1 [ex_res "a"] [ex_hook]; mkRelease 2 SDeployed 2 1 [ex_res "a"] [ex_hook]]
      [("ConfigMap/a", [("d:k", "v")])].


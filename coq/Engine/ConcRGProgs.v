(* C09 — install (without --replace, without --atomic) and upgrade (without --atomic, without
   history pruning) follow the locking protocol of ConcRG.v, for ALL other flags, charts,
   values, manifests and hooks. *)
From Coq Require Import List String Bool Arith ZArith Lia.
From Helm Require Import Common.Assoc Engine.Types Engine.Eff Engine.Ops Engine.Cluster Engine.Seq Engine.SeqProofs
                         Engine.Conc Engine.ConcProofs Engine.ConcLocal Engine.ConcProofsB Engine.ConcRG.
Import ListNotations.
Local Open Scope prog_scope.

(* ---- effects that keep the owner in its critical section unchanged ---- *)
Definition crit_keep (v : nat) (e : eff) : Prop :=
  match e with
  | SUpdate y => rev y = v /\ is_pending (st y) = true
  | SCreate _ | SDelete _ => False
  | _ => True
  end.

Lemma P_crit_bind {A B} h v (p : prog A) (f : A -> prog B) :
  all_eff (crit_keep v) p -> (forall a, P_crit h v (f a)) -> P_crit h v (bind p f).
Proof.
  intros Hp Hf. induction p as [a|e k IH]; simpl in *; auto.
  destruct Hp as [He Hk].
  destruct e; simpl in *; try contradiction; try (intros rr; apply IH; apply Hk).
  left. destruct He as [H1 H2]. repeat (split; auto).
Qed.

(* cluster-only prefixes *)
Definition cluster_only (e : eff) : Prop := is_cluster_call e = true.

Lemma P_read_bind {A B} h (p : prog A) (f : A -> prog B) :
  all_eff cluster_only p -> (forall a, P_read h (f a)) -> P_read h (bind p f).
Proof.
  intros Hp Hf. induction p as [a|e k IH]; simpl in *; auto.
  destruct Hp as [He Hk]. unfold cluster_only in He.
  destruct e; simpl in *; try discriminate; intros rr; apply IH; apply Hk.
Qed.

Lemma P_cap_bind {A B} v (p : prog A) (f : A -> prog B) :
  all_eff cluster_only p -> (forall a, P_cap v (f a)) -> P_cap v (bind p f).
Proof.
  intros Hp Hf. induction p as [a|e k IH]; simpl in *; auto.
  destruct Hp as [He Hk]. unfold cluster_only in He.
  destruct e; simpl in *; try discriminate; intros rr; apply IH; apply Hk.
Qed.

Lemma P_pre_bind {A B} (p : prog A) (f : A -> prog B) :
  all_eff cluster_only p -> (forall a, P_pre (f a)) -> P_pre (bind p f).
Proof.
  intros Hp Hf. induction p as [a|e k IH]; simpl in *; auto.
  destruct Hp as [He Hk]. unfold cluster_only in He.
  destruct e; simpl in *; try discriminate; intros rr; apply IH; apply Hk.
Qed.

(* ---- generic walker for [all_eff] goals ---- *)
Ltac ae_auto tac :=
  repeat (first
    [ exact I
    | solve [tac]
    | match goal with H : forall _, all_eff _ _ |- _ => apply H end
    | match goal with
      | |- all_eff _ (Ret _) => exact I
      | |- all_eff _ (perform _) => unfold perform
      | |- all_eff _ (Eff _ _) => simpl; split; [|intros ?]
      | |- all_eff _ (bind _ _) => apply all_eff_bind; [|intros ?]
      | |- all_eff _ (if ?b then _ else _) => destruct b
      | |- all_eff _ (match ?x with _ => _ end) => destruct x
      | |- _ /\ _ => split
      | |- forall _, _ => intros ?
      end ]).

(* ---- hooks keep the revision pending ---- *)
Section Hooks.
  Variable rl : release.
  Hypothesis Hpend : is_pending (st rl) = true.
  Let v := rev rl.

  Lemma ck_record_release : all_eff (crit_keep v) (record_release rl).
  Proof. unfold record_release. simpl. split; [split; [reflexivity|exact Hpend]|]. intros; exact I. Qed.

  Lemma ck_delete_hook_by_policy h p : all_eff (crit_keep v) (delete_hook_by_policy h p).
  Proof. unfold delete_hook_by_policy. ae_auto idtac. Qed.

  Lemma ck_delete_hooks_by_policy hs p : all_eff (crit_keep v) (delete_hooks_by_policy hs p).
  Proof.
    induction hs as [|h t IH]; simpl; [exact I|].
    apply all_eff_bind; [apply ck_delete_hook_by_policy|]. intros ok. destruct ok; [exact IH|exact I].
  Qed.

  Lemma ck_exec_hooks_loop ev todo : forall done, all_eff (crit_keep v) (exec_hooks_loop rl ev todo done).
  Proof.
    induction todo as [|h t IH]; intros done; simpl.
    - apply ck_delete_hooks_by_policy.
    - ae_auto ltac:(first [apply ck_delete_hook_by_policy | apply ck_delete_hooks_by_policy
                          | (split; [reflexivity|exact Hpend])]).
  Qed.

  Lemma ck_run_hooks fl ev : all_eff (crit_keep v) (run_hooks fl rl ev).
  Proof. unfold run_hooks, exec_hook. destruct (f_no_hooks fl); [exact I|apply ck_exec_hooks_loop]. Qed.
End Hooks.

(* ================================================================== *)
(* install *)
Lemma install_fail_crit fl rel h :
  f_atomic fl = false -> count_deployed h = 0 ->
  P_crit h (rev rel) (install_fail fl rel).
Proof.
  intros Ha Hc. unfold install_fail. rewrite Ha. unfold record_release. simpl.
  right. left. repeat (split; auto).
Qed.

Theorem install_protocol rn ns fl cid vid mani hks :
  f_replace fl = false -> f_atomic fl = false ->
  P_pre (install rn ns fl cid vid mani hks).
Proof.
  intros Hr Ha. unfold install. rewrite Hr.
  destruct (f_dry_run fl) eqn:Hd.
  - (* dry run: cluster lookups only *)
    simpl.
    destruct (negb (f_client_only fl) && negb match stamp_all rn ns mani with [] => true | _ => false end); simpl.
    + intros adopt. destruct adopt; simpl; exact I.
    + exact I.
  - simpl. intros h Hwf.
    destruct (max_rev_of h) as [last|] eqn:Em; simpl; [split; intros; exact I|].
    apply max_rev_of_none in Em. subst h.
    split; [intros _|discriminate].
    set (rel0 := mkRelease 1 SPendingInstall cid vid mani hks).
    (* the rest after the name check, as a function of the adoption lookup *)
    assert (Tail : forall adopt : option (list res),
      P_read []
        match adopt with
        | None => Ret (OErr EConflict)
        | Some adopted =>
            rr <- Ret (Some rel0) ;;
            match rr with
            | None => Ret (OErr EOtherErr)
            | Some rel =>
                e <- storage_create rel 0 ;;
                match e with
                | SExists => Ret (OErr EExistsRev)
                | SNotFound | SFail => Ret (OErr EOtherErr)
                | SOk =>
                    pre <- run_hooks fl rel PreInstall ;;
                    if negb pre then install_fail fl rel else
                    ok <- match stamp_all rn ns mani with
                          | [] => Ret true
                          | _ => match adopted with
                                 | [] => perform (KCreate (stamp_all rn ns mani))
                                 | _ => u <- perform (KUpdate adopted (stamp_all rn ns mani)) ;; Ret (fst u)
                                 end
                          end ;;
                    if negb ok then install_fail fl rel else
                    w <- perform (KWait (stamp_all rn ns mani)) ;;
                    if negb w then install_fail fl rel else
                    post <- run_hooks fl rel PostInstall ;;
                    if negb post then install_fail fl rel else
                    record_release (with_status rel SDeployed) ;;; Ret OOk
                end
            end
        end).
    { intros [adopted|]; [|exact I]. simpl.
      split; [reflexivity|]. split; [reflexivity|].
      split; [|repeat split; exact I].
      intros _.
      assert (Hf : P_crit [] 1 (install_fail fl rel0))
        by (apply (install_fail_crit fl rel0 []); [exact Ha|reflexivity]).
      apply P_crit_bind; [apply (ck_run_hooks rel0 eq_refl)|]. intros pre.
      destruct (negb pre); [exact Hf|].
      apply P_crit_bind.
      { destruct (stamp_all rn ns mani); [exact I|]. destruct adopted; simpl; repeat split; auto. }
      intros ok. destruct (negb ok); [exact Hf|].
      simpl. intros w. destruct (negb w); [exact Hf|].
      apply P_crit_bind; [apply (ck_run_hooks rel0 eq_refl)|]. intros post.
      destruct (negb post); [exact Hf|].
      unfold record_release. simpl. right. left. repeat (split; auto). }
    destruct (negb (f_client_only fl) && negb match stamp_all rn ns mani with [] => true | _ => false end); simpl.
    + intros adopt. apply Tail.
    + apply (Tail (Some [])).
Qed.

(* ================================================================== *)
(* upgrade *)
Lemma upgrade_fail_crit rn ns fl up created h :
  f_atomic fl = false -> P_crit h (rev up) (upgrade_fail rn ns fl up created).
Proof.
  intros Ha. unfold upgrade_fail. rewrite Ha. unfold record_release. simpl.
  right. left. split; [reflexivity|]. split; [reflexivity|]. split; [discriminate|].
  intros rr. unfold P_done.
  destruct (f_cleanup fl && negb match created with [] => true | _ => false end); simpl.
  - split; [reflexivity|]. intros cleaned. destruct (negb cleaned); exact I.
  - exact I.
Qed.

Theorem upgrade_protocol rn ns fl cid vid mani hks :
  f_atomic fl = false -> f_max_history fl = 0 ->
  P_pre (upgrade rn ns fl cid vid mani hks).
Proof.
  intros Ha Hm. unfold upgrade. rewrite Hm. simpl.
  intros h Hwf.
  destruct (max_rev_of h) as [last|] eqn:Em; [|split; intros; exact I].
  unfold lock_free. rewrite Em.
  destruct (is_pending (st last)) eqn:Ep; simpl; [split; [discriminate|intros; exact I]|].
  split; [intros _|discriminate].
  destruct (max_rev_of_some _ _ Em) as [Hlast Hmax].
  assert (Hnext : next_rev h = S (rev last)) by (unfold next_rev; now rewrite Em).
  match goal with |- P_read h (bind _ ?f) => set (F := f) end.
  assert (Hcap : forall cur, P_cap (S (rev last)) (F cur)).
  { intros [current|]; [|exact I]. unfold F. simpl. intros adopt. destruct adopt; [|exact I].
    destruct (f_dry_run fl); [exact I|]. simpl. split; [reflexivity|]. repeat split; exact I. }
  assert (Hread : forall current, In current h ->
            (forall d, In d h -> st d = SDeployed -> rev d = rev current) -> P_read h (F (Some current))).
  { intros current Hin Huniq. unfold F. simpl. intros adopt. destruct adopt as [adopted|]; [|exact I].
    destruct (f_dry_run fl); [exact I|]. simpl.
    split; [now rewrite Hnext|]. split; [reflexivity|]. split; [|repeat split; exact I].
    intros _.
    set (up := mkRelease (S (rev last)) SPendingUpgrade cid vid mani hks).
    assert (Hf : forall created, P_crit h (S (rev last)) (upgrade_fail rn ns fl up created))
      by (intros created; apply (upgrade_fail_crit rn ns fl up created h Ha)).
    assert (Hrc : forall created,
              P_crit h (S (rev last)) (record_release current ;;; upgrade_fail rn ns fl up created)).
    { intros created. unfold record_release. simpl. right. right. left. split; [exact Hin|]. intros rr. apply Hf. }
    apply P_crit_bind; [apply (ck_run_hooks up eq_refl)|]. intros pre.
    destruct (negb pre); [apply Hf|].
    simpl. intros u. destruct (negb (fst u)); [apply Hrc|].
    simpl. intros w. destruct (negb w); [apply Hrc|].
    apply P_crit_bind; [apply (ck_run_hooks up eq_refl)|]. intros post.
    destruct (negb post); [apply Hf|].
    unfold record_release. simpl. right. right. right. exists current.
    split; [exact Hin|]. split; [reflexivity|]. split; [exact Huniq|].
    intros rr. simpl. right. left. split; [reflexivity|]. split; [reflexivity|].
    split; [intros _; apply count_deployed_superseded; exact Huniq|].
    intros e2. destruct e2; exact I. }
  destruct Hwf as [Hnd Hcnt].
  destruct (status_eqb (st last) SDeployed) eqn:Ed.
  - simpl. apply Hread; [exact Hlast|].
    apply status_eqb_eq in Ed. intros d Hd Sd. f_equal. apply (count_le1_unique h d last Hcnt Hd Hlast Sd Ed).
  - simpl. split.
    + destruct (max_rev_of (filter (fun r => status_eqb (st r) SDeployed) h)) as [d|] eqn:Eds; simpl.
      * destruct (max_rev_of_some _ _ Eds) as [Hd _]. apply filter_In in Hd. destruct Hd as [Hdin Hdd].
        apply status_eqb_eq in Hdd.
        apply Hread; [exact Hdin|]. intros d' Hd' Sd'. f_equal.
        apply (count_le1_unique h d' d Hcnt Hd' Hdin Sd' Hdd).
      * apply max_rev_of_none in Eds.
        destruct (status_eqb (st last) SFailed || status_eqb (st last) SSuperseded); simpl; [|exact I].
        apply Hread; [exact Hlast|]. intros d Hd Sd. exfalso.
        assert (In d (filter (fun r => status_eqb (st r) SDeployed) h)).
        { apply filter_In. split; auto. now apply status_eqb_eq. }
        rewrite Eds in H. contradiction.
    + intros ds. rewrite Hnext. destruct (max_rev_of ds) as [d|]; [exact (Hcap (Some d))|].
      destruct (status_eqb (st last) SFailed || status_eqb (st last) SSuperseded);
        [exact (Hcap (Some last))|exact (Hcap None)].
Qed.

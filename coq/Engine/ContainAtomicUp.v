(* C03 (stretch, ledger half of the atomic-upgrade clause) — for every cluster behaviour
   (no storage fault, no crash, no history limit): after a failed atomic upgrade the
   revision it created is failed (or superseded by the aborted recovery: K6), and the
   revision of the automatic rollback, if any, is a copy of the highest revision that was
   superseded or deployed and is deployed or failed — never pending. *)
From Coq Require Import List String Bool Arith ZArith Lia.
From Helm Require Import Common.Assoc Engine.Types Engine.Eff Engine.Ops Engine.Cluster Engine.Seq
  Engine.SeqProofs Engine.HooksProofsTrace Engine.HooksProofsGate Engine.ContainLedger Engine.ContainProofs
  Engine.ContainDeployed Engine.ContainAtomic Engine.ContainRollback.
Import ListNotations.
Local Open Scope prog_scope.

Definition good_status (s : status) : Prop := s = SSuperseded \/ s = SDeployed.

Lemma in_upd_strong x l y :
  has_rev (rev x) l = true -> In y (upd x l) -> y = x \/ (In y l /\ rev y <> rev x).
Proof.
  unfold upd. intros ->. unfold replace_rev. intros H. apply in_map_iff in H.
  destruct H as (z & Hz & Hin). destruct (Nat.eqb (rev z) (rev x)) eqn:E.
  - left. auto.
  - right. subst y. apply Nat.eqb_neq in E. auto.
Qed.

Lemma in_upd_weak x l y : In y (upd x l) -> y = x \/ In y l.
Proof.
  unfold upd. destruct (has_rev (rev x) l) eqn:E; auto.
  intros H. destruct (in_upd_strong x l y E) as [G|[G _]]; auto. unfold upd. now rewrite E.
Qed.

Lemma in_supersede : forall ds l y,
  In y (supersede ds l) -> In y l \/ exists d, In d ds /\ y = with_status d SSuperseded.
Proof.
  induction ds as [|d t IH]; simpl; intros l y H; auto.
  apply IH in H. destruct H as [H|(d' & Hd & E)].
  - apply in_upd_weak in H. destruct H as [->|H]; auto. right. exists d. auto.
  - right. exists d'. auto.
Qed.

Lemma revs_supersede : forall ds l, revs (supersede ds l) = revs l.
Proof. induction ds as [|d t IH]; simpl; intros l; auto. rewrite IH. apply revs_upd. Qed.

Lemma upd_member_stable x l : NoDup (revs l) -> In x l -> upd x l = l.
Proof.
  intros Hn Hx. unfold upd. destruct (has_rev (rev x) l); auto.
  unfold replace_rev. rewrite <- (map_id l) at 2. apply map_ext_in.
  intros y Hy. destruct (Nat.eqb (rev y) (rev x)) eqn:E; auto.
  apply Nat.eqb_eq in E. symmetry. eapply nodup_same_rev; eauto.
Qed.

Lemma nodup_snoc l x : NoDup (revs l) -> has_rev (rev x) l = false -> NoDup (revs (l ++ [x])).
Proof.
  intros Hn Hh. unfold revs. rewrite map_app. simpl.
  apply has_rev_false_notin in Hh.
  assert (G : forall (xs : list nat) (y : nat), NoDup xs -> ~ In y xs -> NoDup (xs ++ [y])).
  { clear. induction xs as [|a xs IH]; simpl; intros y Hn Hy.
    - constructor; [tauto|constructor].
    - inversion Hn; subst. constructor.
      + rewrite in_app_iff. simpl. intros [Hx|[Hx|[]]]; [tauto|]. subst. apply Hy. now left.
      + apply IH; auto. }
  apply G; auto.
Qed.

Lemma upd_snoc_status up s l0 :
  has_rev (rev up) l0 = false -> upd (with_status up s) (l0 ++ [up]) = (l0 ++ [with_status up s])%list.
Proof.
  intros Hh. unfold upd. simpl rev.
  assert (E : has_rev (rev up) (l0 ++ [up]) = true).
  { unfold has_rev. rewrite existsb_app. simpl. rewrite Nat.eqb_refl. now rewrite orb_true_r. }
  rewrite E. unfold replace_rev. rewrite map_app. simpl. rewrite Nat.eqb_refl.
  f_equal. apply (replace_rev_absent (with_status up s)). exact Hh.
Qed.

Section AtomicUp.
  Variable dresp : forall e : eff, resp e.
  Notation lrun := (@lrun dresp).
  Variable rn ns : string.

  Ltac lbind H l1 a H1 := apply lrun_bind_inv in H; destruct H as (l1 & a & H1 & H).
  Ltac lret H := apply lrun_ret_inv in H; destruct H as [? ?]; subst.
  Ltac lclu H r := apply lrun_cluster_inv in H; [destruct H as [r H]|reflexivity].
  Ltac case_if H := match type of H with ContainLedger.lrun (if ?c then _ else _) _ _ _ => destruct c eqn:? end.
  Ltac lrec H :=
    first [ apply lrun_supdate_inv in H; cbv beta in H
          | let l3 := fresh "l" in let x := fresh "x" in let Hr := fresh "Hr" in
            lbind H l3 x Hr; apply lrun_record_release in Hr; subst l3 ].

  (* what the new revisions may look like *)
  Definition new_rev_ok (l0 : list release) (last : release) (y : release) : Prop :=
    (rev y = S (rev last) /\ (st y = SFailed \/ st y = SSuperseded))
    \/
    (rev y = S (S (rev last)) /\ (st y = SFailed \/ st y = SDeployed) /\
     exists g, In g l0 /\ good_status (st g) /\
               (forall x, In x l0 -> good_status (st x) -> rev x <= rev g) /\
               manifest y = manifest g /\ hooks y = hooks g /\
               chart_id y = chart_id g /\ config_id y = config_id g).

  (* upgrade_fail with atomic, from the ledger l0 ++ [up] *)
  Lemma upgrade_fail_atomic fl up created l0 last l' out :
    f_atomic fl = true -> NoDup (revs l0) -> (forall x, In x l0 -> rev x <> 0) ->
    max_rev_of l0 = Some last -> rev up = S (rev last) ->
    lrun (upgrade_fail rn ns fl up created) (l0 ++ [up]) l' out ->
    forall y, In y l' -> ~ In (rev y) (revs l0) -> new_rev_ok l0 last y.
  Proof.
    intros Hat Hnd Hnz Hlast Hrev H.
    assert (Hh : has_rev (rev up) l0 = false).
    { destruct (has_rev (rev up) l0) eqn:E; auto. apply has_rev_revs in E.
      unfold revs in E. apply in_map_iff in E. destruct E as (x & Ex & Hx).
      pose proof (max_rev_of_ge _ _ Hlast _ Hx). lia. }
    unfold upgrade_fail in H. rewrite Hat in H.
    lrec H. rewrite (upd_snoc_status up SFailed l0 Hh) in H.
    set (upF := with_status up SFailed) in *.
    set (l3 := (l0 ++ [upF])%list) in *.
    assert (Hl3 : forall y, In y l3 -> ~ In (rev y) (revs l0) -> new_rev_ok l0 last y).
    { intros y Hy Hn. unfold l3 in Hy. apply in_app_or in Hy. destruct Hy as [Hy|[<-|[]]].
      - exfalso. apply Hn. unfold revs. now apply in_map.
      - left. split; [exact Hrev|]. left. reflexivity. }
    lbind H l4 cleaned Hc.
    assert (l4 = l3).
    { case_if Hc.
      - unfold perform in Hc. lclu Hc r. lret Hc. auto.
      - lret Hc. auto. }
    subst l4. clear Hc.
    destruct cleaned; cbv beta iota delta [negb] in H; [|lret H; exact Hl3].
    apply lrun_shistory_inv in H.
    set (isgood := fun r : release => status_eqb (st r) SSuperseded || status_eqb (st r) SDeployed) in *.
    assert (Egood : filter isgood l3 = filter isgood l0).
    { unfold l3. rewrite filter_app. simpl. rewrite app_nil_r. reflexivity. }
    rewrite Egood in H.
    destruct (max_rev_of (filter isgood l0)) as [g|] eqn:Hg; [|lret H; exact Hl3].
    assert (Hgin : In g l0 /\ good_status (st g)).
    { apply max_rev_of_in in Hg. apply filter_In in Hg. destruct Hg as [Hi Hs]. split; auto.
      unfold isgood in Hs. apply orb_true_iff in Hs. destruct Hs as [Hs|Hs]; apply status_eqb_eq in Hs; [left|right]; auto. }
    destruct Hgin as [Hgin Hgst].
    assert (Hgmax : forall x, In x l0 -> good_status (st x) -> rev x <= rev g).
    { intros x Hx Hs. eapply max_rev_of_ge; [exact Hg|]. apply filter_In. split; auto.
      unfold isgood. destruct Hs as [-> | ->]; reflexivity. }
    lbind H l5 r Hroll. lret H.
    assert (Hnd3 : NoDup (revs l3)) by (apply nodup_snoc; auto).
    apply rollback_ledger in Hroll; [|reflexivity|reflexivity].
    destruct Hroll as [[-> _]|(cur & pr & Hcur & Hpr & Hh3 & Hshape)]; [exact Hl3|].
    (* cur = the failed upgrade revision; pr = g *)
    assert (Ecur : cur = upF).
    { assert (Hci : In cur l3) by now apply max_rev_of_in.
      assert (Hui : In upF l3) by (unfold l3; apply in_or_app; right; now left).
      pose proof (max_rev_of_ge _ _ Hcur _ Hui) as G1.
      eapply nodup_same_rev; eauto.
      unfold l3 in Hci. apply in_app_or in Hci. destruct Hci as [Hci|[<-|[]]]; auto.
      pose proof (max_rev_of_ge _ _ Hlast _ Hci). simpl in G1. lia. }
    subst cur.
    assert (Epr : pr = g).
    { apply find_some in Hpr. destruct Hpr as [Hpi Hpe]. apply Nat.eqb_eq in Hpe.
      simpl f_version in Hpe.
      assert (Hg0 : rev g <> 0) by now apply Hnz.
      destruct (rev g) eqn:Eg; [congruence|].
      eapply nodup_same_rev; [exact Hnd3|exact Hpi| |congruence].
      unfold l3. apply in_or_app. now left. }
    subst pr.
    set (tgt := tgt_of upF g) in *.
    assert (Hok_tgt : forall s, s = SFailed \/ s = SDeployed -> new_rev_ok l0 last (with_status tgt s)).
    { intros s Hs. right. simpl. split; [rewrite Hrev; reflexivity|]. split; auto.
      exists g. repeat split; auto. }
    assert (Hok_up : forall s, s = SFailed \/ s = SSuperseded -> new_rev_ok l0 last (with_status upF s)).
    { intros s Hs. left. simpl. split; auto. }
    assert (Hh_tgt : forall l, revs l = revs (l3 ++ [tgt]) -> has_rev (rev (with_status tgt SFailed)) l = true).
    { intros l E. apply has_rev_revs. rewrite E. unfold revs. rewrite map_app. apply in_or_app. right. now left. }
    (* membership in l3 ++ [tgt] *)
    assert (Hl2 : forall y, In y (l3 ++ [tgt]) -> ~ In (rev y) (revs l0) -> y = upF \/ y = tgt).
    { intros y Hy Hn. apply in_app_or in Hy. destruct Hy as [Hy|[<-|[]]]; auto.
      unfold l3 in Hy. apply in_app_or in Hy. destruct Hy as [Hy|[<-|[]]]; auto.
      exfalso. apply Hn. unfold revs. now apply in_map. }
    intros y Hy Hn.
    cbv zeta in Hshape.
    destruct Hshape as [[_ Hs]|[_ Hs]].
    - (* the rollback failed *)
      destruct Hs as [-> |[-> | ->]].
      + apply in_upd_strong in Hy; [|apply Hh_tgt; reflexivity].
        destruct Hy as [->|[Hy Hr]]; [apply Hok_tgt; auto|].
        destruct (Hl2 _ Hy Hn) as [-> | ->]; [apply (Hok_up SFailed); auto|now elim Hr].
      + apply in_upd_strong in Hy; [|apply Hh_tgt; apply revs_upd].
        destruct Hy as [->|[Hy Hr]]; [apply Hok_tgt; auto|].
        apply in_upd_weak in Hy. destruct Hy as [->|Hy]; [apply (Hok_up SSuperseded); auto|].
        destruct (Hl2 _ Hy Hn) as [-> | ->]; [apply (Hok_up SFailed); auto|now elim Hr].
      + apply in_upd_strong in Hy; [|apply Hh_tgt; apply revs_upd].
        destruct Hy as [->|[Hy Hr]]; [apply Hok_tgt; auto|].
        apply in_upd_weak in Hy. destruct Hy as [->|Hy]; [apply (Hok_up SFailed); auto|].
        destruct (Hl2 _ Hy Hn) as [-> | ->]; [apply (Hok_up SFailed); auto|now elim Hr].
    - (* the rollback succeeded *)
      subst l5.
      apply in_upd_strong in Hy.
      2:{ apply has_rev_revs. rewrite revs_supersede. unfold revs. rewrite map_app. apply in_or_app. right. now left. }
      destruct Hy as [->|[Hy Hr]]; [apply Hok_tgt; auto|].
      apply in_supersede in Hy. destruct Hy as [Hy|(d & Hd & ->)].
      + destruct (Hl2 _ Hy Hn) as [-> | ->]; [apply (Hok_up SFailed); auto|now elim Hr].
      + (* a superseded deployed revision is an old one *)
        apply filter_In in Hd. destruct Hd as [Hd Hsd]. apply status_eqb_eq in Hsd.
        exfalso. apply in_app_or in Hd. destruct Hd as [Hd|[<-|[]]]; [|discriminate].
        unfold l3 in Hd. apply in_app_or in Hd. destruct Hd as [Hd|[<-|[]]]; [|discriminate].
        apply Hn. simpl. unfold revs. now apply in_map.
  Qed.

  Theorem atomic_upgrade_ledger_lrun fl cid vid mani hks l0 l' c :
    f_atomic fl = true -> f_dry_run fl = false -> f_max_history fl = 0 ->
    NoDup (revs l0) -> (forall x, In x l0 -> rev x <> 0) ->
    lrun (upgrade rn ns fl cid vid mani hks) l0 l' (OErr c) ->
    forall y, In y l' -> ~ In (rev y) (revs l0) ->
      exists last, max_rev_of l0 = Some last /\ new_rev_ok l0 last y.
  Proof.
    intros Hat Hdry Hmh Hnd Hnz H.
    unfold upgrade in H. rewrite Hdry, Hmh in H. cbv beta iota zeta in H.
    apply lrun_shistory_inv in H.
    destruct (max_rev_of l0) as [last|] eqn:Hlast.
    2:{ lret H. intros y. apply no_new_rev. auto. }
    case_if H.
    { lret H. intros y. apply no_new_rev. auto. }
    lbind H la cur Ha.
    assert (la = l0 /\ forall current, cur = Some current -> In current l0) as [-> Hcur].
    { case_if Ha.
      - lret Ha. split; auto. intros current E. inversion E; subst. now apply max_rev_of_in.
      - apply lrun_sdeployed_inv in Ha.
        destruct (max_rev_of (filter (fun r => status_eqb (st r) SDeployed) l0)) as [dd|] eqn:Hdd.
        + lret Ha. split; auto. intros current E. inversion E; subst.
          apply max_rev_of_in in Hdd. apply filter_In in Hdd. tauto.
        + case_if Ha; lret Ha; split; auto; intros current E; inversion E; subst.
          now apply max_rev_of_in. }
    clear Ha.
    destruct cur as [current|].
    2:{ lret H. intros y. apply no_new_rev. auto. }
    specialize (Hcur _ eq_refl).
    unfold perform in H. simpl in H. lclu H adopt.
    destruct adopt as [adopted|].
    2:{ lret H. intros y. apply no_new_rev. auto. }
    apply lrun_screate_inv in H.
    destruct H as [[Hh H]|[Hh H]].
    { lret H. intros y. apply no_new_rev. auto. }
    set (up := mkRelease (S (rev last)) SPendingUpgrade cid vid mani hks) in *.
    set (l2 := (l0 ++ [up])%list) in *.
    assert (Hs : upd up l2 = l2) by (apply upd_last_stable; exact Hh).
    assert (Hnd2 : NoDup (revs l2)) by (apply nodup_snoc; auto).
    assert (Hc2 : upd current l2 = l2).
    { apply upd_member_stable; auto. unfold l2. apply in_or_app. now left. }
    assert (Hfail : forall cr lx o, lrun (upgrade_fail rn ns fl up cr) l2 lx o ->
                     forall y, In y lx -> ~ In (rev y) (revs l0) ->
                       exists last', Some last = Some last' /\ new_rev_ok l0 last' y).
    { intros cr lx o Hf y Hy Hn. exists last. split; auto.
      eapply (upgrade_fail_atomic fl up cr l0 last lx o); eauto. }
    lbind H l3 pre Hpre. apply (hooks_stable dresp _ _ _ _ _ _ Hs) in Hpre. subst l3.
    destruct pre; cbv beta iota delta [negb] in H; [|eapply Hfail; eauto].
    lclu H u.
    destruct (fst u); cbv beta iota in H.
    2:{ lrec H. rewrite Hc2 in H. eapply Hfail; eauto. }
    lclu H w.
    destruct w; cbv beta iota in H.
    2:{ lrec H. rewrite Hc2 in H. eapply Hfail; eauto. }
    lbind H l4 post Hpost. apply (hooks_stable dresp _ _ _ _ _ _ Hs) in Hpost. subst l4.
    destruct post; cbv beta iota in H; [|eapply Hfail; eauto].
    lrec H.
    apply lrun_supdate_inv in H.
    assert (Hh2 : has_rev (rev (with_status up SDeployed)) (upd (with_status current SSuperseded) l2) = true).
    { apply has_rev_revs. rewrite revs_upd. unfold l2, revs. rewrite map_app. apply in_or_app. right. now left. }
    rewrite Hh2 in H. apply lrun_ret_inv in H. destruct H as [_ E]. discriminate.
  Qed.
End AtomicUp.

(* for EVERY cluster handler, in terms of the interpreter *)
Theorem atomic_upgrade_ledger :
  forall (K : Type) (kh : forall e : eff, K -> K * resp e * list kev) (dresp : forall e, resp e)
         (rn ns : string) fl cid vid mani hks (l0 : list release) (k0 : K) l' k' c t,
    f_atomic fl = true -> f_dry_run fl = false -> f_max_history fl = 0 ->
    NoDup (revs l0) -> (forall x, In x l0 -> rev x <> 0) ->
    run_op K kh dresp rn ns (OpUpgrade fl cid vid mani hks) nofault l0 k0 = (l', k', OErr c, t) ->
    forall y, In y l' -> ~ In (rev y) (revs l0) ->
      exists last, max_rev_of l0 = Some last /\
        ((rev y = S (rev last) /\ (st y = SFailed \/ st y = SSuperseded))
         \/
         (rev y = S (S (rev last)) /\ (st y = SFailed \/ st y = SDeployed) /\
          exists g, In g l0 /\ (st g = SSuperseded \/ st g = SDeployed) /\
                    (forall x, In x l0 -> (st x = SSuperseded \/ st x = SDeployed) -> rev x <= rev g) /\
                    manifest y = manifest g /\ hooks y = hooks g /\
                    chart_id y = chart_id g /\ config_id y = config_id g)).
Proof.
  intros K kh dresp rn ns fl cid vid mani hks l0 k0 l' k' c t Hat Hdry Hmh Hnd Hnz H.
  unfold run_op in H. cbn [op_prog] in H.
  destruct (run K kh dresp nofault (upgrade rn ns fl cid vid mani hks) (mkR l0 k0 0 0 false [])) as [s out] eqn:E.
  apply run_lrun in E; [|reflexivity]. destruct E as [E Hd]. simpl in E.
  rewrite Hd in H. inversion H; subst.
  exact (atomic_upgrade_ledger_lrun dresp rn ns fl cid vid mani hks l0 (led s) c Hat Hdry Hmh Hnd Hnz E).
Qed.

(* ---- example: install {a,b}; upgrade --atomic to {a',b'} whose wait fails: restored ---- *)
From Helm Require Import Engine.Contain.
Local Open Scope string_scope.
Definition au_history : list hstep :=
  [ clean (OpInstall fl0 1 1 [cmr "a" "v1"; cmr "b" "v1"] []);
    faulted (OpUpgrade fl_atomic 2 2 [cmr "a" "v2"; cmr "b" "v2"] []) (mkCF None None true) ].

Lemma atomic_upgrade_example :
  exists w, final au_history = Some (w, OErr EOtherErr) /\
    statuses (w_led w) = [(1, SSuperseded); (2, SFailed); (3, SDeployed)] /\
    map (fun r => (rev r, manifest r)) (filter (fun r => Nat.eqb (rev r) 3) (w_led w))
      = [(3, [cmr "a" "v1"; cmr "b" "v1"])] /\
    map fst (w_objs w) = ["ConfigMap/a"; "ConfigMap/b"] /\
    aget "d:k" (match aget "ConfigMap/a" (w_objs w) with Some f => f | None => [] end) = Some "v1".
Proof. eexists. vm_compute. repeat split. Qed.

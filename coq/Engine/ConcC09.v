(* C09 — the property theorems, instantiated for install / upgrade, in the form stated in
   Props/C09.v.  The install program is [OpsFix.install_fx] (= Ops.install with the repaired
   replaceRelease; equal to it when --replace is off): [op_prog_fx]. *)
From Coq Require Import List String Bool Arith ZArith Lia.
From Helm Require Import Common.Assoc Engine.Types Engine.Eff Engine.Ops Engine.OpsFix Engine.Cluster Engine.Seq Engine.SeqProofs
                         Engine.Conc Engine.ConcProofs Engine.ConcLocal Engine.ConcLocalFix Engine.ConcProofsB Engine.ConcRG Engine.ConcRGProgs
                         Engine.ConcPrune.
Import ListNotations.
Local Open Scope string_scope.

Section C09.
  Variable K : Type.
  Variable kh : forall e : eff, K -> K * resp e * list kev.
  Variable dresp : forall e : eff, resp e.
  Variable rn ns : string.

  (* operations that never delete a stored revision: install without --atomic (whose failure
     path would uninstall and purge), upgrade without history pruning *)
  Definition no_delete_op (o : op) : Prop :=
    match o with
    | OpInstall fl _ _ _ _ => f_atomic fl = false
    | OpUpgrade fl _ _ _ _ => f_max_history fl = 0
    | _ => False
    end.

  Lemma no_delete_op_prog o : no_delete_op o -> all_eff not_delete (op_prog_fx rn ns o).
  Proof.
    destruct o; simpl; intros H; try contradiction.
    - now apply install_fx_no_delete.
    - now apply upgrade_no_delete.
  Qed.

  Theorem unique_creator (ops : list op) (sch : list nat) (l0 : list release) (k : K) :
    Forall no_delete_op ops -> NoDup (revs l0) ->
    let res := run K kh dresp outcome (map (op_prog_fx rn ns) ops) sch (mkC l0 k []) in
    let tr := c_tr (snd res) in
    NoDup (created_revs tr)
    /\ (forall v, In v (revs (c_led (snd res))) -> ~ In v (revs l0) -> exists i, creators_of v tr = [i])
    /\ (forall v, In v (created_revs tr) -> ~ In v (revs l0) /\ In v (revs (c_led (snd res)))).
  Proof.
    intros HF H0 res tr.
    assert (HF' : Forall (all_eff not_delete) (map (op_prog_fx rn ns) ops)).
    { rewrite Forall_forall in *. intros p Hp. apply in_map_iff in Hp. destruct Hp as [o [<- Ho]].
      apply no_delete_op_prog. auto. }
    destruct (run_unique_creator K kh dresp outcome l0 _ sch k HF' H0) as [G1 [G2 G3]].
    fold res in G1, G2, G3. fold tr in G1, G2, G3.
    split; [exact G1|]. split.
    - intros v Hv Hn. apply G2 in Hv. destruct Hv as [Hv|Hv]; [contradiction|].
      now apply creators_of_unique.
    - intros v Hv. split; [now apply G3|]. apply G2. now right.
  Qed.

  Definition install_or_upgrade (o : op) : Prop :=
    match o with OpInstall _ _ _ _ _ | OpUpgrade _ _ _ _ _ => True | _ => False end.

  Theorem losers_are_inert (ts : list (prog outcome)) (sch : list nat) (l : list release) (k : K) (i : nat) (o : op) :
    nth_error ts i = Some (op_prog_fx rn ns o) -> install_or_upgrade o ->
    let res := run K kh dresp outcome ts sch (mkC l k []) in
    let tr := c_tr (snd res) in
    mutations_guarded false (thread_events i tr) = true
    /\ (thread_created i tr = false ->
        thread_mutated i tr = false
        /\ (thread_refused i tr = true ->
            nth_error (outcomes outcome (fst res)) i = Some (Some (OErr EExistsRev)))).
  Proof.
    intros Hn Ho res tr.
    assert (Hi : inert (fun x => x = OErr EExistsRev) (op_prog_fx rn ns o)).
    { destruct o; simpl in *; try contradiction; [apply install_fx_inert|apply upgrade_inert]. }
    destruct (run_losers_inert K kh dresp _ ts sch l k i _ Hn Hi) as [G1 G2].
    fold res in G1, G2. fold tr in G1, G2. split; [exact G1|].
    intros Hc. destruct (G2 Hc) as [M R]. split; [exact M|].
    intros Hr. destruct (R Hr) as [x [Hx ->]]. exact Hx.
  Qed.

  (* an upgrade whose (first) history read shows a pending last revision returns "another
     operation is in progress" and performs no other effect at all; on an empty history it
     returns "has no deployed releases" *)
  Theorem upgrade_loser_class (ts : list (prog outcome)) sch l k i fl cid vid mani hks :
    nth_error ts i = Some (upgrade rn ns fl cid vid mani hks) ->
    let res := run K kh dresp outcome ts sch (mkC l k []) in
    let evs := thread_events i (c_tr (snd res)) in
    exists h, first_history evs = Some h
      /\ (forall last, max_rev_of h = Some last -> is_pending (st last) = true ->
            nth_error (outcomes outcome (fst res)) i = Some (Some (OErr EPending)) /\ List.length evs = 1)
      /\ (max_rev_of h = None ->
            nth_error (outcomes outcome (fst res)) i = Some (Some (OErr ENoDeployed)) /\ List.length evs = 1).
  Proof.
    intros Hn res evs.
    destruct (run_follows K kh dresp outcome ts sch l k i _ Hn) as [a [Ha Hf]].
    fold res in Ha, Hf. fold evs in Hf.
    destruct (upgrade_first_read _ _ _ _ _ _ _ _ _ Hf) as [c [t [E [h [Hh [G1 G2]]]]]].
    exists h. rewrite E. simpl. split; [exact Hh|]. split.
    - intros last Hl Hp. destruct (G1 last Hl Hp) as [-> ->]. split; [now apply outcomes_nth|reflexivity].
    - intros Hl. destruct (G2 Hl) as [-> ->]. split; [now apply outcomes_nth|reflexivity].
  Qed.

  (* an install (not a dry run) whose name check finds the name in use returns "cannot reuse a
     name that is still in use" and performs no other effect *)
  Theorem install_loser_class (ts : list (prog outcome)) sch l k i fl cid vid mani hks :
    f_dry_run fl = false ->
    nth_error ts i = Some (install_fx rn ns fl cid vid mani hks) ->
    let res := run K kh dresp outcome ts sch (mkC l k []) in
    let evs := thread_events i (c_tr (snd res)) in
    exists h, first_history evs = Some h
      /\ (forall last, max_rev_of h = Some last ->
            f_replace fl && (status_eqb (st last) SUninstalled || status_eqb (st last) SFailed) = false ->
            nth_error (outcomes outcome (fst res)) i = Some (Some (OErr ENameInUse)) /\ List.length evs = 1).
  Proof.
    intros Hd Hn res evs.
    destruct (run_follows K kh dresp outcome ts sch l k i _ Hn) as [a [Ha Hf]].
    fold res in Ha, Hf. fold evs in Hf.
    destruct (install_fx_first_read _ _ _ _ _ _ _ _ _ Hd Hf) as [c [t [E [h [Hh G]]]]].
    exists h. rewrite E. simpl. split; [exact Hh|].
    intros last Hl Hr. destruct (G last Hl Hr) as [-> ->]. split; [now apply outcomes_nth|reflexivity].
  Qed.

  (* operations that follow the locking protocol: install without --replace and without
     --atomic, upgrade without --atomic and without history pruning *)
  Definition protocol_op (o : op) : Prop :=
    match o with
    | OpInstall fl _ _ _ _ => f_replace fl = false /\ f_atomic fl = false
    | OpUpgrade fl _ _ _ _ => f_atomic fl = false /\ f_max_history fl = 0
    | _ => False
    end.

  Lemma protocol_op_prog o : protocol_op o -> P_pre (op_prog_fx rn ns o).
  Proof.
    destruct o; simpl; intros H; try contradiction; destruct H as [H1 H2].
    - simpl. rewrite install_fx_eq by exact H1. now apply install_protocol.
    - now apply upgrade_protocol.
  Qed.

  Theorem quiescent_wf (ops : list op) (sch : list nat) (l0 : list release) (k : K) :
    Forall protocol_op ops ->
    NoDup (revs l0) -> count_deployed l0 <= 1 -> lock_free l0 = true ->
    let res := run K kh dresp outcome (map (op_prog_fx rn ns) ops) sch (mkC l0 k []) in
    NoDup (revs (c_led (snd res))) /\ count_deployed (c_led (snd res)) <= 1.
  Proof.
    intros HF Hn Hc Hl res.
    assert (HF' : Forall P_pre (map (op_prog_fx rn ns) ops)).
    { rewrite Forall_forall in *. intros p Hp. apply in_map_iff in Hp. destruct Hp as [o [<- Ho]].
      apply protocol_op_prog. auto. }
    exact (run_quiescent_wf K kh dresp outcome _ sch l0 k HF' (conj Hn Hc) Hl).
  Qed.

  (* with deletes allowed (install --atomic, history pruning) — ANY programs: a revision is never
     created twice without a successful delete of it in between; every revision of the ledger
     that is not an initial one has exactly one live creation *)
  Theorem live_creator_unique (ts : list (prog outcome)) (sch : list nat) (l0 : list release) (k : K) :
    let res := run K kh dresp outcome ts sch (mkC l0 k []) in
    let live := map snd (live_creations (c_tr (snd res))) in
    NoDup live
    /\ (forall v, In v live -> In v (revs (c_led (snd res))))
    /\ (forall v, In v (revs (c_led (snd res))) -> In v (revs l0) \/ In v live).
  Proof. exact (run_live_creator K kh dresp outcome l0 ts sch k). Qed.

  (* the pruning window, true form: whatever an upgrade --max-history N thread deletes is a
     revision v such that the thread's own latest history read contains at least N-1 revisions
     numbered >= v *)
  Theorem upgrade_prunes_old (ts : list (prog outcome)) sch l k i fl cid vid mani hks :
    nth_error ts i = Some (upgrade rn ns fl cid vid mani hks) ->
    deletes_justified (f_max_history fl - 1) None
      (thread_events i (c_tr (snd (run K kh dresp outcome ts sch (mkC l k []))))).
  Proof. apply run_upgrade_prunes_old. Qed.
End C09.

(* ------------------------------------------------------------------ *)
(* refutations and non-vacuity, by computation on the object-store cluster *)
Definition x_fl0 := mkFlags false false false false 0 false false false false 0.
Definition x_flR := mkFlags false false false true 0 false false false false 0.
Definition x_flA := mkFlags true false false false 0 false false false false 0.
Definition x_cm (n v : string) := mkRes "ConfigMap" n [("d:k", v)].
Definition x_hook := mkHook (mkRes "ConfigMap" "hk" [("d:h", "1")]) [PreUpgrade; PostInstall] 0%Z [].

(* a deployed history: revision 1 superseded, revision 2 deployed *)
Definition x_dep : list release :=
  [mkRelease 1 SSuperseded 1 1 [x_cm "a" "v1"] []; mkRelease 2 SDeployed 2 2 [x_cm "a" "v2"] []].
Definition x_objs : list (string * fields) := [("ConfigMap/a", stamp_fields "rel" "default" [("d:k", "v2")])].

Definition x_run (ops : list op) (sch : list nat) (l : list release) (k : kstate) :=
  run kstate (kube_handle "rel" "default") dead_resp outcome (map (op_prog_fx "rel" "default") ops) sch (mkC l k []).

(* K-C09-1 (repaired in /repo): with the UNREPAIRED program [Ops.install], install --replace
   racing install of a fresh name: both succeed, two deployed; with the repaired program the
   same schedule makes the --replace operation return "another operation is in progress" *)
Definition x_replace_ops := [OpInstall x_flR 4 4 [x_cm "a" "v4"] []; OpInstall x_fl0 2 2 [x_cm "a" "v2"] []].
Definition x_replace_sched := [0; 1; 1; 1; 1; 0; 0; 0; 0; 0; 0; 0; 1; 1].

Lemma replace_race_before_fix :
  let res := run kstate (kube_handle "rel" "default") dead_resp outcome
                 (map (op_prog "rel" "default") x_replace_ops) x_replace_sched (mkC [] (k0 []) []) in
  outcomes outcome (fst res) = [Some OOk; Some OOk] /\ count_deployed (c_led (snd res)) = 2.
Proof. vm_compute. split; reflexivity. Qed.

Lemma replace_race_after_fix :
  let res := x_run x_replace_ops x_replace_sched [] (k0 []) in
  outcomes outcome (fst res) = [Some (OErr EPending); Some OOk] /\ count_deployed (c_led (snd res)) = 1
  /\ thread_mutated 0 (c_tr (snd res)) = false.
Proof. vm_compute. repeat split; reflexivity. Qed.

(* --replace stays excluded from the quiescence theorem because of K1 (C01), which is
   sequential: ONE install --replace on a history whose last revision is failed and an older one
   deployed leaves both deployed *)
Definition x_k1_led : list release :=
  [mkRelease 1 SDeployed 1 1 [x_cm "a" "v1"] []; mkRelease 2 SFailed 2 2 [x_cm "a" "v2"] []].

Lemma quiescent_wf_replace_refuted :
  let res := x_run [OpInstall x_flR 4 4 [x_cm "a" "v4"] []] [] x_k1_led (k0 x_objs) in
  outcomes outcome (fst res) = [Some OOk] /\ count_deployed (c_led (snd res)) = 2.
Proof. vm_compute. split; reflexivity. Qed.

(* upgrade --atomic whose cluster update is rejected once: its automatic rollback does not look
   at the pending status and races the other upgrade: two deployed *)
Definition x_atomic_ops := [OpUpgrade x_flA 7 7 [x_cm "a" "v7"; x_cm "c" "v7"] []; OpUpgrade x_fl0 5 5 [x_cm "a" "v5"] []].
Definition x_atomic_sched := [0; 0; 0; 0; 0; 0; 0; 1; 1; 1; 1; 0; 0; 1; 1; 1].

Lemma quiescent_wf_atomic_refuted :
  let res := x_run x_atomic_ops x_atomic_sched x_dep (mkK x_objs (Some (VCreate, "ConfigMap/c")) None false) in
  count_deployed (c_led (snd res)) = 2.
Proof. vm_compute. reflexivity. Qed.

(* non-vacuity: operations that meet the hypotheses, on a deployed history, interleaved in the
   window between reading the last revision and creating the next record: one wins, the other
   gets "already exists" without touching the cluster *)
Definition x_ok_ops := [OpUpgrade x_fl0 5 5 [x_cm "a" "v5"] [x_hook]; OpUpgrade x_fl0 6 6 [x_cm "b" "v6"] []].
Definition x_ok_sched := [0; 1; 0; 1; 1; 0; 0; 0].

Lemma x_ok_hyps :
  Forall protocol_op x_ok_ops /\ Forall no_delete_op x_ok_ops
  /\ NoDup (revs x_dep) /\ count_deployed x_dep <= 1 /\ lock_free x_dep = true.
Proof.
  split; [repeat constructor|]. split; [repeat constructor|].
  split; [repeat constructor; simpl; intuition discriminate|]. split; [vm_compute; auto|reflexivity].
Qed.

Lemma x_ok_run :
  let res := x_run x_ok_ops x_ok_sched x_dep (k0 x_objs) in
  outcomes outcome (fst res) = [Some (OErr EExistsRev); Some OOk]
  /\ map (fun r => (rev r, st r)) (c_led (snd res)) = [(1, SSuperseded); (2, SSuperseded); (3, SDeployed)]
  /\ creations (c_tr (snd res)) = [(1, 3)]
  /\ thread_mutated 0 (c_tr (snd res)) = false /\ thread_refused 0 (c_tr (snd res)) = true.
Proof. vm_compute. repeat split; reflexivity. Qed.

(* an upgrade that reads while the other's record is pending *)
Lemma x_pending_run :
  let res := x_run x_ok_ops [1; 1; 1; 0] x_dep (k0 x_objs) in
  outcomes outcome (fst res) = [Some (OErr EPending); Some OOk]
  /\ List.length (thread_events 0 (c_tr (snd res))) = 1.
Proof. vm_compute. split; reflexivity. Qed.

(* an install on a name in use *)
Lemma x_name_in_use_run :
  let res := x_run [OpInstall x_fl0 9 9 [x_cm "a" "v9"] []; OpUpgrade x_fl0 5 5 [x_cm "a" "v5"] []] [1; 0] x_dep (k0 x_objs) in
  outcomes outcome (fst res) = [Some (OErr ENameInUse); Some OOk]
  /\ List.length (thread_events 0 (c_tr (snd res))) = 1.
Proof. vm_compute. split; reflexivity. Qed.

(* three concurrent operations meeting the hypotheses: upgrade | install | upgrade *)
Definition x_three_ops :=
  [OpUpgrade x_fl0 5 5 [x_cm "a" "v5"] [x_hook]; OpInstall x_fl0 9 9 [x_cm "a" "v9"] []; OpUpgrade x_fl0 6 6 [x_cm "b" "v6"] []].
Definition x_three_sched := [0; 2; 1; 2; 0; 2; 2; 0; 0; 2; 2; 2].

Lemma x_three_hyps : Forall protocol_op x_three_ops /\ Forall no_delete_op x_three_ops.
Proof. split; repeat constructor. Qed.

Lemma x_three_run :
  let res := x_run x_three_ops x_three_sched x_dep (k0 x_objs) in
  outcomes outcome (fst res) = [Some (OErr EExistsRev); Some (OErr ENameInUse); Some OOk]
  /\ map (fun r => (rev r, st r)) (c_led (snd res)) = [(1, SSuperseded); (2, SSuperseded); (3, SDeployed)]
  /\ creations (c_tr (snd res)) = [(2, 3)].
Proof. vm_compute. repeat split; reflexivity. Qed.

(* install --atomic: the trace-level "one successful create per revision" is false — the failed
   atomic install purges its own record and a later install creates revision 1 again — while the
   live-creation statement holds *)
Definition x_atomic_install_ops := [OpInstall x_flA 4 4 [x_cm "a" "v4"] []; OpInstall x_fl0 2 2 [x_cm "b" "v2"] []].

Lemma unique_creator_atomic_install_refuted :
  let res := x_run x_atomic_install_ops [0; 0; 0; 0; 0; 0; 0; 0; 0; 0; 0; 0] []
                   (mkK [] (Some (VCreate, "ConfigMap/a")) None false) in
  creations (c_tr (snd res)) = [(0, 1); (1, 1)]
  /\ live_creations (c_tr (snd res)) = [(1, 1)]
  /\ outcomes outcome (fst res) = [Some (OErr EOtherErr); Some OOk]
  /\ map (fun r => (rev r, st r)) (c_led (snd res)) = [(1, SDeployed)].
Proof. vm_compute. repeat split; reflexivity. Qed.

(* the pruning window as DESIGN.md stated it ("a stale creator needs at least N intervening
   COMPLETED operations") is false: with max-history 2, ZERO completed operations suffice — the
   stale upgrade prunes the other upgrade's PENDING revision 3 and creates revision 3 itself;
   the first creator's final update then finds no record.  Consistent with [upgrade_prunes_old]:
   N-1 = 1 revision numbered >= 3 was in the pruner's history read. *)
Definition x_prune_led : list release :=
  [mkRelease 1 SDeployed 1 1 [x_cm "a" "v1"] []; mkRelease 2 SFailed 2 2 [x_cm "a" "v2"] []].
Definition x_prune_ops :=
  [OpUpgrade (mkFlags false false false false 2 false false false false 0) 10 10 [x_cm "a" "v10"] [];
   OpUpgrade x_fl0 11 11 [x_cm "a" "v11"] []].
Definition x_prune_sched := [1; 1; 0; 0; 1; 0; 0; 0; 1; 1; 0; 1; 0; 0; 0].

Lemma pruning_window_refuted :
  let res := run_gated kstate (kube_handle "rel" "default") dead_resp outcome
                 (map (op_prog_fx "rel" "default") x_prune_ops) x_prune_sched (mkC x_prune_led (k0 x_objs) []) in
  creations (c_tr (snd res)) = [(1, 3); (0, 3)]
  /\ live_creations (c_tr (snd res)) = [(0, 3)]
  /\ nth_error (outcomes outcome (fst res)) 1 = Some (Some (OErr EOtherErr)).
Proof. vm_compute. repeat split; reflexivity. Qed.

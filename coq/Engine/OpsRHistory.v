(* Histories over the object-store cluster whose operations may carry a FAILING STORAGE READ: the evaluator the
   correspondence run of C01 uses (Run/RunC01.v) and the theorems of Engine/OpsRHistoryProofs.v speak about the
   same function.  A step is a step of Engine/Seq.v or [RRead n c]: the operation c whose n-th read (0-based,
   in execution order) returns an error - [rfail n] of the programs of Engine/OpsR.v under the same interpreter,
   cluster handler and fault plan.  Definitions only. *)
From Coq Require Import List String Bool Arith ZArith.
From Helm Require Import Common.Assoc Engine.Types Engine.Eff Engine.Ops Engine.Cluster Engine.Seq Engine.OpsR.
Import ListNotations.

Inductive rstep := RS (h : hstep) | RRead (n : nat) (c : opcase).

Definition run_store_opR (rn ns : string) (n : nat) (c : opcase) (w : world) : world * outcome * list tev :=
  let k0 := mkK (w_objs w) (cf_k (oc_cf c)) (cf_h (oc_cf c)) (cf_wait (oc_cf c)) in
  let '(s, out) := run kstate (kube_handle rn ns) dead_resp (oc_sf c)
                       (rfail n (op_progR rn ns (oc_op c))) (mkR (w_led w) k0 0 0 false []) in
  (mkW (led s) (objs (ks s)), (if dead s then OCrashed else out), tr s).

Fixpoint run_historyR (rn ns : string) (h : list rstep) (w : world) : list (world * outcome * list tev) :=
  match h with
  | [] => []
  | RS (HOp c) :: t => let '(w', out, tr) := run_store_op rn ns c w in (w', out, tr) :: run_historyR rn ns t w'
  | RS (HEdit e) :: t => let w' := apply_edit w e in (w', OOk, []) :: run_historyR rn ns t w'
  | RRead n c :: t => let '(w', out, tr) := run_store_opR rn ns n c w in (w', out, tr) :: run_historyR rn ns t w'
  end.

(* Release engine — effect signature and resumption programs. *)
From Coq Require Import List String Bool Arith ZArith.
From Helm Require Import Common.Assoc Engine.Types.
Import ListNotations.

Inductive serr := SOk | SExists | SNotFound | SFail.

Inductive eff : Type :=
(* storage reads *)
| SHistory                       (* Query name+owner: every revision of the release *)
| SDeployedAll                   (* Query name+owner+status=deployed *)
| SGet (v : nat)
(* storage writes (driver level) *)
| SCreate (r : release)
| SUpdate (r : release)
| SDelete (v : nat)
(* cluster calls (kube.Interface / Waiter level) *)
| KExisting (rs : list res) (take : bool)   (* existingResourceConflict / requireAdoption *)
| KCreate (rs : list res)
| KUpdate (cur tgt : list res)
| KDelete (rs : list res)
| KWait (rs : list res)
| KWaitDelete (rs : list res)
| KHookWatch (ev : event) (h : hook).

Definition resp (e : eff) : Type :=
  match e with
  | SHistory | SDeployedAll => list release
  | SGet _ => option release
  | SCreate _ | SUpdate _ | SDelete _ => serr
  | KExisting _ _ => option (list res)       (* None: conflict / lookup error; Some l: l already exist *)
  | KCreate _ => bool
  | KUpdate _ _ => (bool * list res)%type    (* ok?, Result.Created *)
  | KDelete _ => bool
  | KWait _ | KWaitDelete _ => bool
  | KHookWatch _ _ => bool
  end.

Definition is_storage_write (e : eff) : bool :=
  match e with SCreate _ | SUpdate _ | SDelete _ => true | _ => false end.

Definition is_cluster_mutation (e : eff) : bool :=
  match e with KCreate _ | KUpdate _ _ | KDelete _ => true | _ => false end.

Definition is_cluster_call (e : eff) : bool :=
  match e with
  | KExisting _ _ | KCreate _ | KUpdate _ _ | KDelete _ | KWait _ | KWaitDelete _ | KHookWatch _ _ => true
  | _ => false
  end.

Inductive prog (A : Type) : Type :=
| Ret (a : A)
| Eff (e : eff) (k : resp e -> prog A).
Arguments Ret {A} a.
Arguments Eff {A} e k.

Fixpoint bind {A B} (p : prog A) (f : A -> prog B) : prog B :=
  match p with
  | Ret a => f a
  | Eff e k => Eff e (fun r => bind (k r) f)
  end.

Declare Scope prog_scope.
Delimit Scope prog_scope with prog.
Notation "x <- p ;; q" := (bind p (fun x => q)) (at level 61, p at next level, right associativity) : prog_scope.
Notation "p ;;; q" := (bind p (fun _ => q)) (at level 61, right associativity) : prog_scope.

Definition perform (e : eff) : prog (resp e) := Eff e (fun r => Ret r).

(* results of operations inside programs *)
Inductive result (A : Type) := ROk (a : A) | RErr (c : errclass).
Arguments ROk {A} a.
Arguments RErr {A} c.

(* The EXPECTED effect skeleton of the release operations: what pkg/action/{install,upgrade,
   rollback,uninstall,history,hooks,action}.go and pkg/storage/storage.go do to the release
   storage driver and to the cluster, in which order, under which option flags, and what each
   failure branch does.  Maintained by hand, statement by statement against the Go source;
   Props/Skeleton.v proves that the table the translator extracts from /repo on every run
   (Gen/ActionSkeleton.v) is EQUAL to this one, and Engine/SkeletonProofs.v proves that the
   model programs of Engine/Ops.v follow it.  Reading guide: notes/SKEL.md.

   Conventions: an [If CErr [Return] []] that is not preceded by a Call/Fn belongs to a call
   the translator ignores (IsReachable, Build, GetWaiter, name validation, rendering, ...). *)
From Coq Require Import List String.
From Helm Require Import Engine.Skeleton.
Import ListNotations.
Local Open Scope string_scope.

Definition expected : table :=
  [ ("Install.Run",
      [ Fn "Install.RunWithContext" "";
        Return ]);
    ("Install.RunWithContext",
      [ If (CNot (CFlag "ClientOnly"))
          [ If CErr
              [ Return ] [] ] [];
        If (CAnd (CNot (CFlag "DryRun")) (CFlag "HideSecret"))
          [ Return ] [];
        Fn "Install.availableName" "";
        If CErr
          [ Return ] [];
        If CErr
          [ Return ] [];
        If (CAnd (CAnd (CNot (CFlag "ClientOnly")) (CNot (CFlag "SkipCRDs"))) CData)
          [ If (CFlag "DryRun")
              []
              [ Call (Other "installCRDs");
                If CErr
                  [ Return ] [] ] ] [];
        If CErr
          [ Return ] [];
        If CErr
          [ Return ] [];
        If CData
          [ Return ] [];
        If CErr
          [ Return ] [];
        If CErr
          [ Return ] [];
        If CErr
          [ Return ] [];
        If (CAnd (CAnd (CNot (CFlag "ClientOnly")) CData) CData)
          [ If (CFlag "TakeOwnership")
              [ Call (KcExisting true) ]
              [ Call (KcExisting false) ];
            If CErr
              [ Return ] [] ] [];
        If (CFlag "DryRun")
          [ Return ] [];
        If (CFlag "CreateNamespace")
          [ If CErr
              [ Return ] [];
            If CErr
              [ Return ] [];
            Call KcCreate;
            If (CAnd CErr CData)
              [ Return ] [] ] [];
        If (CFlag "Replace")
          [ Fn "Install.replaceRelease" "";
            If CErr
              [ Return ] [] ] [];
        Fn "Storage.Create" "";
        If CErr
          [ Return ] [];
        Fn "Install.performInstallCtx" "";
        If CErr
          [ Fn "Install.failRelease" "" ] [];
        Return ]);
    ("Install.performInstallCtx",
      [ Fn "Install.performInstall" "";
        If CData
          [ Return ]
          [ Return ] ]);
    ("Install.performInstall",
      [ If (CNot (CFlag "DisableHooks"))
          [ Fn "Configuration.execHook" "pre-install";
            If CErr
              [ Return ] [] ] [];
        If CData
          [ Call KcCreate ]
          [ If CData
              [ If (CFlag "TakeOwnership")
                  [ Call KcUpdate ]
                  [ Call KcUpdate ] ] [] ];
        If CErr
          [ Return ] [];
        If CErr
          [ Return ] [];
        If (CFlag "WaitForJobs")
          [ Call KcWaitJobs ]
          [ Call KcWait ];
        If CErr
          [ Return ] [];
        If (CNot (CFlag "DisableHooks"))
          [ Fn "Configuration.execHook" "post-install";
            If CErr
              [ Return ] [] ] [];
        Fn "Install.recordRelease" "";
        Return ]);
    ("Install.failRelease",
      [ If (CFlag "Atomic")
          [ Run "Uninstall.Run" ["DisableHooks"];
            If CErr
              [ Return ] [];
            Return ] [];
        Fn "Install.recordRelease" "";
        Return ]);
    ("Install.availableName",
      [ If CErr
          [ Return ] [];
        If (CFlag "DryRun")
          [ Return ] [];
        Fn "Storage.History" "";
        If (COr CErr CData)
          [ Return ] [];
        If (CAnd (CFlag "Replace") CData)
          [ Return ] [];
        Return ]);
    ("Install.recordRelease",
      [ Fn "Storage.Update" "";
        Return ]);
    ("Install.replaceRelease",
      [ Fn "Storage.History" "";
        If (COr CErr CData)
          [ Return ] [];
        If CData
          [ Return ] [];
        If CData
          [ Return ] [];
        Fn "Install.recordRelease" "";
        Return ]);
    ("Upgrade.Run",
      [ Fn "Upgrade.RunWithContext" "";
        Return ]);
    ("Upgrade.RunWithContext",
      [ If CErr
          [ Return ] [];
        If CErr
          [ Return ] [];
        Fn "Upgrade.prepareUpgrade" "";
        If CErr
          [ Return ] [];
        Fn "Upgrade.performUpgrade" "";
        If CErr
          [ Return ] [];
        If (CNot (CFlag "DryRun"))
          [ Fn "Storage.Update" "";
            If CErr
              [ Return ] [] ] [];
        Return ]);
    ("Upgrade.prepareUpgrade",
      [ If CData
          [ Return ] [];
        If (CAnd (CNot (CFlag "DryRun")) (CFlag "HideSecret"))
          [ Return ] [];
        Fn "Storage.Last" "";
        If CErr
          [ If CData
              [ Return ] [];
            Return ] [];
        If CData
          [ Return ] [];
        If CData
          []
          [ Fn "Storage.Deployed" "";
            If CErr
              [ If CData
                  []
                  [ Return ] ] [] ];
        If CErr
          [ Return ] [];
        If CErr
          [ Return ] [];
        If CErr
          [ Return ] [];
        If CErr
          [ Return ] [];
        If CErr
          [ Return ] [];
        If CData
          [ Return ] [];
        Return ]);
    ("Upgrade.performUpgrade",
      [ If CErr
          [ If CData
              [ Return ] [];
            Return ] [];
        If CErr
          [ Return ] [];
        If CErr
          [ Return ] [];
        If (CFlag "TakeOwnership")
          [ Call (KcExisting true) ]
          [ Call (KcExisting false) ];
        If CErr
          [ Return ] [];
        If (CFlag "DryRun")
          [ Return ] [];
        Fn "Storage.Create" "";
        If CErr
          [ Return ] [];
        Fn "Upgrade.releasingUpgrade" "";
        Fn "Upgrade.handleContext" "";
        If CData
          [ Return ]
          [ Return ] ]);
    ("Upgrade.reportToPerformUpgrade",
      [ If CErr
          [ Fn "Upgrade.failRelease" "" ] [] ]);
    ("Upgrade.handleContext",
      [ If CData
          [ Fn "Upgrade.reportToPerformUpgrade" "" ]
          [ Return ] ]);
    ("Upgrade.releasingUpgrade",
      [ If (CNot (CFlag "DisableHooks"))
          [ Fn "Configuration.execHook" "pre-upgrade";
            If CErr
              [ Fn "Upgrade.reportToPerformUpgrade" "";
                Return ] [] ] [];
        Call KcUpdate;
        If CErr
          [ Fn "Configuration.recordRelease" "";
            Fn "Upgrade.reportToPerformUpgrade" "";
            Return ] [];
        If (CFlag "Recreate")
          [ Call (Other "recreate") ] [];
        If CErr
          [ Fn "Configuration.recordRelease" "";
            Fn "Upgrade.reportToPerformUpgrade" "";
            Return ] [];
        If (CFlag "WaitForJobs")
          [ Call KcWaitJobs;
            If CErr
              [ Fn "Configuration.recordRelease" "";
                Fn "Upgrade.reportToPerformUpgrade" "";
                Return ] [] ]
          [ Call KcWait;
            If CErr
              [ Fn "Configuration.recordRelease" "";
                Fn "Upgrade.reportToPerformUpgrade" "";
                Return ] [] ];
        If (CNot (CFlag "DisableHooks"))
          [ Fn "Configuration.execHook" "post-upgrade";
            If CErr
              [ Fn "Upgrade.reportToPerformUpgrade" "";
                Return ] [] ] [];
        Fn "Configuration.recordRelease" "";
        Fn "Upgrade.reportToPerformUpgrade" "" ]);
    ("Upgrade.failRelease",
      [ Fn "Configuration.recordRelease" "";
        If (CAnd (CFlag "CleanupOnFail") CData)
          [ Call KcDelete;
            If CErr
              [ Return ] [] ] [];
        If (CFlag "Atomic")
          [ Run "History.Run" [];
            If CErr
              [ Return ] [];
            If CData
              [ Return ] [];
            Run "Rollback.Run" ["DisableHooks"; "Recreate"; "WaitForJobs"];
            If CErr
              [ Return ] [];
            Return ] [];
        Return ]);
    ("Rollback.Run",
      [ If CErr
          [ Return ] [];
        Fn "Rollback.prepareRollback" "";
        If CErr
          [ Return ] [];
        If (CNot (CFlag "DryRun"))
          [ Fn "Storage.Create" "";
            If CErr
              [ Return ] [] ] [];
        Fn "Rollback.performRollback" "";
        If CErr
          [ If (CAnd (CNot (CFlag "DryRun")) CData)
              [ Fn "Configuration.recordRelease" "" ] [];
            Return ] [];
        If (CNot (CFlag "DryRun"))
          [ Fn "Storage.Update" "";
            If CErr
              [ Return ] [] ] [];
        Return ]);
    ("Rollback.prepareRollback",
      [ If CErr
          [ Return ] [];
        If CData
          [ Return ] [];
        Fn "Storage.Last" "";
        If CErr
          [ Return ] [];
        Fn "Storage.History" "";
        If CErr
          [ Return ] [];
        If CData
          [ Return ] [];
        Fn "Storage.Get" "";
        If CErr
          [ Return ] [];
        Return ]);
    ("Rollback.performRollback",
      [ If (CFlag "DryRun")
          [ Return ] [];
        If CErr
          [ Return ] [];
        If CErr
          [ Return ] [];
        If (CNot (CFlag "DisableHooks"))
          [ Fn "Configuration.execHook" "pre-rollback";
            If CErr
              [ Return ] [] ] [];
        If CErr
          [ Return ] [];
        Call KcUpdate;
        If CErr
          [ Fn "Configuration.recordRelease" "";
            Fn "Configuration.recordRelease" "";
            If (CFlag "CleanupOnFail")
              [ Call KcDelete;
                If CErr
                  [ Return ] [] ] [];
            Return ] [];
        If (CFlag "Recreate")
          [ Call (Other "recreate") ] [];
        If CErr
          [ Return ] [];
        If (CFlag "WaitForJobs")
          [ Call KcWaitJobs;
            If CErr
              [ Fn "Configuration.recordRelease" "";
                Fn "Configuration.recordRelease" "";
                Return ] [] ]
          [ Call KcWait;
            If CErr
              [ Fn "Configuration.recordRelease" "";
                Fn "Configuration.recordRelease" "";
                Return ] [] ];
        If (CNot (CFlag "DisableHooks"))
          [ Fn "Configuration.execHook" "post-rollback";
            If CErr
              [ Return ] [] ] [];
        Fn "Storage.DeployedAll" "";
        If (CAnd CErr CData)
          [ Return ] [];
        Loop
          [ Fn "Configuration.recordRelease" "" ];
        Return ]);
    ("Uninstall.Run",
      [ If CErr
          [ Return ] [];
        If CErr
          [ Return ] [];
        If (CFlag "DryRun")
          [ Fn "Configuration.releaseContent" "";
            If CErr
              [ Return ] [];
            Return ] [];
        If CErr
          [ Return ] [];
        Fn "Storage.History" "";
        If CErr
          [ If (CFlag "IgnoreNotFound")
              [ Return ] [];
            Return ] [];
        If CData
          [ Return ] [];
        If CData
          [ If (CNot (CFlag "KeepHistory"))
              [ Fn "Uninstall.purgeReleases" "";
                If CErr
                  [ Return ] [];
                Return ] [];
            Return ] [];
        If (CNot (CFlag "DisableHooks"))
          [ Fn "Configuration.execHook" "pre-delete";
            If CErr
              [ Return ] [] ] [];
        Fn "Storage.Update" "";
        Fn "Uninstall.deleteRelease" "";
        If CErr
          [ Return ] [];
        Call KcWaitDelete;
        If (CNot (CFlag "DisableHooks"))
          [ Fn "Configuration.execHook" "post-delete" ] [];
        If (CNot (CFlag "KeepHistory"))
          [ Fn "Uninstall.purgeReleases" "";
            If CData
              [ Return ] [];
            Return ] [];
        Fn "Storage.Update" "";
        If CData
          [ Return ] [];
        Return ]);
    ("Uninstall.purgeReleases",
      [ Loop
          [ Fn "Storage.Delete" "";
            If CErr
              [ Return ] [] ];
        Return ]);
    ("Uninstall.deleteRelease",
      [ If CErr
          [ Return ] [];
        If CErr
          [ Return ] [];
        If CData
          [ If CData
              [ Call KcDelete;
                Return ] [];
            Call KcDelete ] [];
        Return ]);
    ("History.Run",
      [ If CErr
          [ Return ] [];
        If CErr
          [ Return ] [];
        Fn "Storage.History" "";
        Return ]);
    ("Configuration.execHook",
      [ Loop
          [ Fn "Configuration.deleteHookByPolicy" "";
            If CErr
              [ Return ] [];
            If CErr
              [ Return ] [];
            Fn "Configuration.recordRelease" "";
            Call KcCreate;
            If CErr
              [ Return ] [];
            If CErr
              [ Return ] [];
            Call (KcWatch "");
            If CErr
              [ Fn "Configuration.outputLogsByPolicy" "";
                Fn "Configuration.deleteHookByPolicy" "";
                Fn "Configuration.deleteHooksByPolicy" "";
                If CErr
                  [ Return ] [];
                Return ] [] ];
        Loop
          [ Fn "Configuration.outputLogsByPolicy" "";
            Fn "Configuration.deleteHookByPolicy" "";
            If CErr
              [ Return ] [] ];
        Return ]);
    ("Configuration.deleteHookByPolicy",
      [ If CData
          [ Return ] [];
        If CData
          [ If CErr
              [ Return ] [];
            Call KcDelete;
            If CData
              [ Return ] [];
            If CErr
              [ Return ] [];
            Call KcWaitDelete;
            If CErr
              [ Return ] [] ] [];
        Return ]);
    ("Configuration.deleteHooksByPolicy",
      [ Loop
          [ Fn "Configuration.deleteHookByPolicy" "";
            If CErr
              [ Return ] [] ];
        Return ]);
    ("Configuration.outputLogsByPolicy",
      [ If CData
          [ Return ] [];
        If CErr
          [ Return ] [];
        If CData
          [ Fn "Configuration.outputContainerLogsForListOptions" "";
            Return ]
          [ If CData
              [ Fn "Configuration.outputContainerLogsForListOptions" "";
                Return ]
              [ Return ] ] ]);
    ("Configuration.outputContainerLogsForListOptions",
      [ If CData
          [ Call (Other "GetPodList");
            If CErr
              [ Return ] [];
            Call (Other "OutputContainerLogsForPodList");
            Return ] [];
        Return ]);
    ("Configuration.recordRelease",
      [ Fn "Storage.Update" "" ]);
    ("Configuration.releaseContent",
      [ If CErr
          [ Return ] [];
        If CData
          [ Fn "Storage.Last" "";
            Return ] [];
        Fn "Storage.Get" "";
        Return ]);
    ("Storage.Get",
      [ Call DGet;
        Return ]);
    ("Storage.Create",
      [ If CData
          [ Fn "Storage.removeLeastRecent" "";
            If (CAnd CErr CData)
              [ Return ] [] ] [];
        Call DCreate;
        Return ]);
    ("Storage.Update",
      [ Call DUpdate;
        Return ]);
    ("Storage.Delete",
      [ Call DDelete;
        Return ]);
    ("Storage.Deployed",
      [ Fn "Storage.DeployedAll" "";
        If CErr
          [ Return ] [];
        If CData
          [ Return ] [];
        Return ]);
    ("Storage.DeployedAll",
      [ Call DDeployed;
        If (CNot CErr)
          [ Return ] [];
        If CData
          [ Return ] [];
        Return ]);
    ("Storage.History",
      [ Call DHistory;
        Return ]);
    ("Storage.removeLeastRecent",
      [ If CData
          [ Return ] [];
        Fn "Storage.History" "";
        If CErr
          [ Return ] [];
        If CData
          [ Return ] [];
        Fn "Storage.Deployed" "";
        If (CAnd CErr CData)
          [ Return ] [];
        Loop
          [ Fn "Storage.deleteReleaseVersion" "" ];
        If CData
          [ Return ]
          [ If CData
              [ Return ]
              [ Return ] ] ]);
    ("Storage.deleteReleaseVersion",
      [ Fn "Storage.Delete" "";
        If CErr
          [ Return ] [];
        Return ]);
    ("Storage.Last",
      [ Fn "Storage.History" "";
        If CErr
          [ Return ] [];
        If CData
          [ Return ] [];
        Return ]) ].

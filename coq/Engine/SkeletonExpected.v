(* The EXPECTED effect skeleton of the release operations: what pkg/action/{install,upgrade,
   rollback,uninstall,history,hooks,action}.go and pkg/storage/storage.go do to the release
   storage driver and to the cluster, in which order, under which option flags, and what each
   failure branch does.  Maintained by hand, statement by statement against the Go source;
   Props/Skeleton.v proves that the table the translator extracts from /repo on every run
   (Gen/ActionSkeleton.v) is EQUAL to this one, and Engine/SkeletonProofs.v proves that the
   model programs of Engine/Ops.v follow it.  Reading guide: notes/SKEL.md.

   Conventions: an [If CErr [Return] []] that is not preceded by a Call/Fn belongs to a call
   the translator ignores (IsReachable, Build, GetWaiter, name validation, rendering, ...). *)
From Coq Require Import List String.
From Helm Require Import Engine.Skeleton.
Import ListNotations.
Local Open Scope string_scope.

Definition expected : table :=
  [ ("Install.Run",
      [ Fn "Install.RunWithContext" "";
        Return ]);
    ("Install.RunWithContext",
      [ If (CNot (CFlag "ClientOnly"))
          [ Pure;
            If CErr
              [ ReturnErr ] [] ] [];
        If (CAnd (CNot (CFlag "DryRun")) (CFlag "HideSecret"))
          [ ReturnErr ] [];
        Fn "Install.availableName" "";
        If CErr
          [ ReturnErr ] [];
        Pure;
        If CErr
          [ ReturnErr ] [];
        If (CAnd (CAnd (CNot (CFlag "ClientOnly")) (CNot (CFlag "SkipCRDs"))) CData)
          [ If (CFlag "DryRun")
              []
              [ Call (Other "installCRDs");
                If CErr
                  [ ReturnErr ] [] ] ] [];
        Pure;
        If CErr
          [ ReturnErr ] [];
        Pure;
        If CErr
          [ ReturnErr ] [];
        If CData
          [ ReturnErr ] [];
        Pure;
        If CErr
          [ ReturnErr ] [];
        Pure;
        If CErr
          [ ReturnErr ] [];
        Pure;
        If CErr
          [ ReturnErr ] [];
        If (CAnd (CAnd (CNot (CFlag "ClientOnly")) (CNot (CAnd (CFlag "IsUpgrade") (CFlag "DryRun")))) CData)
          [ If (CFlag "TakeOwnership")
              [ Call (KcExisting true) ]
              [ Call (KcExisting false) ];
            If CErr
              [ ReturnErr ] [] ] [];
        If (CFlag "DryRun")
          [ ReturnOk ] [];
        If (CFlag "CreateNamespace")
          [ Pure;
            If CErr
              [ ReturnErr ] [];
            Pure;
            If CErr
              [ ReturnErr ] [];
            Call KcCreate;
            If (CAnd CErr CData)
              [ ReturnErr ] [] ] [];
        If (CFlag "Replace")
          [ Fn "Install.replaceRelease" "";
            If CErr
              [ ReturnErr ] [] ] [];
        Fn "Storage.Create" "";
        If CErr
          [ ReturnErr ] [];
        Fn "Install.performInstallCtx" "";
        If CErr
          [ ArgErr;
            Fn "Install.failRelease" "" ] [];
        Return ]);
    ("Install.performInstallCtx",
      [ Fn "Install.performInstall" "";
        If (CFlag "ContextCancelled")
          [ Pure;
            Return ]
          [ Return ] ]);
    ("Install.performInstall",
      [ If (CNot (CFlag "DisableHooks"))
          [ Fn "Configuration.execHook" "pre-install";
            If CErr
              [ ReturnErr ] [] ] [];
        If CData
          [ Call KcCreate ]
          [ If CData
              [ If (CFlag "TakeOwnership")
                  [ Call KcUpdate ]
                  [ Call KcUpdate ] ] [] ];
        If CErr
          [ ReturnErr ] [];
        Pure;
        If CErr
          [ ReturnErr ] [];
        If (CFlag "WaitForJobs")
          [ Call KcWaitJobs ]
          [ Call KcWait ];
        If CErr
          [ ReturnErr ] [];
        If (CNot (CFlag "DisableHooks"))
          [ Fn "Configuration.execHook" "post-install";
            If CErr
              [ ReturnErr ] [] ] [];
        Fn "Install.recordRelease" "";
        ReturnOk ]);
    ("Install.failRelease",
      [ If (CFlag "Atomic")
          [ Run "Uninstall.Run" ["DisableHooks"];
            If CErr
              [ ReturnErr ] [];
            Pure;
            Return ] [];
        Fn "Install.recordRelease" "";
        Return ]);
    ("Install.availableName",
      [ Pure;
        If CErr
          [ ReturnErr ] [];
        If (CFlag "DryRun")
          [ ReturnOk ] [];
        Fn "Storage.History" "";
        If (CAnd CErr CData)
          [ ReturnErr ] [];
        If (COr CErr CData)
          [ ReturnOk ] [];
        If (CAnd (CFlag "Replace") CData)
          [ ReturnOk ] [];
        ReturnErr ]);
    ("Install.recordRelease",
      [ Fn "Storage.Update" "";
        Return ]);
    ("Install.replaceRelease",
      [ Fn "Storage.History" "";
        If (CAnd CErr CData)
          [ ReturnErr ] [];
        If (COr CErr CData)
          [ ReturnOk ] [];
        If CData
          [ ReturnOk ] [];
        If CData
          [ Return ] [];
        Fn "Install.recordRelease" "";
        Return ]);
    ("Upgrade.Run",
      [ Fn "Upgrade.RunWithContext" "";
        Return ]);
    ("Upgrade.RunWithContext",
      [ Pure;
        If CErr
          [ ReturnErr ] [];
        Pure;
        If CErr
          [ ReturnErr ] [];
        Fn "Upgrade.prepareUpgrade" "";
        If CErr
          [ ReturnErr ] [];
        Fn "Upgrade.performUpgrade" "";
        If CErr
          [ ReturnErr ] [];
        If (CNot (CFlag "DryRun"))
          [ Fn "Storage.Update" "";
            If CErr
              [ ReturnErr ] [] ] [];
        ReturnOk ]);
    ("Upgrade.prepareUpgrade",
      [ If CData
          [ Return ] [];
        If (CAnd (CNot (CFlag "DryRun")) (CFlag "HideSecret"))
          [ ReturnErr ] [];
        Fn "Storage.Last" "";
        If CErr
          [ If CData
              [ Pure;
                Return ] [];
            ReturnErr ] [];
        If CData
          [ Return ] [];
        If CData
          []
          [ Fn "Storage.Deployed" "";
            If CErr
              [ If CData
                  []
                  [ ReturnErr ] ] [] ];
        Pure;
        If CErr
          [ ReturnErr ] [];
        Pure;
        If CErr
          [ ReturnErr ] [];
        Pure;
        If CErr
          [ ReturnErr ] [];
        Pure;
        If CErr
          [ ReturnErr ] [];
        Pure;
        If CErr
          [ ReturnErr ] [];
        If CData
          [ ReturnErr ] [];
        Pure;
        Return ]);
    ("Upgrade.performUpgrade",
      [ Pure;
        If CErr
          [ If CData
              [ ReturnErr ] [];
            ReturnErr ] [];
        Pure;
        If CErr
          [ ReturnErr ] [];
        Pure;
        If CErr
          [ ReturnErr ] [];
        If (CFlag "TakeOwnership")
          [ Call (KcExisting true) ]
          [ Call (KcExisting false) ];
        If CErr
          [ ReturnErr ] [];
        If (CFlag "DryRun")
          [ ReturnOk ] [];
        Fn "Storage.Create" "";
        If CErr
          [ ReturnErr ] [];
        Fn "Upgrade.releasingUpgrade" "";
        Fn "Upgrade.handleContext" "";
        If CData
          [ Return ]
          [ Return ] ]);
    ("Upgrade.reportToPerformUpgrade",
      [ If CErr
          [ ArgErr;
            Fn "Upgrade.failRelease" "" ] [] ]);
    ("Upgrade.handleContext",
      [ If (CFlag "ContextCancelled")
          [ Pure;
            Fn "Upgrade.reportToPerformUpgrade" "" ]
          [ Return ] ]);
    ("Upgrade.releasingUpgrade",
      [ If (CNot (CFlag "DisableHooks"))
          [ Fn "Configuration.execHook" "pre-upgrade";
            If CErr
              [ ArgErr;
                Fn "Upgrade.reportToPerformUpgrade" "";
                Return ] [] ] [];
        Call KcUpdate;
        If CErr
          [ Fn "Configuration.recordRelease" "";
            ArgErr;
            Fn "Upgrade.reportToPerformUpgrade" "";
            Return ] [];
        If (CFlag "Recreate")
          [ Call (Other "recreate") ] [];
        Pure;
        If CErr
          [ Fn "Configuration.recordRelease" "";
            ArgErr;
            Fn "Upgrade.reportToPerformUpgrade" "";
            Return ] [];
        If (CFlag "WaitForJobs")
          [ Call KcWaitJobs;
            If CErr
              [ Fn "Configuration.recordRelease" "";
                ArgErr;
                Fn "Upgrade.reportToPerformUpgrade" "";
                Return ] [] ]
          [ Call KcWait;
            If CErr
              [ Fn "Configuration.recordRelease" "";
                ArgErr;
                Fn "Upgrade.reportToPerformUpgrade" "";
                Return ] [] ];
        If (CNot (CFlag "DisableHooks"))
          [ Fn "Configuration.execHook" "post-upgrade";
            If CErr
              [ ArgErr;
                Fn "Upgrade.reportToPerformUpgrade" "";
                Return ] [] ] [];
        Fn "Configuration.recordRelease" "";
        ArgOk;
        Fn "Upgrade.reportToPerformUpgrade" "" ]);
    ("Upgrade.failRelease",
      [ Fn "Configuration.recordRelease" "";
        If (CAnd (CFlag "CleanupOnFail") CData)
          [ Call KcDelete;
            If CErr
              [ Pure;
                Return ] [] ] [];
        If (CFlag "Atomic")
          [ Run "History.Run" [];
            If CErr
              [ ReturnErr ] [];
            If CData
              [ Pure;
                Return ] [];
            Run "Rollback.Run" ["DisableHooks"; "Recreate"; "WaitForJobs"];
            If CErr
              [ ReturnErr ] [];
            Pure;
            Return ] [];
        Return ]);
    ("Rollback.Run",
      [ Pure;
        If CErr
          [ ReturnErr ] [];
        Fn "Rollback.prepareRollback" "";
        If CErr
          [ ReturnErr ] [];
        If (CNot (CFlag "DryRun"))
          [ Fn "Storage.Create" "";
            If CErr
              [ ReturnErr ] [] ] [];
        Fn "Rollback.performRollback" "";
        If CErr
          [ If (CAnd (CNot (CFlag "DryRun")) CData)
              [ Fn "Configuration.recordRelease" "" ] [];
            ReturnErr ] [];
        If (CNot (CFlag "DryRun"))
          [ Fn "Storage.Update" "";
            If CErr
              [ ReturnErr ] [] ] [];
        ReturnOk ]);
    ("Rollback.prepareRollback",
      [ Pure;
        If CErr
          [ ReturnErr ] [];
        If CData
          [ Return ] [];
        Fn "Storage.Last" "";
        If CErr
          [ ReturnErr ] [];
        Fn "Storage.History" "";
        If CErr
          [ ReturnErr ] [];
        If CData
          [ ReturnErr ] [];
        Fn "Storage.Get" "";
        If CErr
          [ ReturnErr ] [];
        ReturnOk ]);
    ("Rollback.performRollback",
      [ If (CFlag "DryRun")
          [ ReturnOk ] [];
        Pure;
        If CErr
          [ ReturnErr ] [];
        Pure;
        If CErr
          [ ReturnErr ] [];
        If (CNot (CFlag "DisableHooks"))
          [ Fn "Configuration.execHook" "pre-rollback";
            If CErr
              [ ReturnErr ] [] ] [];
        Pure;
        If CErr
          [ ReturnErr ] [];
        Call KcUpdate;
        If CErr
          [ Fn "Configuration.recordRelease" "";
            Fn "Configuration.recordRelease" "";
            If (CFlag "CleanupOnFail")
              [ Call KcDelete;
                If CErr
                  [ Pure;
                    Return ] [] ] [];
            ReturnErr ] [];
        If (CFlag "Recreate")
          [ Call (Other "recreate") ] [];
        Pure;
        If CErr
          [ ReturnErr ] [];
        If (CFlag "WaitForJobs")
          [ Call KcWaitJobs;
            If CErr
              [ Fn "Configuration.recordRelease" "";
                Fn "Configuration.recordRelease" "";
                ReturnErr ] [] ]
          [ Call KcWait;
            If CErr
              [ Fn "Configuration.recordRelease" "";
                Fn "Configuration.recordRelease" "";
                ReturnErr ] [] ];
        If (CNot (CFlag "DisableHooks"))
          [ Fn "Configuration.execHook" "post-rollback";
            If CErr
              [ ReturnErr ] [] ] [];
        Fn "Storage.DeployedAll" "";
        If (CAnd CErr CData)
          [ ReturnErr ] [];
        Loop
          [ Fn "Configuration.recordRelease" "" ];
        ReturnOk ]);
    ("Uninstall.Run",
      [ Pure;
        If CErr
          [ ReturnErr ] [];
        Pure;
        If CErr
          [ ReturnErr ] [];
        If (CFlag "DryRun")
          [ Fn "Configuration.releaseContent" "";
            If CErr
              [ ReturnErr ] [];
            ReturnOk ] [];
        Pure;
        If CErr
          [ ReturnErr ] [];
        Fn "Storage.History" "";
        If CErr
          [ If (CFlag "IgnoreNotFound")
              [ ReturnOk ] [];
            ReturnErr ] [];
        If CData
          [ Return ] [];
        If CData
          [ If (CNot (CFlag "KeepHistory"))
              [ Fn "Uninstall.purgeReleases" "";
                If CErr
                  [ ReturnErr ] [];
                ReturnOk ] [];
            ReturnErr ] [];
        If (CNot (CFlag "DisableHooks"))
          [ Fn "Configuration.execHook" "pre-delete";
            If CErr
              [ ReturnErr ] [] ] [];
        Fn "Storage.Update" "";
        Fn "Uninstall.deleteRelease" "";
        If CErr
          [ ReturnErr ] [];
        Call KcWaitDelete;
        If (CNot (CFlag "DisableHooks"))
          [ Fn "Configuration.execHook" "post-delete" ] [];
        If (CNot (CFlag "KeepHistory"))
          [ Fn "Uninstall.purgeReleases" "";
            If CData
              [ ReturnErr ] [];
            ReturnOk ] [];
        Fn "Storage.Update" "";
        If CData
          [ ReturnErr ] [];
        ReturnOk ]);
    ("Uninstall.purgeReleases",
      [ Loop
          [ Fn "Storage.Delete" "";
            If CErr
              [ ReturnErr ] [] ];
        ReturnOk ]);
    ("Uninstall.deleteRelease",
      [ Pure;
        If CErr
          [ Return ] [];
        Pure;
        If CErr
          [ Return ] [];
        If CData
          [ If CData
              [ Call KcDelete;
                Return ] [];
            Call KcDelete ] [];
        Return ]);
    ("History.Run",
      [ Pure;
        If CErr
          [ ReturnErr ] [];
        Pure;
        If CErr
          [ ReturnErr ] [];
        Fn "Storage.History" "";
        Return ]);
    ("Configuration.execHook",
      [ Loop
          [ Fn "Configuration.deleteHookByPolicy" "";
            If CErr
              [ ReturnErr ] [];
            Pure;
            If CErr
              [ ReturnErr ] [];
            Fn "Configuration.recordRelease" "";
            Call KcCreate;
            If CErr
              [ ReturnErr ] [];
            Pure;
            If CErr
              [ ReturnErr ] [];
            Call (KcWatch "");
            If CErr
              [ Fn "Configuration.outputLogsByPolicy" "";
                Fn "Configuration.deleteHookByPolicy" "";
                Fn "Configuration.deleteHooksByPolicy" "";
                If CErr
                  [ ReturnErr ] [];
                ReturnErr ] [] ];
        Loop
          [ Fn "Configuration.outputLogsByPolicy" "";
            Fn "Configuration.deleteHookByPolicy" "";
            If CErr
              [ ReturnErr ] [] ];
        ReturnOk ]);
    ("Configuration.deleteHookByPolicy",
      [ If CData
          [ ReturnOk ] [];
        If CData
          [ Pure;
            If CErr
              [ ReturnErr ] [];
            Call KcDelete;
            If CData
              [ ReturnErr ] [];
            Pure;
            If CErr
              [ ReturnErr ] [];
            Call KcWaitDelete;
            If CErr
              [ ReturnErr ] [] ] [];
        ReturnOk ]);
    ("Configuration.deleteHooksByPolicy",
      [ Loop
          [ Fn "Configuration.deleteHookByPolicy" "";
            If CErr
              [ ReturnErr ] [] ];
        ReturnOk ]);
    ("Configuration.outputLogsByPolicy",
      [ If CData
          [ ReturnOk ] [];
        Pure;
        If CErr
          [ ReturnErr ] [];
        If CData
          [ Fn "Configuration.outputContainerLogsForListOptions" "";
            Return ]
          [ If CData
              [ Fn "Configuration.outputContainerLogsForListOptions" "";
                Return ]
              [ ReturnOk ] ] ]);
    ("Configuration.outputContainerLogsForListOptions",
      [ If CData
          [ Call (Other "GetPodList");
            If CErr
              [ ReturnErr ] [];
            Call (Other "OutputContainerLogsForPodList");
            Return ] [];
        ReturnOk ]);
    ("Configuration.recordRelease",
      [ Fn "Storage.Update" "" ]);
    ("Configuration.releaseContent",
      [ Pure;
        If CErr
          [ ReturnErr ] [];
        If CData
          [ Fn "Storage.Last" "";
            Return ] [];
        Fn "Storage.Get" "";
        Return ]);
    ("Storage.Get",
      [ Call DGet;
        Return ]);
    ("Storage.Create",
      [ If CData
          [ Fn "Storage.removeLeastRecent" "";
            If (CAnd CErr CData)
              [ ReturnErr ] [] ] [];
        Call DCreate;
        Return ]);
    ("Storage.Update",
      [ Call DUpdate;
        Return ]);
    ("Storage.Delete",
      [ Call DDelete;
        Return ]);
    ("Storage.Deployed",
      [ Fn "Storage.DeployedAll" "";
        If CErr
          [ ReturnErr ] [];
        If CData
          [ Pure;
            Return ] [];
        ReturnOk ]);
    ("Storage.DeployedAll",
      [ Call DDeployed;
        If (CNot CErr)
          [ ReturnOk ] [];
        If CData
          [ Pure;
            Return ] [];
        Return ]);
    ("Storage.History",
      [ Call DHistory;
        Return ]);
    ("Storage.removeLeastRecent",
      [ If CData
          [ ReturnOk ] [];
        Fn "Storage.History" "";
        If CErr
          [ ReturnErr ] [];
        If CData
          [ ReturnOk ] [];
        Fn "Storage.Deployed" "";
        If (CAnd CErr CData)
          [ ReturnErr ] [];
        Loop
          [ Fn "Storage.deleteReleaseVersion" "" ];
        If CData
          [ ReturnOk ]
          [ If CData
              [ Return ]
              [ ReturnErr ] ] ]);
    ("Storage.deleteReleaseVersion",
      [ Fn "Storage.Delete" "";
        If CErr
          [ ReturnErr ] [];
        ReturnOk ]);
    ("Storage.Last",
      [ Fn "Storage.History" "";
        If CErr
          [ ReturnErr ] [];
        If CData
          [ ReturnErr ] [];
        ReturnOk ]) ].

(* C12 — hookByWeight / sort.Stable as modelled by [sort_hooks]: the result is a
   permutation of the input, ascending in (weight, name), and stable. *)
From Coq Require Import List String Ascii Bool Arith ZArith Lia Permutation Sorted.
From Helm Require Import Common.Assoc Engine.Types Engine.Eff Engine.Ops.
Import ListNotations.

(* ---- str_ltb is a strict total order ---- *)
Lemma str_ltb_irrefl a : str_ltb a a = false.
Proof.
  induction a as [|c t IH]; simpl; auto.
  now rewrite Nat.ltb_irrefl.
Qed.

Lemma str_ltb_trans a : forall b c, str_ltb a b = true -> str_ltb b c = true -> str_ltb a c = true.
Proof.
  induction a as [|x a IH]; intros [|y b] [|z c]; simpl; try congruence; auto.
  destruct (Nat.ltb (nat_of_ascii x) (nat_of_ascii y)) eqn:E1.
  - intros _. destruct (Nat.ltb (nat_of_ascii y) (nat_of_ascii z)) eqn:E2.
    + intros _. apply Nat.ltb_lt in E1, E2.
      assert (H : Nat.ltb (nat_of_ascii x) (nat_of_ascii z) = true) by (apply Nat.ltb_lt; lia).
      now rewrite H.
    + destruct (Nat.ltb (nat_of_ascii z) (nat_of_ascii y)) eqn:E3; [congruence|].
      intros _. apply Nat.ltb_lt in E1. apply Nat.ltb_ge in E2, E3.
      assert (H : Nat.ltb (nat_of_ascii x) (nat_of_ascii z) = true) by (apply Nat.ltb_lt; lia).
      now rewrite H.
  - destruct (Nat.ltb (nat_of_ascii y) (nat_of_ascii x)) eqn:E1'; [congruence|].
    apply Nat.ltb_ge in E1, E1'. assert (Exy : nat_of_ascii x = nat_of_ascii y) by lia.
    rewrite Exy. intros H1.
    destruct (Nat.ltb (nat_of_ascii y) (nat_of_ascii z)); auto.
    destruct (Nat.ltb (nat_of_ascii z) (nat_of_ascii y)); [congruence|].
    intros H2. eapply IH; eauto.
Qed.

Lemma nat_of_ascii_inj x y : nat_of_ascii x = nat_of_ascii y -> x = y.
Proof.
  intros H. rewrite <- (ascii_nat_embedding x), <- (ascii_nat_embedding y). now rewrite H.
Qed.

Lemma str_ltb_total a : forall b, str_ltb a b = false -> str_ltb b a = false -> a = b.
Proof.
  induction a as [|x a IH]; intros [|y b]; simpl; try congruence; auto.
  destruct (Nat.ltb (nat_of_ascii x) (nat_of_ascii y)) eqn:E1; [congruence|].
  destruct (Nat.ltb (nat_of_ascii y) (nat_of_ascii x)) eqn:E2; [congruence|].
  intros H1 H2. apply Nat.ltb_ge in E1, E2.
  assert (x = y) by (apply nat_of_ascii_inj; lia). subst y.
  f_equal. now apply IH.
Qed.

(* co-transitivity: from a < b, every c is above a or below b *)
Lemma str_ltb_cotrans a b c : str_ltb a b = true -> str_ltb a c = true \/ str_ltb c b = true.
Proof.
  intros H.
  destruct (str_ltb a c) eqn:E1; auto.
  destruct (str_ltb c a) eqn:E2.
  - right. eapply str_ltb_trans; eauto.
  - right. assert (a = c) by now apply str_ltb_total. now subst c.
Qed.

(* ---- hook_less is a strict weak order on hooks (a strict total order on (weight, name)) ---- *)
Lemma hook_less_irrefl h : hook_less h h = false.
Proof. unfold hook_less. rewrite Z.eqb_refl. apply str_ltb_irrefl. Qed.

Lemma hook_less_cotrans a b c : hook_less a b = true -> hook_less a c = true \/ hook_less c b = true.
Proof.
  unfold hook_less. intros H.
  destruct (Z.eqb (h_weight a) (h_weight b)) eqn:Eab.
  - apply Z.eqb_eq in Eab.
    destruct (Z.eqb (h_weight a) (h_weight c)) eqn:Eac.
    + apply Z.eqb_eq in Eac.
      assert (Ecb : Z.eqb (h_weight c) (h_weight b) = true) by (apply Z.eqb_eq; lia).
      rewrite Ecb. now apply str_ltb_cotrans.
    + apply Z.eqb_neq in Eac.
      assert (Ecb : Z.eqb (h_weight c) (h_weight b) = false) by (apply Z.eqb_neq; lia).
      rewrite Ecb.
      destruct (Z.ltb (h_weight a) (h_weight c)) eqn:L; auto.
      right. apply Z.ltb_lt. apply Z.ltb_ge in L. lia.
  - apply Z.eqb_neq in Eab. apply Z.ltb_lt in H.
    destruct (Z.eqb (h_weight a) (h_weight c)) eqn:Eac.
    + apply Z.eqb_eq in Eac. right.
      assert (Ecb : Z.eqb (h_weight c) (h_weight b) = false) by (apply Z.eqb_neq; lia).
      rewrite Ecb. apply Z.ltb_lt. lia.
    + destruct (Z.ltb (h_weight a) (h_weight c)) eqn:L; auto.
      right. apply Z.ltb_ge in L. apply Z.eqb_neq in Eac.
      assert (Ecb : Z.eqb (h_weight c) (h_weight b) = false) by (apply Z.eqb_neq; lia).
      rewrite Ecb. apply Z.ltb_lt. lia.
Qed.

Lemma hook_less_asym a b : hook_less a b = true -> hook_less b a = false.
Proof.
  unfold hook_less. intros H.
  destruct (Z.eqb (h_weight a) (h_weight b)) eqn:E.
  - rewrite Z.eqb_sym, E. destruct (str_ltb (h_name b) (h_name a)) eqn:E2; auto.
    pose proof (str_ltb_trans _ _ _ H E2) as G. now rewrite str_ltb_irrefl in G.
  - rewrite Z.eqb_sym, E. apply Z.ltb_lt in H. apply Z.ltb_ge. lia.
Qed.

Lemma hook_less_trans a b c : hook_less a b = true -> hook_less b c = true -> hook_less a c = true.
Proof.
  intros H1 H2. destruct (hook_less_cotrans a b c H1) as [H|H]; auto.
  apply hook_less_asym in H2. congruence.
Qed.

(* "a is not after b": the order the sorted list respects *)
Definition hook_le (a b : hook) : Prop := hook_less b a = false.

Lemma hook_le_trans a b c : hook_le a b -> hook_le b c -> hook_le a c.
Proof.
  unfold hook_le. intros H1 H2. destruct (hook_less c a) eqn:E; auto.
  destruct (hook_less_cotrans c a b E) as [H|H]; congruence.
Qed.

(* same (weight, name) *)
Definition hook_equiv (a b : hook) : bool := negb (hook_less a b) && negb (hook_less b a).

Lemma hook_equiv_same_key a b :
  hook_equiv a b = true <-> h_weight a = h_weight b /\ h_name a = h_name b.
Proof.
  unfold hook_equiv, hook_less. split.
  - intros H. apply andb_true_iff in H. destruct H as [H1 H2]. apply negb_true_iff in H1, H2.
    destruct (Z.eqb (h_weight a) (h_weight b)) eqn:E.
    + apply Z.eqb_eq in E. rewrite E, Z.eqb_refl in H2. split; auto. now apply str_ltb_total.
    + rewrite Z.eqb_sym, E in H2. apply Z.eqb_neq in E. rewrite Z.ltb_ge in H1, H2. lia.
  - intros [Hw Hn]. rewrite Hw, Z.eqb_refl, Hn, str_ltb_irrefl. reflexivity.
Qed.

(* ---- permutation ---- *)
Lemma hook_insert_perm h l : Permutation (hook_insert h l) (h :: l).
Proof.
  induction l as [|x t IH]; simpl; auto.
  destruct (hook_less x h); auto.
  eapply perm_trans; [apply perm_skip, IH|apply perm_swap].
Qed.

Lemma sort_hooks_perm l : Permutation (sort_hooks l) l.
Proof.
  induction l as [|h t IH]; simpl; auto.
  eapply perm_trans; [apply hook_insert_perm|]. now apply perm_skip.
Qed.

(* ---- sortedness ---- *)
Lemma hook_insert_sorted h l :
  StronglySorted hook_le l -> StronglySorted hook_le (hook_insert h l).
Proof.
  induction l as [|x t IH]; simpl; intros Hs.
  - constructor; [constructor|constructor].
  - inversion Hs as [|? ? Hst Hall]; subst.
    destruct (hook_less x h) eqn:E.
    + constructor; auto.
      (* x is before every element of (insert h t) *)
      apply Forall_forall. intros y Hy.
      assert (Hin : In y (h :: t)) by (eapply Permutation_in; [apply hook_insert_perm|exact Hy]).
      destruct Hin as [<-|Hin].
      * unfold hook_le. now apply hook_less_asym.
      * rewrite Forall_forall in Hall. now apply Hall.
    + constructor; auto. constructor; [exact E|].
      rewrite Forall_forall in *. intros y Hy. eapply hook_le_trans; [exact E|]. now apply Hall.
Qed.

Lemma sort_hooks_sorted l : StronglySorted hook_le (sort_hooks l).
Proof.
  induction l as [|h t IH]; simpl; [constructor|]. now apply hook_insert_sorted.
Qed.

(* ---- stability: hooks with the same (weight, name) keep their input order ---- *)
Lemma hook_equiv_less_excl k x y :
  hook_equiv k x = true -> hook_less y x = true -> hook_equiv k y = false.
Proof.
  unfold hook_equiv. intros Hk Hy. apply andb_true_iff in Hk. destruct Hk as [H1 H2].
  apply negb_true_iff in H1, H2.
  destruct (hook_less_cotrans y x k Hy) as [H|H]; [|congruence].
  rewrite H. now rewrite andb_false_r.
Qed.

Lemma hook_insert_stable k h l :
  filter (hook_equiv k) (hook_insert h l) = filter (hook_equiv k) (h :: l).
Proof.
  induction l as [|x t IH]; simpl; auto.
  destruct (hook_less x h) eqn:E; simpl; auto.
  rewrite IH. simpl.
  destruct (hook_equiv k h) eqn:Eh; auto.
  now rewrite (hook_equiv_less_excl k h x Eh E).
Qed.

Lemma sort_hooks_stable k l : filter (hook_equiv k) (sort_hooks l) = filter (hook_equiv k) l.
Proof.
  induction l as [|h t IH]; simpl; auto.
  rewrite hook_insert_stable. simpl. now rewrite IH.
Qed.

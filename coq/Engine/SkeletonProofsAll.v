(* The model programs of Engine/Ops.v follow the expected effect skeleton: the statements
   that Props/Skeleton.v quotes. *)
From Coq Require Import List String Bool Arith.
From Helm Require Import Engine.Types Engine.Eff Engine.Ops Engine.Skeleton Engine.SkeletonExpected
                         Engine.SkeletonModel Engine.SkeletonProofs
                         Engine.SkeletonProofsInstall Engine.SkeletonProofsUpgrade
                         Engine.SkeletonProofsRollback Engine.SkeletonProofsUninstall.
Import ListNotations.

(* failure-free runs, for every option assignment of the operation's flag space, every ledger,
   adoption or not *)
Lemma model_follows_skeleton_lemma :
  forall o fl l ad,
    In fl (flag_space o) -> In l ledgers ->
    follows expected rexpected (mkScen o fl l ad) [] = true.
Proof.
  intros [] fl l ad.
  - exact (check_op_ok_lift OInstall expected rexpected check_ok_install fl l ad).
  - exact (check_op_ok_lift OUpgrade expected rexpected check_ok_upgrade fl l ad).
  - exact (check_op_ok_lift ORollback expected rexpected check_ok_rollback fl l ad).
  - exact (check_op_ok_lift OUninstall expected rexpected check_ok_uninstall fl l ad).
Qed.

(* runs in which exactly the n-th effect fails, on the smaller space *)
Lemma model_failures_follow_skeleton_lemma :
  forall o fl l,
    In fl (fail_flag_space o) -> In l (fail_ledgers o) ->
    follows expected rexpected (mkScen o fl l false) [] = true /\
    forall n, n < List.length (model_trace (mkScen o fl l false) []) ->
              follows expected rexpected (mkScen o fl l false) [n] = true.
Proof.
  intros [] fl l.
  - exact (check_op_fail_lift OInstall expected rexpected check_fail_install fl l).
  - exact (check_op_fail_lift OUpgrade expected rexpected check_fail_upgrade fl l).
  - exact (check_op_fail_lift ORollback expected rexpected check_fail_rollback fl l).
  - exact (check_op_fail_lift OUninstall expected rexpected check_fail_uninstall fl l).
Qed.

(* failure-free runs for every assignment of the eight boolean options *)
Lemma model_follows_skeleton_all_flags_lemma :
  forall o a c k r h d co tk,
    follows expected rexpected (mkScen o (mkFlags a c k r 2 h d co tk 0) (main_ledger o) false) [] = true.
Proof.
  intros [] a c k r h d co tk.
  - exact (check_op_all_flags_lift OInstall expected rexpected check_all_flags_install a c k r h d co tk).
  - exact (check_op_all_flags_lift OUpgrade expected rexpected check_all_flags_upgrade a c k r h d co tk).
  - exact (check_op_all_flags_lift ORollback expected rexpected check_all_flags_rollback a c k r h d co tk).
  - exact (check_op_all_flags_lift OUninstall expected rexpected check_all_flags_uninstall a c k r h d co tk).
Qed.

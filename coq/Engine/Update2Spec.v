(* C02, round 4 — kube.Client.update on whole objects, end to end: after a successful call every field
   path a target manifest entry specifies holds the entry's value in the cluster (built-in kinds and
   --force: always; custom kinds through the two-way JSON patch: when the entry changed the value or the
   live object already held it).  Composition of Engine/Update2Proofs.v with Merge3Proofs.v /
   MergeJsonProofs.v. *)
From Coq Require Import List String Bool Arith.
From Helm Require Import Common.Assoc Engine.Cluster Engine.Obj2 Engine.Update2.
From Helm Require Import Engine.Merge3Proofs Engine.MergeJsonProofs Engine.MergeJson3Proofs Engine.Update2Proofs.
Import ListNotations.

Theorem update2_specified :
  forall (force tw : bool) (o : store2) (cur tgt : list res2) (o' : store2) (created : list string)
         (muts : list (verb * string)),
    NoDup (map r2_key tgt) ->
    k2_update force tw o cur tgt = (o', (true, created), muts) ->
    forall t, In t tgt -> (force = true \/ r2_unstr t = false) ->
    forall p v, tget p (r2_obj t) = Some v ->
    exists live', aget (r2_key t) o' = Some live' /\ spec_at p v live'.
Proof.
  intros force tw o cur tgt o' created muts Hnd H t Hin Hmode p v Hp.
  destruct (update2_matches force tw o cur tgt o' created muts Hnd H) as [Hi _].
  specialize (Hi t Hin).
  destruct (aget (r2_key t) o) as [live|].
  - destruct Hi as [old [_ Hget]]. eexists. split; [exact Hget|].
    unfold merged2, mode_of.
    destruct force.
    + cbn [merge_by]. now apply spec_at_self.
    + destruct Hmode as [X|X]; [discriminate|]. rewrite X. cbn [merge_by]. now apply s3_specified.
  - eexists. split; [exact Hi|]. now apply spec_at_self.
Qed.

Theorem update2_specified_json2 :
  forall (o : store2) (cur tgt : list res2) (o' : store2) (created : list string) (muts : list (verb * string)),
    NoDup (map r2_key tgt) ->
    k2_update false false o cur tgt = (o', (true, created), muts) ->
    forall t tm, In t tgt -> r2_unstr t = true -> r2_obj t = TM tm -> wf_tree (TM tm) = true ->
    forall p v, mget p (TM tm) = Some v -> nonmap v = true ->
    (* when the object exists: it and the old manifest entry are JSON objects, and the new entry changed
       the value with respect to the old one or the live object already holds it *)
    (forall live old, aget (r2_key t) o = Some live -> find_res2 (r2_key t) cur = Some old ->
       exists lm om, live = TM lm /\ r2_obj old = TM om /\ wf_tree (TM om) = true /\
                     (same_at p (TM om) v = false \/ mget p (TM lm) = Some v)) ->
    exists live', aget (r2_key t) o' = Some live' /\ mget p live' = Some v.
Proof.
  intros o cur tgt o' created muts Hnd H t tm Hin Hu Ht Hwf p v Hp Hn Hyp.
  destruct (update2_matches false false o cur tgt o' created muts Hnd H) as [Hi _].
  specialize (Hi t Hin).
  destruct (aget (r2_key t) o) as [live|].
  - destruct Hi as [old [Hf Hget]]. eexists. split; [exact Hget|].
    destruct (Hyp live old eq_refl Hf) as [lm [om [-> [Ho [Hwo Hc]]]]].
    unfold merged2, mode_of. rewrite Hu, Ho, Ht. cbn [merge_by].
    now apply j2_specified.
  - eexists. split; [exact Hi|]. now rewrite Ht.
Qed.

Theorem update2_specified_json3 :
  forall (o : store2) (cur tgt : list res2) (o' : store2) (created : list string) (muts : list (verb * string)),
    NoDup (map r2_key tgt) ->
    k2_update false true o cur tgt = (o', (true, created), muts) ->
    forall t tm, In t tgt -> r2_unstr t = true -> r2_obj t = TM tm -> wf_tree (TM tm) = true ->
    forall p v, mget p (TM tm) = Some v -> nonmap v = true ->
    (* when the object exists: it and the old manifest entry are JSON objects *)
    (forall live old, aget (r2_key t) o = Some live -> find_res2 (r2_key t) cur = Some old ->
       exists lm om, live = TM lm /\ r2_obj old = TM om /\ wf_tree (TM om) = true /\ wf_tree (TM lm) = true) ->
    exists live' v', aget (r2_key t) o' = Some live' /\ mget p live' = Some v' /\ (v' = v \/ teqv v' v = true).
Proof.
  intros o cur tgt o' created muts Hnd H t tm Hin Hu Ht Hwf p v Hp Hn Hyp.
  destruct (update2_matches false true o cur tgt o' created muts Hnd H) as [Hi _].
  specialize (Hi t Hin).
  destruct (aget (r2_key t) o) as [live|].
  - destruct Hi as [old [Hf Hget]].
    destruct (Hyp live old eq_refl Hf) as [lm [om [-> [Ho [Hwo Hwl]]]]].
    destruct (j3_specified p om tm lm v Hwo Hwf Hwl Hp Hn) as [v' [Hm Hv]].
    eexists. exists v'. split; [exact Hget|].
    unfold merged2, mode_of. rewrite Hu, Ho, Ht. cbn [merge_by]. auto.
  - eexists. exists v. split; [exact Hi|]. rewrite Ht. auto.
Qed.

(* C07 — proofs about the transcription of validate.go's stamping code (Engine/Stamp.v):
   forced values, preservation of everything else, idempotence, stamping followed by
   checkOwnership, agreement with [stamp_fields] / [owned_by] of Engine/Types.v (the functions
   the operation-level theorems are stated with). *)
From Coq Require Import List String Ascii Bool Arith Lia.
From Helm Require Import Common.Assoc Engine.Types Engine.Stamp.
Import ListNotations.
Local Open Scope string_scope.

(* ------------------------------------------------------------------ *)
(* association lists                                                    *)

Lemma aset_absent {V} k (v : V) l : aget k l = None -> aset k v l = (l ++ [(k, v)])%list.
Proof.
  induction l as [|[k' v'] t IH]; simpl; auto.
  destruct (String.eqb k k'); [discriminate|]. intros H. now rewrite IH.
Qed.

Lemma aset_same {V} k (v : V) l : aget k l = Some v -> aset k v l = l.
Proof.
  induction l as [|[k' v'] t IH]; simpl; [discriminate|].
  destruct (String.eqb k k') eqn:E.
  - intros H. inversion H; subst. apply String.eqb_eq in E. now subst.
  - intros H. now rewrite IH.
Qed.

Lemma aget_app_None {V} k (a b : list (string * V)) : aget k a = None -> aget k (a ++ b) = aget k b.
Proof.
  induction a as [|[k' v'] t IH]; simpl; auto. destruct (String.eqb k k'); [discriminate|auto].
Qed.

Lemma aget_app_Some {V} k (a b : list (string * V)) v : aget k a = Some v -> aget k (a ++ b) = Some v.
Proof.
  induction a as [|[k' v'] t IH]; simpl; [discriminate|]. destruct (String.eqb k k'); auto.
Qed.

Lemma aget_notin_None {V} k (l : list (string * V)) : ~ In k (akeys l) -> aget k l = None.
Proof.
  unfold akeys. induction l as [|[k' v'] t IH]; simpl; auto.
  intros H. destruct (String.eqb k k') eqn:E.
  - apply String.eqb_eq in E. subst. tauto.
  - apply IH. tauto.
Qed.

(* ------------------------------------------------------------------ *)
(* the range loop                                                        *)

Lemma assign_all_cons kv m r : assign_all (kv :: m) r = assign_all m (aset (fst kv) (snd kv) r).
Proof. reflexivity. Qed.

Lemma NoDup_assign_all m : forall r, NoDup (akeys r) -> NoDup (akeys (assign_all m r)).
Proof.
  induction m as [|[k v] t IH]; intros r Hr; simpl; auto.
  apply IH. now apply NoDup_akeys_aset.
Qed.

(* the look-up in the result of the loop: an entry of the (duplicate-free) source wins *)
Lemma aget_assign_all k m : NoDup (akeys m) -> forall r,
  aget k (assign_all m r) = match aget k m with Some v => Some v | None => aget k r end.
Proof.
  induction m as [|[k0 v0] t IH]; intros Hnd r; simpl; auto.
  unfold akeys in Hnd. simpl in Hnd. inversion Hnd as [|? ? Hni Hnd']; subst.
  change (fold_left (fun acc kv => aset (fst kv) (snd kv) acc) t (aset k0 v0 r)) with (assign_all t (aset k0 v0 r)).
  rewrite IH by exact Hnd'.
  destruct (String.eqb k k0) eqn:E.
  - apply String.eqb_eq in E. subst k0.
    rewrite (aget_notin_None k t Hni). apply aget_aset_eq.
  - destruct (aget k t); auto. apply aget_aset_neq. intros ->. now rewrite String.eqb_refl in E.
Qed.

(* copying a map entry by entry into an empty one gives the same map *)
Lemma assign_all_copy m : forall r, NoDup (akeys (r ++ m)) -> assign_all m r = (r ++ m)%list.
Proof.
  induction m as [|[k v] t IH]; intros r Hnd; simpl.
  - now rewrite app_nil_r.
  - change (fold_left (fun acc kv => aset (fst kv) (snd kv) acc) t (aset k v r)) with (assign_all t (aset k v r)).
    assert (Hk : aget k r = None).
    { apply aget_notin_None. unfold akeys in *. rewrite map_app in Hnd. simpl in Hnd.
      apply NoDup_remove_2 in Hnd. intros H. apply Hnd. apply in_app_iff. now left. }
    rewrite (aset_absent k v r Hk).
    rewrite IH; rewrite <- app_assoc; simpl; auto.
  Qed.

Lemma assign_all_copy_nil m : NoDup (akeys m) -> assign_all m [] = m.
Proof. intros H. now rewrite (assign_all_copy m []). Qed.

(* mergeStrStrMaps *)
Lemma aget_merge k current desired :
  NoDup (akeys current) -> NoDup (akeys desired) ->
  aget k (merge_str_str_maps current desired) =
  match aget k desired with Some v => Some v | None => aget k current end.
Proof.
  intros Hc Hd. unfold merge_str_str_maps. rewrite aget_assign_all by exact Hd.
  destruct (aget k desired); auto. rewrite aget_assign_all by exact Hc. now destruct (aget k current).
Qed.

Lemma NoDup_merge current desired : NoDup (akeys (merge_str_str_maps current desired)).
Proof. unfold merge_str_str_maps. apply NoDup_assign_all, NoDup_assign_all. constructor. Qed.

(* one desired entry: it is what the look-up returns, whatever the current map holds *)
Lemma aget_merge_1 current k v : aget k (merge_str_str_maps current [(k, v)]) = Some v.
Proof. unfold merge_str_str_maps. simpl. apply aget_aset_eq. Qed.

Lemma aget_merge_1_other current k v k' :
  k' <> k -> aget k' (merge_str_str_maps current [(k, v)]) = aget k' (assign_all current []).
Proof. intros H. unfold merge_str_str_maps. simpl. apply aget_aset_neq. congruence. Qed.

Lemma aget_merge_2 current k1 v1 k2 v2 :
  k1 <> k2 ->
  aget k1 (merge_str_str_maps current [(k1, v1); (k2, v2)]) = Some v1 /\
  aget k2 (merge_str_str_maps current [(k1, v1); (k2, v2)]) = Some v2.
Proof.
  intros H. unfold merge_str_str_maps. simpl. split.
  - rewrite aget_aset_neq by congruence. apply aget_aset_eq.
  - apply aget_aset_eq.
Qed.

Lemma aget_merge_2_other current k1 v1 k2 v2 k' :
  k' <> k1 -> k' <> k2 ->
  aget k' (merge_str_str_maps current [(k1, v1); (k2, v2)]) = aget k' (assign_all current []).
Proof.
  intros H1 H2. unfold merge_str_str_maps. simpl.
  rewrite aget_aset_neq by congruence. apply aget_aset_neq. congruence.
Qed.

(* ------------------------------------------------------------------ *)
(* setMetadataVisitor (force)                                            *)

Lemma name_ns_distinct : helm_release_name_annotation <> helm_release_namespace_annotation.
Proof. discriminate. Qed.

(* the three ownership values are exactly Helm / this release's name / its namespace, for
   EVERY object: whatever labels and annotations the chart rendered, conflicting values for
   the three keys included *)
Theorem stamp_meta_values rn ns o :
  aget app_managed_by_label (m_labels (stamp_meta rn ns o)) = Some app_managed_by_helm /\
  aget helm_release_name_annotation (m_annots (stamp_meta rn ns o)) = Some rn /\
  aget helm_release_namespace_annotation (m_annots (stamp_meta rn ns o)) = Some ns.
Proof.
  unfold stamp_meta, merge_annotations, merge_labels. simpl. split.
  - apply aget_merge_1.
  - apply aget_merge_2. exact name_ns_distinct.
Qed.

(* every other label and annotation is preserved unchanged *)
Theorem stamp_meta_preserves_labels rn ns o k :
  NoDup (akeys (m_labels o)) -> k <> app_managed_by_label ->
  aget k (m_labels (stamp_meta rn ns o)) = aget k (m_labels o).
Proof.
  intros Hnd Hk. unfold stamp_meta, merge_annotations, merge_labels. simpl.
  rewrite aget_merge_1_other by exact Hk. now rewrite assign_all_copy_nil.
Qed.

Theorem stamp_meta_preserves_annots rn ns o k :
  NoDup (akeys (m_annots o)) ->
  k <> helm_release_name_annotation -> k <> helm_release_namespace_annotation ->
  aget k (m_annots (stamp_meta rn ns o)) = aget k (m_annots o).
Proof.
  intros Hnd H1 H2. unfold stamp_meta, merge_annotations, merge_labels. simpl.
  rewrite aget_merge_2_other by assumption. now rewrite assign_all_copy_nil.
Qed.

(* no key is invented or lost: the label keys afterwards are those before plus managed-by *)
Theorem stamp_meta_label_keys rn ns o k :
  NoDup (akeys (m_labels o)) ->
  (aget k (m_labels (stamp_meta rn ns o)) <> None <-> (aget k (m_labels o) <> None \/ k = app_managed_by_label)).
Proof.
  intros Hnd. destruct (String.eqb k app_managed_by_label) eqn:E.
  - apply String.eqb_eq in E. subst k.
    destruct (stamp_meta_values rn ns o) as [H _]. rewrite H. split; [now right|discriminate].
  - assert (Hk : k <> app_managed_by_label) by (intros ->; now rewrite String.eqb_refl in E).
    rewrite stamp_meta_preserves_labels by assumption. tauto.
Qed.

(* in list form: under the map invariant stamping is three assignments *)
Lemma stamp_meta_as_aset rn ns o :
  NoDup (akeys (m_labels o)) -> NoDup (akeys (m_annots o)) ->
  stamp_meta rn ns o =
  mkMeta (aset app_managed_by_label app_managed_by_helm (m_labels o))
         (aset helm_release_namespace_annotation ns (aset helm_release_name_annotation rn (m_annots o))).
Proof.
  intros Hl Ha. unfold stamp_meta, merge_annotations, merge_labels, merge_str_str_maps. simpl.
  now rewrite !assign_all_copy_nil.
Qed.

Lemma NoDup_stamp_meta rn ns o :
  NoDup (akeys (m_labels (stamp_meta rn ns o))) /\ NoDup (akeys (m_annots (stamp_meta rn ns o))).
Proof. unfold stamp_meta, merge_annotations, merge_labels. simpl. split; apply NoDup_merge. Qed.

(* stamping is idempotent — for every object, as an equation between the maps *)
Theorem stamp_meta_idempotent rn ns o :
  stamp_meta rn ns (stamp_meta rn ns o) = stamp_meta rn ns o.
Proof.
  destruct (NoDup_stamp_meta rn ns o) as [Hl Ha].
  destruct (stamp_meta_values rn ns o) as (V1 & V2 & V3).
  rewrite (stamp_meta_as_aset rn ns (stamp_meta rn ns o) Hl Ha).
  rewrite (aset_same _ _ _ V1), (aset_same _ _ _ V2), (aset_same _ _ _ V3).
  now destruct (stamp_meta rn ns o).
Qed.

(* ------------------------------------------------------------------ *)
(* checkOwnership                                                        *)

Lemma require_value_None m k v : require_value m k v = None <-> aget k m = Some v.
Proof.
  unfold require_value. destruct (aget k m) as [a|]; [|split; discriminate].
  destruct (String.eqb a v) eqn:E.
  - apply String.eqb_eq in E. subst. tauto.
  - split; [discriminate|]. intros H. inversion H; subst. now rewrite String.eqb_refl in E.
Qed.

Lemma owned_meta_iff o rn ns :
  owned_meta o rn ns = true <->
  aget app_managed_by_label (m_labels o) = Some app_managed_by_helm /\
  aget helm_release_name_annotation (m_annots o) = Some rn /\
  aget helm_release_namespace_annotation (m_annots o) = Some ns.
Proof.
  unfold owned_meta, check_ownership.
  rewrite <- !require_value_None.
  destruct (require_value (m_labels o) app_managed_by_label app_managed_by_helm);
    destruct (require_value (m_annots o) helm_release_name_annotation rn);
    destruct (require_value (m_annots o) helm_release_namespace_annotation ns); simpl;
    split; try discriminate; try tauto; intros (A & B & C); discriminate.
Qed.

(* a stamped object passes checkOwnership for this release ... *)
Theorem stamp_meta_owned rn ns o : check_ownership (stamp_meta rn ns o) rn ns = [].
Proof.
  pose proof (proj2 (owned_meta_iff (stamp_meta rn ns o) rn ns) (stamp_meta_values rn ns o)) as H.
  unfold owned_meta in H. now destruct (check_ownership (stamp_meta rn ns o) rn ns).
Qed.

(* ... and for no other (name, namespace) *)
Theorem stamp_meta_owned_only rn ns o rn' ns' :
  owned_meta (stamp_meta rn ns o) rn' ns' = true <-> rn' = rn /\ ns' = ns.
Proof.
  rewrite owned_meta_iff. destruct (stamp_meta_values rn ns o) as (V1 & V2 & V3).
  rewrite V1, V2, V3. split.
  - intros (_ & A & B). inversion A; inversion B; auto.
  - intros [-> ->]. auto.
Qed.

(* the non-forcing variant: an error exactly when checkOwnership fails; otherwise it stamps,
   and the stamped object holds the values it already had *)
Theorem set_metadata_visitor_force rn ns o :
  set_metadata_visitor rn ns true o = Some (stamp_meta rn ns o).
Proof. reflexivity. Qed.

Theorem set_metadata_visitor_noforce rn ns o :
  set_metadata_visitor rn ns false o =
  if owned_meta o rn ns then Some (stamp_meta rn ns o) else None.
Proof. unfold set_metadata_visitor. simpl. now destruct (owned_meta o rn ns). Qed.

Theorem set_metadata_visitor_noforce_unchanged rn ns o o' :
  NoDup (akeys (m_labels o)) -> NoDup (akeys (m_annots o)) ->
  set_metadata_visitor rn ns false o = Some o' -> o' = o.
Proof.
  intros Hl Ha. rewrite set_metadata_visitor_noforce.
  destruct (owned_meta o rn ns) eqn:E; [|discriminate].
  intros H. inversion H; subst. apply owned_meta_iff in E. destruct E as (V1 & V2 & V3).
  rewrite stamp_meta_as_aset by assumption.
  rewrite (aset_same _ _ _ V1), (aset_same _ _ _ V2).
  rewrite (aset_same _ _ _ V3). now destruct o.
Qed.

(* whenever the visitor succeeds, forced or not, the result is owned by exactly this release *)
Theorem set_metadata_visitor_owned rn ns force o o' :
  set_metadata_visitor rn ns force o = Some o' ->
  check_ownership o' rn ns = [] /\
  (forall rn' ns', owned_meta o' rn' ns' = true <-> rn' = rn /\ ns' = ns).
Proof.
  intros H.
  assert (E : o' = stamp_meta rn ns o).
  { destruct force; [now inversion H|]. rewrite set_metadata_visitor_noforce in H.
    destruct (owned_meta o rn ns); now inversion H. }
  subst. split; [apply stamp_meta_owned|intros; apply stamp_meta_owned_only].
Qed.

(* ------------------------------------------------------------------ *)
(* the flattened field map of the engine model                           *)

Lemma eqb_cons2 a b x y : String.eqb (String a (String b x)) (String a (String b y)) = String.eqb x y.
Proof. simpl. now rewrite !Ascii.eqb_refl. Qed.

Lemma strip2_Some a b s k : strip2 a b s = Some k <-> s = String a (String b k).
Proof.
  unfold strip2. destruct s as [|c1 [|c2 rest]]; try (split; discriminate).
  destruct (Ascii.eqb c1 a) eqn:E1; destruct (Ascii.eqb c2 b) eqn:E2; simpl.
  - apply Ascii.eqb_eq in E1, E2. subst. split; intros H; inversion H; auto.
  - split; [discriminate|]. intros H. inversion H; subst. now rewrite Ascii.eqb_refl in E2.
  - split; [discriminate|]. intros H. inversion H; subst. now rewrite Ascii.eqb_refl in E1.
  - split; [discriminate|]. intros H. inversion H; subst. now rewrite Ascii.eqb_refl in E1.
Qed.

Lemma strip2_None a b s k : strip2 a b s = None -> String.eqb (String a (String b k)) s = false.
Proof.
  intros H. destruct (String.eqb (String a (String b k)) s) eqn:E; auto.
  apply String.eqb_eq in E. subst s. unfold strip2 in H. now rewrite !Ascii.eqb_refl in H.
Qed.

Lemma aget_pick a b f k :
  aget k (pick (strip2 a b) f) = aget (String a (String b k)) f.
Proof.
  induction f as [|[k0 v0] t IH]; cbn [pick aget]; auto.
  destruct (strip2 a b k0) as [k'|] eqn:E.
  - apply strip2_Some in E. subst k0. cbn [aget]. rewrite eqb_cons2. now rewrite IH.
  - rewrite (strip2_None a b k0 k E). exact IH.
Qed.

Lemma aget_labels_of f k : aget k (m_labels (meta_of f)) = aget ("l:" ++ k) f.
Proof. apply aget_pick. Qed.

Lemma aget_annots_of f k : aget k (m_annots (meta_of f)) = aget ("a:" ++ k) f.
Proof. apply aget_pick. Qed.

Lemma keys_are_prefixed :
  managed_by_key = "l:" ++ app_managed_by_label /\
  rel_name_key = "a:" ++ helm_release_name_annotation /\
  rel_ns_key = "a:" ++ helm_release_namespace_annotation.
Proof. repeat split. Qed.

(* checkOwnership on the label / annotation maps of an object is [owned_by] on its field map *)
Theorem owned_meta_owned_by f rn ns : owned_meta (meta_of f) rn ns = owned_by rn ns f.
Proof.
  destruct (owned_by rn ns f) eqn:E.
  - apply owned_meta_iff. rewrite aget_labels_of, !aget_annots_of.
    unfold owned_by in E. change ("l:" ++ app_managed_by_label) with managed_by_key.
    change ("a:" ++ helm_release_name_annotation) with rel_name_key.
    change ("a:" ++ helm_release_namespace_annotation) with rel_ns_key.
    destruct (aget managed_by_key f) as [m|]; [|discriminate].
    destruct (aget rel_name_key f) as [n|]; [|discriminate].
    destruct (aget rel_ns_key f) as [s|]; [|discriminate].
    apply andb_true_iff in E. destruct E as [E E3]. apply andb_true_iff in E. destruct E as [E1 E2].
    apply String.eqb_eq in E1, E2, E3. now subst.
  - destruct (owned_meta (meta_of f) rn ns) eqn:E'; auto.
    apply owned_meta_iff in E'. rewrite aget_labels_of, !aget_annots_of in E'.
    change ("l:" ++ app_managed_by_label) with managed_by_key in E'.
    change ("a:" ++ helm_release_name_annotation) with rel_name_key in E'.
    change ("a:" ++ helm_release_namespace_annotation) with rel_ns_key in E'.
    destruct E' as (A & B & C). unfold owned_by in E. rewrite A, B, C in E.
    unfold app_managed_by_helm in E. now rewrite !String.eqb_refl in E.
Qed.

(* NoDup of the field map carries over to its label and annotation maps *)
Lemma In_pick a b f k : In k (akeys (pick (strip2 a b) f)) -> In (String a (String b k)) (akeys f).
Proof.
  unfold akeys. induction f as [|[k0 v0] t IH]; simpl; auto.
  destruct (strip2 a b k0) as [k'|] eqn:E; simpl.
  - apply strip2_Some in E. subst k0. intros [->|H]; auto.
  - intros H. right. auto.
Qed.

Lemma NoDup_pick a b f : NoDup (akeys f) -> NoDup (akeys (pick (strip2 a b) f)).
Proof.
  unfold akeys. induction f as [|[k0 v0] t IH]; simpl; intros H; [constructor|].
  inversion H; subst.
  destruct (strip2 a b k0) as [k'|] eqn:E; simpl; auto.
  apply strip2_Some in E. subst k0. constructor; auto.
  intros Hin. apply (In_pick a b t k') in Hin. contradiction.
Qed.

(* look-ups in the re-flattened object *)
Lemma aget_map_prefix a b (m : strmap) key :
  aget key (map (fun kv => (String a (String b (fst kv)), snd kv)) m) =
  match strip2 a b key with Some k => aget k m | None => None end.
Proof.
  induction m as [|[k0 v0] t IH]; cbn [map aget fst snd].
  - now destruct (strip2 a b key).
  - destruct (strip2 a b key) as [k|] eqn:E.
    + apply strip2_Some in E. subst key. rewrite eqb_cons2. destruct (String.eqb k k0); auto.
    + rewrite String.eqb_sym. rewrite (strip2_None a b key k0 E). exact IH.
Qed.

Lemma aget_rest_of f key :
  aget key (rest_of f) =
  match strip_label key, strip_annot key with None, None => aget key f | _, _ => None end.
Proof.
  unfold rest_of. induction f as [|[k0 v0] t IH]; simpl.
  - now destruct (strip_label key), (strip_annot key).
  - destruct (strip_label k0) as [kl|] eqn:El; simpl.
    + rewrite IH. destruct (strip_label key) eqn:E1; auto. destruct (strip_annot key) eqn:E2; auto.
      apply strip2_Some in El. subst k0.
      destruct (String.eqb key (String "l" (String ":" kl))) eqn:E; auto.
      apply String.eqb_eq in E. subst key. unfold strip_label, strip2 in E1. simpl in E1. discriminate.
    + destruct (strip_annot k0) as [ka|] eqn:Ea; simpl.
      * rewrite IH. destruct (strip_label key) eqn:E1; auto. destruct (strip_annot key) eqn:E2; auto.
        apply strip2_Some in Ea. subst k0.
        destruct (String.eqb key (String "a" (String ":" ka))) eqn:E; auto.
        apply String.eqb_eq in E. subst key. unfold strip_annot, strip2 in E2. simpl in E2. discriminate.
      * rewrite IH. destruct (String.eqb key k0) eqn:E; auto.
        apply String.eqb_eq in E. subst key. now rewrite El, Ea.
Qed.

Lemma strip_label_annot key k : strip_label key = Some k -> strip_annot key = None.
Proof.
  intros H. apply strip2_Some in H. subst key. reflexivity.
Qed.

(* [stamp_fields] of Engine/Types.v — three assignments on the flat field map, the function the
   operations of Engine/Ops.v and all operation-level theorems use — is, as a map, the
   transcription of setMetadataVisitor/mergeLabels/mergeAnnotations/mergeStrStrMaps applied to
   the object's label and annotation maps, everything else untouched *)
Theorem stamp_fields_is_validate_go rn ns f key :
  NoDup (akeys f) ->
  aget key (stamp_fields rn ns f) = aget key (stamp_fields_v rn ns f).
Proof.
  intros Hnd. unfold stamp_fields_v, flat_meta.
  pose proof (NoDup_pick "l"%char ":"%char f Hnd) as Hl.
  pose proof (NoDup_pick "a"%char ":"%char f Hnd) as Ha.
  assert (Hs : stamp_meta rn ns (meta_of f) =
               mkMeta (aset app_managed_by_label app_managed_by_helm (m_labels (meta_of f)))
                      (aset helm_release_namespace_annotation ns
                            (aset helm_release_name_annotation rn (m_annots (meta_of f)))))
    by (apply stamp_meta_as_aset; assumption).
  rewrite Hs. cbn [m_labels m_annots].
  unfold stamp_fields.
  destruct (strip_label key) as [k|] eqn:El.
  - (* a label *)
    pose proof (strip_label_annot key k El) as Ea.
    rewrite aget_app_None by (rewrite aget_rest_of, El; reflexivity).
    pose proof (aget_map_prefix "l"%char ":"%char
                  (aset app_managed_by_label app_managed_by_helm (m_labels (meta_of f))) key) as Hm.
    change (strip2 "l"%char ":"%char key) with (strip_label key) in Hm. rewrite El in Hm.
    apply strip2_Some in El. subst key.
    rewrite aget_aset_neq by (unfold rel_ns_key; discriminate).
    rewrite aget_aset_neq by (unfold rel_name_key; discriminate).
    destruct (String.eqb k app_managed_by_label) eqn:E.
    + apply String.eqb_eq in E. subst k.
      change (String "l" (String ":" app_managed_by_label)) with managed_by_key.
      rewrite aget_aset_eq. symmetry. apply aget_app_Some.
      change managed_by_key with (String "l" (String ":" app_managed_by_label)).
      rewrite Hm. apply aget_aset_eq.
    + assert (Hk : k <> app_managed_by_label) by (intros ->; now rewrite String.eqb_refl in E).
      rewrite aget_aset_neq.
      2:{ unfold managed_by_key. intros H. apply Hk. inversion H. reflexivity. }
      symmetry.
      destruct (aget (String "l" (String ":" k)) f) as [v|] eqn:Ef.
      * apply aget_app_Some. rewrite Hm. rewrite aget_aset_neq by congruence.
        now rewrite aget_labels_of.
      * rewrite aget_app_None.
        2:{ rewrite Hm. rewrite aget_aset_neq by congruence. now rewrite aget_labels_of. }
        rewrite aget_map_prefix. reflexivity.
  - destruct (strip_annot key) as [k|] eqn:Ea.
    + (* an annotation *)
      rewrite aget_app_None by (rewrite aget_rest_of, El, Ea; reflexivity).
      rewrite aget_app_None.
      2:{ rewrite aget_map_prefix. change (strip2 "l"%char ":"%char key) with (strip_label key). now rewrite El. }
      rewrite aget_map_prefix. change (strip2 "a"%char ":"%char key) with (strip_annot key). rewrite Ea.
      apply strip2_Some in Ea. subst key.
      destruct (String.eqb k helm_release_namespace_annotation) eqn:E2.
      * apply String.eqb_eq in E2. subst k.
        change (String "a" (String ":" helm_release_namespace_annotation)) with rel_ns_key.
        now rewrite !aget_aset_eq.
      * assert (Hk2 : k <> helm_release_namespace_annotation) by (intros ->; now rewrite String.eqb_refl in E2).
        rewrite aget_aset_neq.
        2:{ unfold rel_ns_key. intros H. apply Hk2. inversion H. reflexivity. }
        rewrite (aget_aset_neq helm_release_namespace_annotation k) by congruence.
        destruct (String.eqb k helm_release_name_annotation) eqn:E1.
        -- apply String.eqb_eq in E1. subst k.
           change (String "a" (String ":" helm_release_name_annotation)) with rel_name_key.
           now rewrite !aget_aset_eq.
        -- assert (Hk1 : k <> helm_release_name_annotation) by (intros ->; now rewrite String.eqb_refl in E1).
           rewrite aget_aset_neq.
           2:{ unfold rel_name_key. intros H. apply Hk1. inversion H. reflexivity. }
           rewrite (aget_aset_neq helm_release_name_annotation k) by congruence.
           rewrite aget_aset_neq.
           2:{ unfold managed_by_key. discriminate. }
           now rewrite aget_annots_of.
    + (* neither *)
      assert (K1 : key <> rel_ns_key) by (intros ->; discriminate).
      assert (K2 : key <> rel_name_key) by (intros ->; discriminate).
      assert (K3 : key <> managed_by_key) by (intros ->; discriminate).
      rewrite !aget_aset_neq by congruence.
      destruct (aget key f) as [v|] eqn:Ef.
      * symmetry. apply aget_app_Some. now rewrite aget_rest_of, El, Ea.
      * rewrite aget_app_None by (now rewrite aget_rest_of, El, Ea).
        rewrite aget_app_None.
        2:{ rewrite aget_map_prefix. change (strip2 "l"%char ":"%char key) with (strip_label key). now rewrite El. }
        rewrite aget_map_prefix. change (strip2 "a"%char ":"%char key) with (strip_annot key). now rewrite Ea.
Qed.

(* consequences on the engine's own functions, for every field map (no map invariant needed) *)
Theorem stamp_fields_values rn ns f :
  aget managed_by_key (stamp_fields rn ns f) = Some "Helm" /\
  aget rel_name_key (stamp_fields rn ns f) = Some rn /\
  aget rel_ns_key (stamp_fields rn ns f) = Some ns.
Proof.
  unfold stamp_fields. repeat split.
  - rewrite aget_aset_neq by (unfold rel_ns_key, managed_by_key; discriminate).
    rewrite aget_aset_neq by (unfold rel_name_key, managed_by_key; discriminate).
    apply aget_aset_eq.
  - rewrite aget_aset_neq by (unfold rel_ns_key, rel_name_key; discriminate). apply aget_aset_eq.
  - apply aget_aset_eq.
Qed.

Theorem stamp_fields_preserves rn ns f key :
  key <> managed_by_key -> key <> rel_name_key -> key <> rel_ns_key ->
  aget key (stamp_fields rn ns f) = aget key f.
Proof. intros H1 H2 H3. unfold stamp_fields. now rewrite !aget_aset_neq by congruence. Qed.

Theorem stamp_fields_idempotent rn ns f :
  stamp_fields rn ns (stamp_fields rn ns f) = stamp_fields rn ns f.
Proof.
  destruct (stamp_fields_values rn ns f) as (V1 & V2 & V3).
  unfold stamp_fields at 1.
  now rewrite (aset_same _ _ _ V1), (aset_same _ _ _ V2), (aset_same _ _ _ V3).
Qed.

Theorem owned_by_stamp_only rn ns f rn' ns' :
  owned_by rn' ns' (stamp_fields rn ns f) = true <-> rn' = rn /\ ns' = ns.
Proof.
  unfold owned_by. destruct (stamp_fields_values rn ns f) as (V1 & V2 & V3). rewrite V1, V2, V3.
  simpl. split.
  - intros H. apply andb_true_iff in H. destruct H as [H1 H2].
    apply String.eqb_eq in H1, H2. auto.
  - intros [-> ->]. now rewrite !String.eqb_refl.
Qed.

(* ---- the statements of Props/C07.v that combine the above ---- *)

Theorem stamp_then_check rn ns o :
  check_ownership (stamp_meta rn ns o) rn ns = [] /\
  (forall rn' ns', owned_meta (stamp_meta rn ns o) rn' ns' = true <-> rn' = rn /\ ns' = ns).
Proof. split; [apply stamp_meta_owned|intros; apply stamp_meta_owned_only]. Qed.

Theorem set_metadata_visitor_spec rn ns force o :
  (set_metadata_visitor rn ns force o = None <-> force = false /\ owned_meta o rn ns = false) /\
  (forall o', set_metadata_visitor rn ns force o = Some o' ->
     o' = stamp_meta rn ns o /\ check_ownership o' rn ns = [] /\
     (forall rn' ns', owned_meta o' rn' ns' = true <-> rn' = rn /\ ns' = ns)).
Proof.
  split.
  - destruct force; [rewrite set_metadata_visitor_force|rewrite set_metadata_visitor_noforce; destruct (owned_meta o rn ns)];
      split; try discriminate; try tauto; intros [? ?]; discriminate.
  - intros o' H. pose proof (set_metadata_visitor_owned rn ns force o o' H) as [H1 H2]. split; auto.
    destruct force; [now inversion H|]. rewrite set_metadata_visitor_noforce in H.
    destruct (owned_meta o rn ns); now inversion H.
Qed.

Theorem stamp_fields_spec rn ns f :
  (aget managed_by_key (stamp_fields rn ns f) = Some "Helm" /\
   aget rel_name_key (stamp_fields rn ns f) = Some rn /\
   aget rel_ns_key (stamp_fields rn ns f) = Some ns) /\
  (forall key, key <> managed_by_key -> key <> rel_name_key -> key <> rel_ns_key ->
               aget key (stamp_fields rn ns f) = aget key f) /\
  stamp_fields rn ns (stamp_fields rn ns f) = stamp_fields rn ns f /\
  (forall rn' ns', owned_by rn' ns' (stamp_fields rn ns f) = true <-> rn' = rn /\ ns' = ns).
Proof.
  split; [apply stamp_fields_values|]. split; [intros; now apply stamp_fields_preserves|].
  split; [apply stamp_fields_idempotent|intros; apply owned_by_stamp_only].
Qed.

Example stamp_example :
  let o := mkMeta [("app.kubernetes.io/name", "keep"); (app_managed_by_label, "kustomize")]
                  [(helm_release_name_annotation, "old"); ("example.com/note", "keep me");
                   (helm_release_namespace_annotation, "")] in
  NoDup (akeys (m_labels o)) /\ NoDup (akeys (m_annots o)) /\
  stamp_meta "rel" "default" o =
    mkMeta [("app.kubernetes.io/name", "keep"); (app_managed_by_label, "Helm")]
           [(helm_release_name_annotation, "rel"); ("example.com/note", "keep me");
            (helm_release_namespace_annotation, "default")] /\
  set_metadata_visitor "rel" "default" false o = None /\
  set_metadata_visitor "rel" "default" false (stamp_meta "rel" "default" o) = Some (stamp_meta "rel" "default" o).
Proof.
  vm_compute. repeat split; try reflexivity; repeat constructor; simpl; intuition discriminate.
Qed.

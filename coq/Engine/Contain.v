(* C03 — definitions used by the containment statements: status lookup in the ledger,
   one-shot cluster fault plans, the witnesses of the known findings K6 / K7 and of the
   repaired F5. *)
From Coq Require Import List String Bool Arith ZArith.
From Helm Require Import Common.Assoc Engine.Types Engine.Eff Engine.Ops Engine.Cluster Engine.Seq.
Import ListNotations.
Local Open Scope string_scope.

(* status of revision v in a ledger *)
Definition status_of (v : nat) (l : list release) : option status :=
  match find (fun r => Nat.eqb (rev r) v) l with Some r => Some (st r) | None => None end.

Definition statuses (l : list release) : list (nat * status) :=
  map (fun r => (rev r, st r)) (sort_by_rev l).

Definition no_sf : sfaults := mkSF None None.
Definition no_cf : cfaults := mkCF None None false.

Definition fl0 : flags := mkFlags false false false false 0 false false false false 0.
Definition fl_atomic : flags := mkFlags true false false false 0 false false false false 0.

Definition cmr (n v : string) : res := mkRes "ConfigMap" n [("d:k", v)].

Definition clean (o : op) : hstep := HOp (mkOp o no_sf no_cf).
Definition faulted (o : op) (cf : cfaults) : hstep := HOp (mkOp o no_sf cf).

(* the world after a history, and the last outcome *)
Definition final (h : list hstep) : option (world * outcome) :=
  match List.rev (run_history "rel" "default" h (mkW [] [])) with
  | (w, out, _) :: _ => Some (w, out)
  | [] => None
  end.

(* K6: install {a,b}; upgrade --atomic to {a'} with PATCH a rejected *)
Definition k6_history : list hstep :=
  [ clean (OpInstall fl0 1 1 [cmr "a" "v1"; cmr "b" "v1"] []);
    faulted (OpUpgrade fl_atomic 2 2 [cmr "a" "v2"] []) (mkCF (Some (VPatch, "ConfigMap/a")) None false) ].

(* K7: install {a,b}; upgrade to {a'} with DELETE b rejected *)
Definition k7_history : list hstep :=
  [ clean (OpInstall fl0 1 1 [cmr "a" "v1"; cmr "b" "v1"] []);
    faulted (OpUpgrade fl0 2 2 [cmr "a" "v2"] []) (mkCF (Some (VDelete, "ConfigMap/b")) None false) ].

Definition k7_get_history : list hstep :=
  [ clean (OpInstall fl0 1 1 [cmr "a" "v1"; cmr "b" "v1"] []);
    faulted (OpUpgrade fl0 2 2 [cmr "a" "v2"] []) (mkCF (Some (VGet, "ConfigMap/b")) None false) ].

(* F5 (repaired): a failing pre-rollback hook *)
Definition f5_hook : hook := mkHook (mkRes "ConfigMap" "h1" [("d:h", "1")]) [PreRollback] 0 [].
Definition f5_history : list hstep :=
  [ clean (OpInstall fl0 1 1 [cmr "a" "v1"] [f5_hook]);
    clean (OpUpgrade fl0 2 2 [cmr "a" "v2"] [f5_hook]);
    faulted (OpRollback fl0) (mkCF None (Some ("h1", 0)) false) ].

(* K9: the recovery of a failed atomic install is aborted by its own hook *)
Definition k9_hook : hook := mkHook (mkRes "ConfigMap" "hx" [("d:h", "1")]) [PreInstall; PreDelete] 0 [HookFailed].
Definition k9_history : list hstep :=
  [ faulted (OpInstall fl_atomic 1 1 [cmr "a" "v1"] [k9_hook]) (mkCF (Some (VCreate, "ConfigMap/a")) None false) ].

(* what the code does on a failed ROLLBACK (excluded from previous_stays_deployed by the
   property text): install {a}; upgrade to {a'}; rollback with PATCH a rejected *)
Definition rb_history : list hstep :=
  [ clean (OpInstall fl0 1 1 [cmr "a" "v1"] []);
    clean (OpUpgrade fl0 2 2 [cmr "a" "v2"] []);
    faulted (OpRollback fl0) (mkCF (Some (VPatch, "ConfigMap/a")) None false) ].

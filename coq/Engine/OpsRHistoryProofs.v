(* The ledger clauses along every history of the evaluator of Engine/OpsRHistory.v - operations with crash points,
   out-of-band edits of the cluster, operations with a failing storage read - over the object-store cluster. *)
From Coq Require Import List String Bool Arith ZArith Lia.
From Helm Require Import Common.Assoc Engine.Types Engine.Eff Engine.Ops Engine.Cluster Engine.Seq
                         Engine.SeqProofs Engine.LedgerBase Engine.LedgerDep Engine.OpsR Engine.OpsRProofs
                         Engine.OpsRLedger Engine.OpsRHistory.
Import ListNotations.

(* H2 (no install --replace over a deployed revision) along such a history *)
Fixpoint h2_historyR (rn ns : string) (h : list rstep) (w : world) : Prop :=
  match h with
  | [] => True
  | RS (HOp c) :: t => h2_op (oc_op c) (w_led w) /\ h2_historyR rn ns t (fst (fst (run_store_op rn ns c w)))
  | RS (HEdit e) :: t => h2_historyR rn ns t (apply_edit w e)
  | RRead n c :: t => h2_op (oc_op c) (w_led w) /\ h2_historyR rn ns t (fst (fst (run_store_opR rn ns n c w)))
  end.

(* the storage fault plans: no injected write failure; a read-faulted operation carries no other storage fault *)
Definition step_faults_ok (s : rstep) : Prop :=
  match s with
  | RS (HOp c) => wfail (oc_sf c) = None
  | RS (HEdit _) => True
  | RRead _ c => oc_sf c = mkSF None None
  end.

Lemma run_store_opR_led rn ns n c w :
  oc_sf c = mkSF None None ->
  w_led (fst (fst (run_store_opR rn ns n c w))) =
  fst (fst (fst (run_opR kstate (kube_handle rn ns) dead_resp rn ns (oc_op c) n (w_led w)
                         (mkK (w_objs w) (cf_k (oc_cf c)) (cf_h (oc_cf c)) (cf_wait (oc_cf c)))))).
Proof.
  intros Hsf. unfold run_store_opR, run_opR. rewrite Hsf.
  destruct (run kstate (kube_handle rn ns) dead_resp (mkSF None None) (rfail n (op_progR rn ns (oc_op c))) _) as [s out].
  reflexivity.
Qed.

Theorem historyR_ledger rn ns h : forall w,
  Forall step_faults_ok h -> ledger_ok (w_led w) -> h2_historyR rn ns h w ->
  Forall (fun x => ledger_ok (w_led (fst (fst x)))) (run_historyR rn ns h w).
Proof.
  induction h as [|s t IH]; intros w Hf [Hn Hd] H2; cbn [run_historyR]; [constructor|].
  inversion Hf as [|s' t' Hs Ht]; subst.
  destruct s as [[c|e]|n c]; cbn [h2_historyR step_faults_ok] in *.
  - destruct H2 as [H2o H2t].
    pose proof (run_op_D kstate (kube_handle rn ns) dead_resp rn ns (oc_sf c) (oc_op c) (w_led w)
                  (store_k0 c w) Hs Hn Hd H2o) as [A [B _]].
    cbv zeta in A, B. rewrite <- run_store_op_led in A, B.
    destruct (run_store_op rn ns c w) as [[w' out] tr] eqn:E. cbn [fst] in *.
    constructor; [split; assumption|]. apply IH; auto. split; assumption.
  - constructor.
    + cbn [fst]. destruct e; split; assumption.
    + apply IH; auto. destruct e; split; assumption.
  - destruct H2 as [H2o H2t].
    pose proof (read_fault_ledger kstate (kube_handle rn ns) dead_resp rn ns (oc_op c) n (w_led w)
                  (mkK (w_objs w) (cf_k (oc_cf c)) (cf_h (oc_cf c)) (cf_wait (oc_cf c))) Hn Hd H2o) as Hok.
    rewrite <- (run_store_opR_led rn ns n c w Hs) in Hok.
    destruct (run_store_opR rn ns n c w) as [[w' out] tr] eqn:E. cbn [fst] in *.
    constructor; [exact Hok|]. apply IH; auto.
Qed.

(* Release engine — sequential interpreter with storage-write faults and crash points,
   generic in the cluster handler (so that ledger theorems hold for EVERY cluster
   behaviour), and its instance with the object-store cluster. *)
From Coq Require Import List String Bool Arith ZArith.
From Helm Require Import Common.Assoc Engine.Types Engine.Eff Engine.Ops Engine.Cluster.
Import ListNotations.

(* trace: effective storage writes and cluster calls, in program order *)
Inductive tev :=
| TStore (what : string) (rv : nat) (s : status)     (* "create" / "update" / "delete" *)
| TKube (c : kev).

Record sfaults := mkSF {
  wfail : option nat;        (* the n-th (0-based) storage write of the operation fails *)
  crash : option nat }.      (* the process dies just before its n-th (0-based) mutating effect *)

Section Run.
  Variable K : Type.
  (* cluster handler: state, response, logged calls.  Arbitrary. *)
  Variable kh : forall e : eff, K -> K * resp e * list kev.
  (* what a dead process gets back *)
  Variable dresp : forall e : eff, resp e.

  Record rstate := mkR {
    led : list release;
    ks : K;
    nwrites : nat;           (* storage writes attempted so far in this operation *)
    nmut : nat;              (* mutating effects attempted so far in this operation *)
    dead : bool;
    tr : list tev }.

  Definition has_rev (v : nat) (l : list release) : bool := existsb (fun r => Nat.eqb (rev r) v) l.

  Definition replace_rev (x : release) (l : list release) : list release :=
    map (fun r => if Nat.eqb (rev r) (rev x) then x else r) l.

  Definition remove_rev (v : nat) (l : list release) : list release :=
    filter (fun r => negb (Nat.eqb (rev r) v)) l.

  (* the storage driver as a finite map on revisions *)
  Definition storage_apply (e : eff) (l : list release) : list release * resp e * list tev :=
    match e return list release * resp e * list tev with
    | SHistory => (l, l, [])
    | SDeployedAll => (l, filter (fun r => status_eqb (st r) SDeployed) l, [])
    | SGet v => (l, find (fun r => Nat.eqb (rev r) v) l, [])
    | SCreate x =>
        if has_rev (rev x) l then (l, SExists, [])
        else ((l ++ [x])%list, SOk, [TStore "create" (rev x) (st x)])
    | SUpdate x =>
        if has_rev (rev x) l then (replace_rev x l, SOk, [TStore "update" (rev x) (st x)])
        else (l, SNotFound, [])
    | SDelete v =>
        if has_rev v l then (remove_rev v l, SOk, [TStore "delete" v SUnknown])
        else (l, SNotFound, [])
    | other => (l, dresp other, [])
    end.

  Definition eq_opt (o : option nat) (n : nat) : bool :=
    match o with Some m => Nat.eqb m n | None => false end.

  Definition step (f : sfaults) (e : eff) (s : rstate) : rstate * resp e :=
    let mutating := is_storage_write e || is_cluster_mutation e in
    (* crash point *)
    let s := if negb (dead s) && mutating && eq_opt (crash f) (nmut s)
             then mkR (led s) (ks s) (nwrites s) (nmut s) true (tr s) else s in
    if dead s then
      (* a dead process changes nothing; reads still answer *)
      if is_storage_write e || is_cluster_call e then (s, dresp e)
      else let '(_, r, _) := storage_apply e (led s) in (s, r)
    else if is_cluster_call e then
      let '(k', r, evs) := kh e (ks s) in
      (mkR (led s) k' (nwrites s) (if mutating then S (nmut s) else nmut s) false
           (tr s ++ map TKube evs)%list, r)
    else if is_storage_write e then
      if eq_opt (wfail f) (nwrites s) then
        (mkR (led s) (ks s) (S (nwrites s)) (S (nmut s)) false (tr s), dresp e)
      else
        let '(l', r, evs) := storage_apply e (led s) in
        (mkR l' (ks s) (S (nwrites s)) (S (nmut s)) false (tr s ++ evs)%list, r)
    else
      let '(_, r, _) := storage_apply e (led s) in (s, r).

  Fixpoint run {A} (f : sfaults) (p : prog A) (s : rstate) : rstate * A :=
    match p with
    | Ret a => (s, a)
    | Eff e k => let '(s', r) := step f e s in run f (k r) s'
    end.

  (* one operation on a world: counters and trace start fresh *)
  Definition run_op (rn ns : string) (o : op) (f : sfaults) (l : list release) (k : K)
    : list release * K * outcome * list tev :=
    let '(s, out) := run f (op_prog rn ns o) (mkR l k 0 0 false []) in
    (led s, ks s, if dead s then OCrashed else out, tr s).
End Run.

Arguments led {K} r.
Arguments ks {K} r.
Arguments dead {K} r.
Arguments tr {K} r.
Arguments nwrites {K} r.
Arguments nmut {K} r.
Arguments mkR {K} led ks nwrites nmut dead tr.

(* ---- instance: object-store cluster ---- *)
Record cfaults := mkCF {
  cf_k : option (verb * string);
  cf_h : option (string * nat);
  cf_wait : bool }.

Record opcase := mkOp { oc_op : op; oc_sf : sfaults; oc_cf : cfaults }.

Record world := mkW { w_led : list release; w_objs : list (string * fields) }.

Definition run_store_op (rn ns : string) (c : opcase) (w : world)
  : world * outcome * list tev :=
  let k0 := mkK (w_objs w) (cf_k (oc_cf c)) (cf_h (oc_cf c)) (cf_wait (oc_cf c)) in
  let '(l, k, out, t) := run_op kstate (kube_handle rn ns) dead_resp rn ns (oc_op c) (oc_sf c) (w_led w) k0 in
  (mkW l (objs k), out, t).

(* out-of-band edits between operations *)
Inductive edit := ESet (key : string) (f : fields) | EDel (key : string).

Definition apply_edit (w : world) (e : edit) : world :=
  match e with
  | ESet k f => mkW (w_led w) (aset k f (w_objs w))
  | EDel k => mkW (w_led w) (adel k (w_objs w))
  end.

Inductive hstep := HOp (c : opcase) | HEdit (e : edit).

(* a history: after every step the world, the outcome and the trace *)
Fixpoint run_history (rn ns : string) (h : list hstep) (w : world)
  : list (world * outcome * list tev) :=
  match h with
  | [] => []
  | HOp c :: t => let '(w', out, tr) := run_store_op rn ns c w in (w', out, tr) :: run_history rn ns t w'
  | HEdit e :: t => let w' := apply_edit w e in (w', OOk, []) :: run_history rn ns t w'
  end.

(* Decision translator — the named conditions of Engine/DecisionsModel.v ARE the conditions of
   Engine/Ops.v: every program / function of Ops.v that contains a decision site equals its
   [*_d] twin, in which the branch is an `if` on the named condition applied to the
   environment of that program point.  Programs are compared with [peq] (equal effect for
   effect, continuations equal for every answer — Leibniz equality of continuations would
   need functional extensionality), which is observational equality under every handler
   ([peq_run]).  Independent of the generated table.  See notes/DEC.md. *)
From Coq Require Import List String Bool Arith ZArith Lia.
From Helm Require Import Common.Assoc Engine.Types Engine.Eff Engine.Ops Engine.OpsFix
                         Engine.Decisions Engine.DecisionsModel.
Import ListNotations.
Local Open Scope string_scope.

(* ---- pointwise equality of programs --------------------------------------------------- *)

(* [peqR R p q]: the same effects in the same order, continuations related for every answer,
   results related by R *)
Inductive peqR {A A'} (R : A -> A' -> Prop) : prog A -> prog A' -> Prop :=
| peq_ret : forall a a', R a a' -> peqR R (Ret a) (Ret a')
| peq_eff : forall e k k', (forall r, peqR R (k r) (k' r)) -> peqR R (Eff e k) (Eff e k').

Notation peq := (peqR eq).

Lemma peq_refl {A} (p : prog A) : peq p p.
Proof. induction p; constructor; auto. Qed.

Lemma peq_bindR {A A' B B'} (R : A -> A' -> Prop) (Q : B -> B' -> Prop)
      (p : prog A) (p' : prog A') (f : A -> prog B) (f' : A' -> prog B') :
  peqR R p p' -> (forall a a', R a a' -> peqR Q (f a) (f' a')) -> peqR Q (bind p f) (bind p' f').
Proof. induction 1; intros Hf; simpl; [apply Hf; assumption|]. constructor; intros r; apply H0; exact Hf. Qed.

Lemma peq_bind {A B} (p p' : prog A) (f f' : A -> prog B) :
  peq p p' -> (forall a, peq (f a) (f' a)) -> peq (bind p f) (bind p' f').
Proof. intros H Hf. apply (peq_bindR eq eq _ _ _ _ H). intros a a' <-. apply Hf. Qed.

(* a handler with a state answers every effect; [run] is the result of a program under it *)
Fixpoint run {S A} (hd : forall e : eff, S -> resp e * S) (p : prog A) (s : S) : A * S :=
  match p with
  | Ret a => (a, s)
  | Eff e k => let '(r, s') := hd e s in run hd (k r) s'
  end.

Lemma peq_run {S A} (hd : forall e : eff, S -> resp e * S) (p q : prog A) :
  peq p q -> forall s, run hd p s = run hd q s.
Proof. induction 1; intros s; simpl; [congruence|]. destruct (hd e s) as [r s']. apply H0. Qed.

(* ---- arithmetic bridges (the model counts in nat, Go in int) ---------------------------- *)

Lemma zlen_nil_pos {A} (l : list A) : (0 <? zlen l)%Z = match l with [] => false | _ => true end.
Proof. destruct l; reflexivity. Qed.

Lemma zlen_eq0 {A} (l : list A) : (zlen l =? 0)%Z = match l with [] => true | _ => false end.
Proof. destruct l; reflexivity. Qed.

Lemma zlen_lt1 {A} (l : list A) : (zlen l <? 1)%Z = match l with [] => true | _ => false end.
Proof. destruct l; [reflexivity|]. unfold zlen. simpl List.length. apply Z.ltb_ge. lia. Qed.

Lemma max_rev_of_cons r t : exists m, max_rev_of (r :: t) = Some m.
Proof. simpl. destruct (max_rev_of t) as [m|]; [destruct (Nat.ltb (rev m) (rev r))|]; eauto. Qed.

Lemma znat_eqb a b : (znat a =? znat b)%Z = Nat.eqb a b.
Proof.
  unfold znat. destruct (Nat.eqb a b) eqn:E.
  - apply Nat.eqb_eq in E. subst. apply Z.eqb_refl.
  - apply Nat.eqb_neq in E. apply Z.eqb_neq. lia.
Qed.

Lemma znat_leb a b : (znat a <=? znat b)%Z = Nat.leb a b.
Proof.
  unfold znat. destruct (Nat.leb a b) eqn:E.
  - apply Nat.leb_le in E. apply Z.leb_le. lia.
  - apply Nat.leb_gt in E. apply Z.leb_gt. lia.
Qed.

Lemma znat_ltb a b : (znat a <? znat b)%Z = Nat.ltb a b.
Proof.
  unfold znat. destruct (Nat.ltb a b) eqn:E.
  - apply Nat.ltb_lt in E. apply Z.ltb_lt. lia.
  - apply Nat.ltb_ge in E. apply Z.ltb_ge. lia.
Qed.

Lemma length_insert r l : List.length (insert_by_rev r l) = S (List.length l).
Proof. induction l as [|x t IH]; simpl; [reflexivity|]. destruct (Nat.leb (rev r) (rev x)); simpl; congruence. Qed.

Lemma length_sort_by_rev l : List.length (sort_by_rev l) = List.length l.
Proof. induction l as [|x t IH]; simpl; [reflexivity|]. unfold sort_by_rev in *. simpl. rewrite length_insert. congruence. Qed.

(* resolve the lookups of an explicit environment, and nothing else *)
Ltac env_simpl :=
  cbn [m_n m_s m_b m_e m_p m_str m_flag m_err m_nil set_n set_s set_b set_e set_p set_str set_flags
       set_err set_nil env0 upd String.eqb Ascii.eqb Bool.eqb env_hist env_flags].

(* ---- pure functions ------------------------------------------------------------------------ *)

(* sorter.go ByRevision.Less is the order of the model's sort and of its "newest revision" *)
Lemma insert_by_rev_less r x : Nat.leb (rev r) (rev x) = negb (rev_less x r).
Proof.
  unfold rev_less, c_rev_less. env_simpl. rewrite znat_ltb.
  destruct (Nat.leb (rev r) (rev x)) eqn:E; symmetry.
  - apply Nat.leb_le in E. apply negb_true_iff, Nat.ltb_ge. exact E.
  - apply Nat.leb_gt in E. apply negb_false_iff, Nat.ltb_lt. exact E.
Qed.

Lemma max_rev_of_less m r : Nat.ltb (rev m) (rev r) = rev_less m r.
Proof. unfold rev_less, c_rev_less. env_simpl. symmetry. apply znat_ltb. Qed.

Lemma hook_less_is a b : hook_less a b = hook_less_d a b.
Proof. reflexivity. Qed.

Lemma hooks_for_is ev hs : hooks_for ev hs = hooks_for_d ev hs.
Proof. reflexivity. Qed.

Lemma effective_policies_is h : effective_policies h = effective_policies_d h.
Proof. unfold effective_policies, effective_policies_d, c_hook_default. env_simpl. rewrite zlen_eq0. destruct (h_policies h); reflexivity. Qed.

Lemma has_policy_is h p : has_policy h p = has_policy_d h p.
Proof. reflexivity. Qed.

Lemma manifest_keep_is r : manifest_keep r = manifest_keep_d r.
Proof. unfold manifest_keep, manifest_keep_d. destruct (aget policy_key (r_fields r)); reflexivity. Qed.

(* the keep filter is the path condition of `keep = append(keep, m)` in filterManifestsToKeep *)
Lemma manifest_keep_is_item r :
  manifest_keep r =
  p_keep (set_n "len(each(arg1).head.metadata.annotations)" (match aget policy_key (r_fields r) with Some _ => 1%Z | None => 0%Z end)
         (set_b "has(each(arg1).head.metadata.annotations[helm.sh/resource-policy])"
                (match aget policy_key (r_fields r) with Some _ => true | None => false end)
         (set_str "each(arg1).head.metadata.annotations[helm.sh/resource-policy]"
                (match aget policy_key (r_fields r) with Some v => v | None => "" end) env0))).
Proof. unfold manifest_keep. destruct (aget policy_key (r_fields r)); reflexivity. Qed.

(* rollback's target revision: the model computes it in nat (rev cur - 1 truncates at 0), Go
   in int; they agree for every stored revision number (>= 1) *)
Lemma rollback_prev_is (v cur : nat) :
  1 <= cur ->
  znat (match v with 0 => cur - 1 | _ => v end)
  = v_rb_prev (set_n "opt.Version" (znat v) (set_n "Last.version" (znat cur) env0)).
Proof.
  intros H. unfold v_rb_prev, c_rb_default. env_simpl.
  destruct v as [|v']; [change (znat 0 =? 0)%Z with true; cbv iota; unfold znat; lia|].
  replace (znat (S v') =? 0)%Z with false by (symmetry; apply Z.eqb_neq; unfold znat; lia). reflexivity.
Qed.

(* validate.go checkOwnership = three requireValue *)
Lemma owned_by_is rel_name rel_ns f :
  owned_by rel_name rel_ns f
  = require_value_d managed_by_key "Helm" f && require_value_d rel_name_key rel_name f
    && require_value_d rel_ns_key rel_ns f.
Proof.
  unfold owned_by, require_value_d, c_req_missing, c_req_differs, vstr_eqb. env_simpl.
  destruct (aget managed_by_key f) as [a|]; [|reflexivity].
  destruct (aget rel_name_key f) as [b|]; [|cbn; destruct (String.eqb a "Helm"); reflexivity].
  destruct (aget rel_ns_key f) as [c|]; cbn;
    destruct (String.eqb a "Helm"), (String.eqb b rel_name); try reflexivity;
    destruct (String.eqb c rel_ns); reflexivity.
Qed.

Lemma prune_pick_is h dep total maxkeep picked :
  picked + List.length h <= total ->
  prune_pick h dep total maxkeep picked = prune_pick_d h dep total maxkeep picked.
Proof.
  revert picked; induction h as [|r t IH]; intros picked Hle; [reflexivity|].
  simpl in Hle. simpl prune_pick. simpl prune_pick_d.
  unfold c_rlr_enough, c_rlr_has_deployed, c_rlr_other. env_simpl.
  replace (znat total - znat picked)%Z with (znat (total - picked)) by (unfold znat; lia).
  rewrite znat_eqb.
  destruct (Nat.eqb (total - picked) maxkeep); [reflexivity|].
  destruct dep as [d|]; cbn [negb].
  - rewrite znat_eqb. destruct (Nat.eqb (rev r) d); cbn [negb].
    + apply IH. lia.
    + f_equal. apply IH. lia.
  - f_equal. apply IH. lia.
Qed.

(* ---- programs -------------------------------------------------------------------------------- *)

Ltac peq_go :=
  repeat first
    [ apply peq_refl
    | apply peq_bind; [ | intro ]
    | apply peq_eff; intro ].

Lemma storage_create_is r mh : peq (storage_create r mh) (storage_create_d r mh).
Proof.
  unfold storage_create, storage_create_d, c_create_limit. env_simpl.
  destruct mh as [|m]; [apply peq_refl|]. change (0 <? znat (S m))%Z with true. cbv iota.
  replace (S m - 1) with m by lia. apply peq_refl.
Qed.

Lemma remove_least_recent_is maxkeep : peq (remove_least_recent maxkeep) (remove_least_recent_d maxkeep).
Proof.
  unfold remove_least_recent, remove_least_recent_d.
  apply peq_bind; [apply peq_refl|]. intros h. destruct h as [|r0 t0]; [apply peq_refl|].
  unfold c_rlr_fits. env_simpl.
  change (zlen (r0 :: t0)) with (znat (List.length (r0 :: t0))). rewrite znat_leb.
  destruct (Nat.leb (List.length (r0 :: t0)) maxkeep); [apply peq_refl|].
  apply peq_bind; [apply peq_refl|]. intros ds.
  assert (Hdep : (if c_deployed_none (set_n "len(DeployedAll)" (zlen ds) env0) then None
                  else match max_rev_of ds with Some d => Some (rev d) | None => None end)
                 = match max_rev_of ds with Some d => Some (rev d) | None => None end).
  { unfold c_deployed_none. env_simpl. rewrite zlen_eq0. destruct ds; reflexivity. }
  cbv zeta. rewrite Hdep.
  rewrite <- prune_pick_is by (rewrite length_sort_by_rev; simpl; lia).
  apply peq_bind; [apply peq_refl|]. intros res.
  unfold c_rlr_no_error, c_rlr_one_error. env_simpl.
  destruct (fst res) as [|[|k]]; try apply peq_refl.
  replace (znat (S (S k)) =? 0)%Z with false by (symmetry; apply Z.eqb_neq; unfold znat; lia).
  replace (znat (S (S k)) =? 1)%Z with false by (symmetry; apply Z.eqb_neq; unfold znat; lia).
  apply peq_refl.
Qed.

Lemma delete_hook_by_policy_is h p : peq (delete_hook_by_policy h p) (delete_hook_by_policy_d h p).
Proof.
  unfold delete_hook_by_policy, delete_hook_by_policy_d, c_hook_crd, c_hook_policy, c_hook_delete_failed, vstr_eqb.
  env_simpl.
  destruct (String.eqb (h_kind h) "CustomResourceDefinition"); [apply peq_refl|].
  destruct (has_policy h p); [|apply peq_refl].
  apply peq_bind; [apply peq_refl|]. intros ok. destruct ok; apply peq_refl.
Qed.

Section OpsD.
  Variable rn ns : string.

  Lemma uninstall_is fl : peq (uninstall fl) (uninstall_d fl).
  Proof.
    unfold uninstall, uninstall_d.
    destruct (f_dry_run fl).
    - unfold c_content_last. env_simpl. change (0 <=? 0)%Z with true. cbv iota.
      apply peq_bind; [apply peq_refl|]. intros h. unfold c_last_none. env_simpl.
      rewrite zlen_eq0. destruct h; apply peq_refl.
    - apply peq_bind; [apply peq_refl|]. intros h. unfold c_un_none. env_simpl.
      rewrite zlen_lt1. destruct h as [|r0 t0]; [apply peq_refl|].
      destruct (max_rev_of_cons r0 t0) as [last ->].
      unfold c_un_already. env_simpl.
      destruct (status_eqb (st last) SUninstalled); [apply peq_refl|].
      cbv zeta.
      apply peq_bind; [apply peq_refl|]. intros pre. destruct (negb pre); [apply peq_refl|].
      apply peq_bind; [apply peq_refl|]. intros _.
      apply peq_bind; [|intro; apply peq_refl].
      unfold c_un_delete. env_simpl. rewrite zlen_nil_pos.
      destruct (filter _ _); apply peq_refl.
  Qed.

  Lemma existsb_ext {A} (f g : A -> bool) l : (forall x, f x = g x) -> existsb f l = existsb g l.
  Proof. intros H; induction l; simpl; [reflexivity|]. rewrite H, IHl. reflexivity. Qed.

  Lemma rollback_is fl : peq (rollback rn ns fl) (rollback_d rn ns fl).
  Proof.
    unfold rollback, rollback_d.
    apply peq_bind; [apply peq_refl|]. intros h. unfold c_last_none. env_simpl.
    rewrite zlen_eq0. destruct h as [|r0 t0]; [apply peq_refl|].
    destruct (max_rev_of_cons r0 t0) as [cur ->].
    cbv zeta.
    assert (Hprev : (if c_rb_default (set_n "opt.Version" (znat (f_version fl)) env0)
                     then rev cur - 1 else f_version fl)
                    = match f_version fl with 0 => rev cur - 1 | v => v end).
    { unfold c_rb_default. env_simpl. destruct (f_version fl); reflexivity. }
    rewrite Hprev.
    apply peq_bind; [apply peq_refl|]. intros h2.
    unfold c_rb_missing, c_rb_same. env_simpl.
    assert (Hex : forall prev, existsb (fun r => (znat prev =? znat (rev r))%Z) h2
                               = existsb (fun r => Nat.eqb (rev r) prev) h2)
      by (intro; apply existsb_ext; intro; rewrite znat_eqb; apply Nat.eqb_sym).
    rewrite Hex.
    apply peq_refl.
  Qed.

  Lemma filter_ext' {A} (f g : A -> bool) l : (forall x, f x = g x) -> filter f l = filter g l.
  Proof. intros H; induction l; simpl; [reflexivity|]. rewrite H, IHl. reflexivity. Qed.

  Lemma upgrade_fail_is fl up created : peq (upgrade_fail rn ns fl up created) (upgrade_fail_d rn ns fl up created).
  Proof.
    unfold upgrade_fail, upgrade_fail_d.
    apply peq_bind; [apply peq_refl|]. intros _.
    apply peq_bind.
    - unfold c_fail_cleanup. env_simpl. unfold flag_env. env_simpl. rewrite zlen_nil_pos. destruct (f_cleanup fl), created; apply peq_refl.
    - intros cleaned. destruct (negb cleaned); [apply peq_refl|].
      destruct (f_atomic fl); [|apply peq_refl].
      apply peq_bind; [apply peq_refl|]. intros h. cbv zeta.
      unfold c_fail_none, c_fail_good. env_simpl.
      rewrite zlen_eq0.
      destruct (filter _ h) as [|g0 t0] eqn:E; [apply peq_refl|].
      apply peq_refl.
  Qed.

  Lemma upgrade_is fl cid vid mani hks : peq (upgrade rn ns fl cid vid mani hks) (upgrade_d rn ns fl cid vid mani hks).
  Proof.
    unfold upgrade, upgrade_d.
    apply peq_bind; [apply peq_refl|]. intros h. unfold c_last_none. env_simpl.
    rewrite zlen_eq0. destruct h as [|r0 t0]; [apply peq_refl|].
    destruct (max_rev_of_cons r0 t0) as [last ->].
    cbv zeta. unfold c_up_pending, c_up_last_deployed, c_up_fallback, c_deployed_none. env_simpl.
    destruct (is_pending (st last)); [apply peq_refl|].
    apply peq_bind; [|intro; apply peq_refl].
    destruct (status_eqb (st last) SDeployed); [apply peq_refl|].
    apply peq_bind; [apply peq_refl|]. intros ds.
    rewrite zlen_eq0. destruct ds as [|d0 dt]; [apply peq_refl|].
    destruct (max_rev_of_cons d0 dt) as [d ->]. apply peq_refl.
  Qed.

  Lemma install_apply_is (resources adopted : list res) :
    peq (match resources with
         | [] => Ret true
         | _ => match adopted with
                | [] => perform (KCreate resources)
                | _ => bind (perform (KUpdate adopted resources)) (fun u => Ret (fst u))
                end
         end)
        (let m := set_n "len(arg2)" (zlen adopted) (set_n "len(arg3)" (zlen resources) env0) in
         if c_inst_create m then perform (KCreate resources)
         else if c_inst_update m then bind (perform (KUpdate adopted resources)) (fun u => Ret (fst u))
         else Ret true).
  Proof.
    unfold c_inst_create, c_inst_update. env_simpl. rewrite zlen_eq0, zlen_nil_pos.
    destruct resources, adopted; apply peq_refl.
  Qed.

  Lemma install_check_is fl (resources : list res) :
    c_inst_check (set_n "len(Build)" (zlen resources) (env_flags fl))
    = negb (f_client_only fl) && negb (match resources with [] => true | _ => false end).
  Proof.
    unfold c_inst_check. env_simpl. unfold flag_env. env_simpl. rewrite zlen_nil_pos, andb_true_r. destruct resources; reflexivity.
  Qed.

  Lemma install_tail_is fl rel adopted resources :
    peq
      (pre <- run_hooks fl rel PreInstall ;;
       if negb pre then install_fail fl rel else
       ok <- match resources with
             | [] => Ret true
             | _ => match adopted with
                    | [] => perform (KCreate resources)
                    | _ => u <- perform (KUpdate adopted resources) ;; Ret (fst u)
                    end
             end ;;
       if negb ok then install_fail fl rel else
       w <- perform (KWait resources) ;;
       if negb w then install_fail fl rel else
       post <- run_hooks fl rel PostInstall ;;
       if negb post then install_fail fl rel else
       record_release (with_status rel SDeployed) ;;; Ret OOk)%prog
      (pre <- run_hooks fl rel PreInstall ;;
       if negb pre then install_fail fl rel else
       let m := set_n "len(arg2)" (zlen adopted) (set_n "len(arg3)" (zlen resources) env0) in
       ok <- (if c_inst_create m then perform (KCreate resources)
              else if c_inst_update m then u <- perform (KUpdate adopted resources) ;; Ret (fst u)
              else Ret true) ;;
       if negb ok then install_fail fl rel else
       w <- perform (KWait resources) ;;
       if negb w then install_fail fl rel else
       post <- run_hooks fl rel PostInstall ;;
       if negb post then install_fail fl rel else
       record_release (with_status rel SDeployed) ;;; Ret OOk)%prog.
  Proof.
    apply peq_bind; [apply peq_refl|]. intros pre. destruct (negb pre); [apply peq_refl|].
    cbv zeta. apply peq_bind; [apply install_apply_is | intro; apply peq_refl].
  Qed.

  (* availableName, shared by both variants *)
  Lemma install_avail_is fl :
    peq (if f_dry_run fl then Ret true
         else h <- perform SHistory ;;
              match max_rev_of h with
              | None => Ret true
              | Some last =>
                  Ret (f_replace fl && (status_eqb (st last) SUninstalled || status_eqb (st last) SFailed))
              end)%prog
        (if f_dry_run fl then Ret true
         else h <- perform SHistory ;;
              if c_avail_free (env_hist h) then Ret true else
              match max_rev_of h with
              | None => Ret true
              | Some last =>
                  Ret (c_avail_replace (set_s "revsorted(History)[0].status" (st last) (env_flags fl)))
              end)%prog.
  Proof.
    destruct (f_dry_run fl); [apply peq_refl|].
    apply peq_bind; [apply peq_refl|]. intros h.
    unfold c_avail_free. env_simpl. rewrite zlen_lt1.
    destruct h as [|r0 t0]; [apply peq_refl|]. simpl orb. cbv iota.
    destruct (max_rev_of_cons r0 t0) as [last ->]. apply peq_refl.
  Qed.

  (* replaceRelease: Ops.install keeps its result in an option, the repaired variant (and
     install_gen) in a [result]; the two are related by [rr_rel] *)
  Definition rr_rel (o : option release) (r : result release) : Prop :=
    match o, r with
    | Some a, ROk b => a = b
    | None, RErr EOtherErr => True
    | _, _ => False
    end.

  Lemma install_replace_is fl (rel0 : release) :
    peqR rr_rel
      (if f_replace fl then
         h <- perform SHistory ;;
         match max_rev_of h with
         | None => Ret (Some rel0)
         | Some last =>
             let rel1 := with_rev rel0 (S (rev last)) in
             if status_eqb (st last) SFailed then Ret (Some rel1)
             else e <- perform (SUpdate (with_status last SSuperseded)) ;;
                  match e with SOk => Ret (Some rel1) | _ => Ret None end
         end
       else Ret (Some rel0))%prog
      (if f_replace fl then
         h <- perform SHistory ;;
         if c_repl_none (env_hist h) then Ret (ROk rel0) else
         match max_rev_of h with
         | None => Ret (ROk rel0)
         | Some last =>
             let rel1 := with_rev rel0 (S (rev last)) in
             let m := set_s "revsorted(History)[0].status" (st last) env0 in
             if c_repl_failed m then Ret (ROk rel1)
             else if false && c_repl_pending m then Ret (RErr EPending)
             else e <- perform (SUpdate (with_status last SSuperseded)) ;;
                  match e with SOk => Ret (ROk rel1) | _ => Ret (RErr EOtherErr) end
         end
       else Ret (ROk rel0))%prog.
  Proof.
    destruct (f_replace fl); [|constructor; reflexivity].
    apply (peq_bindR eq); [apply peq_refl|]. intros h ? <-.
    unfold c_repl_none. env_simpl. rewrite zlen_eq0.
    destruct h as [|r0 t0]; [constructor; reflexivity|]. cbn [orb].
    destruct (max_rev_of_cons r0 t0) as [last ->]. cbv zeta.
    unfold c_repl_failed. env_simpl.
    destruct (status_eqb (st last) SFailed); [constructor; reflexivity|]. cbn [andb].
    apply (peq_bindR eq); [apply peq_refl|]. intros e ? <-.
    destruct e; constructor; exact I || reflexivity.
  Qed.

  Lemma install_replace_fx_is fl (rel0 : release) :
    peq
      (if f_replace fl then
         h <- perform SHistory ;;
         match max_rev_of h with
         | None => Ret (ROk rel0)
         | Some last =>
             let rel1 := with_rev rel0 (S (rev last)) in
             if status_eqb (st last) SFailed then Ret (ROk rel1)
             else if is_pending (st last) then Ret (RErr EPending)
             else e <- perform (SUpdate (with_status last SSuperseded)) ;;
                  match e with SOk => Ret (ROk rel1) | _ => Ret (RErr EOtherErr) end
         end
       else Ret (ROk rel0))%prog
      (if f_replace fl then
         h <- perform SHistory ;;
         if c_repl_none (env_hist h) then Ret (ROk rel0) else
         match max_rev_of h with
         | None => Ret (ROk rel0)
         | Some last =>
             let rel1 := with_rev rel0 (S (rev last)) in
             let m := set_s "revsorted(History)[0].status" (st last) env0 in
             if c_repl_failed m then Ret (ROk rel1)
             else if true && c_repl_pending m then Ret (RErr EPending)
             else e <- perform (SUpdate (with_status last SSuperseded)) ;;
                  match e with SOk => Ret (ROk rel1) | _ => Ret (RErr EOtherErr) end
         end
       else Ret (ROk rel0))%prog.
  Proof.
    destruct (f_replace fl); [|apply peq_refl].
    apply peq_bind; [apply peq_refl|]. intros h.
    unfold c_repl_none. env_simpl. rewrite zlen_eq0.
    destruct h as [|r0 t0]; [apply peq_refl|]. cbn [orb].
    destruct (max_rev_of_cons r0 t0) as [last ->]. apply peq_refl.
  Qed.

  Lemma install_is fl cid vid mani hks :
    peq (install rn ns fl cid vid mani hks) (install_gen rn ns false fl cid vid mani hks).
  Proof.
    unfold install, install_gen. cbv zeta.
    apply peq_bind; [apply install_avail_is|]. intros avail.
    destruct (negb avail); [apply peq_refl|].
    rewrite install_check_is.
    apply peq_bind; [apply peq_refl|]. intros adopt. destruct adopt as [adopted|]; [|apply peq_refl].
    destruct (f_dry_run fl); [apply peq_refl|].
    apply (peq_bindR rr_rel); [apply install_replace_is|].
    intros o r Hr. destruct o as [rel|], r as [rel'|c]; simpl in Hr; try contradiction.
    - subst rel'. apply peq_bind; [apply peq_refl|]. intros e.
      destruct e; try apply peq_refl. apply (install_tail_is fl).
    - destruct c; try contradiction. apply peq_refl.
  Qed.

  Lemma install_fx_is fl cid vid mani hks :
    peq (install_fx rn ns fl cid vid mani hks) (install_gen rn ns true fl cid vid mani hks).
  Proof.
    unfold install_fx, install_gen. cbv zeta.
    apply peq_bind; [apply install_avail_is|]. intros avail.
    destruct (negb avail); [apply peq_refl|].
    rewrite install_check_is.
    apply peq_bind; [apply peq_refl|]. intros adopt. destruct adopt as [adopted|]; [|apply peq_refl].
    destruct (f_dry_run fl); [apply peq_refl|].
    apply peq_bind; [apply install_replace_fx_is|].
    intros r. destruct r as [rel|c]; [|apply peq_refl].
    apply peq_bind; [apply peq_refl|]. intros e.
    destruct e; try apply peq_refl. apply (install_tail_is fl).
  Qed.
End OpsD.

(* C09 — how the harness STARTS the concurrent operations: each operation is launched in index
   order and runs up to its first gate (its first storage call or mutating cluster call) before
   the next one is launched and before the schedule begins; an operation that has no gate at
   all (install --dry-run: cluster look-ups only) has returned by then.  [prestart] does the
   same on the model: every thread, in index order, performs its leading ungated effects.
   [run_started] = [prestart] followed by the gate-granularity runner of Engine/Conc.v; it is
   again an instance of [run] on an expanded schedule (Engine/ConcMix.v, [run_started_is_run]). *)
From Coq Require Import List String Bool Arith.
From Helm Require Import Common.Assoc Engine.Types Engine.Eff Engine.Ops Engine.Cluster Engine.Seq Engine.Conc.
Import ListNotations.

Section Start.
  Variable K : Type.
  Variable kh : forall e : eff, K -> K * resp e * list kev.
  Variable dresp : forall e : eff, resp e.
  Variable A : Type.

  Fixpoint prestart (is : list nat) (ts : list (prog A)) (s : cstate K) : list (prog A) * cstate K :=
    match is with
    | [] => (ts, s)
    | i :: t =>
        match nth_error ts i with
        | Some p => let '(ts', s') := drain_ungated K kh dresp A i p ts s in prestart t ts' s'
        | None => prestart t ts s
        end
    end.

  Definition run_started (ts : list (prog A)) (sch : list nat) (s : cstate K) : list (prog A) * cstate K :=
    let '(ts0, s0) := prestart (seq 0 (List.length ts)) ts s in
    run_gated K kh dresp A ts0 sch s0.

  Definition effective_started (ts : list (prog A)) (sch : list nat) (s : cstate K) : list nat :=
    let '(ts0, s0) := prestart (seq 0 (List.length ts)) ts s in
    effective_gates K kh dresp A sch ts0 s0.
End Start.

(* NOT part of any check (nothing requires this file; it is built by a full `make` only):
   every single failure on the WHOLE scenario space flag_space x ledgers x adopt (18 768 runs,
   about 45 s here and a quarter of an hour in coqchk, which is why the checked theorems use
   the smaller space of SkeletonModel.fail_flag_space / fail_ledgers).
   By hand:  cd coq && coqc -Q . Helm Engine/SkeletonDeep.v *)
From Coq Require Import List String Bool Arith.
From Helm Require Import Engine.Types Engine.Eff Engine.Ops Engine.Skeleton Engine.SkeletonExpected
                         Engine.SkeletonModel Engine.SkeletonProofs.
Import ListNotations.

Lemma deep_install : check_op_deep OInstall expected rexpected = true.
Proof. vm_cast_no_check (eq_refl true). Qed.
Lemma deep_upgrade : check_op_deep OUpgrade expected rexpected = true.
Proof. vm_cast_no_check (eq_refl true). Qed.
Lemma deep_rollback : check_op_deep ORollback expected rexpected = true.
Proof. vm_cast_no_check (eq_refl true). Qed.
Lemma deep_uninstall : check_op_deep OUninstall expected rexpected = true.
Proof. vm_cast_no_check (eq_refl true). Qed.

Lemma model_follows_skeleton_deep :
  forall o fl l ad,
    In fl (flag_space o) -> In l ledgers ->
    follows expected rexpected (mkScen o fl l ad) [] = true /\
    forall n, n < List.length (model_trace (mkScen o fl l ad) []) ->
              follows expected rexpected (mkScen o fl l ad) [n] = true.
Proof.
  intros [] fl l ad.
  - exact (check_op_deep_lift OInstall expected rexpected deep_install fl l ad).
  - exact (check_op_deep_lift OUpgrade expected rexpected deep_upgrade fl l ad).
  - exact (check_op_deep_lift ORollback expected rexpected deep_rollback fl l ad).
  - exact (check_op_deep_lift OUninstall expected rexpected deep_uninstall fl l ad).
Qed.

(* Generic facts about the interleaving interpreter Engine/Conc.v:
   - every run is a sequence of single [step_thread]s, so a predicate on (pool, state)
     preserved by every single step of every thread holds at the end of EVERY schedule
     ([run_inv], also for the gate-granularity runner [run_gated_inv]);
   - all threads have returned at the end ([run_all_ret]);
   - ledger-only invariants of [storage_apply] lift ([run_ledger_inv], [run_revisions_unique]). *)
From Coq Require Import List String Bool Arith ZArith Lia.
From Helm Require Import Common.Assoc Engine.Types Engine.Eff Engine.Ops Engine.Cluster Engine.Seq Engine.SeqProofs Engine.Conc.
Import ListNotations.

(* ---- lists ---- *)
Lemma set_nth_length {X} i (x : X) l : List.length (set_nth i x l) = List.length l.
Proof. revert i. induction l as [|y t IH]; intros [|i]; simpl; auto. Qed.

Lemma nth_error_set_nth_eq {X} i (x : X) l : i < List.length l -> nth_error (set_nth i x l) i = Some x.
Proof. revert i. induction l as [|y t IH]; intros [|i] H; simpl in *; try lia; auto. apply IH. lia. Qed.

Lemma nth_error_set_nth_neq {X} i j (x : X) l : i <> j -> nth_error (set_nth i x l) j = nth_error l j.
Proof.
  revert i j. induction l as [|y t IH]; intros [|i] [|j] H; simpl; auto; try congruence.
Qed.

Lemma nth_error_lt {X} (l : list X) i x : nth_error l i = Some x -> i < List.length l.
Proof. intros H. apply nth_error_Some. congruence. Qed.

Section Generic.
  Variable K : Type.
  Variable kh : forall e : eff, K -> K * resp e * list kev.
  Variable dresp : forall e : eff, resp e.
  Variable A : Type.

  Notation cstate := (cstate K).
  Notation cstep := (cstep K kh dresp).
  Notation step_thread := (step_thread K kh dresp A).
  Notation run_sched := (run_sched K kh dresp A).
  Notation drain := (drain K kh dresp A).
  Notation finish := (finish K kh dresp A).
  Notation run := (run K kh dresp A).
  Notation drain_ungated := (drain_ungated K kh dresp A).
  Notation step_gate := (step_gate K kh dresp A).
  Notation run_gates := (run_gates K kh dresp A).
  Notation run_gated := (run_gated K kh dresp A).
  Notation pool := (list (prog A)).

  (* ---- what one effect does ---- *)
  Lemma cstep_spec i e (s : cstate) :
    exists r out,
      cstep i e s = (mkC (if is_cluster_call e then c_led s else fst (fst (storage_apply dresp e (c_led s))))
                         (c_ks (fst (cstep i e s)))
                         (c_tr s ++ [mkCev i e r out]), r)
      /\ (is_cluster_call e = false -> r = snd (fst (storage_apply dresp e (c_led s)))
                                       /\ out = snd (storage_apply dresp e (c_led s))
                                       /\ c_ks (fst (cstep i e s)) = c_ks s).
  Proof.
    unfold Conc.cstep. destruct (is_cluster_call e) eqn:E.
    - destruct (kh e (c_ks s)) as [[k' r] evs]. exists r, (map TKube evs). split; [reflexivity|discriminate].
    - destruct (storage_apply dresp e (c_led s)) as [[l' r] evs]. exists r, evs. simpl. split; auto.
  Qed.

  Lemma step_thread_some i ts s e k :
    nth_error ts i = Some (Eff e k) ->
    step_thread i ts s = Some (set_nth i (k (snd (cstep i e s))) ts, fst (cstep i e s)).
  Proof.
    intros H. unfold Conc.step_thread. rewrite H. destruct (cstep i e s) as [s' r]. reflexivity.
  Qed.

  Lemma step_thread_inv i ts s ts' s' :
    step_thread i ts s = Some (ts', s') ->
    exists e k, nth_error ts i = Some (Eff e k)
                /\ ts' = set_nth i (k (snd (cstep i e s))) ts /\ s' = fst (cstep i e s).
  Proof.
    unfold Conc.step_thread. destruct (nth_error ts i) as [[a|e k]|] eqn:E; try discriminate.
    destruct (cstep i e s) as [s1 r] eqn:E1. intros H. inversion H; subst. exists e, k. rewrite E1. simpl. auto.
  Qed.

  (* ---- invariants of (pool, state) ---- *)
  Section Inv.
    Variable Inv : pool -> cstate -> Prop.
    Hypothesis Inv_step : forall i ts s ts' s', Inv ts s -> step_thread i ts s = Some (ts', s') -> Inv ts' s'.

    Lemma run_sched_inv sch : forall ts s, Inv ts s ->
      Inv (fst (run_sched sch ts s)) (snd (run_sched sch ts s)).
    Proof.
      induction sch as [|i t IH]; intros ts s H; simpl; auto.
      destruct (step_thread i ts s) as [[ts' s']|] eqn:E; auto.
      apply IH. eapply Inv_step; eauto.
    Qed.

    Lemma drain_inv i p : forall ts s, nth_error ts i = Some p -> Inv ts s ->
      Inv (fst (drain i p ts s)) (snd (drain i p ts s)).
    Proof.
      induction p as [a|e k IH]; intros ts s Hn H; simpl; auto.
      pose proof (step_thread_some i ts s e k Hn) as St.
      destruct (cstep i e s) as [s' r] eqn:E. simpl in St.
      apply IH.
      - apply nth_error_set_nth_eq. eapply nth_error_lt; eauto.
      - eapply Inv_step; eauto.
    Qed.

    Lemma finish_inv is : forall ts s, Inv ts s ->
      Inv (fst (finish is ts s)) (snd (finish is ts s)).
    Proof.
      induction is as [|i t IH]; intros ts s H; simpl; auto.
      destruct (nth_error ts i) as [p|] eqn:E; auto.
      pose proof (drain_inv i p ts s E H) as G.
      destruct (drain i p ts s) as [ts' s']. apply IH. exact G.
    Qed.

    Theorem run_inv ts sch s : Inv ts s -> Inv (fst (run ts sch s)) (snd (run ts sch s)).
    Proof.
      intros H. unfold Conc.run.
      pose proof (run_sched_inv sch ts s H) as G.
      destruct (run_sched sch ts s) as [ts1 s1]. apply finish_inv. exact G.
    Qed.

    (* the gate-granularity runner performs single steps too *)
    Lemma drain_ungated_inv i p : forall ts s, nth_error ts i = Some p -> Inv ts s ->
      Inv (fst (drain_ungated i p ts s)) (snd (drain_ungated i p ts s)).
    Proof.
      induction p as [a|e k IH]; intros ts s Hn H; simpl; auto.
      destruct (gated e); auto.
      pose proof (step_thread_some i ts s e k Hn) as St.
      destruct (cstep i e s) as [s' r] eqn:E. simpl in St.
      apply IH.
      - apply nth_error_set_nth_eq. eapply nth_error_lt; eauto.
      - eapply Inv_step; eauto.
    Qed.

    Lemma step_gate_inv i ts s ts' s' : Inv ts s -> step_gate i ts s = Some (ts', s') -> Inv ts' s'.
    Proof.
      unfold Conc.step_gate. intros H.
      destruct (nth_error ts i) as [[a|e k]|] eqn:E; try discriminate.
      pose proof (step_thread_some i ts s e k E) as St.
      destruct (cstep i e s) as [s1 r] eqn:E1. simpl in St. intros G. inversion G as [G1]; clear G.
      pose proof (drain_ungated_inv i (k r) (set_nth i (k r) ts) s1) as D.
      rewrite G1 in D. simpl in D. apply D.
      - apply nth_error_set_nth_eq. eapply nth_error_lt; eauto.
      - eapply Inv_step; eauto.
    Qed.

    Lemma run_gates_inv sch : forall ts s, Inv ts s ->
      Inv (fst (run_gates sch ts s)) (snd (run_gates sch ts s)).
    Proof.
      induction sch as [|i t IH]; intros ts s H; simpl; auto.
      destruct (step_gate i ts s) as [[ts' s']|] eqn:E; auto.
      apply IH. eapply step_gate_inv; eauto.
    Qed.

    Theorem run_gated_inv ts sch s : Inv ts s -> Inv (fst (run_gated ts sch s)) (snd (run_gated ts sch s)).
    Proof.
      intros H. unfold Conc.run_gated.
      pose proof (run_gates_inv sch ts s H) as G.
      destruct (run_gates sch ts s) as [ts1 s1]. apply finish_inv. exact G.
    Qed.
  End Inv.

  (* ---- every thread has returned at the end ---- *)
  Definition is_ret (p : prog A) : Prop := match p with Ret _ => True | Eff _ _ => False end.
  Definition ret_at (ts : pool) (i : nat) : Prop :=
    match nth_error ts i with Some p => is_ret p | None => True end.

  Lemma drain_spec i p : forall ts s, nth_error ts i = Some p ->
    List.length (fst (drain i p ts s)) = List.length ts
    /\ ret_at (fst (drain i p ts s)) i
    /\ forall j, j <> i -> nth_error (fst (drain i p ts s)) j = nth_error ts j.
  Proof.
    induction p as [a|e k IH]; intros ts s Hn; simpl.
    - unfold ret_at. rewrite Hn. simpl. auto.
    - destruct (cstep i e s) as [s' r].
      assert (Hl : i < List.length ts) by (eapply nth_error_lt; eauto).
      destruct (IH r (set_nth i (k r) ts) s' (nth_error_set_nth_eq i (k r) ts Hl)) as [L [R O]].
      rewrite set_nth_length in L. split; [exact L|]. split; [exact R|].
      intros j Hj. rewrite O by exact Hj. apply nth_error_set_nth_neq. congruence.
  Qed.

  Lemma finish_spec is : forall ts s,
    List.length (fst (finish is ts s)) = List.length ts
    /\ forall j, (In j is \/ ret_at ts j) -> ret_at (fst (finish is ts s)) j.
  Proof.
    induction is as [|i t IH]; intros ts s; simpl.
    - split; auto. intros j [[]|H]; exact H.
    - destruct (nth_error ts i) as [p|] eqn:E.
      + destruct (drain_spec i p ts s E) as [L [R O]].
        destruct (drain i p ts s) as [ts' s'] eqn:D. simpl in *.
        destruct (IH ts' s') as [L2 R2]. split; [congruence|].
        intros j [[Hj|Hj]|Hj].
        * subst j. apply R2. right. exact R.
        * apply R2. left. exact Hj.
        * apply R2. right. destruct (Nat.eq_dec j i) as [->|Hne]; [exact R|].
          unfold ret_at. rewrite O by exact Hne. exact Hj.
      + destruct (IH ts s) as [L2 R2]. split; [exact L2|].
        intros j [[Hj|Hj]|Hj].
        * subst j. apply R2. right. unfold ret_at. rewrite E. exact I.
        * apply R2. left. exact Hj.
        * apply R2. right. exact Hj.
  Qed.

  Lemma all_ret_of_finish ts s : Forall is_ret (fst (finish (seq 0 (List.length ts)) ts s)).
  Proof.
    destruct (finish_spec (seq 0 (List.length ts)) ts s) as [L R].
    apply Forall_forall. intros p Hp. apply In_nth_error in Hp. destruct Hp as [j Hj].
    assert (Hlt : j < List.length ts) by (rewrite <- L; eapply nth_error_lt; eauto).
    specialize (R j (or_introl (proj2 (in_seq _ _ _) (conj (Nat.le_0_l j) Hlt)))).
    unfold ret_at in R. rewrite Hj in R. exact R.
  Qed.

  Theorem run_all_ret ts sch s : Forall is_ret (fst (run ts sch s)).
  Proof.
    unfold Conc.run. destruct (run_sched sch ts s) as [ts1 s1]. apply all_ret_of_finish.
  Qed.

  Theorem run_gated_all_ret ts sch s : Forall is_ret (fst (run_gated ts sch s)).
  Proof.
    unfold Conc.run_gated. destruct (run_gates sch ts s) as [ts1 s1]. apply all_ret_of_finish.
  Qed.

  (* ---- ledger-only invariants ---- *)
  Section Ledger.
    Variable LInv : list release -> Prop.
    Hypothesis LInv_apply : forall (e : eff) l, LInv l -> LInv (fst (fst (storage_apply dresp e l))).

    Lemma cstep_ledger_inv i e (s : cstate) : LInv (c_led s) -> LInv (c_led (fst (cstep i e s))).
    Proof.
      intros H. destruct (cstep_spec i e s) as [r [out [E _]]]. rewrite E. simpl.
      destruct (is_cluster_call e); auto.
    Qed.

    Theorem run_ledger_inv ts sch s : LInv (c_led s) -> LInv (c_led (snd (run ts sch s))).
    Proof.
      intros H. apply (run_inv (fun _ s => LInv (c_led s))); auto.
      intros i ts0 s0 ts' s' H0 St. apply step_thread_inv in St.
      destruct St as [e [k [_ [_ ->]]]]. now apply cstep_ledger_inv.
    Qed.
  End Ledger.

  Theorem run_revisions_unique ts sch s :
    NoDup (revs (c_led s)) -> NoDup (revs (c_led (snd (run ts sch s)))).
  Proof.
    apply (run_ledger_inv (fun l => NoDup (revs l))). intros e l Hl. now apply storage_apply_nodup.
  Qed.
End Generic.

(* ------------------------------------------------------------------ *)
(* Thread-local view: the events of thread [i] in the trace are a path through ITS program.
   [follows p evs q]: performing [evs] (effects and the answers they got) leads from [p] to [q]. *)
Fixpoint follows {A} (p : prog A) (evs : list cev) (q : prog A) {struct evs} : Prop :=
  match evs with
  | [] => p = q
  | c :: t =>
      match p with
      | Ret _ => False
      | Eff e k => exists (r : resp e) (out : list tev), c = mkCev (ce_tid c) e r out /\ follows (k r) t q
      end
  end.

Lemma follows_snoc {A} (evs : list cev) : forall (p : prog A) e k i r out,
  follows p evs (Eff e k) -> follows p (evs ++ [mkCev i e r out]) (k r).
Proof.
  induction evs as [|c t IH]; intros p e k i r out H; simpl in *.
  - subst p. exists r, out. split; reflexivity.
  - destruct p as [a|e0 k0]; [contradiction|].
    destruct H as [r0 [out0 [Hc Hf]]]. exists r0, out0. split; [exact Hc|]. now apply IH.
Qed.

Lemma thread_events_app i a b : thread_events i (a ++ b) = (thread_events i a ++ thread_events i b)%list.
Proof. unfold thread_events. apply filter_app. Qed.

Section Projection.
  Variable K : Type.
  Variable kh : forall e : eff, K -> K * resp e * list kev.
  Variable dresp : forall e : eff, resp e.
  Variable A : Type.
  Variable ts0 : list (prog A).

  Definition proj_inv (ts : list (prog A)) (s : cstate K) : Prop :=
    List.length ts = List.length ts0 /\
    forall i p, nth_error ts0 i = Some p ->
      exists q, nth_error ts i = Some q /\ follows p (thread_events i (c_tr s)) q.

  Lemma proj_inv_step i ts s ts' s' :
    proj_inv ts s -> step_thread K kh dresp A i ts s = Some (ts', s') -> proj_inv ts' s'.
  Proof.
    intros [L H] St. apply step_thread_inv in St. destruct St as [e [k [Hn [-> ->]]]].
    destruct (cstep_spec K kh dresp i e s) as [r [out [E _]]]. rewrite E. simpl.
    split; [rewrite set_nth_length; exact L|].
    intros j p Hj. destruct (H j p Hj) as [q [Hq Hf]]. simpl.
    rewrite thread_events_app. simpl. unfold by_thread. simpl.
    destruct (Nat.eqb i j) eqn:Eij.
    - apply Nat.eqb_eq in Eij. subst j. rewrite Hn in Hq. inversion Hq; subst q.
      exists (k r). split.
      + apply nth_error_set_nth_eq. eapply nth_error_lt; eauto.
      + now apply follows_snoc.
    - apply Nat.eqb_neq in Eij. exists q. rewrite nth_error_set_nth_neq by exact Eij.
      rewrite app_nil_r. auto.
  Qed.

  (* from an empty trace: at the end every thread has returned the value its own events lead to *)
  Theorem run_follows sch l k :
    let res := run K kh dresp A ts0 sch (mkC l k []) in
    forall i p, nth_error ts0 i = Some p ->
      exists a, nth_error (fst res) i = Some (Ret a)
                /\ follows p (thread_events i (c_tr (snd res))) (Ret a).
  Proof.
    intros res i p Hp.
    assert (G : proj_inv (fst res) (snd res)).
    { apply (run_inv K kh dresp A proj_inv proj_inv_step). split; [reflexivity|].
      intros j q Hj. exists q. simpl. auto. }
    destruct G as [_ G]. destruct (G i p Hp) as [q [Hq Hf]].
    pose proof (run_all_ret K kh dresp A ts0 sch (mkC l k [])) as R.
    rewrite Forall_forall in R. specialize (R q (nth_error_In _ _ Hq)).
    destruct q as [a|]; [|contradiction]. exists a. auto.
  Qed.

  Lemma outcomes_nth (ts : list (prog A)) i a :
    nth_error ts i = Some (Ret a) -> nth_error (outcomes A ts) i = Some (Some a).
  Proof. intros H. unfold outcomes. rewrite nth_error_map, H. reflexivity. Qed.
End Projection.

(* ------------------------------------------------------------------ *)
(* The gate-granularity runner (what the harness replays) is an instance of [run]: every
   gate schedule expands to a single-effect schedule.  So every theorem about [run] for ALL
   schedules holds for [run_gated]. *)
Section GatedIsRun.
  Variable K : Type.
  Variable kh : forall e : eff, K -> K * resp e * list kev.
  Variable dresp : forall e : eff, resp e.
  Variable A : Type.

  Notation run_sched := (run_sched K kh dresp A).
  Notation step_thread := (step_thread K kh dresp A).

  Lemma run_sched_app a : forall b ts s,
    run_sched (a ++ b) ts s = run_sched b (fst (run_sched a ts s)) (snd (run_sched a ts s)).
  Proof.
    induction a as [|i t IH]; intros b ts s; simpl; auto.
    destruct (step_thread i ts s) as [[ts' s']|]; apply IH.
  Qed.

  Lemma drain_ungated_as_sched i p : forall ts s, nth_error ts i = Some p ->
    exists n, drain_ungated K kh dresp A i p ts s = run_sched (repeat i n) ts s.
  Proof.
    induction p as [a|e k IH]; intros ts s Hn; simpl.
    - exists 0. reflexivity.
    - destruct (gated e); [exists 0; reflexivity|].
      pose proof (step_thread_some K kh dresp A i ts s e k Hn) as St.
      destruct (cstep K kh dresp i e s) as [s' r] eqn:E. simpl in St.
      destruct (IH r (set_nth i (k r) ts) s') as [n Hn'].
      { apply nth_error_set_nth_eq. eapply nth_error_lt; eauto. }
      exists (S n). simpl. rewrite St. exact Hn'.
  Qed.

  Lemma step_gate_as_sched i ts s :
    exists n, match step_gate K kh dresp A i ts s with Some r => r | None => (ts, s) end
              = run_sched (repeat i n) ts s.
  Proof.
    unfold Conc.step_gate. destruct (nth_error ts i) as [[a|e k]|] eqn:E.
    - exists 0. reflexivity.
    - pose proof (step_thread_some K kh dresp A i ts s e k E) as St.
      destruct (cstep K kh dresp i e s) as [s' r] eqn:E1. simpl in St.
      destruct (drain_ungated_as_sched i (k r) (set_nth i (k r) ts) s') as [n Hn].
      { apply nth_error_set_nth_eq. eapply nth_error_lt; eauto. }
      exists (S n). simpl. rewrite St. exact Hn.
    - exists 0. reflexivity.
  Qed.

  Lemma run_gates_as_sched sch : forall ts s,
    exists sch', run_gates K kh dresp A sch ts s = run_sched sch' ts s.
  Proof.
    induction sch as [|i t IH]; intros ts s; simpl.
    - exists []. reflexivity.
    - destruct (step_gate_as_sched i ts s) as [n Hn].
      destruct (step_gate K kh dresp A i ts s) as [[ts' s']|].
      + destruct (IH ts' s') as [sch' Hs]. exists (repeat i n ++ sch')%list.
        rewrite run_sched_app, <- Hn. simpl. exact Hs.
      + destruct (IH ts s) as [sch' Hs]. exists (repeat i n ++ sch')%list.
        rewrite run_sched_app, <- Hn. simpl. exact Hs.
  Qed.

  Theorem run_gated_is_run ts sch s :
    exists sch', run_gated K kh dresp A ts sch s = run K kh dresp A ts sch' s.
  Proof.
    destruct (run_gates_as_sched sch ts s) as [sch' H]. exists sch'.
    unfold Conc.run_gated, Conc.run. rewrite H. reflexivity.
  Qed.
End GatedIsRun.

(* C12 — `helm test`: action.ReleaseTesting.Run (pkg/action/release_testing.go:61-108) as an
   effect program over the effects of Engine/Eff.v, and its run inside a history.

   Run: Releases.Last(name); the hooks named by the !name filter are set aside, then (if a name
   filter is given) every hook not named by it; rel.Hooks = the rest; execHook(rel, "test") —
   which records the release (with the REDUCED hook list) before every hook creation
   (cfg.recordRelease, hooks.go:77); then, whether the hooks passed or not,
   rel.Hooks = append(skippedHooks, rel.Hooks...) and Releases.Update(rel).  The error of that
   final Update is returned only when the hooks passed. *)
From Coq Require Import List String Bool Arith ZArith.
From Helm Require Import Common.Assoc Engine.Types Engine.Eff Engine.Ops Engine.Cluster Engine.Seq.
Import ListNotations.
Local Open Scope prog_scope.

(* slices.Contains(filter, h.Name) *)
Definition name_in (l : list string) (h : hook) : bool := existsb (String.eqb (h_name h)) l.

(* (skippedHooks, rel.Hooks) after the two filter passes *)
Definition test_split (incl excl : list string) (hs : list hook) : list hook * list hook :=
  let '(sk, ex) :=
    match excl with
    | [] => ([], hs)
    | _ => (filter (name_in excl) hs, filter (fun h => negb (name_in excl h)) hs)
    end in
  match incl with
  | [] => (sk, ex)
  | _ => ((sk ++ filter (fun h => negb (name_in incl h)) ex)%list, filter (name_in incl) ex)
  end.

Definition with_hooks (r : release) (hs : list hook) : release :=
  mkRelease (rev r) (st r) (chart_id r) (config_id r) (manifest r) hs.

Definition release_testing (incl excl : list string) : prog outcome :=
  h <- perform SHistory ;;
  match max_rev_of h with
  | None => Ret (OErr ENotFoundRel)
  | Some rel =>
      let '(skipped, executing) := test_split incl excl (hooks rel) in
      ok <- exec_hook (with_hooks rel executing) TestHook ;;
      e <- perform (SUpdate (with_hooks rel (skipped ++ executing)%list)) ;;
      if negb ok then Ret (OErr EOtherErr)
      else match e with SOk => Ret OOk | _ => Ret (OErr EOtherErr) end
  end.

(* ---- histories with helm test ---- *)
Inductive h12 :=
| HBase (s : hstep)
| HTest (incl excl : list string) (sf : sfaults) (cf : cfaults).

Definition run_test_op (rn ns : string) (incl excl : list string) (sf : sfaults) (cf : cfaults) (w : world)
  : world * outcome * list tev :=
  let k0 := mkK (w_objs w) (cf_k cf) (cf_h cf) (cf_wait cf) in
  let '(s, out) := run kstate (kube_handle rn ns) dead_resp sf (release_testing incl excl)
                       (mkR (w_led w) k0 0 0 false []) in
  (mkW (led s) (objs (ks s)), if dead s then OCrashed else out, tr s).

Fixpoint run_history12 (rn ns : string) (h : list h12) (w : world) : list (world * outcome * list tev) :=
  match h with
  | [] => []
  | HBase (HOp c) :: t =>
      let '(w', out, tr) := run_store_op rn ns c w in (w', out, tr) :: run_history12 rn ns t w'
  | HBase (HEdit e) :: t => let w' := apply_edit w e in (w', OOk, []) :: run_history12 rn ns t w'
  | HTest incl excl sf cf :: t =>
      let '(w', out, tr) := run_test_op rn ns incl excl sf cf w in (w', out, tr) :: run_history12 rn ns t w'
  end.

(* C02, round 4 — proofs about the strategic three-way merge and --force on field trees
   (Engine/Obj2.v), for ALL (original, target, live):
     every field path the target specifies holds the target's value in the result (also inside
       keyed-list elements, whatever the live object held);
     foreign entries and elements (only in live) are kept, entries and elements the target dropped
       (in original, not in target) are removed, wherever the merge descends;
     keyed lists: the target's elements in the target's order, then the kept live-only elements in live order;
     --force: exactly the target.
   The JSON merge patch paths are in Engine/MergeJsonProofs.v. *)
From Coq Require Import List String Bool Arith Lia.
From Helm Require Import Common.Assoc Engine.Obj2.
Import ListNotations.

(* ------------------------------------------------------------------ *)
(* association lists                                                    *)

Lemma amem_true_iff2 {V} k (l : list (string * V)) : amem k l = true <-> aget k l <> None.
Proof. unfold amem. destruct (aget k l); split; intros; congruence. Qed.

Lemma amem_false_iff2 {V} k (l : list (string * V)) : amem k l = false <-> aget k l = None.
Proof. unfold amem. destruct (aget k l); split; intros; congruence. Qed.

Lemma aget_app {V} k (a b : list (string * V)) :
  aget k (a ++ b) = match aget k a with Some v => Some v | None => aget k b end.
Proof.
  induction a as [|[k' v'] t IH]; simpl; auto.
  destruct (String.eqb k k'); auto.
Qed.

(* a filter that looks at the key only *)
Lemma aget_filter_key {V} (P : string -> bool) k (l : list (string * V)) :
  aget k (filter (fun kv => P (fst kv)) l) = if P k then aget k l else None.
Proof.
  induction l as [|[k' v'] t IH]; simpl.
  - now destruct (P k).
  - destruct (P k') eqn:Pk'; simpl.
    + destruct (String.eqb k k') eqn:E.
      * apply String.eqb_eq in E. subst k'. now rewrite Pk'.
      * exact IH.
    + destruct (String.eqb k k') eqn:E.
      * apply String.eqb_eq in E. subst k'. rewrite Pk' in IH |- *. exact IH.
      * exact IH.
Qed.

Lemma aget_foreign k om tm lm :
  aget k (foreign om tm lm) = if amem k tm || amem k om then None else aget k lm.
Proof.
  unfold foreign.
  rewrite (aget_filter_key (fun x => negb (amem x tm) && negb (amem x om)) k lm).
  destruct (amem k tm), (amem k om); reflexivity.
Qed.

Lemma aget_map_key {V W} (f : string * V -> W) k (l : list (string * V)) :
  aget k (map (fun kv => (fst kv, f kv)) l) = match aget k l with Some v => Some (f (k, v)) | None => None end.
Proof.
  induction l as [|[k' v'] t IH]; simpl; auto.
  destruct (String.eqb k k') eqn:E; auto.
  apply String.eqb_eq in E. now subst.
Qed.

(* ------------------------------------------------------------------ *)
(* the level functions                                                  *)

Lemma s3_TM o tm lm :
  s3 o (TM tm) (Some (TM lm)) = TM (s3_level (kidsM o) lm tm ++ foreign (kidsM o) tm lm).
Proof.
  cbn [s3]. f_equal. f_equal.
  induction tm as [|[k tv] r IH]; [reflexivity|].
  cbn [s3_level]. f_equal. exact IH.
Qed.

Lemma s3_TK o tk lk :
  s3 o (TK tk) (Some (TK lk)) = TK (s3_klevel (kidsK o) lk tk ++ foreign (kidsK o) tk lk).
Proof.
  cbn [s3]. f_equal. f_equal.
  induction tk as [|[k tv] r IH]; [reflexivity|].
  cbn [s3_klevel]. f_equal. exact IH.
Qed.

Lemma s3_TM_other o tm l :
  (forall lm, l <> Some (TM lm)) -> s3 o (TM tm) l = TM tm.
Proof.
  intros H. destruct l as [[s|lm|a|lk]|]; cbn [s3]; auto. exfalso. now apply (H lm).
Qed.

Lemma s3_TK_other o tk l :
  (forall lk, l <> Some (TK lk)) -> s3 o (TK tk) l = TK tk.
Proof.
  intros H. destruct l as [[s|lm|a|lk]|]; cbn [s3]; auto. exfalso. now apply (H lk).
Qed.

Lemma aget_s3_level k om lm x :
  aget k (s3_level om lm x) =
    match aget k x with Some tv => Some (s3 (aget k om) tv (aget k lm)) | None => None end.
Proof.
  induction x as [|[k' tv] r IH]; [reflexivity|].
  cbn [s3_level aget]. destruct (String.eqb k k') eqn:E; auto.
  apply String.eqb_eq in E. now subst.
Qed.

Lemma aget_s3_klevel k ok lk x :
  aget k (s3_klevel ok lk x) =
    match aget k x with
    | Some tv => Some (match aget k lk with
                       | Some lv => s3 (aget k ok) tv (Some lv)
                       | None => ghost (aget k ok) tv
                       end)
    | None => None
    end.
Proof.
  induction x as [|[k' tv] r IH]; [reflexivity|].
  cbn [s3_klevel aget]. destruct (String.eqb k k') eqn:E; auto.
  apply String.eqb_eq in E. now subst.
Qed.

Fixpoint ghost_level (om : list (string * tree)) (x : list (string * tree)) : list (string * tree) :=
  match x with
  | [] => []
  | (k, tv) :: r => (k, ghost (aget k om) tv) :: ghost_level om r
  end.

Lemma ghost_TM o tm : ghost o (TM tm) = TM (ghost_level (kidsM o) tm).
Proof.
  cbn [ghost]. f_equal.
  induction tm as [|[k tv] r IH]; [reflexivity|]. cbn [ghost_level]. f_equal. exact IH.
Qed.

Lemma ghost_TK o tk :
  ghost o (TK tk) = TK (ghost_level (kidsK o) tk
                        ++ map (fun kv => (fst kv, TM [])) (ksort (filter (fun kv => negb (amem (fst kv) tk)) (kidsK o)))).
Proof.
  cbn [ghost]. f_equal. f_equal.
  induction tk as [|[k tv] r IH]; [reflexivity|]. cbn [ghost_level]. f_equal. exact IH.
Qed.

Lemma aget_ghost_level k om x :
  aget k (ghost_level om x) = match aget k x with Some tv => Some (ghost (aget k om) tv) | None => None end.
Proof.
  induction x as [|[k' tv] r IH]; [reflexivity|].
  cbn [ghost_level aget]. destruct (String.eqb k k') eqn:E; auto.
  apply String.eqb_eq in E. now subst.
Qed.

(* ------------------------------------------------------------------ *)
(* one level of the result, entry by entry (maps and keyed lists)       *)

Theorem s3_get_M o tm lm k :
  aget k (s3_level (kidsM o) lm tm ++ foreign (kidsM o) tm lm) =
    match aget k tm with
    | Some tv => Some (s3 (aget k (kidsM o)) tv (aget k lm))
    | None => if amem k (kidsM o) then None else aget k lm
    end.
Proof.
  rewrite aget_app, aget_s3_level, aget_foreign.
  destruct (aget k tm) eqn:E; auto.
  assert (amem k tm = false) as -> by (now apply amem_false_iff2). reflexivity.
Qed.

Theorem s3_get_K o tk lk k :
  aget k (s3_klevel (kidsK o) lk tk ++ foreign (kidsK o) tk lk) =
    match aget k tk with
    | Some tv => Some (match aget k lk with
                       | Some lv => s3 (aget k (kidsK o)) tv (Some lv)
                       | None => ghost (aget k (kidsK o)) tv
                       end)
    | None => if amem k (kidsK o) then None else aget k lk
    end.
Proof.
  rewrite aget_app, aget_s3_klevel, aget_foreign.
  destruct (aget k tk) eqn:E; auto.
  assert (amem k tk = false) as -> by (now apply amem_false_iff2). reflexivity.
Qed.

Theorem s3_map_level o tm lm :
  exists rm, s3 o (TM tm) (Some (TM lm)) = TM rm /\
    forall k, aget k rm =
      match aget k tm with
      | Some tv => Some (s3 (aget k (kidsM o)) tv (aget k lm))
      | None => if amem k (kidsM o) then None else aget k lm
      end.
Proof. eexists. split; [apply s3_TM|]. intros k. apply s3_get_M. Qed.

Theorem s3_klist_level o tk lk :
  exists rk, s3 o (TK tk) (Some (TK lk)) = TK rk /\
    forall k, aget k rk =
      match aget k tk with
      | Some tv => Some (match aget k lk with
                         | Some lv => s3 (aget k (kidsK o)) tv (Some lv)
                         | None => ghost (aget k (kidsK o)) tv
                         end)
      | None => if amem k (kidsK o) then None else aget k lk
      end.
Proof. eexists. split; [apply s3_TK|]. intros k. apply s3_get_K. Qed.

(* ------------------------------------------------------------------ *)
(* every field path the target specifies                                *)

(* what "the result has the target's value v at path p" means: scalars and atomic lists are
   there as they are, a map / keyed list is there as a map / keyed list *)
Definition spec_at (p : list string) (v : tree) (r : tree) : Prop :=
  match v with
  | TS _ | TA _ => tget p r = Some v
  | TM _ => exists m, tget p r = Some (TM m)
  | TK _ => exists m, tget p r = Some (TK m)
  end.

Lemma spec_at_self p t v : tget p t = Some v -> spec_at p v t.
Proof. intros H. unfold spec_at. destruct v; eauto. Qed.

Lemma spec_at_M k r v rm c : aget k rm = Some c -> spec_at r v c -> spec_at (k :: r) v (TM rm).
Proof. intros A S. unfold spec_at in *. cbn [tget]. now rewrite A. Qed.

Lemma spec_at_K k r v rm c : aget k rm = Some c -> spec_at r v c -> spec_at (k :: r) v (TK rm).
Proof. intros A S. unfold spec_at in *. cbn [tget]. now rewrite A. Qed.

Lemma ghost_specified : forall p o t v, tget p t = Some v -> spec_at p v (ghost o t).
Proof.
  induction p as [|k r IH]; intros o t v H.
  - cbn [tget] in H. inversion H; subst v. unfold spec_at.
    destruct t as [s|tm|a|tk]; cbn [tget]; auto.
    + rewrite ghost_TM. eauto.
    + rewrite ghost_TK. eauto.
  - destruct t as [s|tm|a|tk]; cbn [tget] in H; try discriminate.
    + destruct (aget k tm) as [c|] eqn:A; [|discriminate].
      rewrite ghost_TM. eapply spec_at_M; [|apply (IH (aget k (kidsM o)) c v H)].
      now rewrite aget_ghost_level, A.
    + destruct (aget k tk) as [c|] eqn:A; [|discriminate].
      rewrite ghost_TK. eapply spec_at_K; [|apply (IH (aget k (kidsK o)) c v H)].
      now rewrite aget_app, aget_ghost_level, A.
Qed.

Theorem s3_specified : forall p o t l v, tget p t = Some v -> spec_at p v (s3 o t l).
Proof.
  induction p as [|k r IH]; intros o t l v H.
  - cbn [tget] in H. inversion H; subst v. unfold spec_at.
    destruct t as [s|tm|a|tk]; cbn [tget]; auto.
    + destruct l as [[s|lm|a|lk]|]; cbn [s3]; eauto.
    + destruct l as [[s|lm|a|lk]|]; cbn [s3]; eauto.
  - destruct t as [s|tm|a|tk]; cbn [tget] in H; try discriminate.
    + destruct (aget k tm) as [c|] eqn:A; [|discriminate].
      destruct l as [[s|lm|a|lk]|];
        try (cbn [s3]; apply spec_at_self; cbn [tget]; now rewrite A).
      rewrite s3_TM. eapply spec_at_M; [|apply (IH (aget k (kidsM o)) c (aget k lm) v H)].
      now rewrite s3_get_M, A.
    + destruct (aget k tk) as [c|] eqn:A; [|discriminate].
      destruct l as [[s|lm|a|lk]|];
        try (cbn [s3]; apply spec_at_self; cbn [tget]; now rewrite A).
      rewrite s3_TK.
      destruct (aget k lk) as [lv|] eqn:L.
      * eapply spec_at_K; [|apply (IH (aget k (kidsK o)) c (Some lv) v H)].
        now rewrite s3_get_K, A, L.
      * eapply spec_at_K; [|apply (ghost_specified r (aget k (kidsK o)) c v H)].
        now rewrite s3_get_K, A, L.
Qed.

(* ------------------------------------------------------------------ *)
(* foreign and dropped entries, along the paths the merge descends      *)

Definition same_cont (t l : tree) : Prop :=
  match t, l with
  | TM _, TM _ | TK _, TK _ => True
  | _, _ => False
  end.

(* target and live are containers of the same kind at q and at every prefix of q *)
Fixpoint merges (q : list string) (t l : tree) : Prop :=
  match q with
  | [] => same_cont t l
  | k :: r =>
      match t, l with
      | TM tm, TM lm | TK tm, TK lm =>
          match aget k tm, aget k lm with
          | Some c, Some lc => merges r c lc
          | _, _ => False
          end
      | _, _ => False
      end
  end.

(* the original's entries the merge looks at below [k]: only when it is a container of the same kind *)
Definition okid (o : option tree) (t : tree) (k : string) : option tree :=
  match t with
  | TM _ => aget k (kidsM o)
  | TK _ => aget k (kidsK o)
  | _ => None
  end.

Lemma otget_okid_none o t k p :
  otget (k :: p) o = None -> otget p (okid o t k) = None.
Proof.
  intros H. unfold okid.
  destruct t as [s|tm|a|tk]; auto.
  - destruct o as [[s|om|a|ok]|]; cbn [kidsM aget otget tget] in *; auto;
      try (destruct (aget k om); auto).
  - destruct o as [[s|om|a|ok]|]; cbn [kidsK aget otget tget] in *; auto;
      try (destruct (aget k ok); auto).
Qed.

Theorem s3_foreign : forall q o t l k r,
  merges q t l ->
  tget (q ++ [k]) t = None ->
  otget (q ++ [k]) o = None ->
  tget (q ++ k :: r) (s3 o t (Some l)) = tget (q ++ k :: r) l.
Proof.
  induction q as [|k0 q IH]; intros o t l k r M Ht Ho.
  - cbn [app] in *. cbn [merges] in M.
    destruct t as [s|tm|a|tk], l as [s'|lm|a'|lk]; cbn [same_cont] in M; try contradiction.
    + rewrite s3_TM. cbn [tget] in Ht |- *. rewrite s3_get_M.
      destruct (aget k tm) as [c|] eqn:A; [discriminate|].
      assert (amem k (kidsM o) = false) as ->; [|reflexivity].
      apply amem_false_iff2.
      destruct o as [[s|om|a|ok]|]; cbn [kidsM otget tget] in *; auto.
      destruct (aget k om); [discriminate|reflexivity].
    + rewrite s3_TK. cbn [tget] in Ht |- *. rewrite s3_get_K.
      destruct (aget k tk) as [c|] eqn:A; [discriminate|].
      assert (amem k (kidsK o) = false) as ->; [|reflexivity].
      apply amem_false_iff2.
      destruct o as [[s|om|a|ok]|]; cbn [kidsK otget tget] in *; auto.
      destruct (aget k ok); [discriminate|reflexivity].
  - cbn [app] in *. cbn [merges] in M.
    destruct t as [s|tm|a|tk], l as [s'|lm|a'|lk]; try contradiction.
    + destruct (aget k0 tm) as [c|] eqn:A; [|contradiction].
      destruct (aget k0 lm) as [lc|] eqn:L; [|contradiction].
      rewrite s3_TM. cbn [tget] in Ht |- *. rewrite s3_get_M, A, L. rewrite A in Ht.
      apply IH; auto.
      apply (otget_okid_none o (TM tm) k0 (q ++ [k])). exact Ho.
    + destruct (aget k0 tk) as [c|] eqn:A; [|contradiction].
      destruct (aget k0 lk) as [lc|] eqn:L; [|contradiction].
      rewrite s3_TK. cbn [tget] in Ht |- *. rewrite s3_get_K, A, L. rewrite A in Ht.
      apply IH; auto.
      apply (otget_okid_none o (TK tk) k0 (q ++ [k])). exact Ho.
Qed.

(* original, target and live are containers of the same kind at q and at every prefix of q *)
Fixpoint merges3 (q : list string) (o t l : tree) : Prop :=
  match q with
  | [] => same_cont t l /\ same_cont t o
  | k :: r =>
      match o, t, l with
      | TM om, TM tm, TM lm | TK om, TK tm, TK lm =>
          match aget k om, aget k tm, aget k lm with
          | Some oc, Some c, Some lc => merges3 r oc c lc
          | _, _, _ => False
          end
      | _, _, _ => False
      end
  end.

Theorem s3_dropped : forall q o t l k r,
  merges3 q o t l ->
  tget (q ++ [k]) t = None ->
  tget (q ++ [k]) o <> None ->
  tget (q ++ k :: r) (s3 (Some o) t (Some l)) = None.
Proof.
  induction q as [|k0 q IH]; intros o t l k r M Ht Ho.
  - cbn [app] in *. cbn [merges3] in M. destruct M as [M1 M2].
    destruct t as [s|tm|a|tk], l as [s'|lm|a'|lk]; cbn [same_cont] in M1; try contradiction;
      destruct o as [s''|om|a''|ok]; cbn [same_cont] in M2; try contradiction.
    + rewrite s3_TM. cbn [tget] in *. rewrite s3_get_M. cbn [kidsM].
      destruct (aget k tm) as [c|] eqn:A; [discriminate|].
      assert (amem k om = true) as ->; [|reflexivity].
      apply amem_true_iff2. destruct (aget k om); congruence.
    + rewrite s3_TK. cbn [tget] in *. rewrite s3_get_K. cbn [kidsK].
      destruct (aget k tk) as [c|] eqn:A; [discriminate|].
      assert (amem k ok = true) as ->; [|reflexivity].
      apply amem_true_iff2. destruct (aget k ok); congruence.
  - cbn [app] in *. cbn [merges3] in M.
    destruct o as [s''|om|a''|ok], t as [s|tm|a|tk], l as [s'|lm|a'|lk]; try contradiction.
    + destruct (aget k0 om) as [oc|] eqn:O; [|contradiction].
      destruct (aget k0 tm) as [c|] eqn:A; [|contradiction].
      destruct (aget k0 lm) as [lc|] eqn:L; [|contradiction].
      rewrite s3_TM. cbn [tget] in *. rewrite s3_get_M. cbn [kidsM]. rewrite A, L, O.
      rewrite A in Ht. rewrite O in Ho. now apply IH.
    + destruct (aget k0 ok) as [oc|] eqn:O; [|contradiction].
      destruct (aget k0 tk) as [c|] eqn:A; [|contradiction].
      destruct (aget k0 lk) as [lc|] eqn:L; [|contradiction].
      rewrite s3_TK. cbn [tget] in *. rewrite s3_get_K. cbn [kidsK]. rewrite A, L, O.
      rewrite A in Ht. rewrite O in Ho. now apply IH.
Qed.

(* ------------------------------------------------------------------ *)
(* keyed lists: order                                                   *)

Lemma akeys_s3_klevel ok lk x : akeys (s3_klevel ok lk x) = akeys x.
Proof.
  unfold akeys. induction x as [|[k tv] r IH]; [reflexivity|]. cbn [s3_klevel map fst]. now rewrite IH.
Qed.

Lemma filter_all {A} (P : A -> bool) l : (forall x, In x l -> P x = true) -> filter P l = l.
Proof.
  induction l as [|a t IH]; intros H; simpl; auto.
  rewrite (H a (or_introl eq_refl)). f_equal. apply IH. intros x Hx. apply H. now right.
Qed.

Lemma filter_none {A} (P : A -> bool) l : (forall x, In x l -> P x = false) -> filter P l = [].
Proof.
  induction l as [|a t IH]; intros H; simpl; auto.
  rewrite (H a (or_introl eq_refl)). apply IH. intros x Hx. apply H. now right.
Qed.

Lemma amem_of_key {V} k (l : list (string * V)) : In k (akeys l) -> amem k l = true.
Proof.
  intros H. apply amem_true_iff2. intros N. now apply aget_None_notin in N.
Qed.

Lemma akeys_filter_key {V} (P : string -> bool) (l : list (string * V)) :
  akeys (filter (fun kv => P (fst kv)) l) = filter P (akeys l).
Proof.
  unfold akeys. induction l as [|[k v] t IH]; simpl; auto.
  destruct (P k); simpl; now rewrite IH.
Qed.

(* the elements the target names stand first, in the target's order; then the live-only elements the
   original does not name, in live order *)
Theorem s3_klist_order o tk lk :
  exists rk, s3 o (TK tk) (Some (TK lk)) = TK rk /\
    akeys rk = akeys tk ++ filter (fun k => negb (amem k tk) && negb (amem k (kidsK o))) (akeys lk) /\
    filter (fun k => amem k tk) (akeys rk) = akeys tk /\
    filter (fun k => negb (amem k tk)) (akeys rk)
      = filter (fun k => negb (amem k tk) && negb (amem k (kidsK o))) (akeys lk).
Proof.
  rewrite s3_TK. eexists. split; [reflexivity|].
  assert (K : akeys (s3_klevel (kidsK o) lk tk ++ foreign (kidsK o) tk lk)
              = akeys tk ++ filter (fun k => negb (amem k tk) && negb (amem k (kidsK o))) (akeys lk)).
  { unfold akeys at 1. rewrite map_app. fold (akeys (s3_klevel (kidsK o) lk tk)).
    rewrite akeys_s3_klevel. f_equal. unfold foreign.
    exact (akeys_filter_key (fun k => negb (amem k tk) && negb (amem k (kidsK o))) lk). }
  rewrite K. split; [reflexivity|]. split.
  - rewrite filter_app. rewrite filter_all by (intros x Hx; now apply amem_of_key).
    rewrite filter_none; [now rewrite app_nil_r|].
    intros x Hx. apply filter_In in Hx. destruct Hx as [_ Hx].
    apply andb_true_iff in Hx. destruct Hx as [Hx _]. now apply negb_true_iff in Hx.
  - rewrite filter_app.
    rewrite filter_none by (intros x Hx; apply negb_false_iff; now apply amem_of_key).
    cbn [app]. apply filter_all.
    intros x Hx. apply filter_In in Hx. destruct Hx as [_ Hx].
    apply andb_true_iff in Hx. now destruct Hx.
Qed.

(* ------------------------------------------------------------------ *)
(* --force                                                              *)

Theorem force_is_target o t l : merge_by UForce o t l = t.
Proof. reflexivity. Qed.

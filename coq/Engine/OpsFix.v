(* C09 — install with the repaired replaceRelease (pkg/action/install.go, fix for K-C09-1):
   when --replace finds, at its SECOND history read, a last revision that is pending (another
   operation created it after the name check), it returns "another operation is in progress"
   instead of superseding that record.  Everything else is [Ops.install] verbatim; the two
   programs are EQUAL whenever --replace is off ([install_fx_eq]), and the new branch is
   unreachable in sequential histories (the name check refuses a pending last revision), so
   the sequential engine properties are unaffected.  Engine/Ops.v is shared and unchanged. *)
From Coq Require Import List String Bool Arith ZArith.
From Helm Require Import Common.Assoc Engine.Types Engine.Eff Engine.Ops.
Import ListNotations.
Local Open Scope prog_scope.

Section OpsFix.
  Variable rn ns : string.

  Definition install_fx (fl : flags) (cid vid : nat) (mani : list res) (hks : list hook) : prog outcome :=
    let dry := f_dry_run fl in
    (* availableName *)
    avail <- (if dry then Ret true
              else h <- perform SHistory ;;
                   match max_rev_of h with
                   | None => Ret true
                   | Some last =>
                       Ret (f_replace fl && (status_eqb (st last) SUninstalled || status_eqb (st last) SFailed))
                   end) ;;
    if negb avail then Ret (OErr ENameInUse) else
    let rel0 := mkRelease 1 SPendingInstall cid vid mani hks in
    let resources := stamp_all rn ns mani in
    adopt <- (if negb (f_client_only fl) && negb (match resources with [] => true | _ => false end)
              then perform (KExisting resources (f_take_ownership fl))
              else Ret (Some [])) ;;
    match adopt with
    | None => Ret (OErr EConflict)
    | Some adopted =>
        if dry then Ret OOk else
        (* replaceRelease *)
        rr <- (if f_replace fl then
                 h <- perform SHistory ;;
                 match max_rev_of h with
                 | None => Ret (ROk rel0)
                 | Some last =>
                     let rel1 := with_rev rel0 (S (rev last)) in
                     if status_eqb (st last) SFailed then Ret (ROk rel1)
                     else if is_pending (st last) then Ret (RErr EPending)        (* the fix *)
                     else e <- perform (SUpdate (with_status last SSuperseded)) ;;
                          match e with SOk => Ret (ROk rel1) | _ => Ret (RErr EOtherErr) end
                 end
               else Ret (ROk rel0)) ;;
        match rr with
        | RErr c => Ret (OErr c)
        | ROk rel =>
            e <- storage_create rel 0 ;;
            match e with
            | SExists => Ret (OErr EExistsRev)
            | SNotFound | SFail => Ret (OErr EOtherErr)
            | SOk =>
                pre <- run_hooks fl rel PreInstall ;;
                if negb pre then install_fail fl rel else
                ok <- match resources with
                      | [] => Ret true
                      | _ => match adopted with
                             | [] => perform (KCreate resources)
                             | _ => u <- perform (KUpdate adopted resources) ;; Ret (fst u)
                             end
                      end ;;
                if negb ok then install_fail fl rel else
                w <- perform (KWait resources) ;;
                if negb w then install_fail fl rel else
                post <- run_hooks fl rel PostInstall ;;
                if negb post then install_fail fl rel else
                record_release (with_status rel SDeployed) ;;; Ret OOk
            end
        end
    end.

  Definition op_prog_fx (o : op) : prog outcome :=
    match o with
    | OpInstall fl c v m hs => install_fx fl c v m hs
    | other => op_prog rn ns other
    end.

  Lemma install_fx_eq fl cid vid mani hks :
    f_replace fl = false -> install_fx fl cid vid mani hks = install rn ns fl cid vid mani hks.
  Proof. intros H. unfold install_fx, install. rewrite H. reflexivity. Qed.
End OpsFix.

(* C01 — concrete histories on the object-store instance: the two refutations (K1, K2), the
   pruning gap, the non-vacuity history, and instances meeting the hypotheses of the theorems.
   The histories are the corpus cases of harness/cmd/hx/c01.go (so the real Helm code is run
   on them by every check and compared with the model). *)
From Coq Require Import List String Bool Arith ZArith.
From Helm Require Import Common.Assoc Engine.Types Engine.Eff Engine.Ops Engine.Cluster Engine.Seq
  Engine.SeqProofs Engine.LedgerBase Engine.LedgerPieces Engine.LedgerRev Engine.LedgerDep
  Engine.LedgerPrune Engine.LedgerRecover.
Import ListNotations.
Local Open Scope string_scope.

Definition fl0 : flags := mkFlags false false false false 0 false false false false 0.
Definition cm (name v : string) : res := mkRes "ConfigMap" name [("d:k", v)].
Definition nosf : sfaults := mkSF None None.
Definition nocf : cfaults := mkCF None None false.
Definition w0 : world := mkW [] [].

Definition view (l : list release) : list (nat * status) := map (fun r => (rev r, st r)) l.
Definition run0 (h : list hstep) := run_history "rel" "default" h w0.
Definition views (h : list hstep) : list (list (nat * status)) :=
  map (fun x => view (w_led (fst (fst x)))) (run0 h).
Definition outs (h : list hstep) : list outcome := map (fun x => snd (fst x)) (run0 h).
Definition created (h : list hstep) : list (list nat) := map (fun x => creates (snd x)) (run0 h).
Definition ndeps (h : list hstep) : list nat := map (fun x => ndep (w_led (fst (fst x)))) (run0 h).
Definition store_evs (t : list tev) : list tev :=
  filter (fun e => match e with TStore _ _ _ => true | _ => false end) t.

Definition h1_holds (h : list hstep) : Prop := forall c, In (HOp c) h -> wfail (oc_sf c) = None.

(* ---- K1: install; upgrade that fails in the wait; install --replace ---- *)
Definition k1_history : list hstep :=
  [ HOp (mkOp (OpInstall fl0 1 1 [cm "a" "v1"] []) nosf nocf);
    HOp (mkOp (OpUpgrade fl0 2 2 [cm "a" "v2"] []) nosf (mkCF None None true));
    HOp (mkOp (OpInstall (mkFlags false false false true 0 false false false false 0) 3 3 [cm "a" "v3"] []) nosf nocf) ].

Lemma k1_facts :
  h1_holds k1_history /\
  views k1_history = [ [(1, SDeployed)]; [(1, SDeployed); (2, SFailed)];
                       [(1, SDeployed); (2, SFailed); (3, SDeployed)] ] /\
  outs k1_history = [OOk; OErr EOtherErr; OOk].
Proof.
  split; [|split; vm_compute; reflexivity].
  intros c H. simpl in H. repeat (destruct H as [H|H]; [inversion H; reflexivity|]). destruct H.
Qed.

Lemma two_deployed_replace_refuted :
  exists h, h1_holds h /\ ndeps h = [1; 1; 2].
Proof.
  exists k1_history. split; [apply k1_facts|vm_compute; reflexivity].
Qed.

(* ---- K2: install; upgrade whose second storage write (supersede the old one) fails ---- *)
Definition k2_history : list hstep :=
  [ HOp (mkOp (OpInstall fl0 1 1 [cm "a" "v1"] []) nosf nocf);
    HOp (mkOp (OpUpgrade fl0 2 2 [cm "a" "v2"] []) (mkSF (Some 1) None) nocf) ].

Lemma two_deployed_swallowed_write_refuted :
  exists h, h2_history "rel" "default" h w0 /\ ndeps h = [1; 2] /\ outs h = [OOk; OOk].
Proof.
  exists k2_history. split; [|split; vm_compute; reflexivity].
  vm_compute. repeat split; auto.
Qed.

(* the final "deployed" write of install fails and is swallowed: success, record stays pending *)
Definition k2b_history : list hstep :=
  [ HOp (mkOp (OpInstall fl0 1 1 [cm "a" "v1"] []) (mkSF (Some 1) None) nocf) ].

Lemma success_needs_h1 :
  views k2b_history = [ [(1, SPendingInstall)] ] /\ outs k2b_history = [OOk].
Proof. split; vm_compute; reflexivity. Qed.

(* ---- pruning gap: with max-history 1 the previous maximum (2) is deleted before 3 is created ---- *)
Definition gap_history : list hstep :=
  [ HOp (mkOp (OpInstall fl0 1 1 [cm "a" "v1"] []) nosf nocf);
    HOp (mkOp (OpUpgrade fl0 2 2 [cm "a" "v2"] []) nosf (mkCF None None true));
    HOp (mkOp (OpUpgrade (mkFlags false false false false 1 false false false false 0) 3 3 [cm "a" "v3"] []) nosf nocf) ].

Lemma prune_gap :
  views gap_history = [ [(1, SDeployed)]; [(1, SDeployed); (2, SFailed)]; [(1, SSuperseded); (3, SDeployed)] ] /\
  map (fun x => store_evs (snd x)) (run0 gap_history) =
    [ [TStore "create" 1 SPendingInstall; TStore "update" 1 SDeployed];
      [TStore "create" 2 SPendingUpgrade; TStore "update" 1 SDeployed; TStore "update" 2 SFailed];
      [TStore "delete" 2 SUnknown; TStore "create" 3 SPendingUpgrade;
       TStore "update" 1 SSuperseded; TStore "update" 3 SDeployed] ].
Proof. split; vm_compute; reflexivity. Qed.

(* ---- non-vacuity: failed upgrade, atomic rollback, pruning, crash, recovery, keep-history
        uninstall, install --replace, purge ---- *)
Definition nv_history : list hstep :=
  [ HOp (mkOp (OpInstall fl0 1 1 [cm "a" "v1"] []) nosf nocf);
    HOp (mkOp (OpUpgrade fl0 2 2 [cm "a" "v2"] []) nosf (mkCF None None true));
    HOp (mkOp (OpUpgrade (mkFlags true false false false 3 false false false false 0) 3 3
                         [cm "a" "v3"; cm "b" "v3"] [])
              nosf (mkCF (Some (VCreate, "ConfigMap/b")) None false));
    HOp (mkOp (OpUpgrade (mkFlags false false false false 2 false false false false 0) 4 4 [cm "a" "v4"] []) nosf nocf);
    HOp (mkOp (OpUpgrade fl0 5 5 [cm "a" "v5"] []) (mkSF None (Some 2)) nocf);
    HOp (mkOp (OpUpgrade fl0 6 6 [cm "a" "v6"] []) nosf nocf);
    HOp (mkOp (OpRollback (mkFlags false false false false 0 false false false false 5)) nosf nocf);
    HOp (mkOp (OpUninstall (mkFlags false false true false 0 false false false false 0)) nosf nocf);
    HOp (mkOp (OpInstall (mkFlags false false false true 0 false false false false 0) 7 7 [cm "a" "v7"] []) nosf nocf);
    HOp (mkOp (OpUninstall fl0) nosf nocf) ].

Lemma nonvacuous :
  h1_holds nv_history /\ h2_history "rel" "default" nv_history w0 /\
  views nv_history =
    [ [(1, SDeployed)];
      [(1, SDeployed); (2, SFailed)];                                         (* failed upgrade *)
      [(1, SSuperseded); (2, SFailed); (3, SFailed); (4, SDeployed)];         (* atomic: failed + rollback *)
      [(4, SSuperseded); (5, SDeployed)];                                     (* max-history 2: 1,2,3 pruned *)
      [(4, SSuperseded); (5, SDeployed); (6, SPendingUpgrade)];               (* crash mid-upgrade *)
      [(4, SSuperseded); (5, SDeployed); (6, SPendingUpgrade)];               (* upgrade refused: pending *)
      [(4, SSuperseded); (5, SSuperseded); (6, SPendingUpgrade); (7, SDeployed)];   (* rollback to 5 *)
      [(4, SSuperseded); (5, SSuperseded); (6, SPendingUpgrade); (7, SUninstalled)];
      [(4, SSuperseded); (5, SSuperseded); (6, SPendingUpgrade); (7, SSuperseded); (8, SDeployed)];
      [] ] /\
  outs nv_history = [OOk; OErr EOtherErr; OErr EOtherErr; OOk; OCrashed; OErr EPending; OOk; OOk; OOk; OOk] /\
  created nv_history = [[1]; [2]; [3; 4]; [5]; [6]; []; [7]; []; [8]; []] /\
  ndeps nv_history = [1; 1; 1; 1; 1; 1; 1; 0; 1; 0].
Proof.
  split; [|split; [|repeat split; vm_compute; reflexivity]].
  - intros c H. simpl in H. repeat (destruct H as [H|H]; [inversion H; reflexivity|]). destruct H.
  - vm_compute. repeat split; auto.
Qed.

(* ---- instances meeting the hypotheses of the per-operation theorems ---- *)

(* the ledger before the 4th operation of nv_history *)
Definition l3 : list release :=
  [ mkRelease 1 SSuperseded 1 1 [cm "a" "v1"] []; mkRelease 2 SFailed 2 2 [cm "a" "v2"] [];
    mkRelease 3 SFailed 3 3 [cm "a" "v3"; cm "b" "v3"] []; mkRelease 4 SDeployed 1 1 [cm "a" "v1"] [] ].

Lemma prune_instance :
  NoDup (revs l3) /\ deployed_rev l3 = Some 4 /\
  pruned l3 1 = [1; 2; 3] /\ view (remove_all (pruned l3 1) l3) = [(4, SDeployed)] /\
  pruned l3 0 = [1; 2; 3] /\ pruned l3 3 = [1] /\ pruned l3 4 = [].
Proof.
  split; [|repeat split; vm_compute; reflexivity].
  unfold revs, l3. simpl. repeat constructor; simpl; intuition discriminate.
Qed.

Definition op4 : op := OpUpgrade (mkFlags false false false false 2 false false false false 0) 4 4 [cm "a" "v4"] [].

Lemma success_instance :
  NoDup (revs l3) /\ ndep l3 <= 1 /\ h2_op op4 l3 /\ wfail nosf = None /\
  f_dry_run (op_flags op4) = false /\
  (let r := run_op kstate (kube_handle "rel" "default") dead_resp "rel" "default" op4 nosf l3
                   (mkK [("ConfigMap/a", stamp_fields "rel" "default" [("d:k", "v1")])] None None false) in
   res_out kstate r = OOk /\ view (res_led kstate r) = [(4, SSuperseded); (5, SDeployed)]).
Proof.
  split; [apply prune_instance|].
  split; [vm_compute; auto|]. split; [exact I|]. split; [reflexivity|]. split; [reflexivity|].
  vm_compute. auto.
Qed.

Lemma dead_resp_honest : forall x, dead_resp (SCreate x) <> SOk.
Proof. intros x. simpl. discriminate. Qed.

(* ---- narrow H1: a write failure that IS tolerated, then the stuck case and its way out ---- *)

(* solves h1_history / fail_hits_only goals on concrete histories *)
Ltac h1_solve :=
  vm_compute; repeat split; try exact I;
  try (let H := fresh "H" in intros H; decompose [and] H; discriminate);
  try (let X := fresh "X" in intros _ X; discriminate X).

(* install; upgrade whose wait fails AND whose "failed" status write (3rd write) fails: revision 2
   stays pending-upgrade; the next upgrade is refused; rollback recovers *)
Definition wf_history : list hstep :=
  [ HOp (mkOp (OpInstall fl0 1 1 [cm "a" "v1"] []) nosf nocf);
    HOp (mkOp (OpUpgrade fl0 2 2 [cm "a" "v2"] []) (mkSF (Some 2) None) (mkCF None None true));
    HOp (mkOp (OpUpgrade fl0 3 3 [cm "a" "v3"] []) nosf nocf);
    HOp (mkOp (OpRollback fl0) nosf nocf) ].

Lemma narrow_h1_instance :
  h1_history "rel" "default" wf_history w0 /\ h2_history "rel" "default" wf_history w0 /\
  ~ h1_holds wf_history /\
  views wf_history = [ [(1, SDeployed)]; [(1, SDeployed); (2, SPendingUpgrade)];
                       [(1, SDeployed); (2, SPendingUpgrade)];
                       [(1, SSuperseded); (2, SPendingUpgrade); (3, SDeployed)] ] /\
  outs wf_history = [OOk; OErr EOtherErr; OErr EPending; OOk].
Proof.
  split; [h1_solve|]. split; [vm_compute; repeat split; auto|].
  split; [|split; vm_compute; reflexivity].
  intros H. specialize (H _ (or_intror (or_introl eq_refl))). discriminate H.
Qed.

(* the failing write is the final "deployed" write of install: tolerated for the invariant
   (fail_ok2), not for the success postcondition (fail_ok3) *)
Lemma narrow_h1_final_write :
  h1_history "rel" "default" k2b_history w0 /\ ndeps k2b_history = [0] /\
  ~ fail_hits_only kstate (kube_handle "rel" "default") dead_resp "rel" "default" fail_ok3
      (OpInstall fl0 1 1 [cm "a" "v1"] []) (mkSF (Some 1) None) [] (mkK [] None None false).
Proof.
  split; [h1_solve|]. split; [vm_compute; reflexivity|].
  vm_compute. intros H. decompose [and] H.
  match goal with X : _ -> _ /\ (SDeployed = SDeployed -> False) /\ _ |- _ =>
    destruct X as [_ [X' _]]; [repeat split|apply X'; reflexivity] end.
Qed.

(* crashed install: install --replace, upgrade and rollback are refused; uninstall, then install *)
Definition ci_history : list hstep :=
  [ HOp (mkOp (OpInstall fl0 1 1 [cm "a" "v1"] []) (mkSF None (Some 1)) nocf);
    HOp (mkOp (OpInstall (mkFlags false false false true 0 false false false false 0) 2 2 [cm "a" "v2"] []) nosf nocf);
    HOp (mkOp (OpUpgrade fl0 3 3 [cm "a" "v3"] []) nosf nocf);
    HOp (mkOp (OpRollback fl0) nosf nocf);
    HOp (mkOp (OpUninstall fl0) nosf nocf);
    HOp (mkOp (OpInstall fl0 4 4 [cm "a" "v4"] []) nosf nocf) ].

Lemma crashed_install_instance :
  views ci_history = [ [(1, SPendingInstall)]; [(1, SPendingInstall)]; [(1, SPendingInstall)];
                       [(1, SPendingInstall)]; []; [(1, SDeployed)] ] /\
  outs ci_history = [OCrashed; OErr ENameInUse; OErr EPending; OErr EOtherErr; OOk; OOk].
Proof. split; vm_compute; reflexivity. Qed.

(* uninstall --keep-history whose final "uninstalled" write fails: success, head stays uninstalling
   (the third shape of K2; excluded from the success postcondition by fail_ok3) *)
Definition k2c_history : list hstep :=
  [ HOp (mkOp (OpInstall fl0 1 1 [cm "a" "v1"] []) nosf nocf);
    HOp (mkOp (OpUninstall (mkFlags false false true false 0 false false false false 0)) (mkSF (Some 1) None) nocf) ].

Lemma success_needs_h1_uninstall :
  views k2c_history = [ [(1, SDeployed)]; [(1, SUninstalling)] ] /\ outs k2c_history = [OOk; OOk].
Proof. split; vm_compute; reflexivity. Qed.

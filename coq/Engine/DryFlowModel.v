(* C06 — the richer model (Engine/DryOps.v) against the flow table (Engine/DryFlow.v):
   the label of every model effect, the environment of a model run, a scripted world (canned
   history, every call succeeds, or exactly the n-th effect fails), and the scenario spaces over
   which "the model's trace is a path through the Go entry point" is checked by computation. *)
From Coq Require Import List String Bool Arith NArith ZArith.
From Helm Require Import Common.Assoc Engine.Types Engine.Eff Engine.Ops Engine.DryRun Engine.DryOps Engine.DryFlow.
Import ListNotations.
Local Open Scope string_scope.

(* ---- labels ---- *)
Definition eff_label (e : eff) : string :=
  match e with
  | SHistory | SDeployedAll => "Driver.Query"
  | SGet _ => "Driver.Get"
  | SCreate _ => "Driver.Create"
  | SUpdate _ => "Driver.Update"
  | SDelete _ => "Driver.Delete"
  | KExisting _ _ => "Helper.Get"
  | KCreate _ => "KubeClient.Create"
  | KUpdate _ _ => "KubeClient.Update"
  | KDelete _ => "KubeClient.Delete"
  | KWait _ => "Waiter.Wait"
  | KWaitDelete _ => "Waiter.WaitForDelete"
  | KHookWatch _ _ => "Waiter.WatchUntilReady"
  end.

Definition is_real (t : target) : bool := match t with TReal => true | TPriv => false end.

Definition items_of (e : xeff) : list item :=
  match e with
  | XE t e0 => [(eff_label e0, is_real t)]
  | XReach => [("KubeClient.IsReachable", true)]
  | XCaps => [("Discovery.ServerVersion", true); ("Discovery.ServerGroupsAndResources", true)]
  | XBuild t _ _ _ => [("KubeClient.Build", is_real t)]
  | XGetObj _ => [("Helper.Get", true)]
  | XLookup => [("Engine.Render.remote", true)]
  | XPostRender _ => [("PostRenderer.Run", true)]
  | XWriteFile => [("writeToFile", true)]
  | XGetWaiter t => [("KubeClient.GetWaiter", is_real t)]
  | XCrdCreate _ _ => [("KubeClient.Create", true)]
  | XCrdWait _ => [("Waiter.Wait", true)]
  | XDiscInvalidate => [("Discovery.ServerGroups", true)]
  | XMapperReset => [("Getter.ToRESTMapper", true)]
  | XNsCreate t => [("KubeClient.Create", is_real t)]
  end.

Definition items (tr : list xeff) : list item := flat_map items_of tr.

(* ---- environment of a model run: every option known ---- *)
Definition env_of (spell : list string) (fl : xflags) : denv :=
  mkDE (fun f => tv_of (fb fl f)) (OptIs (xf_opt fl)) spell false.

Definition state_of (g : xcfg) : dstate := mkDS TF TF (tv_of (xg_caps g)) (tv_of (xg_getter g)) [].

(* ---- scripted world ---- *)
Definition canned (hist : list release) (e : xeff) : xresp e :=
  match e return xresp e with
  | XE _ e0 =>
      match e0 return resp e0 with
      | SHistory => hist
      | SDeployedAll => filter (fun r => status_eqb (st r) SDeployed) hist
      | SGet v => find (fun r => Nat.eqb (rev r) v) hist
      | SCreate _ | SUpdate _ | SDelete _ => SOk
      | KExisting _ _ => Some []
      | KCreate _ => true
      | KUpdate _ _ => (true, [])
      | KDelete _ => true
      | KWait _ | KWaitDelete _ => true
      | KHookWatch _ _ => true
      end
  | XReach | XCaps | XBuild _ _ _ _ | XWriteFile | XGetWaiter _ | XCrdWait _ | XDiscInvalidate | XMapperReset => true
  | XLookup => false
  | XGetObj _ => GNotFound
  | XPostRender m => Some m
  | XCrdCreate _ _ | XNsCreate _ => CCreated
  end.

Definition failing (e : xeff) : xresp e :=
  match e return xresp e with
  | XE _ e0 =>
      match e0 return resp e0 with
      | SHistory | SDeployedAll => []
      | SGet _ => None
      | SCreate _ | SUpdate _ | SDelete _ => SFail
      | KExisting _ _ => None
      | KCreate _ => false
      | KUpdate _ _ => (false, [])
      | KDelete _ => false
      | KWait _ | KWaitDelete _ => false
      | KHookWatch _ _ => false
      end
  | XReach | XCaps | XBuild _ _ _ _ | XWriteFile | XGetWaiter _ | XCrdWait _ | XDiscInvalidate | XMapperReset => false
  | XLookup => false
  | XGetObj _ => GFail
  | XPostRender _ => None
  | XCrdCreate _ _ | XNsCreate _ => CFailed
  end.

(* the n-th effect (0-based) fails; state = number of effects so far *)
Definition scripted (hist : list release) (fail_at : option nat) (e : xeff) (n : nat) : nat * xresp e :=
  (S n, match fail_at with
        | Some k => if Nat.eqb k n then failing e else canned hist e
        | None => canned hist e
        end).

Definition model_trace (hist : list release) (fail_at : option nat) (p : xprog xoutcome) : list xeff :=
  xtrace nat (scripted hist fail_at) p 0.

(* ---- scenarios ---- *)
Definition sc_res (n : string) : res := mkRes "ConfigMap" n [("d:k", "v")].
Definition sc_hook (n : string) (evs : list event) (pol : list policy) : hook := mkHook (mkRes "ConfigMap" n []) evs Z0 pol.
Definition sc_hooks : list hook :=
  [sc_hook "h1" [PreInstall; PostInstall; PreUpgrade; PostUpgrade; PreRollback; PostRollback; PreDelete; PostDelete] [];
   sc_hook "h2" [PreInstall; PreUpgrade; PreDelete] [HookSucceeded; HookFailed]].

Definition sc_chart (crds : list (list res)) (lookups : nat) : xchart :=
  mkXC 7 1 [sc_res "a"; mkRes "Secret" "s" []] sc_hooks crds
       ((fix mk (n : nat) := match n with 0 => RDone true | S m => RLookup (fun _ => mk m) end) lookups)
       true true true true.

Definition sc_crds : list (list res) :=
  [[mkRes "CustomResourceDefinition" "w1" []]; [mkRes "CustomResourceDefinition" "w2" []]].

Definition sc_rel (v : nat) (s : status) : release := mkRelease v s 1 1 [sc_res "a"; sc_res "b"] sc_hooks.

Definition sc_hists : list (list release) :=
  [[]; [sc_rel 1 SDeployed]; [sc_rel 1 SSuperseded; sc_rel 2 SDeployed];
   [sc_rel 1 SDeployed; sc_rel 2 SFailed]; [sc_rel 1 SUninstalled]].

Fixpoint subsets (l : list string) : list (list string) :=
  match l with
  | [] => [[]]
  | x :: t => let r := subsets t in (r ++ map (cons x) r)%list
  end.

Definition sc_cfgs : list xcfg := [mkXG false true; mkXG true true; mkXG true false].
Definition sc_opts : list string := [""; "client"; "server"; "none"; "true"].

Definition install_flags_main : list string :=
  ["DryRun"; "ClientOnly"; "CreateNamespace"; "SkipCRDs"; "Replace"; "IncludeCRDs"; "PostRenderer"].
Definition install_flags_more : list string :=
  ["DryRun"; "ClientOnly"; "HideSecret"; "TakeOwnership"; "OutputDir"; "Atomic"; "DisableOpenAPIValidation"; "IsUpgrade"; "DisableHooks"].
Definition upgrade_flags : list string :=
  ["DryRun"; "DisableHooks"; "PostRenderer"; "HideSecret"; "TakeOwnership"; "CleanupOnFail"].
Definition rollback_flags : list string := ["DryRun"; "DisableHooks"; "CleanupOnFail"].
Definition uninstall_flags : list string := ["DryRun"; "DisableHooks"; "KeepHistory"].
Definition fail_install_flags : list string := ["DryRun"; "ClientOnly"; "CreateNamespace"; "Atomic"].
Definition fail_upgrade_flags : list string := ["DryRun"; "Atomic"; "CleanupOnFail"].

Definition sc_opts3 : list string := [""; "server"; "none"].
Definition sc_opts2 : list string := ["client"; "server"].
Definition install_hists : list (list release) := [[]; [sc_rel 1 SUninstalled]].
Definition upgrade_hists : list (list release) :=
  [[sc_rel 1 SDeployed]; [sc_rel 1 SSuperseded; sc_rel 2 SDeployed]; [sc_rel 1 SDeployed; sc_rel 2 SFailed]].
Definition upgrade_cfgs : list xcfg := [mkXG false true; mkXG true false].

Section Scen.
  Variable tbl : dtable.
  Variable spell : list string.
  Definition rn := "rel".
  Definition ns := "default".

  Definition install_ok (fail_at : option nat) (g : xcfg) (fl : xflags) (c : xchart) (h : list release) : bool :=
    follows tbl "Install.RunWithContext" (env_of spell fl) (state_of g)
            (items (model_trace h fail_at (x_install rn ns g fl c))).

  Definition upgrade_ok (fail_at : option nat) (g : xcfg) (fl : xflags) (c : xchart) (h : list release) : bool :=
    follows tbl "Upgrade.RunWithContext" (env_of spell fl) (state_of g)
            (items (model_trace h fail_at (x_upgrade rn ns g fl c))).

  Definition rollback_ok (fail_at : option nat) (fl : xflags) (h : list release) : bool :=
    follows tbl "Rollback.Run" (env_of spell fl) (state_of (mkXG false true))
            (items (model_trace h fail_at (x_rollback rn ns fl))).

  Definition uninstall_ok (fail_at : option nat) (fl : xflags) (h : list release) : bool :=
    follows tbl "Uninstall.Run" (env_of spell fl) (state_of (mkXG false true))
            (items (model_trace h fail_at (x_uninstall fl))).

  (* exactly the n-th effect fails, for every n up to the length of the failure-free run *)
  Definition upto (n : nat) : list nat := seq 0 n.

  Definition install_fails_ok (g : xcfg) (fl : xflags) (c : xchart) (h : list release) : bool :=
    forallb (fun k => install_ok (Some k) g fl c h)
            (upto (List.length (model_trace h None (x_install rn ns g fl c)))).

  Definition upgrade_fails_ok (g : xcfg) (fl : xflags) (c : xchart) (h : list release) : bool :=
    forallb (fun k => upgrade_ok (Some k) g fl c h)
            (upto (List.length (model_trace h None (x_upgrade rn ns g fl c)))).
End Scen.

(* ---- lifting computed facts (generic: the kernel only ever needs beta) ---- *)
Lemma lift1 {A} (f : A -> bool) la :
  forallb f la = true -> forall a, In a la -> f a = true.
Proof. intros H a Ha. rewrite forallb_forall in H. auto. Qed.

Lemma lift2 {A B} (f : A -> B -> bool) la lb :
  forallb (fun a => forallb (fun b => f a b) lb) la = true ->
  forall a b, In a la -> In b lb -> f a b = true.
Proof. intros H a b Ha Hb. apply (lift1 _ _ (lift1 _ _ H a Ha) b Hb). Qed.

Lemma lift3 {A B C} (f : A -> B -> C -> bool) la lb lc :
  forallb (fun a => forallb (fun b => forallb (fun c => f a b c) lc) lb) la = true ->
  forall a b c, In a la -> In b lb -> In c lc -> f a b c = true.
Proof. intros H a b c Ha Hb Hc. apply (lift1 _ _ (lift2 _ _ _ H a b Ha Hb) c Hc). Qed.

Lemma lift4 {A B C D} (f : A -> B -> C -> D -> bool) la lb lc ld :
  forallb (fun a => forallb (fun b => forallb (fun c => forallb (fun d => f a b c d) ld) lc) lb) la = true ->
  forall a b c d, In a la -> In b lb -> In c lc -> In d ld -> f a b c d = true.
Proof. intros H a b c d Ha Hb Hc Hd. apply (lift1 _ _ (lift3 _ _ _ _ H a b c Ha Hb Hc) d Hd). Qed.

(* Effect skeletons: the data type shared by the translator output (Gen/ActionSkeleton.v,
   extracted from /repo's Go source with go/ast on every check run), the expected skeleton
   (Engine/SkeletonExpected.v) and the checker that ties a skeleton to the model programs
   of Engine/Ops.v (Engine/SkeletonModel.v).  Definitions only.

   A skeleton is what is left of a Go function body when every statement and expression
   that cannot reach the release storage driver or the cluster is erased:
   the effectful calls in evaluation order, calls of other tracked functions, and the
   control flow around them (if / loop / return), with conditions abstracted to the
   option flags they test.  See notes/SKEL.md. *)
From Coq Require Import List String Bool Arith NArith.
Import ListNotations.
Local Open Scope string_scope.

(* effect kinds.  Driver level for the storage (prefix D), kube.Interface / Waiter level for
   the cluster (prefix Kc): the same granularity as the constructors of Engine.Eff.eff. *)
Inductive kind :=
| DHistory                 (* Driver.Query {name, owner}                                *)
| DDeployed                (* Driver.Query {name, owner, status: deployed}              *)
| DGet | DCreate | DUpdate | DDelete
| KcExisting (take : bool) (* requireAdoption (true) / existingResourceConflict (false) *)
| KcCreate                 (* KubeClient.Create                                         *)
| KcUpdate                 (* KubeClient.Update / UpdateThreeWayMerge                   *)
| KcDelete                 (* KubeClient.Delete / DeleteWithPropagationPolicy           *)
| KcWait                   (* Waiter.Wait                                               *)
| KcWaitJobs               (* Waiter.WaitWithJobs (not in the model)                    *)
| KcWaitDelete             (* Waiter.WaitForDelete                                      *)
| KcWatch (ev : string)    (* Waiter.WatchUntilReady; "" in a skeleton = the event of the
                              enclosing execHook call                                   *)
| Other (what : string).   (* effectful, outside the model (CRDs, recreate, pod logs)   *)

Definition kind_eqb (a b : kind) : bool :=
  match a, b with
  | DHistory, DHistory | DDeployed, DDeployed | DGet, DGet | DCreate, DCreate
  | DUpdate, DUpdate | DDelete, DDelete | KcCreate, KcCreate | KcUpdate, KcUpdate
  | KcDelete, KcDelete | KcWait, KcWait | KcWaitJobs, KcWaitJobs
  | KcWaitDelete, KcWaitDelete => true
  | KcExisting x, KcExisting y => Bool.eqb x y
  | KcWatch x, KcWatch y => String.eqb x y
  | Other x, Other y => String.eqb x y
  | _, _ => false
  end.

(* conditions: option flags of the action (by Go field name; isDryRun() reads as "DryRun"),
   nil-tests of a call's last result (CErr), anything else (CData) *)
Inductive cond :=
| CFlag (f : string)
| CNot (c : cond)
| CAnd (a b : cond)
| COr (a b : cond)
| CErr
| CData.

Inductive sk :=
| Call (k : kind)                              (* an effectful call                              *)
| Fn (name arg : string)                       (* call of a tracked function, same options;
                                                  arg = hook event for execHook, else ""        *)
| Run (name : string) (inherit : list string)  (* Run of a freshly constructed action: options
                                                  are off except the ones copied from the caller *)
| If (c : cond) (th el : list sk)
| Loop (body : list sk)                        (* for / range                                    *)
| Return                                       (* return; the error result (if any) is whatever
                                                  the call right before it answered              *)
| ReturnOk                                     (* return ..., nil                                *)
| ReturnErr                                    (* return ..., <an error known to be non-nil>     *)
| Pure                                         (* an error variable is assigned by a call that is
                                                  not in the skeleton: nil or not                *)
| ArgOk | ArgErr                               (* the next Fn is passed nil / a non-nil error for
                                                  its error parameter                            *)
| Unknown (what : string).                     (* a construct the translator does not understand *)

Definition block := list sk.
Definition table := list (string * block).

Fixpoint lookup (n : string) (t : table) : option block :=
  match t with
  | [] => None
  | (m, b) :: r => if String.eqb n m then Some b else lookup n r
  end.

(* ---- the language of a skeleton ------------------------------------------------------ *)

(* three-valued evaluation under an assignment of the flags and, possibly, of the error test;
   None = undetermined *)
Fixpoint eval_cond (env : string -> bool) (err : option bool) (c : cond) : option bool :=
  match c with
  | CFlag f => Some (env f)
  | CNot a => option_map negb (eval_cond env err a)
  | CAnd a b =>
      match eval_cond env err a, eval_cond env err b with
      | Some false, _ | _, Some false => Some false
      | Some true, Some true => Some true
      | _, _ => None
      end
  | COr a b =>
      match eval_cond env err a, eval_cond env err b with
      | Some true, _ | _, Some true => Some true
      | Some false, Some false => Some false
      | _, _ => None
      end
  | CErr => err
  | CData => None
  end.

Definition subst_ev (ev : string) (k : kind) : kind :=
  match k with KcWatch "" => KcWatch ev | _ => k end.

Definition inherit_env (env : string -> bool) (inh : list string) : string -> bool :=
  fun f => if existsb (String.eqb f) inh then env f else false.

(* resolved form: function names replaced by their index in the table, so that the checker
   does not compare strings at every call *)
Inductive rsk :=
| RCall (k : kind)
| RFn (i : nat) (arg : string)
| RRun (i : nat) (inherit : list string)
| RIf (c : cond) (th el : list rsk)
| RLoop (body : list rsk)
| RReturn | RReturnOk | RReturnErr | RPure | RArgOk | RArgErr
| RDead.

Fixpoint index_of (n : string) (t : table) : nat :=
  match t with
  | [] => 0
  | (m, _) :: r => if String.eqb n m then 0 else S (index_of n r)
  end.

Fixpoint resolve (t : table) (s : sk) : rsk :=
  match s with
  | Call k => RCall k
  | Fn n a => RFn (index_of n t) a          (* an unknown name resolves past the end: dead *)
  | Run n inh => RRun (index_of n t) inh
  | If c th el => RIf c (map (resolve t) th) (map (resolve t) el)
  | Loop b => RLoop (map (resolve t) b)
  | Return => RReturn
  | ReturnOk => RReturnOk
  | ReturnErr => RReturnErr
  | Pure => RPure
  | ArgOk => RArgOk
  | ArgErr => RArgErr
  | Unknown _ => RDead
  end.

Definition rtable := list (list rsk).
Definition resolve_table (t : table) : rtable := map (fun nb => map (resolve t) (snd nb)) t.

(* [accepts]: is the sequence of effect kinds [inp] a path through the skeleton?
   Sets of input positions are the bits of an N (bit p = "the first p kinds are consumed").
   A state is a pair (ok, err) of such sets: the positions at which the call right before
   this node answered nil, resp. an error (both, when the node before is not a call of a
   tracked function).  [ex s st] = (state after s falls through, state at which s returns
   from the enclosing function).  Conditions are evaluated per component, CErr being false
   on the ok component and true on the err component; what stays undetermined goes both ways;
   a loop runs any number of times (least fixpoint); a call of a tracked function is its
   body (entered in the caller's state, so that ArgOk / ArgErr in front of the call decide the
   callee's test of its error parameter), and the callee's ReturnOk / ReturnErr / Return
   decide the component the caller continues in; after an effect, an If, a Loop or a Pure
   both components are possible;
   Unknown is a dead end.  [fuel] bounds the call depth plus the loop iterations. *)
(* for every kind that occurs in the input, the set of positions at which it occurs *)
Fixpoint add_mask (k : kind) (bit : N) (m : list (kind * N)) : list (kind * N) :=
  match m with
  | [] => [(k, bit)]
  | (k', b) :: r => if kind_eqb k k' then (k', N.lor b bit) :: r else (k', b) :: add_mask k bit r
  end.

Fixpoint masks_of (l : list kind) (bit : N) (m : list (kind * N)) : list (kind * N) :=
  match l with
  | [] => m
  | x :: r => masks_of r (N.double bit) (add_mask x bit m)
  end.

Fixpoint get_mask (k : kind) (m : list (kind * N)) : N :=
  match m with
  | [] => 0%N
  | (k', b) :: r => if kind_eqb k k' then b else get_mask k r
  end.

Section Accepts.
  Variable t : rtable.
  Variable masks : list (kind * N).

  Definition st := (N * N)%type.
  Definition st0 : st := (0%N, 0%N).
  Definition both (p : N) : st := (p, p).
  Definition all (s : st) : N := N.lor (fst s) (snd s).
  Definition join (a b : st) : st := (N.lor (fst a) (fst b), N.lor (snd a) (snd b)).

  (* the part of the state in which a condition may have the value v, given its value on
     the ok component (eo) and on the err component (ee) *)
  Definition may (eo ee : option bool) (v : bool) (s : st) : st :=
    let pick (e : option bool) (p : N) :=
      match e with
      | Some b => if Bool.eqb b v then p else 0%N
      | None => p
      end in
    (pick eo (fst s), pick ee (snd s)).

  Fixpoint ex (fuel : nat) (env : string -> bool) (ev : string) (s : rsk) (P : st) {struct fuel}
    : st * st :=
    match fuel with
    | 0 => (st0, st0)
    | S fuel =>
        if N.eqb (all P) 0 then (st0, st0) else
        let blk := fix blk (env : string -> bool) (ev : string) (b : list rsk) (P : st) {struct b} : st * st :=
                     match b with
                     | [] => (P, st0)
                     | a :: r =>
                         let '(n1, r1) := ex fuel env ev a P in
                         let '(n2, r2) := blk env ev r n1 in
                         (n2, join r1 r2)
                     end in
        (* a callee: its returns fall through in the caller *)
        let callee (env : string -> bool) (ev : string) (b : list rsk) (P : st) : st * st :=
          let '(n, r) := blk env ev b P in
          ((N.lor (all n) (fst r), N.lor (all n) (snd r)), st0) in
        match s with
        | RCall k => (both (N.double (N.land (all P) (get_mask (subst_ev ev k) masks))), st0)
        | RFn i arg =>
            match nth_error t i with
            | Some b => callee env (if String.eqb arg "" then ev else arg) b P
            | None => (st0, st0)
            end
        | RRun i inh =>
            match nth_error t i with
            | Some b => callee (inherit_env env inh) "" b (both (all P))
            | None => (st0, st0)
            end
        | RIf c th el =>
            let eo := eval_cond env (Some false) c in
            let ee := eval_cond env (Some true) c in
            let '(n1, r1) := blk env ev th (may eo ee true P) in
            let '(n2, r2) := blk env ev el (may eo ee false P) in
            (both (N.lor (all n1) (all n2)), join r1 r2)
        | RLoop b =>
            let '(n, r) := blk env ev b (both (all P)) in
            let A := all P in
            let A' := N.lor A (all n) in
            if N.eqb A' A then (both A, r)
            else let '(n', r') := ex fuel env ev (RLoop b) (both A') in (n', join r r')
        | RReturn => (st0, P)
        | RReturnOk => (st0, (all P, 0%N))
        | RReturnErr => (st0, (0%N, all P))
        | RPure => (both (all P), st0)
        | RArgOk => ((all P, 0%N), st0)
        | RArgErr => ((0%N, all P), st0)
        | RDead => (st0, st0)
        end
    end.

  Definition final (fuel : nat) (entry : nat) (env : string -> bool) : N :=
    all (fst (ex fuel env "" (RFn entry "") (both 1%N))).
End Accepts.

Definition raccepts (t : rtable) (inp : list kind) (fuel : nat) (entry : nat) (env : string -> bool) : bool :=
  N.testbit (final t (masks_of inp 1%N []) fuel entry env) (N.of_nat (List.length inp)).

Definition accepts (t : table) (inp : list kind) (fuel : nat) (entry : string) (env : string -> bool) : bool :=
  raccepts (resolve_table t) inp fuel (index_of entry t) env.

(* ---- syntactic helpers ----------------------------------------------------------------- *)

(* no Unknown node anywhere *)
Fixpoint sk_known (s : sk) : bool :=
  match s with
  | Unknown _ => false
  | If _ th el => forallb sk_known th && forallb sk_known el
  | Loop b => forallb sk_known b
  | _ => true
  end.

Definition table_known (t : table) : bool := forallb (fun nb => forallb sk_known (snd nb)) t.

(* every Fn / Run names a function of the table *)
Fixpoint sk_closed (t : table) (s : sk) : bool :=
  match s with
  | Fn n _ | Run n _ => match lookup n t with Some _ => true | None => false end
  | If _ th el => forallb (sk_closed t) th && forallb (sk_closed t) el
  | Loop b => forallb (sk_closed t) b
  | _ => true
  end.

Definition table_closed (t : table) : bool := forallb (fun nb => forallb (sk_closed t) (snd nb)) t.

(* the call sites of a node, in source order: effect calls, calls of tracked functions, runs
   of nested actions *)
Fixpoint sk_sites (s : sk) : list sk :=
  match s with
  | Call _ | Fn _ _ | Run _ _ => [s]
  | If _ th el => (flat_map sk_sites th ++ flat_map sk_sites el)%list
  | Loop b => flat_map sk_sites b
  | _ => []
  end.

(* delete the n-th call site of a node (preorder); used to show that every call site of the
   skeleton is needed to accept the model's behaviour *)
Fixpoint sk_del (n : nat) (s : sk) : list sk :=
  match s with
  | Call _ | Fn _ _ | Run _ _ => match n with 0 => [] | S _ => [s] end
  | If c th el =>
      let nt := List.length (flat_map sk_sites th) in
      if Nat.ltb n nt then
        [If c ((fix del_blk (n : nat) (b : list sk) : list sk :=
                  match b with
                  | [] => []
                  | a :: r => let na := List.length (sk_sites a) in
                              if Nat.ltb n na then (sk_del n a ++ r)%list else a :: del_blk (n - na) r
                  end) n th) el]
      else
        [If c th ((fix del_blk (n : nat) (b : list sk) : list sk :=
                     match b with
                     | [] => []
                     | a :: r => let na := List.length (sk_sites a) in
                                 if Nat.ltb n na then (sk_del n a ++ r)%list else a :: del_blk (n - na) r
                     end) (n - nt) el)]
  | Loop b =>
      [Loop ((fix del_blk (n : nat) (b : list sk) : list sk :=
                match b with
                | [] => []
                | a :: r => let na := List.length (sk_sites a) in
                            if Nat.ltb n na then (sk_del n a ++ r)%list else a :: del_blk (n - na) r
                end) n b)]
  | _ => [s]
  end.

Fixpoint block_del (n : nat) (b : block) : block :=
  match b with
  | [] => []
  | a :: r =>
      let na := List.length (sk_sites a) in
      if Nat.ltb n na then (sk_del n a ++ r)%list else a :: block_del (n - na) r
  end.

Fixpoint table_del (fname : string) (n : nat) (t : table) : table :=
  match t with
  | [] => []
  | (m, b) :: r => if String.eqb fname m then (m, block_del n b) :: r else (m, b) :: table_del fname n r
  end.

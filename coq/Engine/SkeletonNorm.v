(* A NORMAL FORM on effect skeletons.  Definitions only (proofs: Engine/SkeletonNormProofs.v).

   The per-run obligation of Props/Skeleton.v compares the skeleton the translator extracted
   from /repo with the expected one AFTER both went through [norm_root]: every call of a
   tracked or followed function is inlined (so it does not matter which function an effect
   sits in), sequences are flat, conditions are in negation normal form and oriented,
   early returns and else branches are the same thing, scopes of inlined callees are removed
   where their returns can be merged with the caller's control flow.  Every rewrite is exact
   with respect to the path semantics [nx] below (Engine/SkeletonNormProofs.v: norm_sound), so
   two skeletons with the same normal form have the same paths; the comparison stays
   syntactic everywhere else: order, presence and guarding of every effectful call. *)
From Coq Require Import List String Bool Arith NArith.
From Helm Require Import Engine.Skeleton.
Import ListNotations.
Local Open Scope string_scope.

(* inlined skeletons: sequences are binary (NSkip / NSeq), a callee's body is a scope *)
Inductive nsk :=
| NSkip
| NSeq (a b : nsk)
| NCall (k : kind)
| NScope (b : nsk)                         (* body of an inlined Fn: its returns end the scope *)
| NRun (inherit : list string) (b : nsk)   (* body of an inlined Run: scope + option inheritance *)
| NIf (c : cond) (th el : nsk)
| NLoop (b : nsk)
| NReturn | NReturnOk | NReturnErr | NPure | NArgOk | NArgErr
| NDead.

(* ---- path semantics ---------------------------------------------------------------------- *)

(* The same abstract interpretation as Skeleton.ex (sets of input positions, one for "the call
   before answered nil", one for "answered an error"), by structural recursion: [fuel] only
   bounds the number of iterations of a loop ([it k A] = k rounds; no failure on exhaustion). *)
Section NX.
  Variable masks : list (kind * N).
  Variable fuel : nat.

  Definition scope_exit (nr : st * st) : st * st :=
    let '(n, r) := nr in ((N.lor (all n) (fst r), N.lor (all n) (snd r)), st0).

  (* k rounds of a loop body f, started at the positions A *)
  Fixpoint loop_it (f : st -> st * st) (k : nat) (A : N) : st * st :=
    match k with
    | 0 => (both A, st0)
    | S k =>
        let '(n, r) := f (both A) in
        let '(n', r') := loop_it f k (N.lor A (all n)) in
        (n', join r r')
    end.

  Fixpoint nx (env : string -> bool) (s : nsk) (P : st) {struct s} : st * st :=
    match s with
    | NSkip => (P, st0)
    | NSeq a b =>
        let '(n1, r1) := nx env a P in
        let '(n2, r2) := nx env b n1 in
        (n2, join r1 r2)
    | NCall k => (both (N.double (N.land (all P) (get_mask k masks))), st0)
    | NScope b => scope_exit (nx env b P)
    | NRun inh b => scope_exit (nx (inherit_env env inh) b (both (all P)))
    | NIf c th el =>
        let eo := eval_cond env (Some false) c in
        let ee := eval_cond env (Some true) c in
        let '(n1, r1) := nx env th (may eo ee true P) in
        let '(n2, r2) := nx env el (may eo ee false P) in
        (both (N.lor (all n1) (all n2)), join r1 r2)
    | NLoop b => loop_it (nx env b) fuel (all P)
    | NReturn => (st0, P)
    | NReturnOk => (st0, (all P, 0%N))
    | NReturnErr => (st0, (0%N, all P))
    | NPure => (both (all P), st0)
    | NArgOk => ((all P, 0%N), st0)
    | NArgErr => ((0%N, all P), st0)
    | NDead => (st0, st0)
    end.
End NX.

(* a path: the whole input is consumed when the entry function returns or falls through *)
Definition naccepts (s : nsk) (inp : list kind) (fuel : nat) (env : string -> bool) : bool :=
  let '(n, r) := nx (masks_of inp 1%N []) fuel env (NScope s) (both 1%N) in
  N.testbit (all n) (N.of_nat (List.length inp)).

(* ---- inlining ------------------------------------------------------------------------------ *)

Fixpoint seq_of (l : list nsk) : nsk :=
  match l with
  | [] => NSkip
  | a :: r => NSeq a (seq_of r)
  end.

(* [d] bounds the nesting depth (calls + control structure); a recursive call chain, or a name
   that is not in the table, ends in NDead (as in Skeleton.resolve / ex) *)
Fixpoint inline (t : table) (d : nat) (ev : string) (s : sk) : nsk :=
  match d with
  | 0 => NDead
  | S d =>
      match s with
      | Call k => NCall (subst_ev ev k)
      | Fn n a =>
          match lookup n t with
          | Some b => NScope (seq_of (map (inline t d (if String.eqb a "" then ev else a)) b))
          | None => NDead
          end
      | Run n inh =>
          match lookup n t with
          | Some b => NRun inh (seq_of (map (inline t d "") b))
          | None => NDead
          end
      | If c th el => NIf c (seq_of (map (inline t d ev) th)) (seq_of (map (inline t d ev) el))
      | Loop b => NLoop (seq_of (map (inline t d ev) b))
      | Return => NReturn
      | ReturnOk => NReturnOk
      | ReturnErr => NReturnErr
      | Pure => NPure
      | ArgOk => NArgOk
      | ArgErr => NArgErr
      | Unknown _ => NDead
      end
  end.

Definition DEPTH := 80.

(* the body of function [entry], fully inlined *)
Definition inline_root (t : table) (entry : string) : nsk :=
  match lookup entry t with
  | Some b => seq_of (map (inline t DEPTH "") b)
  | None => NDead
  end.

Fixpoint size (s : nsk) : nat :=
  match s with
  | NSeq a b => size a + size b
  | NScope b | NRun _ b | NLoop b => S (size b)
  | NIf _ th el => S (size th + size el)
  | NSkip => 0
  | _ => 1
  end.


(* ---- a total comparison, used only to choose among equivalent forms ---------------------- *)

Definition kind_ix (k : kind) : nat :=
  match k with
  | DHistory => 0 | DDeployed => 1 | DGet => 2 | DCreate => 3 | DUpdate => 4 | DDelete => 5
  | KcExisting _ => 6 | KcCreate => 7 | KcUpdate => 8 | KcDelete => 9 | KcWait => 10
  | KcWaitJobs => 11 | KcWaitDelete => 12 | KcWatch _ => 13 | Other _ => 14
  end.

Definition kind_cmp (a b : kind) : comparison :=
  match Nat.compare (kind_ix a) (kind_ix b) with
  | Eq =>
      match a, b with
      | KcExisting x, KcExisting y => Bool.compare x y
      | KcWatch x, KcWatch y | Other x, Other y => String.compare x y
      | _, _ => Eq
      end
  | c => c
  end.

Definition lex (c : comparison) (d : comparison) : comparison :=
  match c with Eq => d | _ => c end.

Fixpoint cond_cmp (a b : cond) : comparison :=
  match a, b with
  | CFlag x, CFlag y => String.compare x y
  | CFlag _, _ => Lt | _, CFlag _ => Gt
  | CNot x, CNot y => cond_cmp x y
  | CNot _, _ => Lt | _, CNot _ => Gt
  | CAnd x1 x2, CAnd y1 y2 => lex (cond_cmp x1 y1) (cond_cmp x2 y2)
  | CAnd _ _, _ => Lt | _, CAnd _ _ => Gt
  | COr x1 x2, COr y1 y2 => lex (cond_cmp x1 y1) (cond_cmp x2 y2)
  | COr _ _, _ => Lt | _, COr _ _ => Gt
  | CErr, CErr => Eq
  | CErr, _ => Lt | _, CErr => Gt
  | CData, CData => Eq
  end.

Fixpoint strs_cmp (a b : list string) : comparison :=
  match a, b with
  | [], [] => Eq
  | [], _ => Lt
  | _, [] => Gt
  | x :: a', y :: b' => lex (String.compare x y) (strs_cmp a' b')
  end.

Definition nsk_ix (s : nsk) : nat :=
  match s with
  | NSkip => 0 | NSeq _ _ => 1 | NCall _ => 2 | NScope _ => 3 | NRun _ _ => 4 | NIf _ _ _ => 5
  | NLoop _ => 6 | NReturn => 7 | NReturnOk => 8 | NReturnErr => 9 | NPure => 10 | NArgOk => 11
  | NArgErr => 12 | NDead => 13
  end.

Fixpoint ncmp (a b : nsk) : comparison :=
  match a, b with
  | NSeq a1 a2, NSeq b1 b2 => lex (ncmp a1 b1) (ncmp a2 b2)
  | NCall x, NCall y => kind_cmp x y
  | NScope x, NScope y => ncmp x y
  | NRun i x, NRun j y => lex (strs_cmp i j) (ncmp x y)
  | NIf c x1 x2, NIf d y1 y2 => lex (cond_cmp c d) (lex (ncmp x1 y1) (ncmp x2 y2))
  | NLoop x, NLoop y => ncmp x y
  | _, _ => Nat.compare (nsk_ix a) (nsk_ix b)
  end.

Definition nsk_eqb (a b : nsk) : bool := match ncmp a b with Eq => true | _ => false end.

(* smaller first: by size, then by ncmp *)
Definition nlt (a b : nsk) : bool :=
  match Nat.compare (size a) (size b) with
  | Lt => true
  | Gt => false
  | Eq => match ncmp a b with Lt => true | _ => false end
  end.

(* ---- syntactic predicates --------------------------------------------------------------- *)

(* never falls through *)
Fixpoint noft (s : nsk) : bool :=
  match s with
  | NReturn | NReturnOk | NReturnErr | NDead => true
  | NSeq a b => noft a || noft b
  | NIf _ th el => noft th && noft el
  | _ => false
  end.

(* never returns from the enclosing scope *)
Fixpoint noret (s : nsk) : bool :=
  match s with
  | NReturn | NReturnOk | NReturnErr => false
  | NSeq a b => noret a && noret b
  | NIf _ th el => noret th && noret el
  | NLoop b => noret b
  | _ => true
  end.

(* the state it falls through with has equal components (or is empty) *)
Fixpoint bcast (s : nsk) : bool :=
  match s with
  | NCall _ | NIf _ _ _ | NLoop _ | NPure | NReturn | NReturnOk | NReturnErr | NDead => true
  | NSeq a b => bcast b || noft a
  | _ => false
  end.

Fixpoint cerr_free (c : cond) : bool :=
  match c with
  | CErr => false
  | CNot a => cerr_free a
  | CAnd a b | COr a b => cerr_free a && cerr_free b
  | _ => true
  end.

(* what it does depends only on the union of the two components of the state it starts in *)
Fixpoint hi (s : nsk) : bool :=
  match s with
  | NCall _ | NLoop _ | NRun _ _ | NPure | NReturnOk | NReturnErr | NArgOk | NArgErr | NDead => true
  | NSeq a _ => hi a
  | NScope b => hi b
  | NIf c th el =>
      cerr_free c && (match th with NSkip => true | _ => hi th end)
                  && (match el with NSkip => true | _ => hi el end)
  | _ => false
  end.

(* ---- the rewrites -------------------------------------------------------------------------- *)

Definition is_skip (s : nsk) : bool := match s with NSkip => true | _ => false end.

(* sequences: right-nested, no NSkip *)
Fixpoint seq (a b : nsk) : nsk :=
  match a with
  | NSkip => b
  | NSeq x y => seq x (seq y b)
  | _ => match b with NSkip => a | _ => NSeq a b end
  end.

(* conditions: negation normal form (Kleene logic: De Morgan holds; not CData = CData) *)
Fixpoint nnf (neg : bool) (c : cond) : cond :=
  match c with
  | CFlag f => if neg then CNot (CFlag f) else CFlag f
  | CNot a => nnf (negb neg) a
  | CAnd a b => if neg then COr (nnf true a) (nnf true b) else CAnd (nnf false a) (nnf false b)
  | COr a b => if neg then CAnd (nnf true a) (nnf true b) else COr (nnf false a) (nnf false b)
  | CErr => if neg then CNot CErr else CErr
  | CData => CData
  end.

Fixpoint lead_neg (c : cond) : bool :=
  match c with
  | CNot _ => true
  | CAnd a _ | COr a _ => lead_neg a
  | _ => false
  end.

(* an If whose condition starts with a negation is turned round *)
Fixpoint cdata_only (c : cond) : bool :=
  match c with
  | CData => true
  | CNot a => cdata_only a
  | CAnd a b | COr a b => cdata_only a && cdata_only b
  | _ => false
  end.

(* ... and the branches of an If on data alone (which goes both ways whatever the polarity)
   are put in order *)
Definition mk_if (c : cond) (th el : nsk) : nsk :=
  let c0 := nnf false c in
  if cdata_only c0 then (if nlt el th then NIf c0 el th else NIf c0 th el)
  else if lead_neg c0 then NIf (nnf true c) el th else NIf c0 th el.

(* pass 1: flatten sequences, normalise and orient conditions, cut what follows a node that
   never falls through, If with two empty branches = NPure *)
Fixpoint flat (s : nsk) : nsk :=
  match s with
  | NSeq a b => let a' := flat a in if noft a' then a' else seq a' (flat b)
  | NScope b => NScope (flat b)
  | NRun inh b => NRun inh (flat b)
  | NIf c th el =>
      let th' := flat th in
      let el' := flat el in
      if is_skip th' && is_skip el' then NPure else mk_if c th' el'
  | NLoop b => NLoop (flat b)
  | _ => s
  end.

(* the value of a condition on the ok (e = false) / err (e = true) component, whatever the
   options are *)
Fixpoint cval (e : bool) (c : cond) : option bool :=
  match c with
  | CFlag _ => None
  | CNot a => option_map negb (cval e a)
  | CAnd a b =>
      match cval e a, cval e b with
      | Some false, _ | _, Some false => Some false
      | Some true, Some true => Some true
      | _, _ => None
      end
  | COr a b =>
      match cval e a, cval e b with
      | Some true, _ | _, Some true => Some true
      | Some false, Some false => Some false
      | _, _ => None
      end
  | CErr => Some e
  | CData => None
  end.

Definition after_k (k : option bool) (a : nsk) : option bool :=
  match a with
  | NArgOk => Some false
  | NArgErr => Some true
  | NSkip => k
  | _ => None
  end.

(* pass 3 (also used inside pass 2): behind ArgOk / ArgErr (k = Some false / Some true: one component is empty) an If
   whose condition is decided by the error test alone is its branch *)
Fixpoint kc (k : option bool) (s : nsk) : nsk :=
  match s with
  | NSeq a b => seq (kc k a) (kc (after_k k a) b)
  | NIf c th el =>
      match match k with Some e => cval e c | None => None end with
      | Some true => seq (kc k th) NPure
      | Some false => seq (kc k el) NPure
      | None => NIf c (kc k th) (kc k el)
      end
  | NScope B => NScope (kc k B)
  | NRun inh B => NRun inh (kc None B)
  | NLoop B => NLoop (kc None B)
  | _ => s
  end.


(* [cps F K s]: the block s of a scope, with "fall through" replaced by F and "return" by K
   (behind ArgOk / ArgErr for ReturnOk / ReturnErr).  F and K never fall through, so the If
   nodes that come out have no exit.  Defined when the returns of s sit in Ifs and at the end
   (not in loops), and no continuation is copied into two branches that both go on. *)
Fixpoint cps (F K : nsk) (s : nsk) : option nsk :=
  match s with
  | NSkip => Some F
  | NReturn => Some K
  | NReturnOk => Some (NSeq NArgOk K)
  | NReturnErr => Some (NSeq NArgErr K)
  | NSeq a b =>
      match cps F K b with
      | Some Xb => cps Xb K a
      | None => None
      end
  | NIf c T E =>
      if noret s then Some (seq s F)
      else if noft T || noft E then
        match cps (NSeq NPure F) K T, cps (NSeq NPure F) K E with
        | Some T', Some E' => Some (NIf c T' E')
        | _, _ => None
        end
      else None
  | _ => if noret s then Some (seq s F) else None
  end.

(* (init, last) of a sequence *)
Fixpoint unlast (s : nsk) : nsk * nsk :=
  match s with
  | NSeq a b => let '(i, l) := unlast b in (seq a i, l)
  | _ => (NSkip, s)
  end.

Definition head_return (s : nsk) : bool :=
  match s with
  | NReturn | NSeq NReturn _ => true
  | _ => false
  end.

(* a scope B with nothing behind it in its block *)
Definition unscope_last (B : nsk) : nsk :=
  if noret B then seq B NPure
  else let '(i, l) := unlast B in
       if noret i then
         match l with
         | NReturn => i
         | NReturnOk => seq i NArgOk
         | NReturnErr => seq i NArgErr
         | _ => NScope B
         end
       else NScope B.

(* a scope B followed by K: the general case *)
Definition unscope_keep (B K : nsk) : nsk :=
  if head_return K then seq B (NSeq NPure NReturn)
  else if noft K then
    match cps (NSeq NPure K) K B with
    | Some X => let X' := flat (kc None X) in
                if Nat.leb (size X') (size B + size B + size K) then X' else NSeq (NScope B) K
    | None => NSeq (NScope B) K
    end
  else NSeq (NScope B) K.

(* a scope B followed by K *)
Definition unscope_seq (B K : nsk) : nsk :=
  if noret B then seq B (NSeq NPure K)
  else let '(i, l) := unlast B in
       if noret i then
         match l with
         | NReturn => seq i K
         | NReturnOk => seq i (NSeq NArgOk K)
         | NReturnErr => seq i (NSeq NArgErr K)
         | _ => unscope_keep B K
         end
       else unscope_keep B K.

(* pass 2: remove the scopes whose returns can be merged with the surrounding control flow *)
Fixpoint unsc (s : nsk) : nsk :=
  match s with
  | NSeq a b =>
      let b' := unsc b in
      match a with
      | NScope B => unscope_seq (unsc B) b'
      | _ => seq (unsc a) b'
      end
  | NScope B => unscope_last (unsc B)
  | NRun inh b => NRun inh (unsc b)
  | NIf c th el => NIf c (unsc th) (unsc el)
  | NLoop b => NLoop (unsc b)
  | _ => s
  end.

(* pass 4a: a final `return nil` / `return <error>` behind an If is written into both branches
   (`if c {A}; return nil` = `if c {A; return nil} else {return nil}`), which turns a guarded
   tail into early-return form for pass 4c *)
Definition is_ret1 (r : nsk) : bool :=
  match r with NReturnOk | NReturnErr => true | _ => false end.

Fixpoint pushret (s : nsk) : nsk :=
  match s with
  | NSeq a b =>
      let b' := pushret b in
      match a with
      | NIf c T E =>
          if is_ret1 b' then NIf c (seq (pushret T) b') (seq (pushret E) b')
          else seq (NIf c (pushret T) (pushret E)) b'
      | _ => seq (pushret a) b'
      end
  | NIf c T E => NIf c (pushret T) (pushret E)
  | NScope B => NScope (pushret B)
  | NRun inh B => NRun inh (pushret B)
  | NLoop B => NLoop (pushret B)
  | _ => s
  end.

(* `if err != nil { return err }; return nil` = `return err` *)
Definition is_errret (a : nsk) : bool :=
  match a with NIf CErr NReturnErr NSkip => true | _ => false end.
Definition is_retok (b : nsk) : bool :=
  match b with NReturnOk => true | _ => false end.

Fixpoint fuse (s : nsk) : nsk :=
  match s with
  | NSeq a b => if is_errret a && is_retok b then NReturn else seq (fuse a) (fuse b)
  | NIf c T E => NIf c (fuse T) (fuse E)
  | NScope B => NScope (fuse B)
  | NRun inh B => NRun inh (fuse B)
  | NLoop B => NLoop (fuse B)
  | _ => s
  end.

(* pass 4b: a common tail of the two branches of an If that goes on is written once behind it
   (`if c {A; R} else {B; R}` = `if c {A} else {B}; R`) *)
Fixpoint to_list (s : nsk) : list nsk :=
  match s with
  | NSkip => []
  | NSeq a b => (to_list a ++ to_list b)%list
  | _ => [s]
  end.

Fixpoint from_list (l : list nsk) : nsk :=
  match l with
  | [] => NSkip
  | a :: r => seq a (from_list r)
  end.

Fixpoint common_prefix_len (a b : list nsk) : nat :=
  match a, b with
  | x :: a', y :: b' => if nsk_eqb x y then S (common_prefix_len a' b') else 0
  | _, _ => 0
  end.

Fixpoint list_eqb (a b : list nsk) : bool :=
  match a, b with
  | [], [] => true
  | x :: a', y :: b' => nsk_eqb x y && list_eqb a' b'
  | _, _ => false
  end.

Definition factor_if (c : cond) (T E : nsk) : nsk :=
  let lt := to_list T in
  let le := to_list E in
  let k := common_prefix_len (rev lt) (rev le) in
  let nt := List.length lt - k in
  let ne := List.length le - k in
  let R := from_list (skipn nt lt) in
  let A := from_list (firstn nt lt) in
  let B := from_list (firstn ne le) in
  if Nat.ltb 0 k && list_eqb (skipn nt lt) (skipn ne le) && negb (noft R) && bcast R
     && (bcast A || hi R) && (bcast B || hi R)
  then seq (NIf c A B) R else NIf c T E.

Fixpoint factor (s : nsk) : nsk :=
  match s with
  | NSeq a b => seq (factor a) (factor b)
  | NIf c T E => factor_if c (factor T) (factor E)
  | NScope B => NScope (factor B)
  | NRun inh B => NRun inh (factor B)
  | NLoop B => NLoop (factor B)
  | _ => s
  end.

(* pass 4c: `if c { ...; return } else { E }; K`  =  `if c { ...; return }; E; K`; and when both
   alternatives end the function, the smaller one is the branch:
   `if c { T }; K'` = `if !c { K' }; T` *)
Definition swap_then (c : cond) (T K : nsk) : nsk :=
  if noft T && noft K && hi T && hi K && nlt K T then seq (NIf c NSkip K) T else seq (NIf c T NSkip) K.

Definition swap_else (c : cond) (E K : nsk) : nsk :=
  if noft E && noft K && hi E && hi K && nlt K E then seq (NIf c K NSkip) E else seq (NIf c NSkip E) K.

Definition pull_if (c : cond) (T E K : nsk) : nsk :=
  if noft T && negb (is_skip E) && hi E && (bcast E || hi K)
  then swap_then c T (seq E K)
  else if noft E && negb (is_skip T) && hi T && (bcast T || hi K)
  then swap_else c E (seq T K)
  else if is_skip E then swap_then c T K
  else if is_skip T then swap_else c E K
  else seq (NIf c T E) K.

Fixpoint epull (s : nsk) : nsk :=
  match s with
  | NSeq a b =>
      match a with
      | NIf c T E => pull_if c (epull T) (epull E) (epull b)
      | _ => seq (epull a) (epull b)
      end
  | NIf c T E => pull_if c (epull T) (epull E) NSkip
  | NScope B => NScope (epull B)
  | NRun inh B => NRun inh (epull B)
  | NLoop B => NLoop (epull B)
  | _ => s
  end.

(* pass 5: NPure / NArgOk / NArgErr only change how the positions are split over the two
   components; dropped in front of a node that does not look ([hi]); NPure also behind a node
   that leaves the components equal (pb) *)
Fixpoint pe (pb : bool) (s : nsk) : nsk :=
  match s with
  | NSeq a b =>
      match a with
      | NPure => if pb || hi b then pe pb b else NSeq NPure (pe true b)
      | NArgOk | NArgErr => if hi b then pe pb b else NSeq a (pe false b)
      | _ => seq (pe pb a) (pe (bcast a) b)
      end
  | NPure => if pb then NSkip else NPure
  | NScope B => NScope (pe pb B)
  | NRun inh B => NRun inh (pe true B)
  | NIf c th el => let pb' := pb && cerr_free c in NIf c (pe pb' th) (pe pb' el)
  | NLoop B => NLoop (pe true B)
  | _ => s
  end.

Definition norm1 (s : nsk) : nsk :=
  flat (pe false (epull (factor (flat (fuse (pushret (flat (kc None (flat (unsc (flat s))))))))))).
Definition norm (s : nsk) : nsk := norm1 (norm1 s).

Definition norm_root (t : table) (entry : string) : nsk := norm (inline_root t entry).

(* no dead end left (Unknown, a name that does not resolve, the depth bound) *)
Fixpoint live (s : nsk) : bool :=
  match s with
  | NDead => false
  | NSeq a b => live a && live b
  | NScope b | NRun _ b | NLoop b => live b
  | NIf _ th el => live th && live el
  | _ => true
  end.

(* the functions compared: the four entry points, their wrappers, and Storage.Create *)
Definition roots : list string :=
  [ "Install.RunWithContext"; "Upgrade.RunWithContext"; "Rollback.Run"; "Uninstall.Run";
    "Install.Run"; "Upgrade.Run"; "Storage.Create" ].

Definition norm_roots (t : table) : list (string * nsk) := map (fun e => (e, norm_root t e)) roots.

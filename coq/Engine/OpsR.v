(* Release engine — the four operations with FAILING STORAGE READS.

   Engine/Eff.v gives a storage read no error answer, so Engine/Ops.v cannot say what an
   operation does when Releases.History / Last / Deployed / DeployedAll / Get returns an error
   (on the Secret and ConfigMap backends every such read is a call to the cluster API).  This
   file puts that part of pkg/action and pkg/storage inside the model without touching the
   shared files: [rprog] is [prog] with one more node, [RTry e k h] — the read [e], continued by
   [k] on its answer and by the handler [h] when the read returns an error.  The programs below
   are Engine/Ops.v statement for statement; every read carries the handler the Go code has at
   that call site:

     site (Go)                                              handler
     Uninstall.Run, dry run: cfg.releaseContent              return the error
     Uninstall.Run: Releases.History                         return the error (wrapped)
     Rollback.prepareRollback: Last, History, Get            return the error
     Storage.removeLeastRecent: History, Deployed            Create returns the error, the
                                                             operation returns it, nothing stored
     Rollback.performRollback: DeployedAll (last lookup)     the error is returned to Run, which
                                                             records the new revision FAILED
     Install.availableName, replaceRelease: History          return the error (fix ac81746)
     Upgrade.prepareUpgrade: Last, Deployed                  return the error
     Upgrade.failRelease (atomic): History.Run               return the error (wrapped)
   A nested run (the uninstall of a failed atomic install, the rollback of a failed atomic
   upgrade) keeps its own handlers; its caller reports the original failure either way.

   [erase p] forgets the handlers (the fault-free program), [rfail n p] is the program in
   which the n-th read (0-based, in execution order) fails, once: the read itself is not
   performed (the fault-injecting driver wrapper of the harness answers before the inner
   driver is called) and the handler runs.  Engine/OpsRProofs.v proves [erase (op_progR o)]
   equal, effect for effect, to [op_prog o] of Engine/Ops.v and lifts the ledger theorems to
   every read-fault position; Run/RunC01.v evaluates [rfail n] on the histories the harness
   ran with a read fault injected into the real storage driver. *)
From Coq Require Import List String Bool Arith ZArith.
From Helm Require Import Common.Assoc Engine.Types Engine.Eff Engine.Ops.
Import ListNotations.

Inductive rprog (A : Type) : Type :=
| RRet (a : A)
| RTry (e : eff) (k : resp e -> rprog A) (h : rprog A)      (* a storage read and its error handler *)
| RLift {B : Type} (p : prog B) (k : B -> rprog A).         (* a program of Engine/Ops.v without a failing read *)
Arguments RRet {A} a.
Arguments RTry {A} e k h.
Arguments RLift {A B} p k.

Fixpoint rbind {A B} (p : rprog A) (f : A -> rprog B) : rprog B :=
  match p with
  | RRet a => f a
  | RTry e k h => RTry e (fun r => rbind (k r) f) (rbind h f)
  | RLift q k => RLift q (fun b => rbind (k b) f)
  end.

Fixpoint erase {A} (p : rprog A) : prog A :=
  match p with
  | RRet a => Ret a
  | RTry e k _ => Eff e (fun r => erase (k r))
  | RLift q k => bind q (fun b => erase (k b))
  end.

(* the n-th read fails (once); reads are counted in execution order *)
Fixpoint rfail {A} (n : nat) (p : rprog A) : prog A :=
  match p with
  | RRet a => Ret a
  | RTry e k h =>
      match n with
      | 0 => erase h
      | S m => Eff e (fun r => rfail m (k r))
      end
  | RLift q k => bind q (fun b => rfail n (k b))
  end.

Declare Scope rprog_scope.
Delimit Scope rprog_scope with rprog.
Notation "x <- p ;; q" := (rbind p (fun x => q)) (at level 61, p at next level, right associativity) : rprog_scope.
Notation "p ;;; q" := (rbind p (fun _ => q)) (at level 61, right associativity) : rprog_scope.
Notation "x <~ e 'onerr' h ;; q" := (RTry e (fun x => q) h)
  (at level 61, e at next level, h at next level, right associativity) : rprog_scope.
Local Open Scope rprog_scope.

Definition rlift {B} (p : prog B) : rprog B := RLift p (fun b => RRet b).
Definition rperform (e : eff) : rprog (resp e) := rlift (perform e).

(* ------------------------------------------------------------------ *)
(* storage.Storage.Create with history pruning                          *)

Definition remove_least_recentR (maxkeep : nat) : rprog serr :=
  h <~ SHistory onerr (RRet SFail) ;;
  match h with
  | [] => RRet SNotFound
  | _ =>
      if Nat.leb (List.length h) maxkeep then RRet SOk
      else
        ds <~ SDeployedAll onerr (RRet SFail) ;;
        let dep := match max_rev_of ds with Some d => Some (rev d) | None => None end in
        let picks := prune_pick (sort_by_rev h) dep (List.length h) maxkeep 0 in
        r <- rlift (delete_all picks) ;;
        match fst r with
        | 0 => RRet SOk
        | 1 => RRet (snd r)
        | _ => RRet SFail
        end
  end.

Definition storage_createR (r : release) (max_history : nat) : rprog serr :=
  match max_history with
  | 0 => rperform (SCreate r)
  | S m =>
      e <- remove_least_recentR m ;;
      match e with
      | SOk | SNotFound => rperform (SCreate r)
      | _ => RRet e
      end
  end.

Definition record_releaseR (r : release) : rprog unit := rlift (record_release r).
Definition run_hooksR (fl : flags) (rl : release) (ev : event) : rprog bool := rlift (run_hooks fl rl ev).

Section OpsR.
  Variable rn ns : string.

  Definition read_err : rprog outcome := RRet (OErr EOtherErr).

  (* ---------------- uninstall.go ---------------- *)
  Definition uninstallR (fl : flags) : rprog outcome :=
    if f_dry_run fl then
      h <~ SHistory onerr read_err ;;
      match h with [] => RRet (OErr ENotFoundRel) | _ => RRet OOk end
    else
    h <~ SHistory onerr read_err ;;
    match max_rev_of h with
    | None => RRet (OErr ENotFoundRel)
    | Some last =>
        let revs := map rev (sort_by_rev h) in
        if status_eqb (st last) SUninstalled then
          if f_keep_history fl then RRet (OErr EOtherErr)
          else ok <- rlift (purge revs) ;; RRet (if ok then OOk else OErr EOtherErr)
        else
          let rel := with_status last SUninstalling in
          pre <- run_hooksR fl rel PreDelete ;;
          if negb pre then RRet (OErr EOtherErr) else
          record_releaseR rel ;;;
          let todel := filter (fun r => negb (manifest_keep r)) (manifest rel) in
          delok <- match todel with
                   | [] => RRet true
                   | _ => rperform (KDelete todel)
                   end ;;
          if negb delok then RRet (OErr EOtherErr) else
          w <- rperform (KWaitDelete todel) ;;
          post <- run_hooksR fl rel PostDelete ;;
          let rel' := with_status rel SUninstalled in
          if f_keep_history fl then
            record_releaseR rel' ;;;
            RRet (if w && post then OOk else OErr EOtherErr)
          else
            ok <- rlift (purge revs) ;;
            RRet (if w && post && ok then OOk else OErr EOtherErr)
    end.

  (* ---------------- rollback.go ---------------- *)
  Definition rollbackR (fl : flags) : rprog outcome :=
    h <~ SHistory onerr read_err ;;
    match max_rev_of h with
    | None => RRet (OErr ENotFoundRel)
    | Some cur =>
        let prev := match f_version fl with 0 => rev cur - 1 | v => v end in
        h2 <~ SHistory onerr read_err ;;
        if negb (existsb (fun r => Nat.eqb (rev r) prev) h2) then RRet (OErr EOtherErr) else
        p <~ SGet prev onerr read_err ;;
        match p with
        | None => RRet (OErr EOtherErr)
        | Some pr =>
            let tgt := mkRelease (S (rev cur)) SPendingRollback (chart_id pr) (config_id pr)
                                 (manifest pr) (hooks pr) in
            if f_dry_run fl then RRet OOk else
            e <- storage_createR tgt (f_max_history fl) ;;
            match e with
            | SExists => RRet (OErr EExistsRev)
            | SNotFound | SFail => RRet (OErr EOtherErr)
            | SOk =>
                let fail_pending := record_releaseR (with_status tgt SFailed) ;;; RRet (OErr EOtherErr) in
                pre <- run_hooksR fl tgt PreRollback ;;
                if negb pre then fail_pending else
                u <- rperform (KUpdate (manifest cur) (stamp_all rn ns (manifest tgt))) ;;
                if negb (fst u) then
                  record_releaseR (with_status cur SSuperseded) ;;;
                  record_releaseR (with_status tgt SFailed) ;;;
                  (if f_cleanup fl then _d <- rperform (KDelete (snd u)) ;; RRet (OErr EOtherErr)
                   else RRet (OErr EOtherErr))
                else
                w <- rperform (KWait (stamp_all rn ns (manifest tgt))) ;;
                if negb w then
                  record_releaseR cur ;;;
                  record_releaseR (with_status tgt SFailed) ;;;
                  RRet (OErr EOtherErr)
                else
                post <- run_hooksR fl tgt PostRollback ;;
                if negb post then fail_pending else
                (* the last lookup: performRollback returns the error, Run records the revision failed *)
                ds <~ SDeployedAll onerr fail_pending ;;
                rlift (supersede_all ds) ;;;
                e2 <- rperform (SUpdate (with_status tgt SDeployed)) ;;
                match e2 with SOk => RRet OOk | _ => RRet (OErr EOtherErr) end
            end
        end
    end.

  (* ---------------- install.go ---------------- *)
  Definition install_failR (fl : flags) (rel : release) : rprog outcome :=
    if f_atomic fl then
      _u <- uninstallR (mkFlags false false false false 0 (f_no_hooks fl) false false false 0) ;;
      RRet (OErr EOtherErr)
    else
      record_releaseR (with_status rel SFailed) ;;; RRet (OErr EOtherErr).

  (* availableName: Some true = free, Some false = in use, None = the history read failed *)
  Definition installR (fl : flags) (cid vid : nat) (mani : list res) (hks : list hook) : rprog outcome :=
    let dry := f_dry_run fl in
    avail <- (if dry then RRet (Some true)
              else h <~ SHistory onerr (RRet None) ;;
                   match max_rev_of h with
                   | None => RRet (Some true)
                   | Some last =>
                       RRet (Some (f_replace fl && (status_eqb (st last) SUninstalled || status_eqb (st last) SFailed)))
                   end) ;;
    match avail with
    | None => RRet (OErr EOtherErr)
    | Some false => RRet (OErr ENameInUse)
    | Some true =>
    let rel0 := mkRelease 1 SPendingInstall cid vid mani hks in
    let resources := stamp_all rn ns mani in
    adopt <- (if negb (f_client_only fl) && negb (match resources with [] => true | _ => false end)
              then rperform (KExisting resources (f_take_ownership fl))
              else RRet (Some [])) ;;
    match adopt with
    | None => RRet (OErr EConflict)
    | Some adopted =>
        if dry then RRet OOk else
        (* replaceRelease: every failure (the history read, the supersede write) is returned *)
        rr <- (if f_replace fl then
                 h <~ SHistory onerr (RRet None) ;;
                 match max_rev_of h with
                 | None => RRet (Some rel0)
                 | Some last =>
                     let rel1 := with_rev rel0 (S (rev last)) in
                     if status_eqb (st last) SFailed then RRet (Some rel1)
                     else e <- rperform (SUpdate (with_status last SSuperseded)) ;;
                          match e with SOk => RRet (Some rel1) | _ => RRet None end
                 end
               else RRet (Some rel0)) ;;
        match rr with
        | None => RRet (OErr EOtherErr)
        | Some rel =>
            e <- storage_createR rel 0 ;;
            match e with
            | SExists => RRet (OErr EExistsRev)
            | SNotFound | SFail => RRet (OErr EOtherErr)
            | SOk =>
                pre <- run_hooksR fl rel PreInstall ;;
                if negb pre then install_failR fl rel else
                ok <- match resources with
                      | [] => RRet true
                      | _ => match adopted with
                             | [] => rperform (KCreate resources)
                             | _ => u <- rperform (KUpdate adopted resources) ;; RRet (fst u)
                             end
                      end ;;
                if negb ok then install_failR fl rel else
                w <- rperform (KWait resources) ;;
                if negb w then install_failR fl rel else
                post <- run_hooksR fl rel PostInstall ;;
                if negb post then install_failR fl rel else
                record_releaseR (with_status rel SDeployed) ;;; RRet OOk
            end
        end
    end
    end.

  (* ---------------- upgrade.go ---------------- *)
  Definition upgrade_failR (fl : flags) (up : release) (created : list res) : rprog outcome :=
    record_releaseR (with_status up SFailed) ;;;
    cleaned <- (if f_cleanup fl && negb (match created with [] => true | _ => false end)
                then rperform (KDelete created) else RRet true) ;;
    if negb cleaned then RRet (OErr EOtherErr) else
    if f_atomic fl then
      h <~ SHistory onerr read_err ;;
      let good := filter (fun r => status_eqb (st r) SSuperseded || status_eqb (st r) SDeployed) h in
      match max_rev_of good with
      | None => RRet (OErr EOtherErr)
      | Some g =>
          _r <- rollbackR (mkFlags false false false false 0 (f_no_hooks fl) false false false (rev g)) ;;
          RRet (OErr EOtherErr)
      end
    else RRet (OErr EOtherErr).

  (* the deployed lookup of prepareUpgrade: Some (Some c) = current release, Some None = none, None = read error *)
  Definition upgradeR (fl : flags) (cid vid : nat) (mani : list res) (hks : list hook) : rprog outcome :=
    h <~ SHistory onerr read_err ;;
    match max_rev_of h with
    | None => RRet (OErr ENoDeployed)
    | Some last =>
        if is_pending (st last) then RRet (OErr EPending) else
        cur <- (if status_eqb (st last) SDeployed then RRet (Some (Some last))
                else ds <~ SDeployedAll onerr (RRet None) ;;
                     match max_rev_of ds with
                     | Some d => RRet (Some (Some d))
                     | None => if status_eqb (st last) SFailed || status_eqb (st last) SSuperseded
                               then RRet (Some (Some last)) else RRet (Some None)
                     end) ;;
        match cur with
        | None => RRet (OErr EOtherErr)
        | Some None => RRet (OErr ENoDeployed)
        | Some (Some current) =>
            let up := mkRelease (S (rev last)) SPendingUpgrade cid vid mani hks in
            let target := stamp_all rn ns mani in
            let tobecreated := filter (fun r => negb (in_keys (rkey r) (manifest current))) target in
            adopt <- rperform (KExisting tobecreated (f_take_ownership fl)) ;;
            match adopt with
            | None => RRet (OErr EConflict)
            | Some adopted =>
                let curres := (manifest current ++ adopted)%list in
                if f_dry_run fl then RRet OOk else
                e <- storage_createR up (f_max_history fl) ;;
                match e with
                | SExists => RRet (OErr EExistsRev)
                | SNotFound | SFail => RRet (OErr EOtherErr)
                | SOk =>
                    pre <- run_hooksR fl up PreUpgrade ;;
                    if negb pre then upgrade_failR fl up [] else
                    u <- rperform (KUpdate curres target) ;;
                    if negb (fst u) then record_releaseR current ;;; upgrade_failR fl up (snd u) else
                    w <- rperform (KWait target) ;;
                    if negb w then record_releaseR current ;;; upgrade_failR fl up (snd u) else
                    post <- run_hooksR fl up PostUpgrade ;;
                    if negb post then upgrade_failR fl up (snd u) else
                    record_releaseR (with_status current SSuperseded) ;;;
                    e2 <- rperform (SUpdate (with_status up SDeployed)) ;;
                    match e2 with SOk => RRet OOk | _ => RRet (OErr EOtherErr) end
                end
            end
        end
    end.

  Definition op_progR (o : op) : rprog outcome :=
    match o with
    | OpInstall fl c v m hs => installR fl c v m hs
    | OpUpgrade fl c v m hs => upgradeR fl c v m hs
    | OpRollback fl => rollbackR fl
    | OpUninstall fl => uninstallR fl
    end.
End OpsR.

(* C07 — stamping and the object store: what the main create / update of an operation leave at
   the keys they write (objects owned by exactly this release), and what that means for a later
   ownership look-up: the same release recognises them, every other (name, namespace) is refused
   before any mutation. *)
From Coq Require Import List String Bool Arith Lia.
From Helm Require Import Common.Assoc Engine.Types Engine.Eff Engine.Ops Engine.Cluster Engine.Seq
                         Engine.MatchDefs Engine.MatchUpdate Engine.DryRun
                         Engine.Ownership Engine.OwnershipProofs Engine.OwnershipStamped
                         Engine.Stamp Engine.StampProofs.
Import ListNotations.
Local Open Scope string_scope.

(* the three ownership values of (rn, ns) *)
Definition has3 (rn ns : string) (f : fields) : Prop :=
  aget managed_by_key f = Some "Helm" /\ aget rel_name_key f = Some rn /\ aget rel_ns_key f = Some ns.

Lemma has3_stamp_fields rn ns f : has3 rn ns (stamp_fields rn ns f).
Proof. apply stamp_fields_values. Qed.

Lemma has3_owned rn ns f : has3 rn ns f ->
  owned_by rn ns f = true /\ (forall rn' ns', owned_by rn' ns' f = true -> rn' = rn /\ ns' = ns).
Proof.
  intros (A & B & C). unfold owned_by. rewrite A, B, C. split.
  - simpl. now rewrite !String.eqb_refl.
  - intros rn' ns' H. simpl in H. apply andb_true_iff in H. destruct H as [H1 H2].
    apply String.eqb_eq in H1, H2. auto.
Qed.

Lemma owned_has3 rn ns f : owned_by rn ns f = true -> has3 rn ns f.
Proof.
  unfold owned_by, has3.
  destruct (aget managed_by_key f) as [m|]; [|discriminate].
  destruct (aget rel_name_key f) as [n|]; [|discriminate].
  destruct (aget rel_ns_key f) as [s|]; [|discriminate].
  intros H. apply andb_true_iff in H. destruct H as [H H3]. apply andb_true_iff in H. destruct H as [H1 H2].
  apply String.eqb_eq in H1, H2, H3. now subst.
Qed.

(* a three-way merge keeps every field the new manifest names *)
Lemma has3_three_way rn ns old new live :
  wf_fields new -> has3 rn ns new -> has3 rn ns (three_way old new live).
Proof.
  intros Hwf (A & B & C). unfold has3. rewrite !three_way_get by exact Hwf.
  unfold merged_get. now rewrite A, B, C.
Qed.

Lemma wf_stamp_fields rn ns f : wf_fields f -> wf_fields (stamp_fields rn ns f).
Proof. unfold wf_fields, stamp_fields. intros H. now repeat apply NoDup_akeys_aset. Qed.

(* keys a call created or patched *)
Definition written (muts : list (verb * string)) (key : string) : Prop :=
  In (VCreate, key) muts \/ In (VPatch, key) muts.

Lemma written_app muts v key' key :
  written (muts ++ [(v, key')]) key -> written muts key \/ key = key'.
Proof.
  unfold written. intros [H|H]; apply in_app_iff in H; destruct H as [H|[H|[]]]; auto; inversion H; auto.
Qed.

(* at every written key the store holds an object with the three values *)
Definition WInv (rn ns : string) (k : kstate) (muts : list (verb * string)) : Prop :=
  forall key, written muts key -> exists f, aget key (objs k) = Some f /\ has3 rn ns f.

Section Store.
  Variable rn ns : string.

  Lemma WInv_set k muts key f :
    WInv rn ns k muts -> has3 rn ns f -> forall v,
    WInv rn ns (set_objs k (aset key f (objs k))) (muts ++ [(v, key)]).
  Proof.
    intros HI Hf v key' Hw. simpl.
    destruct (String.eqb key key') eqn:E.
    - apply String.eqb_eq in E. subst key'. exists f. split; auto. apply aget_aset_eq.
    - assert (Hne : key <> key') by (intros ->; now rewrite String.eqb_refl in E).
      rewrite aget_aset_neq by exact Hne.
      apply written_app in Hw. destruct Hw as [Hw|Hw]; [now apply HI|congruence].
  Qed.

  Lemma WInv_set_same k muts key f :
    WInv rn ns k muts -> has3 rn ns f -> WInv rn ns (set_objs k (aset key f (objs k))) muts.
  Proof.
    intros HI Hf key' Hw. simpl.
    destruct (String.eqb key key') eqn:E.
    - apply String.eqb_eq in E. subst key'. exists f. split; auto. apply aget_aset_eq.
    - rewrite aget_aset_neq by (intros ->; now rewrite String.eqb_refl in E). now apply HI.
  Qed.

  Lemma WInv_clear k muts : WInv rn ns k muts -> WInv rn ns (clear_kfault k) muts.
  Proof. intros H key Hw. simpl. now apply H. Qed.

  (* Client.Create *)
  Lemma k_create_WInv rs : forall k ok muts,
    (forall r, In r rs -> has3 rn ns (r_fields r)) -> WInv rn ns k muts ->
    WInv rn ns (fst (fst (k_create k rs ok muts))) (snd (k_create k rs ok muts)).
  Proof.
    induction rs as [|r t IH]; intros k ok muts Hrs HI; simpl; auto.
    assert (Ht : forall x, In x t -> has3 rn ns (r_fields x)) by (intros; apply Hrs; now right).
    destruct (fault_hits k VCreate (rkey r)); [apply IH; auto; now apply WInv_clear|].
    destruct (amem (rkey r) (objs k)); [now apply IH|].
    apply IH; auto. apply WInv_set; auto. apply Hrs. now left.
  Qed.

  (* first phase of Client.update *)
  Lemma k_update_targets_WInv tgt : forall k cur created pe muts,
    (forall r, In r tgt -> has3 rn ns (r_fields r) /\ wf_res r) -> WInv rn ns k muts ->
    WInv rn ns (fst (fst (fst (fst (k_update_targets k cur tgt created pe muts)))))
               (snd (k_update_targets k cur tgt created pe muts)).
  Proof.
    induction tgt as [|r t IH]; intros k cur created pe muts Hrs HI; simpl; auto.
    assert (Ht : forall x, In x t -> has3 rn ns (r_fields x) /\ wf_res x) by (intros; apply Hrs; now right).
    destruct (Hrs r (or_introl eq_refl)) as [Hr Hwf].
    destruct (fault_hits k VGet (rkey r)); simpl; [now apply WInv_clear|].
    destruct (aget (rkey r) (objs k)) as [live|].
    - destruct (find_res (rkey r) cur) as [o|]; simpl; auto.
      destruct (patch_needed (r_fields o) (r_fields r) live); [|now apply IH].
      destruct (fault_hits k VPatch (rkey r)); [apply IH; auto; now apply WInv_clear|].
      apply IH; auto.
      assert (Hm : has3 rn ns (three_way (r_fields o) (r_fields r) live)) by now apply has3_three_way.
      destruct (fields_eqb (three_way (r_fields o) (r_fields r) live) live).
      + now apply WInv_set_same.
      + now apply WInv_set.
    - destruct (fault_hits k VCreate (rkey r)); simpl; [now apply WInv_clear|].
      apply IH; auto. now apply WInv_set.
  Qed.

  (* the keys the first phase writes are keys of the target *)
  Lemma k_update_targets_written tgt : forall k cur created pe muts key,
    written (snd (k_update_targets k cur tgt created pe muts)) key -> written muts key \/ In key (keys tgt).
  Proof.
    induction tgt as [|r t IH]; intros k cur created pe muts key; simpl; auto.
    assert (Hstep : forall k' created' pe' muts',
              (written muts' key -> written muts key \/ key = rkey r) ->
              written (snd (k_update_targets k' cur t created' pe' muts')) key ->
              written muts key \/ rkey r = key \/ In key (keys t)).
    { intros k' created' pe' muts' Hm Hw. apply IH in Hw. destruct Hw as [Hw|Hw]; auto.
      destruct (Hm Hw); auto. }
    destruct (fault_hits k VGet (rkey r)); simpl; auto.
    destruct (aget (rkey r) (objs k)) as [live|].
    - destruct (find_res (rkey r) cur) as [o|]; simpl; auto.
      destruct (patch_needed (r_fields o) (r_fields r) live); [|apply Hstep; auto].
      destruct (fault_hits k VPatch (rkey r)); [apply Hstep; auto|].
      destruct (fields_eqb (three_way (r_fields o) (r_fields r) live) live); apply Hstep; auto.
      apply written_app.
    - destruct (fault_hits k VCreate (rkey r)); simpl; auto.
      apply Hstep. apply written_app.
  Qed.

  (* second phase: only deletes, and only at keys of [dels] *)
  Lemma k_update_deletes_frame dels : forall k muts key,
    ~ In key (keys dels) ->
    aget key (objs (fst (k_update_deletes k dels muts))) = aget key (objs k).
  Proof.
    induction dels as [|r t IH]; intros k muts key Hk; simpl; auto.
    assert (Hne : rkey r <> key) by (intros E; apply Hk; now left).
    assert (Ht : ~ In key (keys t)) by (intros H; apply Hk; now right).
    destruct (fault_hits k VGet (rkey r)); [now rewrite IH|].
    destruct (aget (rkey r) (objs k)) as [live|]; [|now apply IH].
    destruct (live_keep live); [now apply IH|].
    destruct (fault_hits k VDelete (rkey r)); [now rewrite IH|].
    rewrite IH by exact Ht. simpl. now apply aget_adel_neq.
  Qed.

End Store.

Lemma written_app_delete muts key' key : written (muts ++ [(VDelete, key')]) key -> written muts key.
Proof.
  unfold written. intros [H|H]; apply in_app_iff in H; destruct H as [H|[H|[]]]; auto; inversion H.
Qed.

Lemma k_update_deletes_written' dels : forall k muts key,
  written (snd (k_update_deletes k dels muts)) key -> written muts key.
Proof.
  induction dels as [|r t IH]; intros k muts key; simpl; auto.
  destruct (fault_hits k VGet (rkey r)); [apply IH|].
  destruct (aget (rkey r) (objs k)) as [live|]; [|apply IH].
  destruct (live_keep live); [apply IH|].
  destruct (fault_hits k VDelete (rkey r)); [apply IH|].
  intros H. apply IH in H. now apply written_app_delete in H.
Qed.

Lemma stamp_all_has3 rn ns m r : In r (stamp_all rn ns m) -> has3 rn ns (r_fields r).
Proof.
  unfold stamp_all. intros H. apply in_map_iff in H. destruct H as [x [<- _]]. apply has3_stamp_fields.
Qed.

Lemma stamp_all_wf rn ns m r : Forall wf_res m -> In r (stamp_all rn ns m) -> wf_res r.
Proof.
  unfold stamp_all. intros Hm H. apply in_map_iff in H. destruct H as [x [<- Hx]].
  rewrite Forall_forall in Hm. unfold wf_res. simpl. apply wf_stamp_fields. now apply Hm.
Qed.

(* Client.Create of a stamped manifest: every object it creates is owned by exactly (rn, ns) *)
Theorem create_leaves_owned rn ns m k key :
  In (VCreate, key) (snd (k_create k (stamp_all rn ns m) true [])) ->
  exists f, aget key (objs (fst (fst (k_create k (stamp_all rn ns m) true [])))) = Some f /\
            owned_by rn ns f = true /\
            (forall rn' ns', owned_by rn' ns' f = true -> rn' = rn /\ ns' = ns).
Proof.
  intros H.
  pose proof (k_create_WInv rn ns (stamp_all rn ns m) k true [] (stamp_all_has3 rn ns m)) as HI.
  destruct (HI (fun key' Hw => match Hw with or_introl F | or_intror F => match F with end end) key (or_introl H))
    as [f [Hf H3]].
  exists f. split; auto. now apply has3_owned.
Qed.

(* Client.Update towards a stamped manifest (fields duplicate-free, as Go maps are): every
   object it creates or patches is, when the call returns, owned by exactly (rn, ns) — and the
   second phase of the call (deleting what left the manifest) does not touch it *)
Theorem update_leaves_owned rn ns m k cur key :
  Forall wf_res m ->
  written (snd (k_update k cur (stamp_all rn ns m))) key ->
  exists f, aget key (objs (fst (fst (k_update k cur (stamp_all rn ns m))))) = Some f /\
            owned_by rn ns f = true /\
            (forall rn' ns', owned_by rn' ns' f = true -> rn' = rn /\ ns' = ns).
Proof.
  intros Hwf. unfold k_update.
  pose proof (k_update_targets_WInv rn ns (stamp_all rn ns m) k cur [] false []
                (fun r Hr => conj (stamp_all_has3 rn ns m r Hr) (stamp_all_wf rn ns m r Hwf Hr))
                (fun key' Hw => match Hw with or_introl F | or_intror F => match F with end end)) as HI.
  pose proof (fun key => k_update_targets_written (stamp_all rn ns m) k cur [] false [] key) as HW.
  destruct (k_update_targets k cur (stamp_all rn ns m) [] false []) as [[[[k1 hard] pe] created] muts] eqn:E.
  simpl in HI, HW.
  destruct (hard || pe); simpl.
  - intros Hw. destruct (HI key Hw) as [f [Hf H3]]. exists f. split; auto. now apply has3_owned.
  - pose proof (k_update_deletes_written' (filter (fun o => negb (in_keys (rkey o) (stamp_all rn ns m))) cur) k1 muts key) as HD.
    pose proof (k_update_deletes_frame (filter (fun o => negb (in_keys (rkey o) (stamp_all rn ns m))) cur) k1 muts key) as HF.
    destruct (k_update_deletes k1 (filter (fun o => negb (in_keys (rkey o) (stamp_all rn ns m))) cur) muts) as [k2 muts2].
    simpl in *. intros Hw. specialize (HD Hw).
    destruct (HI key HD) as [f [Hf H3]]. exists f. split; [|now apply has3_owned].
    rewrite HF; auto.
    (* a written key is a key of the target, hence not among the deleted ones *)
    destruct (HW key HD) as [[[]|[]]|Hin].
    intros Hd. unfold keys in Hd. apply in_map_iff in Hd. destruct Hd as [o [Ho Hd]].
    apply filter_In in Hd. destruct Hd as [_ Hd]. apply negb_true_iff in Hd.
    rewrite Ho in Hd. apply in_keys_false_iff in Hd. apply Hd. exact Hin.
Qed.

(* ---- ... and a later ownership look-up ---- *)

(* an object stamped by (rn, ns) sits at the key of a manifest resource of ANOTHER release
   (different name, or same name in another namespace): that release's install without
   take-ownership is refused before any mutation *)
Theorem stamped_object_refuses_other_release rn ns f rn' ns' fl cid vid mani hks sf cf w r :
  (rn', ns') <> (rn, ns) ->
  In r mani -> aget (rkey r) (w_objs w) = Some (stamp_fields rn ns f) ->
  f_take_ownership fl = false -> f_client_only fl = false ->
  (snd (fst (run_store_op rn' ns' (mkOp (OpInstall fl cid vid mani hks) sf cf) w)) = OErr EConflict \/
   (snd (fst (run_store_op rn' ns' (mkOp (OpInstall fl cid vid mani hks) sf cf) w)) = OErr ENameInUse /\
    f_dry_run fl = false /\ name_available (w_led w) fl = false)) /\
  snd (run_store_op rn' ns' (mkOp (OpInstall fl cid vid mani hks) sf cf) w) = [] /\
  fst (fst (run_store_op rn' ns' (mkOp (OpInstall fl cid vid mani hks) sf cf) w)) = w.
Proof.
  intros Hne Hin Hobj Ht Hc. apply refuse_install; auto.
  exists r. split; auto. exists (stamp_fields rn ns f). split; auto.
  destruct (owned_by rn' ns' (stamp_fields rn ns f)) eqn:E; auto.
  apply owned_by_stamp_only in E. destruct E as [-> ->]. now contradiction Hne.
Qed.

(* the same release's look-up accepts it: existingResourceConflict returns the resource among
   those to adopt (no rejected GET) *)
Lemma k_existing_accepts rn ns rs : forall k acc,
  kfault k = None ->
  (forall r, In r rs -> match aget (rkey r) (objs k) with Some live => owned_by rn ns live = true | None => True end) ->
  snd (k_existing rn ns k rs false acc) =
  Some (acc ++ filter (fun r => amem (rkey r) (objs k)) rs)%list.
Proof.
  induction rs as [|r t IH]; intros k acc Hf Hrs; simpl.
  - now rewrite app_nil_r.
  - unfold fault_hits. rewrite Hf. unfold amem.
    pose proof (Hrs r (or_introl eq_refl)) as Hr.
    destruct (aget (rkey r) (objs k)) as [live|].
    + rewrite Hr. simpl. rewrite IH; auto.
      * now rewrite <- app_assoc.
      * intros x Hx. apply Hrs. now right.
    + apply IH; auto. intros x Hx. apply Hrs. now right.
Qed.

Theorem stamped_object_recognised rn ns f k r rs :
  kfault k = None -> In r rs -> aget (rkey r) (objs k) = Some (stamp_fields rn ns f) ->
  (forall x, In x rs -> match aget (rkey x) (objs k) with Some live => owned_by rn ns live = true | None => True end) ->
  exists l, snd (k_existing rn ns k rs false []) = Some l /\ In r l.
Proof.
  intros Hf Hin Hobj Hrs. rewrite k_existing_accepts by assumption.
  eexists. split; [reflexivity|]. simpl. apply filter_In. split; auto.
  unfold amem. now rewrite Hobj.
Qed.

(* concrete run: release "rel" installs a chart whose ConfigMap renders foreign ownership
   values; the stored object carries rel's values and the chart's other label; release "other"
   (same namespace) and release "rel" of namespace "elsewhere" are both refused on it; "rel"
   itself upgrades over it *)
Example stamped_then_recognised :
  let cm := mkRes "ConfigMap" "a" [("d:k", "v"); ("l:tier", "web"); (managed_by_key, "kustomize");
                                    (rel_name_key, "old"); (rel_ns_key, "")] in
  let fl := mkFlags false false false false 0 false false false false 0 in
  let w1 := fst (fst (run_store_op "rel" "default" (mkOp (OpInstall fl 1 1 [cm] []) (mkSF None None) (mkCF None None false)) (mkW [] []))) in
  aget "ConfigMap/a" (w_objs w1) =
    Some [("d:k", "v"); ("l:tier", "web"); (managed_by_key, "Helm"); (rel_name_key, "rel"); (rel_ns_key, "default")] /\
  snd (fst (run_store_op "other" "default" (mkOp (OpInstall fl 1 1 [cm] []) (mkSF None None) (mkCF None None false)) (mkW [] (w_objs w1)))) = OErr EConflict /\
  snd (fst (run_store_op "rel" "elsewhere" (mkOp (OpInstall fl 1 1 [cm] []) (mkSF None None) (mkCF None None false)) (mkW [] (w_objs w1)))) = OErr EConflict /\
  snd (fst (run_store_op "rel" "default" (mkOp (OpUpgrade fl 2 1 [cm] []) (mkSF None None) (mkCF None None false)) w1)) = OOk.
Proof. vm_compute. repeat split; reflexivity. Qed.

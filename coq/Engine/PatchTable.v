(* C02, round 4 — reading of the translator table Gen/C02Patch.v (regenerated from pkg/kube on every run by
   SYMBOLIC EVALUATION of updateResource with createPatch and any same-package helper inlined, see
   harness/cmd/hx/gentables_c02.go): for each kind of target and each flag combination, the sequence of cluster
   calls, WHICH library call computes the patch and WHICH document stands in which argument.
   Props/C02.v proves the outcome equal to the model's [mode_of] / [merge_by] for all flag combinations.

   Trusted here: the meaning of the four calls
     strategicpatch.CreateThreeWayMergePatch(original, modified, current, schema, overwrite)
     jsonpatch.CreateMergePatch(original, modified)
     jsonmergepatch.CreateThreeWayJSONMergePatch(original, modified, current, preconditions...)
     helper.Replace(namespace, name, overwrite, obj)
   that helper.Get(target.Namespace, target.Name) is the live object, and the evaluator's reading of Go. *)
From Coq Require Import List String Bool Arith.
From Helm Require Import Common.Assoc Engine.PatchEvents Gen.C02Patch Engine.Obj2 Engine.Update2.
Import ListNotations.
Local Open Scope string_scope.

Inductive doc := DOrig | DTgt | DLive.      (* old manifest entry, new manifest entry, live object *)

Inductive way :=
| WStrategic3 (original modified current : doc)
| WJson2 (original modified : doc)
| WJson3 (original modified current : doc)
| WReplace (obj : doc).

Definition doc_eqb (a b : doc) : bool :=
  match a, b with DOrig, DOrig | DTgt, DTgt | DLive, DLive => true | _, _ => false end.

Definition way_eqb (a b : way) : bool :=
  match a, b with
  | WStrategic3 a1 a2 a3, WStrategic3 b1 b2 b3 | WJson3 a1 a2 a3, WJson3 b1 b2 b3 =>
      doc_eqb a1 b1 && doc_eqb a2 b2 && doc_eqb a3 b3
  | WJson2 a1 a2, WJson2 b1 b2 => doc_eqb a1 b1 && doc_eqb a2 b2
  | WReplace a1, WReplace b1 => doc_eqb a1 b1
  | _, _ => false
  end.

(* ---- update(): which documents reach updateResource ----
   update_params = the parameters of Client.update: original list, target list, force, threeWayMerge;
   update_visitor = (list, info): the call runs inside <list>.Visit(func(info, ...));
   update_call = the arguments of its updateResource call, once-defined locals replaced by their definitions. *)
Definition sval_doc (v : sval) : option doc :=
  match v with
  | SLive => Some DLive
  | SParam 1 "Object" =>
      (* updateResource's 2nd parameter is the visited entry of the TARGET list *)
      match nth_error update_call 1 with
      | Some a => if String.eqb a (snd update_visitor) && String.eqb (fst update_visitor) (nth 1 update_params "")
                  then Some DTgt else None
      | None => None
      end
  | SParam 2 "" =>
      (* its 3rd parameter is the Object of the ORIGINAL list's entry matching the visited one *)
      match nth_error update_call 2 with
      | Some a => if String.eqb a (nth 0 update_params "" ++ ".Get(" ++ snd update_visitor ++ ").Object")
                  then Some DOrig else None
      | None => None
      end
  | _ => None
  end.

Definition patch_way (lib : string) (docs : list sval) (extra : list string) (ptype : string) : option way :=
  match lib, docs, extra, ptype with
  | "strategicpatch.CreateThreeWayMergePatch", [a; b; c], ["_"; "true"], "types.StrategicMergePatchType" =>
      match sval_doc a, sval_doc b, sval_doc c with
      | Some x, Some y, Some z => Some (WStrategic3 x y z)
      | _, _, _ => None
      end
  | "jsonpatch.CreateMergePatch", [a; b], [], "types.MergePatchType" =>
      match sval_doc a, sval_doc b with
      | Some x, Some y => Some (WJson2 x y)
      | _, _ => None
      end
  | "jsonmergepatch.CreateThreeWayJSONMergePatch", [a; b; c], ["_"], "types.MergePatchType" =>
      match sval_doc a, sval_doc b, sval_doc c with
      | Some x, Some y, Some z => Some (WJson3 x y z)
      | _, _, _ => None
      end
  | _, _, _, _ => None
  end.

(* the only two shapes the traces of updateResource may have:
     --force : Replace(target), Refresh
     else    : Get live; then either (patch empty) target.Get, or Patch(lib(docs), type), Refresh *)
Definition traces_way (ts : list (list pev)) : option way :=
  match ts with
  | [[PReplace "true" v; PRefresh "replace"]] => option_map WReplace (sval_doc v)
  | [[PGetLive; PBranch "patch-empty" true; PTargetGet];
     [PGetLive; PBranch "patch-empty" false; PPatch lib docs extra ptype; PRefresh "patch"]] =>
      patch_way lib docs extra ptype
  | _ => None
  end.

Definition flags_eqb (a b : bool * bool * bool) : bool :=
  Bool.eqb (fst (fst a)) (fst (fst b)) && Bool.eqb (snd (fst a)) (snd (fst b)) && Bool.eqb (snd a) (snd b).

Definition traces_of (force unstr tw : bool) : option (list (list pev)) :=
  match find (fun r => flags_eqb (fst r) (force, unstr, tw)) update_resource_traces with
  | Some r => Some (snd r)
  | None => None
  end.

(* the threeWayMerge flag as the two entry points set it: c.update(<their own three parameters>, literal) *)
Definition entry_tw (name : string) : option bool :=
  match aget name update_entries with
  | Some ([p0; p1; p2], [a0; a1; a2; lit]) =>
      if String.eqb a0 p0 && String.eqb a1 p1 && String.eqb a2 p2 then
        (if String.eqb lit "true" then Some true else if String.eqb lit "false" then Some false else None)
      else None
  | _ => None
  end.

(* force and threeWayMerge travel unchanged from update() to updateResource *)
Definition flags_forwarded : bool :=
  match nth_error update_call 3, nth_error update_call 4, nth_error update_params 2, nth_error update_params 3 with
  | Some a3, Some a4, Some p2, Some p3 =>
      String.eqb a3 p2 && String.eqb a4 p3 && Nat.eqb (List.length update_call) 5 && Nat.eqb (List.length update_params) 4
  | _, _, _, _ => false
  end.

(* entry point (false = Update, true = UpdateThreeWayMerge), force flag, kind of the target *)
Definition table_way (three_way_entry force unstr : bool) : option way :=
  match entry_tw (if three_way_entry then "UpdateThreeWayMerge" else "Update") with
  | Some tw =>
      if negb flags_forwarded then None
      else match traces_of force unstr tw with
           | Some ts => traces_way ts
           | None => None
           end
  | None => None
  end.

(* how the model's [merge_by m o t l] uses its arguments: o = old manifest entry, t = new manifest entry,
   l = live object ([s3 (Some o) t (Some l)], [j2 o t l], [j3 o t l], [t]) *)
Definition model_way (m : umode) : way :=
  match m with
  | UStrategic => WStrategic3 DOrig DTgt DLive
  | UJson2 => WJson2 DOrig DTgt
  | UJson3 => WJson3 DOrig DTgt DLive
  | UForce => WReplace DTgt
  end.

Definition table_agrees (three_way_entry force unstr : bool) : bool :=
  match table_way three_way_entry force unstr with
  | Some w => way_eqb w (model_way (mode_of force three_way_entry (mkRes2 "" "" "" "" "" unstr (TM []))))
  | None => false
  end.

Definition all_flags : list (bool * bool * bool) :=
  [(false, false, false); (false, false, true); (false, true, false); (false, true, true);
   (true, false, false); (true, false, true); (true, true, false); (true, true, true)].

Lemma table_agrees_all :
  forallb (fun f => table_agrees (fst (fst f)) (snd (fst f)) (snd f)) all_flags = true ->
  forall a b c, table_agrees a b c = true.
Proof.
  intros H a b c. rewrite forallb_forall in H.
  apply (H (a, b, c)). destruct a, b, c; simpl; tauto.
Qed.

Theorem table_agrees_holds : forall a b c, table_agrees a b c = true.
Proof. apply table_agrees_all. vm_compute. reflexivity. Qed.

Theorem patch_table_agrees :
  forall (three_way_entry force unstr : bool),
    match table_way three_way_entry force unstr with
    | Some w => way_eqb w (model_way (mode_of force three_way_entry (mkRes2 "" "" "" "" "" unstr (TM [])))) = true
    | None => False
    end.
Proof.
  intros a b c. pose proof (table_agrees_holds a b c) as H. unfold table_agrees in H.
  destruct (table_way a b c); [exact H|discriminate].
Qed.

(* C02, round 4 — reading of the translator table Gen/C02Patch.v (regenerated from pkg/kube/client.go on
   every run): for each kind of target and each flag combination, WHICH library call computes the update of
   a live object and WHICH document stands in which argument — resolved through the parameter chain
   Update/UpdateThreeWayMerge -> update -> updateResource -> createPatch as the source text has it.
   Props/C02.v proves the outcome equal to the model's [mode_of] / [merge_by] for all flag combinations.

   Trusted here: the meaning of the four calls
     strategicpatch.CreateThreeWayMergePatch(original, modified, current, schema, overwrite)
     jsonpatch.CreateMergePatch(original, modified)
     jsonmergepatch.CreateThreeWayJSONMergePatch(original, modified, current, preconditions...)
     helper.Replace(namespace, name, overwrite, obj)
   and that helper.Get(target.Namespace, target.Name) is the live object. *)
From Coq Require Import List String Bool Arith.
From Helm Require Import Common.Assoc Gen.C02Patch Engine.Obj2 Engine.Update2.
Import ListNotations.
Local Open Scope string_scope.

Inductive doc := DOrig | DTgt | DLive.      (* old manifest entry, new manifest entry, live object *)

Inductive way :=
| WStrategic3 (original modified current : doc)
| WJson2 (original modified : doc)
| WJson3 (original modified current : doc)
| WReplace (obj : doc).

Definition doc_eqb (a b : doc) : bool :=
  match a, b with DOrig, DOrig | DTgt, DTgt | DLive, DLive => true | _, _ => false end.

Definition way_eqb (a b : way) : bool :=
  match a, b with
  | WStrategic3 a1 a2 a3, WStrategic3 b1 b2 b3 | WJson3 a1 a2 a3, WJson3 b1 b2 b3 =>
      doc_eqb a1 b1 && doc_eqb a2 b2 && doc_eqb a3 b3
  | WJson2 a1 a2, WJson2 b1 b2 => doc_eqb a1 b1 && doc_eqb a2 b2
  | WReplace a1, WReplace b1 => doc_eqb a1 b1
  | _, _ => false
  end.

Fixpoint index_of (x : string) (l : list string) : option nat :=
  match l with
  | [] => None
  | y :: t => if String.eqb x y then Some 0 else match index_of x t with Some n => Some (S n) | None => None end
  end.

(* the argument a call binds to the callee's parameter p *)
Definition arg_of (params args : list string) (p : string) : option string :=
  match index_of p params with Some n => nth_error args n | None => None end.

Definition call_args (fn : string) (calls : list (string * list string)) : option (list string) := aget fn calls.

Definition is_param (x : string) (params : list string) : bool :=
  match index_of x params with Some _ => true | None => false end.

(* which document a variable of createPatch that is marshalled holds *)
Definition var_doc (src : string) : option doc :=
  if String.eqb src "target.Object" then
    (* createPatch.target <- updateResource.target <- the visited entry of the target list *)
    match call_args "createPatch" update_resource_patch, call_args "updateResource" update_calls with
    | Some a1, Some a2 =>
        match arg_of create_patch_params a1 "target" with
        | Some t1 => match arg_of update_resource_params a2 t1 with
                     | Some "info" => Some DTgt
                     | _ => None
                     end
        | None => None
        end
    | _, _ => None
    end
  else if is_param src create_patch_params then
    (* a parameter of createPatch: follow it to update(): originalInfo.Object with originalInfo := original.Get(info) *)
    match call_args "createPatch" update_resource_patch, call_args "updateResource" update_calls with
    | Some a1, Some a2 =>
        match arg_of create_patch_params a1 src with
        | Some p1 =>
            match arg_of update_resource_params a2 p1 with
            | Some "originalInfo.Object" =>
                match call_args "original.Get" update_calls with
                | Some ["info"] => Some DOrig
                | _ => None
                end
            | _ => None
            end
        | None => None
        end
    | _, _ => None
    end
  else if String.eqb src "currentObj" then
    match current_obj_source with
    | ("helper.Get", ["target.Namespace"; "target.Name"]) => Some DLive
    | _ => None
    end
  else None.

Definition data_doc (v : string) : option doc :=
  match aget v marshal_sources with Some src => var_doc src | None => None end.

Definition row_way (call : string * list string) (ptype : string) : option way :=
  match call with
  | ("strategicpatch.CreateThreeWayMergePatch", [a; b; c; _; "true"]) =>
      if String.eqb ptype "types.StrategicMergePatchType" then
        match data_doc a, data_doc b, data_doc c with
        | Some x, Some y, Some z => Some (WStrategic3 x y z)
        | _, _, _ => None
        end
      else None
  | ("jsonpatch.CreateMergePatch", [a; b]) =>
      if String.eqb ptype "types.MergePatchType" then
        match data_doc a, data_doc b with
        | Some x, Some y => Some (WJson2 x y)
        | _, _ => None
        end
      else None
  | ("jsonmergepatch.CreateThreeWayJSONMergePatch", [a; b; c; _]) =>
      if String.eqb ptype "types.MergePatchType" then
        match data_doc a, data_doc b, data_doc c with
        | Some x, Some y, Some z => Some (WJson3 x y z)
        | _, _, _ => None
        end
      else None
  | _ => None
  end.

(* the value of a condition of createPatch; None = a condition this reading does not know *)
Definition cond_val (unstr tw : bool) (c : string) : option bool :=
  if String.eqb c "isUnstructured || isCRD" then Some unstr
  else if String.eqb c "threeWayMergeForUnstructured" then Some tw
  else None.

Fixpoint conds_hold (unstr tw : bool) (cs : list string) : option bool :=
  match cs with
  | [] => Some true
  | c :: t => match cond_val unstr tw c, conds_hold unstr tw t with
              | Some a, Some b => Some (a && b)
              | _, _ => None
              end
  end.

(* the first `return patch, ...` reached *)
Fixpoint rows_way (unstr tw : bool) (rows : list (list string * (string * list string) * string)) : option way :=
  match rows with
  | [] => None
  | (cs, call, ty) :: t =>
      match conds_hold unstr tw cs with
      | Some true => row_way call ty
      | Some false => rows_way unstr tw t
      | None => None
      end
  end.

(* the threeWayMerge flag as the two entry points set it, and that it and force travel unchanged down to
   createPatch / updateResource *)
Definition entry_tw (name : string) : option bool :=
  match aget name update_entries with
  | Some ("c.update", args) =>
      match arg_of update_params args "threeWayMerge", arg_of update_params args "force" with
      | Some "true", Some "force" => Some true
      | Some "false", Some "force" => Some false
      | _, _ => None
      end
  | _ => None
  end.

Definition flags_forwarded : bool :=
  match call_args "createPatch" update_resource_patch, call_args "updateResource" update_calls with
  | Some a1, Some a2 =>
      match arg_of create_patch_params a1 "threeWayMergeForUnstructured" with
      | Some p1 => match arg_of update_resource_params a2 p1, arg_of update_resource_params a2 "force" with
                   | Some "threeWayMerge", Some "force" => true
                   | _, _ => false
                   end
      | None => false
      end
  | _, _ => false
  end.

(* the patch and its type reach the server as createPatch returned them *)
Definition patch_sent : bool :=
  match call_args "helper.Patch" update_resource_patch with
  | Some ["target.Namespace"; "target.Name"; "patchType"; "patch"; "nil"] => true
  | _ => false
  end.

Definition force_way : option way :=
  match update_resource_force with
  | [("helper.Replace", ["target.Namespace"; "target.Name"; "true"; obj])] => option_map WReplace (var_doc obj)
  | _ => None
  end.

(* entry point (false = Update, true = UpdateThreeWayMerge), force flag, kind of the target *)
Definition table_way (three_way_entry force unstr : bool) : option way :=
  match entry_tw (if three_way_entry then "UpdateThreeWayMerge" else "Update") with
  | Some tw =>
      if negb (flags_forwarded && patch_sent && String.eqb update_resource_cond "force") then None
      else if force then force_way
      else rows_way unstr tw create_patch_rows
  | None => None
  end.

(* how the model's [merge_by m o t l] uses its arguments: o = old manifest entry, t = new manifest entry,
   l = live object ([s3 (Some o) t (Some l)], [j2 o t l], [j3 o t l], [t]) *)
Definition model_way (m : umode) : way :=
  match m with
  | UStrategic => WStrategic3 DOrig DTgt DLive
  | UJson2 => WJson2 DOrig DTgt
  | UJson3 => WJson3 DOrig DTgt DLive
  | UForce => WReplace DTgt
  end.

Definition table_agrees (three_way_entry force unstr : bool) : bool :=
  match table_way three_way_entry force unstr with
  | Some w => way_eqb w (model_way (mode_of force three_way_entry (mkRes2 "" "" "" "" "" unstr (TM []))))
  | None => false
  end.

Definition all_flags : list (bool * bool * bool) :=
  [(false, false, false); (false, false, true); (false, true, false); (false, true, true);
   (true, false, false); (true, false, true); (true, true, false); (true, true, true)].

Lemma table_agrees_all :
  forallb (fun f => table_agrees (fst (fst f)) (snd (fst f)) (snd f)) all_flags = true ->
  forall a b c, table_agrees a b c = true.
Proof.
  intros H a b c. rewrite forallb_forall in H.
  apply (H (a, b, c)). destruct a, b, c; simpl; tauto.
Qed.

Theorem table_agrees_holds : forall a b c, table_agrees a b c = true.
Proof. apply table_agrees_all. vm_compute. reflexivity. Qed.

Theorem patch_table_agrees :
  forall (three_way_entry force unstr : bool),
    match table_way three_way_entry force unstr with
    | Some w => way_eqb w (model_way (mode_of force three_way_entry (mkRes2 "" "" "" "" "" unstr (TM [])))) = true
    | None => False
    end.
Proof.
  intros a b c. pose proof (table_agrees_holds a b c) as H. unfold table_agrees in H.
  destruct (table_way a b c); [exact H|discriminate].
Qed.

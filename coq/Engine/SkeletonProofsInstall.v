(* Install: the finite checks, by computation (one file per operation so that they build in
   parallel).  vm_cast_no_check: the evaluation happens once, at Qed, in the kernel's VM. *)
From Coq Require Import List String Bool Arith.
From Helm Require Import Engine.Types Engine.Eff Engine.Ops Engine.Skeleton Engine.SkeletonExpected
                         Engine.SkeletonModel Engine.SkeletonProofs.
Import ListNotations.

Lemma check_ok_install : check_op_ok OInstall expected rexpected = true.
Proof. vm_cast_no_check (eq_refl true). Qed.

Lemma check_fail_install : check_op_fail OInstall expected rexpected = true.
Proof. vm_cast_no_check (eq_refl true). Qed.

Lemma check_all_flags_install : check_op_all_flags OInstall expected rexpected = true.
Proof. vm_cast_no_check (eq_refl true). Qed.

(* C12 — execHook: order and sequencing for EVERY execution (also when deletions fail),
   the events an execution may contain, the complete trace when no deletion fails, and
   disabled hooks. *)
From Coq Require Import List String Ascii Bool Arith ZArith Lia Permutation.
From Helm Require Import Common.Assoc Engine.Types Engine.Eff Engine.Ops Engine.Cluster Engine.Seq
  Engine.HooksProofsSort Engine.HooksProofsTrace.
Import ListNotations.
Local Open Scope prog_scope.

Lemma cwview_nil_of_cview tr : cview tr = [] -> cwview tr = [].
Proof. unfold cwview. now intros ->. Qed.

(* ---- order, one at a time: no hypothesis on the answers ---- *)
Lemma loop_order rl ev : forall todo done tr b,
  exec (exec_hooks_loop rl ev todo done) tr b ->
  exists pre rest, todo = (pre ++ rest)%list /\
    ((cwview tr = flat_map (cw_ok ev) pre /\ (rest = [] \/ b = false))
     \/
     (exists h rest', rest = h :: rest' /\ b = false /\
        (cwview tr = (flat_map (cw_ok ev) pre ++ [CCreate [h_res h] false])%list
         \/ cwview tr = (flat_map (cw_ok ev) pre ++ [CCreate [h_res h] true; CWatch ev h false])%list))).
Proof.
  induction todo as [|h t IH]; intros done tr b H.
  - simpl in H. exists [], []. split; auto. left. split; auto.
    simpl. eapply delete_hooks_cw; eauto.
  - simpl in H.
    apply exec_bind_inv in H. destruct H as (tr1 & ok & tr2 & H1 & H2 & ->).
    pose proof (delete_hook_cw _ _ _ _ H1) as W1.
    destruct ok; simpl in H2.
    + unfold record_release in H2.
      apply exec_eff_inv in H2. destruct H2 as (se & tr3 & -> & H2). simpl in H2.
      apply exec_eff_inv in H2. destruct H2 as (created & tr4 & -> & H2).
      destruct created; simpl in H2.
      * apply exec_eff_inv in H2. destruct H2 as (ready & tr5 & -> & H2).
        destruct ready.
        -- destruct (IH _ _ _ H2) as (pre & rest & -> & E).
           exists (h :: pre), rest. split; auto.
           destruct E as [[E R]|(h' & rest' & -> & -> & E)].
           ++ left. split; auto. rewrite cwview_app, W1. simpl.
              unfold cwview at 1. simpl. fold (cwview tr5). now rewrite E.
           ++ right. exists h', rest'. repeat split; auto.
              destruct E as [E|E]; [left|right]; rewrite cwview_app, W1; simpl;
                unfold cwview at 1; simpl; fold (cwview tr5); now rewrite E.
        -- exists [], (h :: t). split; auto. right. exists h, t. split; auto.
           apply exec_bind_inv in H2. destruct H2 as (t6 & x & t7 & H6 & H7 & ->).
           apply exec_bind_inv in H7. destruct H7 as (t8 & y & t9 & H8 & H9 & ->).
           apply exec_ret_inv in H9. destruct H9 as [-> ->]. split; auto. right.
           rewrite cwview_app, W1. simpl. unfold cwview at 1. simpl.
           fold (cwview (t6 ++ t8 ++ [])). rewrite !cwview_app.
           rewrite (delete_hook_cw _ _ _ _ H6), (delete_hooks_cw _ _ _ _ H8). reflexivity.
      * apply exec_ret_inv in H2. destruct H2 as [-> ->].
        exists [], (h :: t). split; auto. right. exists h, t. repeat split; auto. left.
        rewrite cwview_app, W1. reflexivity.
    + apply exec_ret_inv in H2. destruct H2 as [-> ->].
      exists [], (h :: t). split; auto. left. split; auto.
      rewrite app_nil_r. simpl. exact W1.
Qed.

(* ---- the events an execution of execHook may contain ---- *)
Definition hook_ev (rl : release) (ev : event) (hs : list hook) (x : er) : Prop :=
  match eff_of x with
  | KDelete rs => exists h, In h hs /\ rs = [h_res h] /\ is_crd h = false /\ exists p, has_policy h p = true
  | KWaitDelete rs => exists h, In h hs /\ rs = [h_res h]
  | KCreate rs => exists h, In h hs /\ rs = [h_res h]
  | KHookWatch ev' h => ev' = ev /\ In h hs
  | SUpdate r => r = rl
  | _ => False
  end.

Lemma hook_ev_mono rl ev hs hs' x :
  (forall h, In h hs -> In h hs') -> hook_ev rl ev hs x -> hook_ev rl ev hs' x.
Proof.
  intros Hsub. unfold hook_ev. destruct (eff_of x); auto.
  - intros (h & Hi & E). exists h. auto.
  - intros (h & Hi & E). exists h. auto.
  - intros (h & Hi & E). exists h. auto.
  - intros [E Hi]. auto.
Qed.

Lemma delete_hook_events rl ev h p tr b :
  exec (delete_hook_by_policy h p) tr b -> Forall (hook_ev rl ev [h]) tr.
Proof.
  unfold delete_hook_by_policy.
  destruct (String.eqb (h_kind h) "CustomResourceDefinition") eqn:Ecrd.
  - intros H. apply exec_ret_inv in H. destruct H as [-> _]. constructor.
  - destruct (has_policy h p) eqn:Ep.
    + intros H. apply exec_perform_bind_inv in H. destruct H as (ok & tr' & -> & H).
      constructor.
      * unfold hook_ev. simpl. exists h. repeat split; simpl; auto. exists p. exact Ep.
      * destruct ok.
        -- apply (exec_perform_inv (KWaitDelete [h_res h])) in H. subst.
           constructor; [|constructor]. unfold hook_ev. simpl. exists h. simpl; auto.
        -- apply exec_ret_inv in H. destruct H as [-> _]. constructor.
    + intros H. apply exec_ret_inv in H. destruct H as [-> _]. constructor.
Qed.

Lemma delete_hooks_events rl ev p : forall hs tr b,
  exec (delete_hooks_by_policy hs p) tr b -> Forall (hook_ev rl ev hs) tr.
Proof.
  induction hs as [|h t IH]; simpl; intros tr b H.
  - apply exec_ret_inv in H. destruct H as [-> _]. constructor.
  - apply exec_bind_inv in H. destruct H as (tr1 & ok & tr2 & H1 & H2 & ->).
    apply Forall_app. split.
    + eapply Forall_impl; [|eapply delete_hook_events; eauto].
      intros x. apply hook_ev_mono. simpl. intros h' [<-|[]]. now left.
    + destruct ok.
      * eapply Forall_impl; [|eapply IH; eauto].
        intros x. apply hook_ev_mono. simpl. auto.
      * apply exec_ret_inv in H2. destruct H2 as [-> _]. constructor.
Qed.

Lemma loop_events rl ev hs : forall todo done tr b,
  (forall h, In h todo \/ In h done -> In h hs) ->
  exec (exec_hooks_loop rl ev todo done) tr b -> Forall (hook_ev rl ev hs) tr.
Proof.
  induction todo as [|h t IH]; intros done tr b Hsub H.
  - simpl in H. eapply Forall_impl; [|eapply delete_hooks_events; eauto].
    intros x. apply hook_ev_mono. intros h' Hi. apply Hsub. right. now apply in_rev.
  - simpl in H.
    assert (Hh : In h hs) by (apply Hsub; left; now left).
    apply exec_bind_inv in H. destruct H as (tr1 & ok & tr2 & H1 & H2 & ->).
    apply Forall_app. split.
    { eapply Forall_impl; [|eapply delete_hook_events; eauto].
      intros x. apply hook_ev_mono. simpl. intros h' [<-|[]]. exact Hh. }
    destruct ok; simpl in H2.
    + unfold record_release in H2.
      apply exec_eff_inv in H2. destruct H2 as (se & tr3 & -> & H2). simpl in H2.
      constructor; [reflexivity|].
      apply exec_eff_inv in H2. destruct H2 as (created & tr4 & -> & H2).
      constructor; [unfold hook_ev; simpl; exists h; auto|].
      destruct created; simpl in H2.
      * apply exec_eff_inv in H2. destruct H2 as (ready & tr5 & -> & H2).
        constructor; [unfold hook_ev; simpl; auto|].
        destruct ready.
        -- eapply IH; [|exact H2]. intros h' [Hi|Hi].
           ++ apply Hsub. left. now right.
           ++ apply in_app_or in Hi. destruct Hi as [Hi|[<-|[]]]; auto.
        -- apply exec_bind_inv in H2. destruct H2 as (t6 & x & t7 & H6 & H7 & ->).
           apply exec_bind_inv in H7. destruct H7 as (t8 & y & t9 & H8 & H9 & ->).
           apply exec_ret_inv in H9. destruct H9 as [-> _].
           apply Forall_app. split.
           ++ eapply Forall_impl; [|eapply delete_hook_events; eauto].
              intros z. apply hook_ev_mono. simpl. intros h' [<-|[]]. exact Hh.
           ++ rewrite app_nil_r. eapply Forall_impl; [|eapply delete_hooks_events; eauto].
              intros z. apply hook_ev_mono. auto.
      * apply exec_ret_inv in H2. destruct H2 as [-> _]. constructor.
    + apply exec_ret_inv in H2. destruct H2 as [-> _]. constructor.
Qed.

(* ---- hooks_for: selection by event, once per occurrence ---- *)
Lemma in_hooks_for ev h hs : In h (hooks_for ev hs) <-> In h hs /\ In ev (h_events h).
Proof.
  unfold hooks_for. rewrite in_flat_map. split.
  - intros (x & Hx & Hin). apply in_map_iff in Hin. destruct Hin as (e & <- & He).
    apply filter_In in He. destruct He as [He Heq].
    split; auto. destruct ev, e; simpl in Heq; try discriminate; exact He.
  - intros [Hin He]. exists h. split; auto. apply in_map_iff. exists ev. split; auto.
    apply filter_In. split; auto. destruct ev; reflexivity.
Qed.

Lemma in_sorted_hooks ev h rl :
  In h (sort_hooks (hooks_for ev (hooks rl))) <-> In h (hooks rl) /\ In ev (h_events h).
Proof.
  rewrite <- in_hooks_for. split; intros H.
  - eapply Permutation_in; [apply sort_hooks_perm|exact H].
  - eapply Permutation_in; [apply Permutation_sym, sort_hooks_perm|exact H].
Qed.

(* ---- execHook ---- *)
Theorem exec_hook_order rl ev tr b :
  exec (exec_hook rl ev) tr b ->
  exists pre rest, sort_hooks (hooks_for ev (hooks rl)) = (pre ++ rest)%list /\
    ((cwview tr = flat_map (cw_ok ev) pre /\ (rest = [] \/ b = false))
     \/
     (exists h rest', rest = h :: rest' /\ b = false /\
        (cwview tr = (flat_map (cw_ok ev) pre ++ [CCreate [h_res h] false])%list
         \/ cwview tr = (flat_map (cw_ok ev) pre ++ [CCreate [h_res h] true; CWatch ev h false])%list))).
Proof. unfold exec_hook. apply loop_order. Qed.

Theorem exec_hook_trace rl ev tr b :
  exec (exec_hook rl ev) tr b -> Forall del_ok tr ->
  let hs := sort_hooks (hooks_for ev (hooks rl)) in
  (b = true /\ cview tr = (flat_map (run_ok ev) hs ++ succ_dels (List.rev hs))%list)
  \/
  (b = false /\ exists pre h post, hs = (pre ++ h :: post)%list /\
     (cview tr = (flat_map (run_ok ev) pre ++ pol_del h BeforeHookCreation ++ [CCreate [h_res h] false])%list
      \/
      cview tr = (flat_map (run_ok ev) pre ++ pol_del h BeforeHookCreation
                  ++ [CCreate [h_res h] true; CWatch ev h false]
                  ++ pol_del h HookFailed ++ succ_dels pre)%list)).
Proof.
  unfold exec_hook. intros H Hd. exact (loop_trace rl ev _ [] tr b H Hd).
Qed.

Theorem exec_hook_events rl ev tr b :
  exec (exec_hook rl ev) tr b ->
  Forall (hook_ev rl ev (sort_hooks (hooks_for ev (hooks rl)))) tr.
Proof.
  unfold exec_hook. apply loop_events. intros h [H|[]]. exact H.
Qed.

(* a hook of kind CustomResourceDefinition is never deleted; a deletion is always that of
   a selected hook carrying one of the three policies *)
Theorem exec_hook_deletes rl ev tr b :
  exec (exec_hook rl ev) tr b ->
  forall rs ok, In (ER (KDelete rs) ok) tr ->
    exists h, In h (hooks rl) /\ In ev (h_events h) /\ rs = [h_res h]
              /\ h_kind h <> "CustomResourceDefinition"%string /\ exists p, has_policy h p = true.
Proof.
  intros H rs ok Hin. apply exec_hook_events in H. rewrite Forall_forall in H.
  specialize (H _ Hin). unfold hook_ev in H. simpl in H.
  destruct H as (h & Hh & -> & Hc & Hp). apply in_sorted_hooks in Hh. destruct Hh as [H1 H2].
  exists h. repeat split; auto.
  unfold is_crd in Hc. intros E. rewrite E in Hc. discriminate.
Qed.

(* with hooks disabled nothing happens *)
Theorem run_hooks_disabled fl rl ev tr b :
  f_no_hooks fl = true -> exec (run_hooks fl rl ev) tr b -> tr = [] /\ b = true.
Proof.
  unfold run_hooks. intros ->. intros H. apply exec_ret_inv in H. tauto.
Qed.

(* the known finding K8: creation of h2 refused after h1 (hook-succeeded) completed —
   h1 is not deleted *)
Definition k8_h1 : hook := mkHook (mkRes "ConfigMap" "h1" []) [PreInstall] 0 [HookSucceeded].
Definition k8_h2 : hook := mkHook (mkRes "ConfigMap" "h2" []) [PreInstall] 1 [HookFailed].
Definition k8_rel : release := mkRelease 1 SPendingInstall 1 1 [] [k8_h2; k8_h1].
Definition k8_trace : list er :=
  [ ER (SUpdate k8_rel) SOk; ER (KCreate [h_res k8_h1]) true; ER (KHookWatch PreInstall k8_h1) true;
    ER (SUpdate k8_rel) SOk; ER (KCreate [h_res k8_h2]) false ].

Lemma create_refused_refuted :
  exec (exec_hook k8_rel PreInstall) k8_trace false /\
  has_policy k8_h1 HookSucceeded = true /\
  In (CWatch PreInstall k8_h1 true) (cview k8_trace) /\
  ~ In (CDelete [h_res k8_h1] true) (cview k8_trace).
Proof.
  split; [|split; [reflexivity|split]].
  - unfold k8_trace. repeat (apply ExEff; simpl). apply ExRet.
  - simpl. auto.
  - simpl. intros [H|[H|[H|[]]]]; discriminate.
Qed.

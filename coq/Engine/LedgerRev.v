(* C01 — created revisions are successors: in one operation the first Create carries
   1 + (highest revision at the start of the operation), a second Create (the automatic
   rollback of an atomic upgrade) carries the next one.  For every cluster handler, every
   storage-write failure and every crash point. *)
From Coq Require Import List String Bool Arith Lia.
From Helm Require Import Common.Assoc Engine.Types Engine.Eff Engine.Ops Engine.Cluster Engine.Seq
  Engine.SeqProofs Engine.LedgerBase Engine.LedgerPieces.
Import ListNotations.

Definition one_more (m : nat) (cs0 c : list nat) : Prop := c = cs0 \/ c = (cs0 ++ [S m])%list.
(* a second Create happens only in the automatic rollback of an atomic upgrade ([at]) *)
Definition two_more (at_ : bool) (m : nat) (cs0 c : list nat) : Prop :=
  c = cs0 \/ c = (cs0 ++ [S m])%list \/ (at_ = true /\ c = (cs0 ++ [S m; S (S m)])%list).

Definition one_more_if (at_ : bool) (m : nat) (cs0 c : list nat) : Prop :=
  c = cs0 \/ (at_ = true /\ c = (cs0 ++ [S m])%list).

Lemma one_two at_ m cs0 c : one_more m cs0 c -> two_more at_ m cs0 c.
Proof. unfold one_more, two_more. tauto. Qed.

Lemma one_after_one at_ m cs0 c : one_more_if at_ (S m) (cs0 ++ [S m]) c -> two_more at_ m cs0 c.
Proof.
  unfold one_more_if, two_more. intros [->|[H ->]]; auto. right. right. now rewrite <- app_assoc.
Qed.

Section Rev.
  Variable K : Type.
  Variable kh : forall e : eff, K -> K * resp e * list kev.
  Variable dresp : forall e : eff, resp e.
  Variable f : sfaults.
  (* a storage Create that fails does not report success *)
  Hypothesis Hhonest : forall x, dresp (SCreate x) <> SOk.
  Variable rn ns : string.
  Notation wpA := (wpA kh dresp f (fun _ => True)).

  Lemma created_post_cases x l0 cs0 l c e :
    created_post dresp f x l0 cs0 l c e ->
    (e = SOk /\ c = (cs0 ++ [rev x])%list /\ (forall r, In r l -> r = x \/ In r l0) /\ In x l)
    \/ (e <> SOk /\ c = cs0 /\ incl l l0).
  Proof.
    intros [[-> [l' [-> [Hi [-> Hn]]]]]|[Hi [-> He]]].
    - left. split; auto. split; auto. split.
      + intros r Hr. apply in_app_iff in Hr. destruct Hr as [Hr|[<-|[]]]; auto.
      + apply in_app_iff. right. now left.
    - right. split; auto. intros ->. destruct (He eq_refl) as [_ X]. now apply Hhonest in X.
  Qed.

  Lemma rollback_R fl l0 cs0 :
    wpA (fun _ c => one_more (mx l0) cs0 c) (rollback rn ns fl)
        (fun _ c _ => one_more (mx l0) cs0 c) l0 cs0.
  Proof.
    unfold rollback. wp_norm. apply wp_history.
    destruct (max_rev_of l0) as [cur|] eqn:Hmax; [|apply wp_ret; now left].
    assert (Hm : mx l0 = rev cur) by (unfold mx; now rewrite Hmax).
    apply wp_history. destruct (negb (existsb _ l0)); [apply wp_ret; now left|].
    apply wp_get. destruct (find _ l0) as [pr|]; [|apply wp_ret; now left].
    destruct (f_dry_run fl); [apply wp_ret; now left|].
    wp_piece storage_create_spec; [intros l1 c1 [_ ->]; now left|].
    intros l1 c1 e HQ. apply created_post_cases in HQ. cbn [rev] in HQ.
    eapply wp_conseq; [apply wp_no_create; ae| |]; cbv beta.
    - intros _ c ->. destruct HQ as [[_ [-> _]]|[_ [-> _]]]; [right|left]; congruence.
    - intros _ c _ ->. destruct HQ as [[_ [-> _]]|[_ [-> _]]]; [right|left]; congruence.
  Qed.

  Lemma upgrade_fail_R fl up created l cs :
    wpA (fun _ c => one_more_if (f_atomic fl) (mx l) cs c) (upgrade_fail rn ns fl up created)
        (fun _ c _ => one_more_if (f_atomic fl) (mx l) cs c) l cs.
  Proof.
    unfold upgrade_fail. wp_norm.
    apply wp_update_any; [now left|]. intros l1 _ Hrevs _. apply mx_revs in Hrevs.
    wp_piece wp_no_write; [ae| |]; cbv beta.
    - intros _ c [_ ->]. now left.
    - intros l2 c2 cleaned [-> ->].
      destruct (negb cleaned); [apply wp_ret; now left|].
      destruct (f_atomic fl); [|apply wp_ret; now left].
      apply wp_history. destruct (max_rev_of _) as [g|]; [|apply wp_ret; now left].
      wp_piece rollback_R; cbv beta.
      + intros _ c H. rewrite <- Hrevs. destruct H as [->| ->]; [now left|right; auto].
      + intros l3 c a H. apply wp_ret. rewrite <- Hrevs. destruct H as [->| ->]; [now left|right; auto].
  Qed.

  Lemma upgrade_R fl cid vid mani hks l0 cs0 :
    wpA (fun _ c => two_more (f_atomic fl) (mx l0) cs0 c) (upgrade rn ns fl cid vid mani hks)
        (fun _ c _ => two_more (f_atomic fl) (mx l0) cs0 c) l0 cs0.
  Proof.
    unfold upgrade. wp_norm. apply wp_history.
    destruct (max_rev_of l0) as [last|] eqn:Hmax; [|apply wp_ret; now left].
    assert (Hm : mx l0 = rev last) by (unfold mx; now rewrite Hmax).
    destruct (is_pending (st last)); [apply wp_ret; now left|].
    wp_piece wp_no_write; [ae| |]; cbv beta.
    { intros _ c [_ ->]. now left. }
    intros la ca cur [-> ->].
    destruct cur as [current|]; [|apply wp_ret; now left].
    apply wp_cluster; [reflexivity|now left|]. intros adopt.
    destruct adopt as [adopted|]; [|apply wp_ret; now left].
    destruct (f_dry_run fl); [apply wp_ret; now left|].
    wp_piece storage_create_spec; [intros l1 c1 [_ ->]; now left|].
    intros l1 c1 e HQ. apply created_post_cases in HQ. cbn [rev] in HQ.
    destruct HQ as [[-> [-> [Hin Hup]]]|[Hne [-> _]]].
    2: { destruct e; try congruence; apply wp_ret; now left. }
    rewrite <- Hm in *.
    set (up := mkRelease (S (mx l0)) SPendingUpgrade cid vid mani hks) in *.
    assert (Hmx1 : mx l1 = S (mx l0)).
    { apply mx_char.
      - intros r Hr. destruct (Hin r Hr) as [->|Hr0]; [reflexivity|].
        apply mx_bound in Hr0. lia.
      - exists up. auto. }
    assert (Hmid : two_more (f_atomic fl) (mx l0) cs0 (cs0 ++ [S (mx l0)])%list) by (right; now left).
    assert (Hfail : forall l created, mx l = S (mx l0) ->
              wpA (fun _ c => two_more (f_atomic fl) (mx l0) cs0 c) (upgrade_fail rn ns fl up created)
                  (fun _ c _ => two_more (f_atomic fl) (mx l0) cs0 c) l (cs0 ++ [S (mx l0)])%list).
    { intros l created Hl. eapply wp_conseq; [apply upgrade_fail_R| |]; cbv beta; rewrite Hl.
      - intros _ c H. now apply one_after_one.
      - intros _ c _ H. now apply one_after_one. }
    wp_piece wp_quiet; [apply ae_run_hooks| |]; cbv beta.
    { intros _ c [_ ->]. exact Hmid. }
    intros l2 c2 pre [Hu2 ->].
    assert (Hmx2 : mx l2 = S (mx l0)) by (rewrite (mx_revs _ _ (upd_of_revs _ _ _ Hu2)); exact Hmx1).
    destruct (negb pre); [now apply Hfail|].
    apply wp_cluster; [reflexivity|exact Hmid|]. intros u.
    destruct (negb (fst u)).
    { apply wp_update_any; [exact Hmid|]. intros l3 _ Hr3 _. apply Hfail.
      now rewrite (mx_revs _ _ Hr3). }
    apply wp_cluster; [reflexivity|exact Hmid|]. intros w.
    destruct (negb w).
    { apply wp_update_any; [exact Hmid|]. intros l3 _ Hr3 _. apply Hfail.
      now rewrite (mx_revs _ _ Hr3). }
    wp_piece wp_quiet; [apply ae_run_hooks| |]; cbv beta.
    { intros _ c [_ ->]. exact Hmid. }
    intros l3 c3 post [Hu3 ->].
    assert (Hmx3 : mx l3 = S (mx l0)) by (rewrite (mx_revs _ _ (upd_of_revs _ _ _ Hu3)); exact Hmx2).
    destruct (negb post); [now apply Hfail|].
    eapply wp_conseq; [apply wp_no_create; ae| |]; cbv beta.
    - intros _ c ->. exact Hmid.
    - intros _ c _ ->. exact Hmid.
  Qed.

  Lemma install_R fl cid vid mani hks l0 cs0 :
    wpA (fun _ c => one_more (mx l0) cs0 c) (install rn ns fl cid vid mani hks)
        (fun _ c _ => one_more (mx l0) cs0 c) l0 cs0.
  Proof.
    unfold install. wp_norm.
    eapply wp_bind_rel with
      (GP := fun l1 c1 => l1 = l0 /\ c1 = cs0)
      (QP := fun l1 c1 a => l1 = l0 /\ c1 = cs0 /\
                            (a = true -> f_dry_run fl = true \/ l0 = [] \/ f_replace fl = true)).
    { destruct (f_dry_run fl) eqn:Hdry.
      - apply wp_ret. auto.
      - apply wp_history. destruct (max_rev_of l0) as [last|] eqn:Hmax; apply wp_ret.
        + split; auto. split; auto. intros Ha. right. right. apply andb_true_iff in Ha. tauto.
        + split; auto. split; auto. intros _. right. left. now apply max_rev_of_none. }
    { intros _ c [_ ->]. now left. }
    intros la ca avail [-> [-> Hav]].
    destruct (negb avail) eqn:Hna; [apply wp_ret; now left|].
    apply negb_false_iff in Hna. specialize (Hav Hna).
    wp_piece wp_no_write; [ae| |]; cbv beta.
    { intros _ c [_ ->]. now left. }
    intros la ca adopt [-> ->].
    destruct adopt as [adopted|]; [|apply wp_ret; now left].
    destruct (f_dry_run fl) eqn:Hdry; [apply wp_ret; now left|].
    eapply wp_bind_rel with
      (GP := fun (_ : list release) c1 => c1 = cs0)
      (QP := fun l1 c1 rr => c1 = cs0 /\ forall rel, rr = Some rel -> rev rel = S (mx l0)).
    { destruct (f_replace fl) eqn:Hrep.
      - apply wp_history. destruct (max_rev_of l0) as [last|] eqn:Hmax.
        + assert (Hm : mx l0 = rev last) by (unfold mx; now rewrite Hmax).
          destruct (status_eqb (st last) SFailed).
          * apply wp_ret. split; auto. intros rel H. inversion H; subst. cbn. now rewrite Hm.
          * apply wp_update_any; [reflexivity|]. intros l' r _ _.
            destruct r; apply wp_ret; (split; [reflexivity|]); intros rel H;
              try discriminate H; inversion H; subst; cbn; now rewrite Hm.
        + apply wp_ret. split; auto. intros rel H. inversion H; subst. cbn.
          unfold mx. now rewrite Hmax.
      - apply wp_ret. split; auto. intros rel H. inversion H; subst. cbn.
        destruct Hav as [X|[X|X]]; try congruence. now subst l0. }
    { intros _ c ->. now left. }
    intros l1 c1 rr [-> Hrr]. destruct rr as [rel|]; [|apply wp_ret; now left].
    specialize (Hrr rel eq_refl).
    wp_piece storage_create_spec; [intros l2 c2 [_ ->]; now left|].
    intros l2 c2 e HQ. apply created_post_cases in HQ. rewrite Hrr in HQ.
    eapply wp_conseq; [apply wp_no_create; ae| |]; cbv beta.
    - intros _ c ->. destruct HQ as [[_ [-> _]]|[_ [-> _]]]; [right|left]; congruence.
    - intros _ c _ ->. destruct HQ as [[_ [-> _]]|[_ [-> _]]]; [right|left]; congruence.
  Qed.

  (* the shape of the created revisions, per operation *)
  Definition create_shape (o : op) (m : nat) (c : list nat) : Prop :=
    match o with
    | OpInstall _ _ _ _ _ | OpRollback _ => c = [] \/ c = [S m]
    | OpUpgrade fl _ _ _ _ => c = [] \/ c = [S m] \/ (f_atomic fl = true /\ c = [S m; S (S m)])
    | OpUninstall _ => c = []
    end.

  Lemma op_R o l0 :
    wpA (fun _ c => create_shape o (mx l0) c) (op_prog rn ns o)
        (fun _ c _ => create_shape o (mx l0) c) l0 [].
  Proof.
    destruct o as [fl cid vid mani hks|fl cid vid mani hks|fl|fl]; cbn [op_prog create_shape].
    - apply install_R.
    - apply upgrade_R.
    - apply rollback_R.
    - apply wp_no_create. apply ae_uninstall_nc.
  Qed.

  Lemma run_op_creates o l k0 :
    create_shape o (mx l) (creates (snd (run_op K kh dresp rn ns o f l k0))).
  Proof.
    pose proof (wp_run_op K kh dresp f _ _ _ _ l k0 (op_R o l) (fails_only_all K kh dresp f _ _)) as H. cbv zeta in H.
    unfold run_op.
    destruct (run K kh dresp f (op_prog rn ns o) (mkR l k0 0 0 false [])) as [s out].
    cbn [fst snd] in *. destruct H as [H1 H2].
    destruct (dead s); [apply (H1 eq_refl)|apply (H2 eq_refl)].
  Qed.

  Lemma create_shape_above o l c v r :
    create_shape o (mx l) c -> In v c -> In r l -> rev r < v.
  Proof.
    intros Hs Hv Hr. pose proof (mx_bound l r Hr) as B.
    destruct o; simpl in Hs;
      repeat match goal with
             | H : _ \/ _ |- _ => destruct H
             | H : _ /\ _ |- _ => destruct H
             end; subst; simpl in Hv;
      repeat match goal with H : _ \/ _ |- _ => destruct H end; try contradiction; lia.
  Qed.

  Lemma run_op_created_above o l k0 v r :
    In v (creates (snd (run_op K kh dresp rn ns o f l k0))) -> In r l -> rev r < v.
  Proof. exact (create_shape_above o l _ v r (run_op_creates o l k0)). Qed.
End Rev.

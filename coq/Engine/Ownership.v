(* C07 — ownership: definitions.
   Keys of a release, conflict placement, the deletes of a trace, and [all_path]: a predicate
   over resumption programs that follows only the paths on which every response satisfies
   [Rsp] (what the storage/cluster handler can actually answer), requiring [Q] of every effect
   met and [P] of every value returned. *)
From Coq Require Import List String Bool Arith ZArith.
From Helm Require Import Common.Assoc Engine.Types Engine.Eff Engine.Ops Engine.Cluster Engine.Seq.
Import ListNotations.
Local Open Scope string_scope.

Definition keys (rs : list res) : list string := map rkey rs.
Definition hook_keys (hs : list hook) : list string := map (fun h => rkey (h_res h)) hs.
Definition release_keys (r : release) : list string := (keys (manifest r) ++ hook_keys (hooks r))%list.
Definition ledger_keys (l : list release) : list string := flat_map release_keys l.

Definition op_chart_keys (o : op) : list string :=
  match o with
  | OpInstall _ _ _ m h | OpUpgrade _ _ _ m h => (keys m ++ hook_keys h)%list
  | OpRollback _ | OpUninstall _ => []
  end.

(* every key of the release's manifest and hooks is in A *)
Definition good (A : list string) (r : release) : Prop := incl (release_keys r) A.

(* an object sits at the resource's key and is not owned by (rn, ns) *)
Definition unowned_at (rn ns : string) (o : list (string * fields)) (r : res) : Prop :=
  exists live, aget (rkey r) o = Some live /\ owned_by rn ns live = false.

Definition conflict_in (rn ns : string) (o : list (string * fields)) (rs : list res) : Prop :=
  exists r, In r rs /\ unowned_at rn ns o r.

(* the revision an upgrade starts from (prepareUpgrade), as a function of the ledger *)
Definition upgrade_current (l : list release) : option release :=
  match max_rev_of l with
  | None => None
  | Some last =>
      if is_pending (st last) then None
      else if status_eqb (st last) SDeployed then Some last
      else match max_rev_of (filter (fun r => status_eqb (st r) SDeployed) l) with
           | Some d => Some d
           | None => if status_eqb (st last) SFailed || status_eqb (st last) SSuperseded
                     then Some last else None
           end
  end.

(* keys deleted in a trace *)
Definition mut_deletes (m : list (verb * string)) : list string :=
  flat_map (fun vk => match fst vk with VDelete => [snd vk] | _ => [] end) m.

Definition trace_deletes (t : list tev) : list string :=
  flat_map (fun e => match e with TKube (KCall _ m) => mut_deletes m | TStore _ _ _ => [] end) t.

Definition is_err (o : outcome) : Prop := exists c, o = OErr c.

(* ---- programs along feasible paths ---- *)
Inductive all_path {A : Type} (Rsp : forall e : eff, resp e -> Prop) (Q : eff -> Prop) (P : A -> Prop)
  : prog A -> Prop :=
| AP_ret : forall a, P a -> all_path Rsp Q P (Ret a)
| AP_eff : forall e k, Q e -> (forall r, Rsp e r -> all_path Rsp Q P (k r)) -> all_path Rsp Q P (Eff e k).

(* ---- C07_stamped: what the main create / update may carry ---- *)
Definition stamped_list (rn ns : string) (rs : list res) : Prop := exists m, rs = map (stamp rn ns) m.

Definition writes_stamped (rn ns : string) (e : eff) : Prop :=
  match e with
  | KCreate rs => stamped_list rn ns rs \/ exists h, rs = [h_res h]     (* manifest, or one hook *)
  | KUpdate _ tgt => stamped_list rn ns tgt
  | _ => True
  end.

(* C07 — proofs, part 1: stamping, the ownership look-up, refusal before any mutation. *)
From Coq Require Import List String Bool Arith ZArith Lia.
From Helm Require Import Common.Assoc Engine.Types Engine.Eff Engine.Ops Engine.Cluster Engine.Seq
                         Engine.DryRun Engine.DryRunProofs Engine.Ownership.
Import ListNotations.
Local Open Scope string_scope.

(* ------------------------------------------------------------------ *)
(* stamping (setMetadataVisitor) makes a resource owned (checkOwnership) *)

Lemma owned_by_stamp_fields rn ns f : owned_by rn ns (stamp_fields rn ns f) = true.
Proof.
  unfold owned_by, stamp_fields.
  assert (H1 : aget managed_by_key (aset rel_ns_key ns (aset rel_name_key rn (aset managed_by_key "Helm" f))) = Some "Helm").
  { rewrite aget_aset_neq by (unfold rel_ns_key, managed_by_key; discriminate).
    rewrite aget_aset_neq by (unfold rel_name_key, managed_by_key; discriminate).
    apply aget_aset_eq. }
  assert (H2 : aget rel_name_key (aset rel_ns_key ns (aset rel_name_key rn (aset managed_by_key "Helm" f))) = Some rn).
  { rewrite aget_aset_neq by (unfold rel_ns_key, rel_name_key; discriminate).
    apply aget_aset_eq. }
  assert (H3 : aget rel_ns_key (aset rel_ns_key ns (aset rel_name_key rn (aset managed_by_key "Helm" f))) = Some ns).
  { apply aget_aset_eq. }
  rewrite H1, H2, H3. now rewrite !String.eqb_refl.
Qed.

Lemma owned_by_stamp rn ns r : owned_by rn ns (r_fields (stamp rn ns r)) = true.
Proof. apply owned_by_stamp_fields. Qed.

Lemma rkey_stamp rn ns r : rkey (stamp rn ns r) = rkey r.
Proof. reflexivity. Qed.

Lemma stamped_list_owned rn ns rs :
  stamped_list rn ns rs -> Forall (fun r => owned_by rn ns (r_fields r) = true) rs.
Proof.
  intros [m ->]. induction m; simpl; constructor; auto. apply owned_by_stamp.
Qed.

Lemma keys_stamp_all rn ns m : keys (stamp_all rn ns m) = keys m.
Proof. unfold keys, stamp_all. rewrite map_map. apply map_ext. intros; apply rkey_stamp. Qed.

(* ------------------------------------------------------------------ *)
(* the generic path lemma                                               *)

Section RunPath.
  Variable K : Type.
  Variable kh : forall e : eff, K -> K * resp e * list kev.
  Variable dresp : forall e : eff, resp e.
  Variable f : sfaults.
  Variable Rsp : forall e : eff, resp e -> Prop.
  Variable Q : eff -> Prop.
  Variable I : rstate K -> Prop.
  Hypothesis I_step : forall e s, I s -> Q e ->
    I (fst (step K kh dresp f e s)) /\ Rsp e (snd (step K kh dresp f e s)).

  Lemma run_all_path {A} (P : A -> Prop) (p : prog A) :
    all_path Rsp Q P p -> forall s, I s ->
    I (fst (run K kh dresp f p s)) /\ P (snd (run K kh dresp f p s)).
  Proof.
    intros H. induction H as [a Ha|e k HQ Hk IH]; intros s Hs; simpl.
    - split; auto.
    - destruct (I_step e s Hs HQ) as [H1 H2].
      destruct (step K kh dresp f e s) as [s' r]. simpl in *. now apply IH.
  Qed.
End RunPath.

Lemma all_path_weaken {A} Rsp (Q Q' : eff -> Prop) (P P' : A -> Prop) (p : prog A) :
  (forall e, Q e -> Q' e) -> (forall a, P a -> P' a) -> all_path Rsp Q P p -> all_path Rsp Q' P' p.
Proof. intros HQ HP H. induction H; constructor; auto. Qed.

Lemma all_path_bind {A B} Rsp Q (P : A -> Prop) (P' : B -> Prop) (p : prog A) (g : A -> prog B) :
  all_path Rsp Q P p -> (forall a, P a -> all_path Rsp Q P' (g a)) -> all_path Rsp Q P' (bind p g).
Proof. intros H Hg. induction H; simpl; auto. constructor; auto. Qed.

(* ------------------------------------------------------------------ *)
(* existingResourceConflict refuses when an un-owned object is in the way *)

Lemma k_existing_conflict rn ns rs : forall k acc,
  conflict_in rn ns (objs k) rs -> snd (k_existing rn ns k rs false acc) = None.
Proof.
  induction rs as [|r' t IH]; intros k acc [r [Hin [live [Hl Ho]]]]; simpl.
  - destruct Hin.
  - destruct (fault_hits k VGet (rkey r')); simpl; auto.
    destruct (aget (rkey r') (objs k)) as [live'|] eqn:E.
    + destruct (owned_by rn ns live') eqn:Eo; simpl; auto.
      apply IH. destruct Hin as [->|Hin].
      * rewrite Hl in E. inversion E; subst. congruence.
      * exists r. split; auto. exists live. auto.
    + apply IH. destruct Hin as [->|Hin].
      * congruence.
      * exists r. split; auto. exists live. auto.
Qed.

Lemma conflict_in_stamp_all rn ns o m :
  conflict_in rn ns o m -> conflict_in rn ns o (stamp_all rn ns m).
Proof.
  intros [r [Hin Hu]]. exists (stamp rn ns r). split.
  - unfold stamp_all. now apply in_map.
  - exact Hu.
Qed.

Lemma conflict_in_stamp_filter rn ns o m cur :
  conflict_in rn ns o (filter (fun r => negb (in_keys (rkey r) cur)) m) ->
  conflict_in rn ns o (filter (fun r => negb (in_keys (rkey r) cur)) (stamp_all rn ns m)).
Proof.
  intros [r [Hin Hu]]. apply filter_In in Hin. destruct Hin as [Hin Hp].
  exists (stamp rn ns r). split.
  - apply filter_In. split; [unfold stamp_all; now apply in_map|exact Hp].
  - exact Hu.
Qed.

Section Refuse.
  Variable rn ns : string.
  Variable l0 : list release.
  Variable o0 : list (string * fields).
  Variable f : sfaults.

  (* nothing has happened yet *)
  Definition Iref (s : rstate kstate) : Prop :=
    led s = l0 /\ objs (ks s) = o0 /\ tr s = [] /\ dead s = false.

  (* what storage and the cluster answer in such a state *)
  Definition Rref (e : eff) : resp e -> Prop :=
    match e return resp e -> Prop with
    | SHistory => fun r => r = l0
    | SDeployedAll => fun r => r = filter (fun x => status_eqb (st x) SDeployed) l0
    | KExisting rs take => fun r => take = false -> conflict_in rn ns o0 rs -> r = None
    | _ => fun _ => True
    end.

  Lemma Iref_step e s : Iref s -> silent e ->
    Iref (fst (step kstate (kube_handle rn ns) dead_resp f e s)) /\
    Rref e (snd (step kstate (kube_handle rn ns) dead_resp f e s)).
  Proof.
    intros (H1 & H2 & H3 & H4) Hs. unfold step.
    destruct e; simpl in Hs; try contradiction; simpl; rewrite ?andb_false_r; simpl; rewrite H4; simpl.
    - split; [repeat split; auto|]. exact H1.
    - split; [repeat split; auto|]. now rewrite H1.
    - split; [repeat split; auto|]. exact I.
    - pose proof (k_existing_objs rn ns rs (ks s) take []) as Ho.
      pose proof (k_existing_conflict rn ns rs (ks s) []) as Hc.
      destruct (k_existing rn ns (ks s) rs take []) as [k' r] eqn:E. simpl in *.
      split.
      + repeat split; simpl; rewrite ?app_nil_r; auto; congruence.
      + intros -> Hconf. rewrite E in Hc. simpl in Hc. apply Hc. now rewrite H2.
  Qed.

  Definition name_available (fl : flags) : bool :=
    match max_rev_of l0 with
    | None => true
    | Some last => f_replace fl && (status_eqb (st last) SUninstalled || status_eqb (st last) SFailed)
    end.

  Lemma install_refuses fl cid vid mani hks :
    f_take_ownership fl = false -> f_client_only fl = false ->
    conflict_in rn ns o0 mani ->
    all_path Rref silent
      (fun out => out = OErr EConflict \/
                  (out = OErr ENameInUse /\ f_dry_run fl = false /\ name_available fl = false))
      (install rn ns fl cid vid mani hks).
  Proof.
    intros Ht Hc Hconf.
    assert (Hne : match stamp_all rn ns mani with [] => true | _ :: _ => false end = false).
    { destruct Hconf as [r [Hin _]]. destruct mani; [destruct Hin|reflexivity]. }
    apply conflict_in_stamp_all in Hconf.
    unfold install. destruct (f_dry_run fl) eqn:Hd; simpl.
    - rewrite Hc, Hne, Ht. simpl.
      apply AP_eff; [exact I|]. intros r Hr. simpl in Hr. rewrite (Hr eq_refl Hconf).
      apply AP_ret. now left.
    - apply AP_eff; [exact I|]. intros h Hh. simpl in Hh. subst h.
      assert (Hav : name_available fl =
                    match max_rev_of l0 with
                    | None => true
                    | Some last => f_replace fl && (status_eqb (st last) SUninstalled || status_eqb (st last) SFailed)
                    end) by reflexivity.
      destruct (max_rev_of l0) as [last|]; simpl.
      + destruct (f_replace fl && (status_eqb (st last) SUninstalled || status_eqb (st last) SFailed)) eqn:Eb; simpl.
        * rewrite Hc, Hne, Ht. simpl.
          apply AP_eff; [exact I|]. intros r Hr. simpl in Hr. rewrite (Hr eq_refl Hconf).
          apply AP_ret. now left.
        * apply AP_ret. right. auto.
      + rewrite Hc, Hne, Ht. simpl.
        apply AP_eff; [exact I|]. intros r Hr. simpl in Hr. rewrite (Hr eq_refl Hconf).
        apply AP_ret. now left.
  Qed.

  Lemma upgrade_refuses fl cid vid mani hks :
    f_take_ownership fl = false ->
    (forall cur, upgrade_current l0 = Some cur ->
       conflict_in rn ns o0 (filter (fun r => negb (in_keys (rkey r) (manifest cur))) mani)) ->
    all_path Rref silent
      (fun out => out = OErr EConflict \/
                  ((out = OErr ENoDeployed \/ out = OErr EPending) /\ upgrade_current l0 = None))
      (upgrade rn ns fl cid vid mani hks).
  Proof.
    intros Ht Hconf.
    unfold upgrade. apply AP_eff; [exact I|]. intros h Hh. simpl in Hh. subst h.
    unfold upgrade_current in *.
    destruct (max_rev_of l0) as [last|]; simpl; [|apply AP_ret; right; auto].
    destruct (is_pending (st last)) eqn:Ep; simpl; [apply AP_ret; right; auto|].
    destruct (status_eqb (st last) SDeployed) eqn:Ed; simpl.
    - rewrite Ht. apply AP_eff; [exact I|]. intros r Hr. simpl in Hr.
      rewrite (Hr eq_refl (conflict_in_stamp_filter rn ns o0 mani (manifest last) (Hconf last eq_refl))).
      apply AP_ret. now left.
    - apply AP_eff; [exact I|]. intros ds Hds. simpl in Hds. subst ds.
      destruct (max_rev_of (filter (fun x => status_eqb (st x) SDeployed) l0)) as [d|]; simpl.
      + rewrite Ht. apply AP_eff; [exact I|]. intros r Hr. simpl in Hr.
        rewrite (Hr eq_refl (conflict_in_stamp_filter rn ns o0 mani (manifest d) (Hconf d eq_refl))).
        apply AP_ret. now left.
      + destruct (status_eqb (st last) SFailed || status_eqb (st last) SSuperseded); simpl.
        * rewrite Ht. apply AP_eff; [exact I|]. intros r Hr. simpl in Hr.
          rewrite (Hr eq_refl (conflict_in_stamp_filter rn ns o0 mani (manifest last) (Hconf last eq_refl))).
          apply AP_ret. now left.
        * apply AP_ret. right. auto.
  Qed.
End Refuse.

(* ---- the theorems over run_store_op ---- *)

Lemma run_store_refuse rn ns (o : op) sf cf w (P : outcome -> Prop) :
  all_path (Rref rn ns (w_led w) (w_objs w)) silent P (op_prog rn ns o) ->
  P (snd (fst (run_store_op rn ns (mkOp o sf cf) w))) /\
  snd (run_store_op rn ns (mkOp o sf cf) w) = [] /\
  fst (fst (run_store_op rn ns (mkOp o sf cf) w)) = w.
Proof.
  intros H. unfold run_store_op, run_op. simpl.
  set (k0 := mkK (w_objs w) (cf_k cf) (cf_h cf) (cf_wait cf)).
  pose proof (run_all_path kstate (kube_handle rn ns) dead_resp sf
                (Rref rn ns (w_led w) (w_objs w)) silent (Iref (w_led w) (w_objs w))
                (fun e s => Iref_step rn ns (w_led w) (w_objs w) sf e s) P (op_prog rn ns o) H
                (mkR (w_led w) k0 0 0 false [])) as G.
  assert (H0 : Iref (w_led w) (w_objs w) (mkR (w_led w) k0 0 0 false [])) by (repeat split).
  specialize (G H0).
  destruct (run kstate (kube_handle rn ns) dead_resp sf (op_prog rn ns o) (mkR (w_led w) k0 0 0 false [])) as [s out].
  simpl in *. destruct G as [(G1 & G2 & G3 & G4) G5].
  rewrite G4. repeat split; auto. rewrite G1, G2. now destruct w.
Qed.

Theorem refuse_install rn ns fl cid vid mani hks sf cf w :
  f_take_ownership fl = false -> f_client_only fl = false ->
  conflict_in rn ns (w_objs w) mani ->
  (snd (fst (run_store_op rn ns (mkOp (OpInstall fl cid vid mani hks) sf cf) w)) = OErr EConflict \/
   (snd (fst (run_store_op rn ns (mkOp (OpInstall fl cid vid mani hks) sf cf) w)) = OErr ENameInUse /\
    f_dry_run fl = false /\ name_available (w_led w) fl = false)) /\
  snd (run_store_op rn ns (mkOp (OpInstall fl cid vid mani hks) sf cf) w) = [] /\
  fst (fst (run_store_op rn ns (mkOp (OpInstall fl cid vid mani hks) sf cf) w)) = w.
Proof.
  intros Ht Hc Hconf.
  apply (run_store_refuse rn ns (OpInstall fl cid vid mani hks) sf cf w
           (fun out => out = OErr EConflict \/
                       (out = OErr ENameInUse /\ f_dry_run fl = false /\ name_available (w_led w) fl = false))).
  simpl. now apply install_refuses.
Qed.

Theorem refuse_upgrade rn ns fl cid vid mani hks sf cf w :
  f_take_ownership fl = false ->
  (forall cur, upgrade_current (w_led w) = Some cur ->
     conflict_in rn ns (w_objs w) (filter (fun r => negb (in_keys (rkey r) (manifest cur))) mani)) ->
  (snd (fst (run_store_op rn ns (mkOp (OpUpgrade fl cid vid mani hks) sf cf) w)) = OErr EConflict \/
   ((snd (fst (run_store_op rn ns (mkOp (OpUpgrade fl cid vid mani hks) sf cf) w)) = OErr ENoDeployed \/
     snd (fst (run_store_op rn ns (mkOp (OpUpgrade fl cid vid mani hks) sf cf) w)) = OErr EPending) /\
    upgrade_current (w_led w) = None)) /\
  snd (run_store_op rn ns (mkOp (OpUpgrade fl cid vid mani hks) sf cf) w) = [] /\
  fst (fst (run_store_op rn ns (mkOp (OpUpgrade fl cid vid mani hks) sf cf) w)) = w.
Proof.
  intros Ht Hconf.
  apply (run_store_refuse rn ns (OpUpgrade fl cid vid mani hks) sf cf w
           (fun out => out = OErr EConflict \/
                       ((out = OErr ENoDeployed \/ out = OErr EPending) /\ upgrade_current (w_led w) = None))).
  simpl. now apply upgrade_refuses.
Qed.

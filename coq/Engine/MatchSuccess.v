(* C02 (B) — install and upgrade of Engine/Ops.v run over the object-store cluster without
   faults: when the outcome is OOk the cluster matches the stamped manifest of the new
   revision, dropped resources are gone modulo live keep, everything else is untouched. *)
From Coq Require Import List String Bool Arith ZArith.
From Helm Require Import Common.Assoc Engine.Types Engine.Eff Engine.Ops Engine.Cluster Engine.Seq.
From Helm Require Import Engine.MatchDefs Engine.MatchUpdate Engine.MatchRun Engine.MatchOps.
Import ListNotations.

Lemma k_existing_sub rn ns : forall rs k take acc k' l,
  k_existing rn ns k rs take acc = (k', Some l) -> forall x, In x l -> In x acc \/ In x rs.
Proof.
  induction rs as [|r t IH]; intros k take acc k' l H x Hx; simpl in H.
  - inversion H; subst. auto.
  - destruct (fault_hits k VGet (rkey r)); [discriminate|].
    destruct (aget (rkey r) (objs k)) as [live|].
    + destruct (take || owned_by rn ns live); [|discriminate].
      destruct (IH _ _ _ _ _ H x Hx) as [Ha|Ht]; [|right; now right].
      apply in_app_or in Ha. destruct Ha as [Ha|[<-|[]]]; auto. right. now left.
    + destruct (IH _ _ _ _ _ H x Hx); auto. right. now right.
Qed.

Lemma rkey_stamp rn ns r : rkey (stamp rn ns r) = rkey r.
Proof. reflexivity. Qed.

Lemma keys_stamp_all rn ns rs : map rkey (stamp_all rn ns rs) = map rkey rs.
Proof. unfold stamp_all. rewrite map_map. apply map_ext. intros r. apply rkey_stamp. Qed.

Lemma in_keys_stamp_all rn ns key rs : in_keys key (stamp_all rn ns rs) = in_keys key rs.
Proof.
  destruct (in_keys key rs) eqn:E.
  - apply in_keys_iff. rewrite keys_stamp_all. now apply in_keys_iff.
  - apply in_keys_false_iff. rewrite keys_stamp_all. now apply in_keys_false_iff.
Qed.

Lemma wf_stamp rn ns r : NoDup (akeys (r_fields r)) -> NoDup (akeys (r_fields (stamp rn ns r))).
Proof. intros H. simpl. unfold stamp_fields. now repeat apply NoDup_akeys_aset. Qed.

Section Success.
  Variable rn ns : string.

  Notation rstate := (rstate kstate).
  Notation stepS := (step kstate (kube_handle rn ns) dead_resp).
  Notation runS := (run kstate (kube_handle rn ns) dead_resp).

  Ltac rw_perform_in H :=
    match type of H with
    | context [@run _ _ _ ?A ?f (perform ?e) ?s] =>
        change (@run kstate (kube_handle rn ns) dead_resp A f (perform e) s)
          with (@run kstate (kube_handle rn ns) dead_resp (resp e) f (perform e) s) in H;
        rewrite (run_perform rn ns f e s) in H
    end.

  (* split [run (bind p q)] in H and name the state and result of [p] *)
  Ltac bind_step H s1 x E :=
    rewrite run_bind in H;
    match type of H with
    | context [let '(_, _) := ?r in _] => destruct r as [s1 x] eqn:E
    end.

  (* a segment with footprint P: calm stays, objects outside P stay *)
  Lemma seg {A} (P : string -> Prop) (p : prog A) (s s1 : rstate) a :
    fp P p -> calm s -> runS nf p s = (s1, a) ->
    calm s1 /\ forall key, ~ P key -> aget key (objs (ks s1)) = aget key (objs (ks s)).
  Proof.
    intros Hp Hc H. split.
    - eapply run_calm; eauto.
    - intros key Hn. eapply run_frame; eauto.
  Qed.

  Lemma fp_run_hooks_touch fl rl ev : fp (hooks_touch fl (hooks rl)) (run_hooks fl rl ev).
  Proof.
    unfold run_hooks. destruct (f_no_hooks fl) eqn:E; [constructor|].
    apply fp_weaken with (P := hook_key (hooks rl)).
    - intros k Hk. split; auto.
    - pose proof (fp_run_hooks fl rl ev) as F. unfold run_hooks in F. now rewrite E in F.
  Qed.

  Lemma bind_const_out {A} (p : prog A) (c : outcome) (s s' : rstate) out :
    runS nf (bind p (fun _ => Ret c)) s = (s', out) -> out = c.
  Proof. rewrite run_bind. destruct (runS nf p s) as [s1 x]. simpl. now inversion 1. Qed.

  Lemma install_fail_not_ok fl rel (s s' : rstate) : runS nf (install_fail fl rel) s = (s', OOk) -> False.
  Proof.
    unfold install_fail. destruct (f_atomic fl); intros H; apply bind_const_out in H; discriminate.
  Qed.

  (* ---- the cluster write of install ---- *)
  Definition install_write (mani adopted : list res) (k1 k2 : kstate) : Prop :=
    (stamp_all rn ns mani = [] /\ k2 = k1) \/
    (exists muts, k_create k1 (stamp_all rn ns mani) true [] = (k2, true, muts)) \/
    (exists cr muts, k_update k1 adopted (stamp_all rn ns mani) = (k2, (true, cr), muts)).

  (* what KExisting answers is a sub-list of what it was asked about *)
  Lemma existing_segment_sub (c : bool) rs take (s s1 : rstate) adopted :
    calm s ->
    runS nf (if c then perform (KExisting rs take) else Ret (Some [])) s = (s1, Some adopted) ->
    forall x, In x adopted -> In x rs.
  Proof.
    intros Hc H x Hx. destruct c.
    - rw_perform_in H.
      destruct (step_nf_cluster rn ns (KExisting rs take) s (proj1 Hc) eq_refl) as (s3 & Es & _).
      cbn [kube_handle] in Es.
      destruct (k_existing rn ns (ks s) rs take []) as [k' r] eqn:E. cbn [fst snd] in Es.
      rewrite Es in H. injection H as _ Hr. subst r.
      destruct (k_existing_sub rn ns _ _ _ _ _ _ E x Hx) as [[]|]; auto.
    - cbn in H. injection H as _ Hr. subst adopted. destruct Hx.
  Qed.

  Lemma install_write_step (mani adopted : list res) (s s2 : rstate) :
    calm s ->
    runS nf (match stamp_all rn ns mani with
             | [] => Ret true
             | _ :: _ => match adopted with
                         | [] => perform (KCreate (stamp_all rn ns mani))
                         | _ :: _ => bind (perform (KUpdate adopted (stamp_all rn ns mani))) (fun u => Ret (fst u))
                         end
             end) s = (s2, true) ->
    calm s2 /\ install_write mani adopted (ks s) (ks s2).
  Proof.
    intros Hc H. unfold install_write.
    destruct (stamp_all rn ns mani) as [|x t] eqn:Er.
    - inversion H; subst. auto.
    - destruct adopted as [|a at'].
      + rw_perform_in H.
        destruct (step_nf_cluster rn ns (KCreate (x :: t)) s (proj1 Hc) eq_refl) as (s3 & Es & Hks & _ & Hd3).
        cbn [kube_handle] in Es, Hks.
        destruct (k_create (ks s) (x :: t) true []) as [[k' ok] m] eqn:E.
        cbn [fst snd] in Es, Hks. rewrite Es in H. injection H as Hs Hok. subst s3 ok. rewrite Hks.
        split.
        * split; auto. rewrite Hks. exact (proj1 (k_create_nofault _ _ _ _ _ _ _ (proj2 Hc) E)).
        * right. left. eauto.
      + rewrite run_bind in H. rw_perform_in H.
        destruct (step_nf_cluster rn ns (KUpdate (a :: at') (x :: t)) s (proj1 Hc) eq_refl) as (s3 & Es & Hks & _ & Hd3).
        cbn [kube_handle] in Es, Hks.
        destruct (k_update (ks s) (a :: at') (x :: t)) as [[k' [ok cr]] m] eqn:E.
        cbn [fst snd] in Es, Hks. rewrite Es in H. cbn [run fst] in H. injection H as Hs Hok. subst s3 ok. rewrite Hks.
        split.
        * split; auto. rewrite Hks. exact (proj1 (k_update_nofault _ _ _ _ _ _ _ (proj2 Hc) E)).
        * right. right. eauto.
  Qed.

  Lemma install_objs fl cid vid mani hks (s0 s' : rstate) :
    f_dry_run fl = false -> calm s0 ->
    runS nf (install rn ns fl cid vid mani hks) s0 = (s', OOk) ->
    exists (adopted : list res) (k1 k2 : kstate),
      (forall x, In x adopted -> In x (stamp_all rn ns mani)) /\
      nofault k1 /\
      (forall key, ~ hooks_touch fl hks key -> aget key (objs k1) = aget key (objs (ks s0))) /\
      (forall key, ~ hooks_touch fl hks key -> aget key (objs (ks s')) = aget key (objs k2)) /\
      install_write mani adopted k1 k2.
  Proof.
    intros Hdry Hc0 H.
    set (P := hooks_touch fl hks).
    unfold install in H. cbv zeta in H. rewrite Hdry in H.
    (* availableName *)
    bind_step H sa avail Ea.
    assert (Fa : fp P (h <- perform SHistory;;
                       match max_rev_of h with
                       | Some last => Ret (f_replace fl && (status_eqb (st last) SUninstalled || status_eqb (st last) SFailed))
                       | None => Ret true
                       end)%prog).
    { apply fp_bind; [apply (fp_perform P SHistory); exact I|]. intros h. destruct (max_rev_of h); constructor. }
    destruct (seg P _ _ _ _ Fa Hc0 Ea) as [Hca Fra].
    destruct avail; cbn [negb] in H; [|cbn in H; discriminate].
    (* adoption *)
    bind_step H sb adopt Eb.
    assert (Fb : fp P (if negb (f_client_only fl) && negb (match stamp_all rn ns mani with [] => true | _ :: _ => false end)
                       then perform (KExisting (stamp_all rn ns mani) (f_take_ownership fl)) else Ret (Some []))).
    { destruct (negb (f_client_only fl) && _); [apply (fp_perform P (KExisting _ _)); exact I|constructor]. }
    destruct (seg P _ _ _ _ Fb Hca Eb) as [Hcb Frb].
    destruct adopt as [adopted|]; [|cbn in H; discriminate].
    (* replaceRelease *)
    bind_step H sc rr Ec.
    match type of Ec with runS nf ?p _ = _ => assert (Fc : fp P p) end.
    { destruct (f_replace fl); [|constructor].
      apply fp_bind; [apply (fp_perform P SHistory); exact I|]. intros h.
      destruct (max_rev_of h) as [last|]; [|constructor].
      destruct (status_eqb (st last) SFailed); [constructor|].
      apply fp_bind; [apply (fp_perform P (SUpdate _)); exact I|]. intros e. destruct e; constructor. }
    destruct (seg P _ _ _ _ Fc Hcb Ec) as [Hcc Frc].
    destruct rr as [rel|]; [|cbn in H; discriminate].
    (* storage create *)
    bind_step H sd e Ed.
    destruct (seg P _ _ _ _ (fp_storage_create P rel 0) Hcc Ed) as [Hcd Frd].
    destruct e; try (cbn in H; discriminate).
    (* pre-install hooks *)
    bind_step H se pre Ee.
    assert (Hhooks_rel : forall rel0, hooks rel0 = hks -> fp P (run_hooks fl rel0 PreInstall) /\ fp P (run_hooks fl rel0 PostInstall)).
    { intros rel0 Hh. unfold P. rewrite <- Hh. split; apply fp_run_hooks_touch. }
    assert (Hrel : hooks rel = hks).
    { (* rel comes out of replaceRelease: rel0 or rel0 with another revision number *)
      clear - Ec. destruct (f_replace fl).
      - rewrite run_bind in Ec. destruct (runS nf (perform SHistory) sb) as [sx h].
        destruct (max_rev_of h) as [last|]; [|cbn in Ec; now inversion Ec].
        destruct (status_eqb (st last) SFailed); [cbn in Ec; now inversion Ec|].
        rewrite run_bind in Ec. destruct (runS nf (perform (SUpdate (with_status last SSuperseded))) sx) as [sy e].
        destruct e; cbn in Ec; now inversion Ec.
      - cbn in Ec. now inversion Ec. }
    destruct (Hhooks_rel rel Hrel) as [Fpre Fpost].
    destruct (seg P _ _ _ _ Fpre Hcd Ee) as [Hce Fre].
    destruct pre; cbn [negb] in H; [|exfalso; eapply install_fail_not_ok; eauto].
    (* the cluster write *)
    bind_step H sf ok Ef.
    destruct ok; cbn [negb] in H; [|exfalso; eapply install_fail_not_ok; eauto].
    destruct (install_write_step mani adopted se sf Hce Ef) as [Hcf Hw].
    (* wait *)
    bind_step H sg w Eg.
    assert (Fg : fp P (perform (KWait (stamp_all rn ns mani)))) by (apply (fp_perform P (KWait _)); exact I).
    destruct (seg P _ _ _ _ Fg Hcf Eg) as [Hcg Frg].
    destruct w; cbn [negb] in H; [|exfalso; eapply install_fail_not_ok; eauto].
    (* post-install hooks *)
    bind_step H sh post Eh.
    destruct (seg P _ _ _ _ Fpost Hcg Eh) as [Hch Frh].
    destruct post; cbn [negb] in H; [|exfalso; eapply install_fail_not_ok; eauto].
    (* final record *)
    bind_step H si u Ei.
    destruct (seg P _ _ _ _ (fp_record_release P (with_status rel SDeployed)) Hch Ei) as [Hci Fri].
    cbn in H. inversion H; subst si. clear H.
    exists adopted, (ks se), (ks sf). repeat split; auto.
    - exact (existing_segment_sub _ _ _ _ _ _ Hca Eb).
    - apply Hce.
    - intros key Hk. now rewrite Fre, Frd, Frc, Frb, Fra.
    - intros key Hk. now rewrite Fri, Frh, Frg.
  Qed.

  (* ---- upgrade ---- *)

  Lemma upgrade_fail_not_ok fl up created (s s' : rstate) :
    runS nf (upgrade_fail rn ns fl up created) s = (s', OOk) -> False.
  Proof.
    unfold upgrade_fail. intros H.
    bind_step H s1 u E1. bind_step H s2 cleaned E2.
    destruct (negb cleaned); [cbn in H; discriminate|].
    destruct (f_atomic fl); [|cbn in H; discriminate].
    bind_step H s3 h E3.
    destruct (max_rev_of _) as [g|]; [|cbn in H; discriminate].
    apply bind_const_out in H. discriminate.
  Qed.

  Lemma record_then_upgrade_fail_not_ok fl cur up created (s s' : rstate) :
    runS nf (bind (record_release cur) (fun _ => upgrade_fail rn ns fl up created)) s = (s', OOk) -> False.
  Proof. intros H. bind_step H s1 u E1. eapply upgrade_fail_not_ok; eauto. Qed.

  Lemma upgrade_objs fl cid vid mani hks (s0 s' : rstate) :
    f_dry_run fl = false -> calm s0 ->
    runS nf (upgrade rn ns fl cid vid mani hks) s0 = (s', OOk) ->
    exists (current : release) (adopted : list res) (k1 k2 : kstate) (cr : list res) (muts : list (verb * string)),
      upgrade_current (led s0) = Some current /\
      (forall x, In x adopted -> In x (stamp_all rn ns mani)) /\
      nofault k1 /\
      (forall key, ~ hooks_touch fl hks key -> aget key (objs k1) = aget key (objs (ks s0))) /\
      (forall key, ~ hooks_touch fl hks key -> aget key (objs (ks s')) = aget key (objs k2)) /\
      k_update k1 (manifest current ++ adopted)%list (stamp_all rn ns mani) = (k2, (true, cr), muts).
  Proof.
    intros Hdry Hc0 H.
    set (P := hooks_touch fl hks).
    unfold upgrade in H.
    rewrite run_bind in H. rw_perform_in H. rewrite step_nf_history in H by apply Hc0.
    unfold upgrade_current.
    destruct (max_rev_of (led s0)) as [last|] eqn:Hmax; [|cbn in H; discriminate].
    destruct (is_pending (st last)); [cbn in H; discriminate|].
    (* which revision is current *)
    bind_step H sa cur Ea.
    assert (Hcur : calm sa /\ (forall key, aget key (objs (ks sa)) = aget key (objs (ks s0))) /\
                   cur = (if status_eqb (st last) SDeployed then Some last
                          else match max_rev_of (filter (fun r => status_eqb (st r) SDeployed) (led s0)) with
                               | Some d => Some d
                               | None => if status_eqb (st last) SFailed || status_eqb (st last) SSuperseded
                                         then Some last else None
                               end)).
    { destruct (status_eqb (st last) SDeployed).
      - cbn in Ea. injection Ea as <- <-. auto.
      - rewrite run_bind in Ea. rw_perform_in Ea. rewrite step_nf_deployed in Ea by apply Hc0.
        destruct (max_rev_of (filter (fun r => status_eqb (st r) SDeployed) (led s0))) as [d|].
        + cbn in Ea. injection Ea as <- <-. auto.
        + destruct (status_eqb (st last) SFailed || status_eqb (st last) SSuperseded);
            cbn in Ea; injection Ea as <- <-; auto. }
    destruct Hcur as (Hca & Fra & Hcur).
    destruct cur as [current|]; [|cbn in H; discriminate].
    cbv zeta in H.
    (* adoption *)
    bind_step H sb adopt Eb.
    assert (Fb : fp P (perform (KExisting (filter (fun r => negb (in_keys (rkey r) (manifest current))) (stamp_all rn ns mani))
                                          (f_take_ownership fl)))) by (apply (fp_perform P (KExisting _ _)); exact I).
    destruct (seg P _ _ _ _ Fb Hca Eb) as [Hcb Frb].
    destruct adopt as [adopted|]; [|cbn in H; discriminate].
    assert (Hsub : forall x, In x adopted -> In x (stamp_all rn ns mani)).
    { intros x Hx.
      pose proof (existing_segment_sub true _ _ _ _ _ Hca Eb x Hx) as Hin.
      apply filter_In in Hin. tauto. }
    rewrite Hdry in H.
    (* storage create *)
    bind_step H sd e Ed.
    match type of Ed with runS nf (storage_create ?r ?n) _ = _ =>
      destruct (seg P _ _ _ _ (fp_storage_create P r n) Hcb Ed) as [Hcd Frd]; set (up := r) in *
    end.
    destruct e; try (cbn in H; discriminate).
    (* pre-upgrade hooks *)
    bind_step H se pre Ee.
    assert (Fhooks : forall ev, fp P (run_hooks fl up ev)) by (intros ev; apply (fp_run_hooks_touch fl up ev)).
    destruct (seg P _ _ _ _ (Fhooks PreUpgrade) Hcd Ee) as [Hce Fre].
    destruct pre; cbn [negb] in H; [|exfalso; eapply upgrade_fail_not_ok; eauto].
    (* the cluster write *)
    rewrite run_bind in H. rw_perform_in H.
    destruct (step_nf_cluster rn ns (KUpdate (manifest current ++ adopted) (stamp_all rn ns mani)) se (proj1 Hce) eq_refl)
      as (sf & Es & Hks & _ & Hdf).
    cbn [kube_handle] in Es, Hks.
    destruct (k_update (ks se) (manifest current ++ adopted) (stamp_all rn ns mani)) as [[k2 [ok cr]] muts] eqn:EU.
    cbn [fst snd] in Es, Hks. rewrite Es in H. cbn [fst snd] in H.
    destruct ok; cbn [negb] in H; [|exfalso; eapply record_then_upgrade_fail_not_ok; eauto].
    assert (Hcf : calm sf).
    { split; auto. rewrite Hks. exact (proj1 (k_update_nofault _ _ _ _ _ _ _ (proj2 Hce) EU)). }
    (* wait *)
    bind_step H sg w Eg.
    assert (Fg : fp P (perform (KWait (stamp_all rn ns mani)))) by (apply (fp_perform P (KWait _)); exact I).
    destruct (seg P _ _ _ _ Fg Hcf Eg) as [Hcg Frg].
    destruct w; cbn [negb] in H; [|exfalso; eapply record_then_upgrade_fail_not_ok; eauto].
    (* post-upgrade hooks *)
    bind_step H sh post Eh.
    destruct (seg P _ _ _ _ (Fhooks PostUpgrade) Hcg Eh) as [Hch Frh].
    destruct post; cbn [negb] in H; [|exfalso; eapply upgrade_fail_not_ok; eauto].
    (* final records *)
    bind_step H si u Ei.
    destruct (seg P _ _ _ _ (fp_record_release P (with_status current SSuperseded)) Hch Ei) as [Hci Fri].
    bind_step H sj e2 Ej.
    assert (Fj : fp P (perform (SUpdate (with_status up SDeployed)))) by (apply (fp_perform P (SUpdate _)); exact I).
    destruct (seg P _ _ _ _ Fj Hci Ej) as [Hcj Frj].
    destruct e2; cbn in H; try discriminate. injection H as <-.
    exists current, adopted, (ks se), k2, cr, muts. repeat split; auto.
    - apply Hce.
    - intros key Hk. now rewrite Fre, Frd, Frb, Fra.
    - intros key Hk. now rewrite Frj, Fri, Frh, Frg, Hks.
  Qed.

  (* ---- rollback ---- *)
  Lemma step_nf_get v (s : rstate) :
    dead s = false -> stepS nf (SGet v) s = (s, find (fun r => Nat.eqb (rev r) v) (led s)).
  Proof. intros Hd. now rewrite step_nf. Qed.

  Lemma rollback_objs fl (s0 s' : rstate) :
    f_dry_run fl = false -> calm s0 ->
    runS nf (rollback rn ns fl) s0 = (s', OOk) ->
    exists (cur pr : release) (k1 k2 : kstate) (cr : list res) (muts : list (verb * string)),
      rollback_target fl (led s0) = Some (cur, pr) /\
      nofault k1 /\
      (forall key, ~ hooks_touch fl (hooks pr) key -> aget key (objs k1) = aget key (objs (ks s0))) /\
      (forall key, ~ hooks_touch fl (hooks pr) key -> aget key (objs (ks s')) = aget key (objs k2)) /\
      k_update k1 (manifest cur) (stamp_all rn ns (manifest pr)) = (k2, (true, cr), muts).
  Proof.
    intros Hdry Hc0 H.
    unfold rollback in H.
    rewrite run_bind in H. rw_perform_in H. rewrite step_nf_history in H by apply Hc0.
    unfold rollback_target.
    destruct (max_rev_of (led s0)) as [cur|] eqn:Hmax; [|cbn in H; discriminate].
    cbv zeta in H.
    rewrite run_bind in H. rw_perform_in H. rewrite step_nf_history in H by apply Hc0.
    destruct (negb (existsb _ (led s0))); [cbn in H; discriminate|].
    rewrite run_bind in H. rw_perform_in H. rewrite step_nf_get in H by apply Hc0.
    destruct (find _ (led s0)) as [pr|]; [|cbn in H; discriminate].
    rewrite Hdry in H.
    set (P := hooks_touch fl (hooks pr)).
    (* storage create *)
    bind_step H sd e Ed.
    match type of Ed with runS nf (storage_create ?r ?n) _ = _ =>
      destruct (seg P _ _ _ _ (fp_storage_create P r n) Hc0 Ed) as [Hcd Frd]; set (tgt := r) in *
    end.
    destruct e; try (cbn in H; discriminate).
    assert (Hfailp : forall (s1 s2 : rstate),
              runS nf (bind (record_release (with_status tgt SFailed)) (fun _ => Ret (OErr EOtherErr))) s1 = (s2, OOk) -> False).
    { intros s1 s2 X. apply bind_const_out in X. discriminate. }
    (* pre-rollback hooks *)
    bind_step H se pre Ee.
    assert (Fhooks : forall ev, fp P (run_hooks fl tgt ev)) by (intros ev; apply (fp_run_hooks_touch fl tgt ev)).
    destruct (seg P _ _ _ _ (Fhooks PreRollback) Hcd Ee) as [Hce Fre].
    destruct pre; cbn [negb] in H; [|exfalso; eapply Hfailp; eauto].
    (* the cluster write *)
    rewrite run_bind in H. rw_perform_in H.
    destruct (step_nf_cluster rn ns (KUpdate (manifest cur) (stamp_all rn ns (manifest tgt))) se (proj1 Hce) eq_refl)
      as (sf & Es & Hks & _ & Hdf).
    cbn [kube_handle] in Es, Hks.
    destruct (k_update (ks se) (manifest cur) (stamp_all rn ns (manifest tgt))) as [[k2 [ok cr]] muts] eqn:EU.
    cbn [fst snd] in Es, Hks. rewrite Es in H. cbn [fst snd] in H.
    destruct ok; cbn [negb] in H.
    2:{ exfalso. bind_step H sx ux Ex. bind_step H sy uy Ey.
        destruct (f_cleanup fl); [apply bind_const_out in H|cbn in H]; discriminate. }
    assert (Hcf : calm sf).
    { split; auto. rewrite Hks. exact (proj1 (k_update_nofault _ _ _ _ _ _ _ (proj2 Hce) EU)). }
    (* wait *)
    bind_step H sg w Eg.
    assert (Fg : fp P (perform (KWait (stamp_all rn ns (manifest tgt))))) by (apply (fp_perform P (KWait _)); exact I).
    destruct (seg P _ _ _ _ Fg Hcf Eg) as [Hcg Frg].
    destruct w; cbn [negb] in H.
    2:{ exfalso. bind_step H sx ux Ex. apply bind_const_out in H. discriminate. }
    (* post-rollback hooks *)
    bind_step H sh post Eh.
    destruct (seg P _ _ _ _ (Fhooks PostRollback) Hcg Eh) as [Hch Frh].
    destruct post; cbn [negb] in H; [|exfalso; eapply Hfailp; eauto].
    (* final records *)
    bind_step H si ds Ei.
    assert (Fi : fp P (perform SDeployedAll)) by (apply (fp_perform P SDeployedAll); exact I).
    destruct (seg P _ _ _ _ Fi Hch Ei) as [Hci Fri].
    bind_step H sj u Ej.
    destruct (seg P _ _ _ _ (fp_supersede_all P ds) Hci Ej) as [Hcj Frj].
    bind_step H sk e2 Ek.
    assert (Fk : fp P (perform (SUpdate (with_status tgt SDeployed)))) by (apply (fp_perform P (SUpdate _)); exact I).
    destruct (seg P _ _ _ _ Fk Hcj Ek) as [Hck Frk].
    destruct e2; cbn in H; try discriminate. injection H as <-.
    exists cur, pr, (ks se), k2, cr, muts. repeat split; auto.
    - apply Hce.
    - intros key Hk. now rewrite Fre, Frd.
    - intros key Hk. now rewrite Frk, Frj, Fri, Frh, Frg, Hks.
  Qed.
End Success.

(* ------------------------------------------------------------------ *)
(* world-level statements                                               *)

(* "not an object of an enabled hook" *)
Definition not_hook (fl : flags) (hks : list hook) (key : string) : Prop :=
  f_no_hooks fl = true \/ forall h, In h hks -> rkey (h_res h) <> key.

Lemma not_hook_untouched fl hks key : not_hook fl hks key -> ~ hooks_touch fl hks key.
Proof.
  intros [Hn|Hn] [Hf [h [Hin Hk]]]; [congruence|]. now apply (Hn h Hin).
Qed.

Lemma run_store_op_nf rn ns o hf wf w w' out tr :
  run_store_op rn ns (mkOp o (mkSF None None) (mkCF None hf wf)) w = (w', out, tr) ->
  exists s : rstate kstate,
    run kstate (kube_handle rn ns) dead_resp nf (op_prog rn ns o)
        (mkR (w_led w) (mkK (w_objs w) None hf wf) 0 0 false []) = (s, out) /\
    w' = mkW (led s) (objs (ks s)) /\
    calm (mkR (w_led w) (mkK (w_objs w) None hf wf) 0 0 false []).
Proof.
  intros H. unfold run_store_op, run_op in H. cbn [oc_op oc_sf oc_cf cf_k cf_h cf_wait] in H.
  destruct (run kstate (kube_handle rn ns) dead_resp (mkSF None None) (op_prog rn ns o)
              (mkR (w_led w) (mkK (w_objs w) None hf wf) 0 0 false [])) as [s out0] eqn:E.
  assert (Hc0 : calm (mkR (w_led w) (mkK (w_objs w) None hf wf) 0 0 false [])) by (split; reflexivity).
  pose proof (run_calm rn ns _ _ _ _ E Hc0) as [Hd _].
  rewrite Hd in H. injection H as <- <- <-. exists s. auto.
Qed.

Theorem install_matches :
  forall (rn ns : string) (fl : flags) (cid vid : nat) (mani : list res) (hks : list hook)
         (hf : option (string * nat)) (wf : bool) (w w' : world) (tr : list tev),
    f_dry_run fl = false ->
    NoDup (map rkey mani) ->
    (forall r, In r mani -> NoDup (akeys (r_fields r))) ->
    (forall r, In r mani -> not_hook fl hks (rkey r)) ->
    run_store_op rn ns (mkOp (OpInstall fl cid vid mani hks) (mkSF None None) (mkCF None hf wf)) w = (w', OOk, tr) ->
    (forall r, In r mani ->
       exists live', aget (rkey r) (w_objs w') = Some live' /\
                     fields_sub (r_fields (stamp rn ns r)) live' = true) /\
    (forall key, in_keys key mani = false -> not_hook fl hks key ->
       aget key (w_objs w') = aget key (w_objs w)).
Proof.
  intros rn ns fl cid vid mani hks hf wf w w' tr Hdry Hnd Hwf Hnh H.
  apply run_store_op_nf in H. destruct H as (s & E & -> & Hc0). cbn [op_prog] in E.
  destruct (install_objs rn ns fl cid vid mani hks _ _ Hdry Hc0 E) as (adopted & k1 & k2 & Hsub & Hn1 & F1 & F2 & W).
  cbn [ks objs] in F1. cbn [w_objs].
  assert (Hnd' : NoDup (map rkey (stamp_all rn ns mani))) by (now rewrite keys_stamp_all).
  assert (Hwf' : forall t, In t (stamp_all rn ns mani) -> NoDup (akeys (r_fields t))).
  { intros t Ht. unfold stamp_all in Ht. apply in_map_iff in Ht. destruct Ht as [r [<- Hr]]. apply wf_stamp. auto. }
  destruct W as [[Hemp ->]|[[muts C]|[cr [muts U]]]].
  - (* empty manifest *)
    assert (mani = []) as -> by (destruct mani; [reflexivity|discriminate]).
    split; [intros r []|].
    intros key _ Hk. apply not_hook_untouched in Hk. now rewrite F2, F1.
  - destruct (create_matches _ _ _ _ Hn1 Hnd' C) as [Cp Cf]. split.
    + intros r Hr. specialize (Hnh r Hr). apply not_hook_untouched in Hnh.
      destruct (Cp (stamp rn ns r)) as [_ Hp]; [unfold stamp_all; now apply in_map|].
      exists (r_fields (stamp rn ns r)). split.
      * rewrite F2 by assumption. exact Hp.
      * apply fields_sub_refl. apply wf_stamp. auto.
    + intros key Hk Hh. apply not_hook_untouched in Hh.
      rewrite F2, Cf, F1; auto. now rewrite in_keys_stamp_all.
  - destruct (update_matches _ _ _ _ _ _ Hn1 Hnd' Hwf' U) as (Ui & _ & Uf). split.
    + intros r Hr. specialize (Hnh r Hr). apply not_hook_untouched in Hnh.
      destruct (Ui (stamp rn ns r)) as (live' & Hl & Hs & _); [unfold stamp_all; now apply in_map|].
      exists live'. split; auto. rewrite F2 by assumption. exact Hl.
    + intros key Hk Hh. apply not_hook_untouched in Hh.
      rewrite F2, Uf, F1; auto.
      * apply in_keys_false_iff. intros Hx. apply in_map_iff in Hx. destruct Hx as [x [<- Hx]].
        apply Hsub in Hx. apply in_keys_false_iff in Hk. apply Hk.
        rewrite <- (keys_stamp_all rn ns). now apply in_map.
      * now rewrite in_keys_stamp_all.
Qed.

Theorem upgrade_matches :
  forall (rn ns : string) (fl : flags) (cid vid : nat) (mani : list res) (hks : list hook)
         (hf : option (string * nat)) (wf : bool) (w w' : world) (tr : list tev),
    f_dry_run fl = false ->
    NoDup (map rkey mani) ->
    (forall r, In r mani -> NoDup (akeys (r_fields r))) ->
    (forall r, In r mani -> not_hook fl hks (rkey r)) ->
    run_store_op rn ns (mkOp (OpUpgrade fl cid vid mani hks) (mkSF None None) (mkCF None hf wf)) w = (w', OOk, tr) ->
    exists current : release,
      upgrade_current (w_led w) = Some current /\
      (* the new manifest, stamped, is in the cluster field by field *)
      (forall r, In r mani ->
         exists live', aget (rkey r) (w_objs w') = Some live' /\
                       fields_sub (r_fields (stamp rn ns r)) live' = true) /\
      (* what the new manifest dropped is gone unless the live object says keep *)
      (forall o, In o (manifest current) -> in_keys (rkey o) mani = false -> not_hook fl hks (rkey o) ->
         match aget (rkey o) (w_objs w) with
         | Some live => if live_keep live then aget (rkey o) (w_objs w') = Some live
                        else aget (rkey o) (w_objs w') = None
         | None => aget (rkey o) (w_objs w') = None
         end) /\
      (* frame *)
      (forall key, in_keys key (manifest current) = false -> in_keys key mani = false -> not_hook fl hks key ->
         aget key (w_objs w') = aget key (w_objs w)).
Proof.
  intros rn ns fl cid vid mani hks hf wf w w' tr Hdry Hnd Hwf Hnh H.
  apply run_store_op_nf in H. destruct H as (s & E & -> & Hc0). cbn [op_prog] in E.
  destruct (upgrade_objs rn ns fl cid vid mani hks _ _ Hdry Hc0 E)
    as (current & adopted & k1 & k2 & cr & muts & Hcur & Hsub & Hn1 & F1 & F2 & U).
  cbn [ks objs led] in F1, Hcur. cbn [w_objs].
  assert (Hnd' : NoDup (map rkey (stamp_all rn ns mani))) by (now rewrite keys_stamp_all).
  assert (Hwf' : forall t, In t (stamp_all rn ns mani) -> NoDup (akeys (r_fields t))).
  { intros t Ht. unfold stamp_all in Ht. apply in_map_iff in Ht. destruct Ht as [r [<- Hr]]. apply wf_stamp. auto. }
  destruct (update_matches _ _ _ _ _ _ Hn1 Hnd' Hwf' U) as (Ui & Uii & Uf).
  exists current. split; auto. repeat split.
  - intros r Hr. specialize (Hnh r Hr). apply not_hook_untouched in Hnh.
    destruct (Ui (stamp rn ns r)) as (live' & Hl & Hs & _); [unfold stamp_all; now apply in_map|].
    exists live'. split; auto. rewrite F2 by assumption. exact Hl.
  - intros o Ho Hk Hh. apply not_hook_untouched in Hh.
    specialize (Uii o (in_or_app _ _ _ (or_introl Ho))).
    rewrite in_keys_stamp_all in Uii. specialize (Uii Hk).
    rewrite (F1 _ Hh) in Uii. rewrite (F2 _ Hh).
    destruct (aget (rkey o) (w_objs w)) as [live|]; auto.
  - intros key Hc Hk Hh. apply not_hook_untouched in Hh.
    rewrite F2, Uf, F1; auto.
    + apply in_keys_false_iff. rewrite map_app. intros Hx. apply in_app_or in Hx. destruct Hx as [Hx|Hx].
      * apply in_keys_false_iff in Hc. auto.
      * apply in_map_iff in Hx. destruct Hx as [x [<- Hx]].
        apply Hsub in Hx. apply in_keys_false_iff in Hk. apply Hk.
        rewrite <- (keys_stamp_all rn ns). now apply in_map.
    + now rewrite in_keys_stamp_all.
Qed.

Theorem rollback_matches :
  forall (rn ns : string) (fl : flags) (hf : option (string * nat)) (wf : bool) (w w' : world) (tr : list tev),
    f_dry_run fl = false ->
    run_store_op rn ns (mkOp (OpRollback fl) (mkSF None None) (mkCF None hf wf)) w = (w', OOk, tr) ->
    exists cur pr : release,
      rollback_target fl (w_led w) = Some (cur, pr) /\
      (NoDup (map rkey (manifest pr)) ->
       (forall r, In r (manifest pr) -> NoDup (akeys (r_fields r))) ->
       (forall r, In r (manifest pr) -> not_hook fl (hooks pr) (rkey r)) ->
       (forall r, In r (manifest pr) ->
          exists live', aget (rkey r) (w_objs w') = Some live' /\
                        fields_sub (r_fields (stamp rn ns r)) live' = true) /\
       (forall o, In o (manifest cur) -> in_keys (rkey o) (manifest pr) = false -> not_hook fl (hooks pr) (rkey o) ->
          match aget (rkey o) (w_objs w) with
          | Some live => if live_keep live then aget (rkey o) (w_objs w') = Some live
                         else aget (rkey o) (w_objs w') = None
          | None => aget (rkey o) (w_objs w') = None
          end) /\
       (forall key, in_keys key (manifest cur) = false -> in_keys key (manifest pr) = false ->
          not_hook fl (hooks pr) key -> aget key (w_objs w') = aget key (w_objs w))).
Proof.
  intros rn ns fl hf wf w w' tr Hdry H.
  apply run_store_op_nf in H. destruct H as (s & E & -> & Hc0). cbn [op_prog] in E.
  destruct (rollback_objs rn ns fl _ _ Hdry Hc0 E)
    as (cur & pr & k1 & k2 & cr & muts & Htgt & Hn1 & F1 & F2 & U).
  cbn [ks objs led] in F1, Htgt. cbn [w_objs].
  exists cur, pr. split; auto. intros Hnd Hwf Hnh.
  assert (Hnd' : NoDup (map rkey (stamp_all rn ns (manifest pr)))) by (now rewrite keys_stamp_all).
  assert (Hwf' : forall t, In t (stamp_all rn ns (manifest pr)) -> NoDup (akeys (r_fields t))).
  { intros t Ht. unfold stamp_all in Ht. apply in_map_iff in Ht. destruct Ht as [r [<- Hr]]. apply wf_stamp. auto. }
  destruct (update_matches _ _ _ _ _ _ Hn1 Hnd' Hwf' U) as (Ui & Uii & Uf).
  repeat split.
  - intros r Hr. specialize (Hnh r Hr). apply not_hook_untouched in Hnh.
    destruct (Ui (stamp rn ns r)) as (live' & Hl & Hs & _); [unfold stamp_all; now apply in_map|].
    exists live'. split; auto. rewrite F2 by assumption. exact Hl.
  - intros o Ho Hk Hh. apply not_hook_untouched in Hh.
    specialize (Uii o Ho). rewrite in_keys_stamp_all in Uii. specialize (Uii Hk).
    rewrite (F1 _ Hh) in Uii. rewrite (F2 _ Hh).
    destruct (aget (rkey o) (w_objs w)) as [live|]; auto.
  - intros key Hc Hk Hh. apply not_hook_untouched in Hh.
    rewrite F2, Uf, F1; auto. now rewrite in_keys_stamp_all.
Qed.

(* ------------------------------------------------------------------ *)
(* histories: the two statements hold at EVERY successful fault-free install / upgrade of a
   history with arbitrary out-of-band edits (and any other steps, faulted or not) around it *)

Definition fault_free (c : opcase) : Prop :=
  oc_sf c = mkSF None None /\ cf_k (oc_cf c) = None.

Definition well_formed_chart (fl : flags) (mani : list res) (hks : list hook) : Prop :=
  f_dry_run fl = false /\ NoDup (map rkey mani) /\
  (forall r, In r mani -> NoDup (akeys (r_fields r))) /\
  (forall r, In r mani -> not_hook fl hks (rkey r)).

(* the postcondition of one successful step, relating the world before and after *)
Definition success_post (rn ns : string) (c : opcase) (w w' : world) : Prop :=
  match oc_op c with
  | OpInstall fl _ _ mani hks =>
      well_formed_chart fl mani hks ->
      (forall r, In r mani ->
         exists live', aget (rkey r) (w_objs w') = Some live' /\ fields_sub (r_fields (stamp rn ns r)) live' = true) /\
      (forall key, in_keys key mani = false -> not_hook fl hks key -> aget key (w_objs w') = aget key (w_objs w))
  | OpUpgrade fl _ _ mani hks =>
      well_formed_chart fl mani hks ->
      exists current, upgrade_current (w_led w) = Some current /\
      (forall r, In r mani ->
         exists live', aget (rkey r) (w_objs w') = Some live' /\ fields_sub (r_fields (stamp rn ns r)) live' = true) /\
      (forall o, In o (manifest current) -> in_keys (rkey o) mani = false -> not_hook fl hks (rkey o) ->
         match aget (rkey o) (w_objs w) with
         | Some live => if live_keep live then aget (rkey o) (w_objs w') = Some live
                        else aget (rkey o) (w_objs w') = None
         | None => aget (rkey o) (w_objs w') = None
         end) /\
      (forall key, in_keys key (manifest current) = false -> in_keys key mani = false -> not_hook fl hks key ->
         aget key (w_objs w') = aget key (w_objs w))
  | OpRollback fl =>
      f_dry_run fl = false ->
      exists cur pr, rollback_target fl (w_led w) = Some (cur, pr) /\
      (NoDup (map rkey (manifest pr)) ->
       (forall r, In r (manifest pr) -> NoDup (akeys (r_fields r))) ->
       (forall r, In r (manifest pr) -> not_hook fl (hooks pr) (rkey r)) ->
       (forall r, In r (manifest pr) ->
          exists live', aget (rkey r) (w_objs w') = Some live' /\ fields_sub (r_fields (stamp rn ns r)) live' = true) /\
       (forall o, In o (manifest cur) -> in_keys (rkey o) (manifest pr) = false -> not_hook fl (hooks pr) (rkey o) ->
          match aget (rkey o) (w_objs w) with
          | Some live => if live_keep live then aget (rkey o) (w_objs w') = Some live
                         else aget (rkey o) (w_objs w') = None
          | None => aget (rkey o) (w_objs w') = None
          end) /\
       (forall key, in_keys key (manifest cur) = false -> in_keys key (manifest pr) = false ->
          not_hook fl (hooks pr) key -> aget key (w_objs w') = aget key (w_objs w)))
  | OpUninstall _ => True
  end.

Fixpoint history_post (rn ns : string) (h : list hstep) (w : world) : Prop :=
  match h with
  | [] => True
  | HOp c :: t =>
      let '(w', out, _) := run_store_op rn ns c w in
      (fault_free c -> out = OOk -> success_post rn ns c w w') /\ history_post rn ns t w'
  | HEdit e :: t => history_post rn ns t (apply_edit w e)
  end.

Lemma step_success_post rn ns c w w' tr :
  fault_free c -> run_store_op rn ns c w = (w', OOk, tr) -> success_post rn ns c w w'.
Proof.
  destruct c as [o sf [kf hf wf]]. intros [Hsf Hk] H. cbn in Hsf, Hk. subst sf kf.
  unfold success_post. cbn [oc_op].
  destruct o as [fl cid vid mani hks|fl cid vid mani hks|fl|fl]; auto.
  - intros (Hdry & Hnd & Hwf & Hnh). eapply install_matches; eauto.
  - intros (Hdry & Hnd & Hwf & Hnh). eapply upgrade_matches; eauto.
  - intros Hdry. eapply rollback_matches; eauto.
Qed.

Theorem op_success_matches : forall rn ns h w, history_post rn ns h w.
Proof.
  intros rn ns. induction h as [|st t IH]; intros w; simpl; auto.
  destruct st as [c|e]; auto.
  destruct (run_store_op rn ns c w) as [[w' out] tr] eqn:E. split; auto.
  intros Hf ->. eapply step_success_post; eauto.
Qed.

(* the world a history leads to *)
Definition world_after (rn ns : string) (h : list hstep) (w : world) : world :=
  fold_left (fun w st => match st with
                         | HOp c => fst (fst (run_store_op rn ns c w))
                         | HEdit e => apply_edit w e
                         end) h w.

Lemma last_cons_default {A} : forall (l : list A) x d, last (x :: l) d = last l x.
Proof. induction l as [|y t IH]; intros x d; [reflexivity|]. cbn [last] in *. now rewrite !IH. Qed.

Lemma world_after_run_history rn ns : forall h w,
  world_after rn ns h w = last (map (fun x => fst (fst x)) (run_history rn ns h w)) w.
Proof.
  induction h as [|st t IH]; intros w; [reflexivity|].
  unfold world_after in *. cbn [fold_left run_history].
  destruct st as [c|e].
  - destruct (run_store_op rn ns c w) as [[w1 out] tr] eqn:E. cbn [fst map].
    now rewrite IH, last_cons_default.
  - cbn [map fst]. now rewrite IH, last_cons_default.
Qed.

Theorem op_success_matches_after : forall rn ns h w0 c w' tr,
  fault_free c -> run_store_op rn ns c (world_after rn ns h w0) = (w', OOk, tr) ->
  success_post rn ns c (world_after rn ns h w0) w'.
Proof. intros. eapply step_success_post; eauto. Qed.

(* ------------------------------------------------------------------ *)
(* non-vacuity: install {a, b}; a is edited out of band (specified field changed, foreign field
   added), a bystander appears; upgrade to {a'} with a pre-upgrade hook *)
From Helm Require Import Engine.MatchExamples.
Local Open Scope string_scope.

Definition ex_mani1 : list res := [cm "a" [("d:k", "v1"); ("d:x", "1")]; cm "b" [("d:k", "v1")]].
Definition ex_mani2 : list res := [cm "a" [("d:k", "v2")]].
Definition ex_hook : hook := mkHook (mkRes "ConfigMap" "hk" [("d:h", "0")]) [PreUpgrade] 0%Z [].
Definition ex_install : opcase := mkOp (OpInstall no_flags 1 1 ex_mani1 []) (mkSF None None) (mkCF None None false).
Definition ex_upgrade : opcase := mkOp (OpUpgrade no_flags 2 2 ex_mani2 [ex_hook]) (mkSF None None) (mkCF None None false).
Definition ex_history : list hstep :=
  [HOp ex_install;
   HEdit (ESet "ConfigMap/a" (stamp_fields "rel" "default" [("d:k", "EDITED"); ("d:x", "1"); ("d:foreign", "f")]));
   HEdit (ESet "ConfigMap/z" [("d:k", "bystander")])].

Lemma success_example :
  fault_free ex_install /\ well_formed_chart no_flags ex_mani1 [] /\
  fault_free ex_upgrade /\ well_formed_chart no_flags ex_mani2 [ex_hook] /\
  snd (fst (run_store_op "rel" "default" ex_install (mkW [] []))) = OOk /\
  let w := world_after "rel" "default" ex_history (mkW [] []) in
  let '(w', out, _) := run_store_op "rel" "default" ex_upgrade w in
  out = OOk /\
  w_objs w' =
    [("ConfigMap/a", [("d:k", "v2"); ("d:foreign", "f"); (managed_by_key, "Helm"); (rel_name_key, "rel"); (rel_ns_key, "default")]);
     ("ConfigMap/z", [("d:k", "bystander")]);
     ("ConfigMap/hk", [("d:h", "0")])].
Proof.
  assert (Hff : forall c, oc_sf c = mkSF None None -> cf_k (oc_cf c) = None -> fault_free c) by (intros; split; auto).
  split; [now apply Hff|]. split.
  { split; [reflexivity|]. split; [vm_compute; repeat constructor; simpl; intuition discriminate|]. split.
    - intros r [<-|[<-|[]]]; vm_compute; repeat constructor; simpl; intuition discriminate.
    - intros r _. right. intros h []. }
  split; [now apply Hff|]. split.
  { split; [reflexivity|]. split; [vm_compute; repeat constructor; simpl; intuition discriminate|]. split.
    - intros r [<-|[]]; vm_compute; repeat constructor; simpl; intuition discriminate.
    - intros r [<-|[]]. right. intros h [<-|[]]. vm_compute. discriminate. }
  split; [vm_compute; reflexivity|].
  vm_compute. auto.
Qed.

(* ------------------------------------------------------------------ *)
(* K1 (C01) seen from C02: install --replace while a revision is still deployed.  The install
   theorem above has no clause about resources of a previously deployed revision, and none holds:
   install adopts what its own manifest names and never looks at the deployed manifest. *)
Definition k1_world : world :=
  mkW [mkRelease 1 SDeployed 1 1 ex_mani1 []; mkRelease 2 SFailed 2 2 ex_mani1 []]
      (map (fun r => (rkey r, stamp_fields "rel" "default" (r_fields r))) ex_mani1).
Definition k1_install : opcase :=
  mkOp (OpInstall (mkFlags false false false true 0 false false false false 0) 3 3 ex_mani2 [])
       (mkSF None None) (mkCF None None false).

Lemma install_replace_over_deployed_leaks :
  exists (w : world) (c : opcase) (d : release) (r : res),
    fault_free c /\ In d (w_led w) /\ st d = SDeployed /\ In r (manifest d) /\
    let '(w', out, _) := run_store_op "rel" "default" c w in
    out = OOk /\
    (exists fl cid vid mani hks, oc_op c = OpInstall fl cid vid mani hks /\ in_keys (rkey r) mani = false) /\
    (exists live, aget (rkey r) (w_objs w) = Some live /\ live_keep live = false) /\
    aget (rkey r) (w_objs w') <> None.
Proof.
  exists k1_world, k1_install, (mkRelease 1 SDeployed 1 1 ex_mani1 []), (cm "b" [("d:k", "v1")]).
  split; [split; reflexivity|]. split; [now left|]. split; [reflexivity|]. split; [right; now left|].
  vm_compute. split; [reflexivity|]. split.
  - do 5 eexists. split; reflexivity.
  - split; [eexists; split; reflexivity|discriminate].
Qed.

(* K6 (C03) seen from C02: rollback diffs against the LATEST revision even when that one failed
   and was never applied; a resource that only the deployed revision has is not looked at. *)
Definition k6_sa : res := mkRes "ServiceAccount" "sa" [("l:tier", "web")].
Definition k6_world : world :=
  mkW [mkRelease 1 SSuperseded 1 1 ex_mani2 []; mkRelease 2 SDeployed 2 2 (ex_mani2 ++ [k6_sa]) [];
       mkRelease 3 SFailed 3 3 ex_mani2 []]
      (map (fun r => (rkey r, stamp_fields "rel" "default" (r_fields r))) (ex_mani2 ++ [k6_sa])).
Definition k6_rollback : opcase :=
  mkOp (OpRollback (mkFlags false false false false 0 false false false false 1))
       (mkSF None None) (mkCF None None false).

Lemma rollback_over_failed_revision_leaks :
  exists (w : world) (c : opcase) (d : release) (r : res),
    fault_free c /\ In d (w_led w) /\ st d = SDeployed /\ In r (manifest d) /\
    let '(w', out, _) := run_store_op "rel" "default" c w in
    out = OOk /\
    (exists fl cur pr, oc_op c = OpRollback fl /\ rollback_target fl (w_led w) = Some (cur, pr) /\
                       st cur = SFailed /\ in_keys (rkey r) (manifest pr) = false) /\
    (exists live, aget (rkey r) (w_objs w) = Some live /\ live_keep live = false) /\
    aget (rkey r) (w_objs w') <> None.
Proof.
  exists k6_world, k6_rollback, (mkRelease 2 SDeployed 2 2 (ex_mani2 ++ [k6_sa]) []), k6_sa.
  split; [split; reflexivity|]. split; [right; now left|]. split; [reflexivity|].
  split; [apply in_or_app; right; now left|].
  vm_compute. split; [reflexivity|]. split.
  - do 3 eexists. repeat split; reflexivity.
  - split; [eexists; split; reflexivity|discriminate].
Qed.

(* C02 — concrete inputs: non-vacuity of the hypotheses of the theorems and a record of what
   the code does in the drift / keep-toggle cases. *)
From Coq Require Import List String Bool Arith.
From Helm Require Import Common.Assoc Engine.Types Engine.Eff Engine.Cluster Engine.MatchDefs.
Import ListNotations.
Local Open Scope string_scope.

Definition cm (name : string) (f : fields) : res := mkRes "ConfigMap" name f.
Definition k_of (o : objmap) : kstate := mkK o None None false.

(* the drift case of the design: the old manifest says k=v1 x=1, the new one k=v1 y=2, the
   live object was edited to k=EDITED and carries a foreign field; a bystander exists *)
Definition drift_cur := [cm "a" [("d:k", "v1"); ("d:x", "1")]].
Definition drift_tgt := [cm "a" [("d:k", "v1"); ("d:y", "2")]].
Definition drift_live : objmap :=
  [("ConfigMap/a", [("d:k", "EDITED"); ("d:x", "1"); ("d:foreign", "f")]); ("ConfigMap/z", [("d:k", "bystander")])].

Lemma drift_corrected :
  let '(k', r, _) := k_update (k_of drift_live) drift_cur drift_tgt in
  fst r = true /\
  objs k' = [("ConfigMap/a", [("d:k", "v1"); ("d:foreign", "f"); ("d:y", "2")]); ("ConfigMap/z", [("d:k", "bystander")])].
Proof. vm_compute. auto. Qed.

Lemma drift_meets_hypotheses :
  kfault (k_of drift_live) = None /\ NoDup (map rkey drift_tgt) /\
  (forall t, In t drift_tgt -> NoDup (akeys (r_fields t))) /\
  fst (snd (fst (k_update (k_of drift_live) drift_cur drift_tgt))) = true.
Proof.
  repeat split.
  - repeat constructor; simpl; intuition discriminate.
  - intros t [<-|[]]. repeat constructor; simpl; intuition discriminate.
Qed.

(* keep toggles.  a: the manifest says keep, the live object lost the annotation -> deleted.
   b: the manifest is silent, the live object carries keep -> left alone.
   c: stays in the manifest. *)
Definition keep_cur :=
  [cm "a" [("d:k", "v1"); (policy_key, "keep")]; cm "b" [("d:k", "v1")]; cm "c" [("d:k", "v1")]].
Definition keep_tgt := [cm "c" [("d:k", "v2")]].
Definition keep_live : objmap :=
  [("ConfigMap/a", [("d:k", "v1")]); ("ConfigMap/b", [("d:k", "v1"); (policy_key, "keep")]); ("ConfigMap/c", [("d:k", "v1")])].

Lemma keep_follows_live_object :
  let '(k', r, _) := k_update (k_of keep_live) keep_cur keep_tgt in
  fst r = true /\
  objs k' = [("ConfigMap/b", [("d:k", "v1"); (policy_key, "keep")]); ("ConfigMap/c", [("d:k", "v2")])].
Proof. vm_compute. auto. Qed.

(* the failure without any rejected request: b exists but the original manifest does not know it *)
Lemma unknown_live_target_fails :
  fst (snd (fst (k_update (k_of [("ConfigMap/a", [("d:k", "v1")]); ("ConfigMap/b", [("d:k", "v0")])])
                          [cm "a" [("d:k", "v1")]]
                          [cm "a" [("d:k", "v2")]; cm "b" [("d:k", "v2")]]))) = false.
Proof. reflexivity. Qed.

Lemma create_example :
  let '(k', ok, _) := k_create (k_of [("ConfigMap/z", [("d:k", "v")])]) [cm "a" [("d:k", "v1")]; cm "b" []] true [] in
  ok = true /\ objs k' = [("ConfigMap/z", [("d:k", "v")]); ("ConfigMap/a", [("d:k", "v1")]); ("ConfigMap/b", [])].
Proof. vm_compute. auto. Qed.

Lemma delete_example :
  let '(k', ok, _) := k_delete (k_of [("ConfigMap/b", [("d:k", "v")]); ("ConfigMap/z", [])]) [cm "a" []; cm "b" []] true [] in
  ok = true /\ objs k' = [("ConfigMap/z", [])].
Proof. vm_compute. auto. Qed.

(* A FINER path language for effect skeletons: a run is a list of (kind, answered-an-error)
   pairs, and the component of the state a Call continues in is read from the run instead of
   being both.  Under it a change that the kinds cannot see -- an effect dropped from a failure
   branch that reads like its sibling (notes/SKEL-mutants/m3), a bail-out moved behind a write
   that the kinds-only language excuses by "the call before answered an error" (m2) -- changes
   the language.  Used as the FALL-BACK of the per-run obligation when the normal forms differ
   (Engine/SkeletonSource.v).  Definitions only; everything here is evaluated by vm_compute. *)
From Coq Require Import List String Bool Arith NArith ZArith.
From Helm Require Import Common.Assoc Engine.Types Engine.Eff Engine.Ops Engine.Cluster Engine.Seq
                         Engine.Skeleton Engine.SkeletonModel Engine.SkeletonNorm.
Import ListNotations.
Local Open Scope string_scope.

(* did the effect answer an error, as the Go caller sees it: a Query that finds nothing is
   ErrReleaseNotFound / ErrNoDeployedReleases, Get of a missing revision is an error, a write
   answers its serr, a cluster call its bool *)
Definition resp_err (e : eff) : resp e -> bool :=
  match e return resp e -> bool with
  | SHistory | SDeployedAll => fun r => match r with [] => true | _ => false end
  | SGet _ => fun r => match r with None => true | Some _ => false end
  | SCreate _ | SUpdate _ | SDelete _ => fun r => match r with SOk => false | _ => true end
  | KExisting _ _ => fun r => match r with None => true | Some _ => false end
  | KCreate _ => fun r => negb r
  | KUpdate _ _ => fun r => negb (fst r)
  | KDelete _ => fun r => negb r
  | KWait _ | KWaitDelete _ => fun r => negb r
  | KHookWatch _ _ => fun r => negb r
  end.

(* SkeletonModel.trace, keeping the outcome of every effect *)
Fixpoint otrace {A} (adopt : bool) (fails : list nat) (p : prog A) (led : list release) (n : nat)
  : list (kind * bool) :=
  match p with
  | Ret _ => []
  | Eff e k =>
      if existsb (Nat.eqb n) fails then
        (kind_of e, resp_err e (fail_resp e)) :: otrace adopt fails (k (fail_resp e)) led (S n)
      else if is_cluster_call e then
        (kind_of e, resp_err e (ok_resp adopt e)) :: otrace adopt fails (k (ok_resp adopt e)) led (S n)
      else
        let '(led', r, _) := storage_apply dead_resp e led in
        (kind_of e, resp_err e r) :: otrace adopt fails (k r) led' (S n)
  end.

Definition model_otrace (s : scen) (fails : list nat) : list (kind * bool) :=
  otrace (sc_adopt s) fails (prog_of s) (sc_led s) 0.

(* positions at which a kind occurs with the given outcome *)
Fixpoint omasks_of (err : bool) (l : list (kind * bool)) (bit : N) (m : list (kind * N)) : list (kind * N) :=
  match l with
  | [] => m
  | (k, e) :: r => omasks_of err r (N.double bit) (if Bool.eqb e err then add_mask k bit m else m)
  end.

Section NXO.
  Variable okm errm : list (kind * N).
  Variable fuel : nat.

  Fixpoint loop_o (f : st -> st * st) (k : nat) (A : N) : st * st :=
    match k with
    | 0 => (both A, st0)
    | S k =>
        let '(n, r) := f (both A) in
        let A' := N.lor A (all n) in
        if N.eqb A' A then (both A, r)
        else let '(n', r') := loop_o f k A' in (n', join r r')
    end.

  (* Skeleton.ex / SkeletonNorm.nx on the inlined tree, except NCall (the component is read from
     the run) and the exit of an If (the components the branches end with are kept: the error
     variable tested next was assigned in the branch, or not at all) *)
  Fixpoint nxo (env : string -> bool) (s : nsk) (P : st) {struct s} : st * st :=
    if N.eqb (all P) 0 then (st0, st0) else
    match s with
    | NSkip => (P, st0)
    | NSeq a b =>
        let '(n1, r1) := nxo env a P in
        let '(n2, r2) := nxo env b n1 in
        (n2, join r1 r2)
    | NCall k =>
        ((N.double (N.land (all P) (get_mask k okm)), N.double (N.land (all P) (get_mask k errm))), st0)
    | NScope b => scope_exit (nxo env b P)
    | NRun inh b => scope_exit (nxo (inherit_env env inh) b (both (all P)))
    | NIf c th el =>
        let eo := eval_cond env (Some false) c in
        let ee := eval_cond env (Some true) c in
        let '(n1, r1) := nxo env th (may eo ee true P) in
        let '(n2, r2) := nxo env el (may eo ee false P) in
        (join n1 n2, join r1 r2)
    | NLoop b => loop_o (nxo env b) fuel (all P)
    | NReturn => (st0, P)
    | NReturnOk => (st0, (all P, 0%N))
    | NReturnErr => (st0, (0%N, all P))
    | NPure => ((all P, 0%N), st0)   (* the calls outside the skeleton do not fail in the model's world *)
    | NArgOk => ((all P, 0%N), st0)
    | NArgErr => ((0%N, all P), st0)
    | NDead => (st0, st0)
    end.
End NXO.

Definition oaccepts (s : nsk) (inp : list (kind * bool)) (fuel : nat) (env : string -> bool) : bool :=
  let '(n, r) := nxo (omasks_of false inp 1%N []) (omasks_of true inp 1%N []) fuel env (NScope s) (both 1%N) in
  N.testbit (all n) (N.of_nat (List.length inp)).

(* rounds per loop: the scenarios have two hooks per event and at most three releases *)
Definition OFUEL := 8.

(* the model's run in scenario s, with outcomes, is a path of the inlined entry function [root] *)
Definition ofollows (root : nsk) (s : scen) (fails : list nat) : bool :=
  oaccepts root (model_otrace s fails) OFUEL (env_of (sc_fl s)).

Definition oroot (t : table) (o : opk) : nsk := inline_root t (entry_of o).

(* failure-free on the whole scenario space; every single failure on the smaller one *)
Definition ocheck_ok (t : table) (o : opk) : bool :=
  let root := oroot t o in
  forallb (fun fl => forallb (fun l => fb (fun ad => ofollows root (mkScen o fl l ad) [])) ledgers) (flag_space o).

Definition ocheck_fail (t : table) (o : opk) : bool :=
  let root := oroot t o in
  forallb (fun fl => forallb (fun l =>
     let s := mkScen o fl l false in
     ofollows root s [] && forallb (fun n => ofollows root s [n]) (List.seq 0 (List.length (model_trace s []))))
     (fail_ledgers o)) (fail_flag_space o).

Definition fine_ok (t : table) : bool :=
  forallb (fun o => ocheck_ok t o && ocheck_fail t o) ops.

(* ---- call-site necessity on a regenerated table, by label rather than by position ------------- *)

(* the effect sites of a body with the conditions they sit under *)
Fixpoint sk_csites (ctx : list cond) (s : sk) : list (sk * list cond) :=
  match s with
  | Call _ | Fn _ _ | Run _ _ => [(s, ctx)]
  | If c th el => (flat_map (sk_csites (c :: ctx)) th ++ flat_map (sk_csites (c :: ctx)) el)%list
  | Loop b => flat_map (sk_csites ctx) b
  | _ => []
  end.

Fixpoint cond_flags (c : cond) : list string :=
  match c with
  | CFlag f => [f]
  | CNot a => cond_flags a
  | CAnd a b | COr a b => (cond_flags a ++ cond_flags b)%list
  | _ => []
  end.

(* options (and the cancelled context) that the model does not have *)
Definition outside_flags : list string :=
  ["Recreate"; "WaitForJobs"; "CreateNamespace"; "HideSecret"; "SkipCRDs"; "IgnoreNotFound"; "IsUpgrade";
   "ContextCancelled"].

Definition ctx_excused (ctx : list cond) : bool :=
  existsb (fun c => existsb (fun f => existsb (String.eqb f) outside_flags) (cond_flags c)) ctx.

Definition site_excused (sc : sk * list cond) : bool :=
  match fst sc with
  | Call (Other _) | Call KcWaitJobs => true
  | _ => ctx_excused (snd sc)
  end.

(* functions reachable from the entry points *)
Fixpoint sk_callees (s : sk) : list string :=
  match s with
  | Fn n _ | Run n _ => [n]
  | If _ th el => (flat_map sk_callees th ++ flat_map sk_callees el)%list
  | Loop b => flat_map sk_callees b
  | _ => []
  end.

Fixpoint reach (t : table) (d : nat) (todo seen : list string) : list string :=
  match d with
  | 0 => seen
  | S d =>
      match todo with
      | [] => seen
      | n :: r =>
          if existsb (String.eqb n) seen then reach t d r seen
          else match lookup n t with
               | Some b => reach t d (flat_map sk_callees b ++ r)%list (n :: seen)
               | None => reach t d r (n :: seen)
               end
      end
  end.

Definition reachable (t : table) : list string := reach t 2000 (map entry_of ops) [].

(* the runs tried against a table with one site deleted, grouped by operation *)
Definition probe := (scen * list nat)%type.
Definition probes := list (opk * list probe).

(* is site number n of function f (preorder over Call / Fn / Run, as Skeleton.sk_sites) needed:
   some probe is no path any more once it is deleted *)
Definition site_needed (t : table) (ps : probes) (f : string) (n : nat) : bool :=
  let t' := table_del f n t in
  if existsb (fun op =>
       let root := oroot t' (fst op) in
       existsb (fun p => negb (ofollows root (fst p) (snd p))) (snd op)) ps
  then true
  else negb (fine_ok t').   (* no probe objects: ask the whole scenario space *)

Fixpoint enum_from {A} (n : nat) (l : list A) : list (nat * A) :=
  match l with [] => [] | x :: r => (n, x) :: enum_from (S n) r end.

(* functions that are only ever called under an option the model does not have (or from such a
   function): `createNamespace` extracted from the CreateNamespace branch, `recreate` helpers ... *)
Definition mem_str (x : string) (l : list string) : bool := existsb (String.eqb x) l.

Definition fn_refs (t : table) (fs ex : list string) : list (string * bool) :=
  flat_map (fun g =>
    match lookup g t with
    | Some b =>
        flat_map (fun sc => match fst sc with
                            | Fn n _ | Run n _ => [(n, ctx_excused (snd sc) || mem_str g ex)]
                            | _ => []
                            end) (flat_map (sk_csites []) b)
    | None => []
    end) fs.

Fixpoint excused_fns (t : table) (fs : list string) (k : nat) (ex : list string) : list string :=
  match k with
  | 0 => ex
  | S k =>
      let refs := fn_refs t fs ex in
      excused_fns t fs k
        (filter (fun f => existsb (fun r => String.eqb (fst r) f) refs &&
                          forallb (fun r => negb (String.eqb (fst r) f) || snd r) refs) fs)
  end.

(* the label of a site: the kinds of the model that can be performed through it (the kind of
   a Call; everything reachable through a Fn / Run), in a fixed order, without repetition.
   Independent of function names and positions. *)
Definition model_kind (k : kind) : option kind :=
  match k with
  | Other _ | KcWaitJobs => None
  | KcWatch _ => Some (KcWatch "")
  | _ => Some k
  end.

Fixpoint ins_kind (k : kind) (l : list kind) : list kind :=
  match l with
  | [] => [k]
  | x :: r => if kind_eqb k x then l
              else if Nat.ltb (kind_ix k) (kind_ix x) then k :: l
              else x :: ins_kind k r
  end.

Fixpoint sk_kinds (t : table) (d : nat) (s : sk) (acc : list kind) : list kind :=
  match d with
  | 0 => acc
  | S d =>
      match s with
      | Call k => match model_kind k with Some k' => ins_kind k' acc | None => acc end
      | Fn n _ | Run n _ =>
          match lookup n t with
          | Some b => fold_right (sk_kinds t d) acc b
          | None => acc
          end
      | If _ th el => fold_right (sk_kinds t d) (fold_right (sk_kinds t d) acc el) th
      | Loop b => fold_right (sk_kinds t d) acc b
      | _ => acc
      end
  end.

Definition site_label (t : table) (s : sk) : list kind := sk_kinds t 40 s [].

(* labels of the sites that are neither needed nor excused *)
Definition unneeded (t : table) (probes : probes) : list (list kind) :=
  let fs := reachable t in
  let ex := excused_fns t fs 6 [] in
  flat_map (fun f =>
    if mem_str f ex then [] else
    match lookup f t with
    | Some b =>
        flat_map (fun ns =>
                    let lab := site_label t (fst (snd ns)) in
                    if match lab with [] => true | _ => false end || site_excused (snd ns)
                       || site_needed t probes f (fst ns) then [] else [lab])
                 (enum_from 0 (flat_map (sk_csites []) b))
    | None => []
    end) fs.

Fixpoint kinds_eqb (a b : list kind) : bool :=
  match a, b with
  | [], [] => true
  | x :: a', y :: b' => kind_eqb x y && kinds_eqb a' b'
  | _, _ => false
  end.

Fixpoint remove1 (x : list kind) (l : list (list kind)) : option (list (list kind)) :=
  match l with
  | [] => None
  | y :: r => if kinds_eqb x y then Some r else option_map (cons y) (remove1 x r)
  end.

Fixpoint multi_incl (a b : list (list kind)) : bool :=
  match a with
  | [] => true
  | x :: r => match remove1 x b with Some b' => multi_incl r b' | None => false end
  end.

(* C07 — a check-to-create race: ANOTHER ACTOR creates an object in the middle of an operation.
   The cluster handler of Engine/Cluster.v with an intruder as part of its behaviour: a foreign
   object appears at a key
     - right after the n-th GET of that key that was answered "not found" (the pre-flight GET of
       existingResourceConflict / requireAdoption, the GET of Client.update before it creates), or
     - just before the first POST that would create it (Client.Create, the create branch of
       Client.update).
   The POST then answers "already exists": createResource (pkg/kube/client.go:588) returns the
   error, Client.Create / Client.update fail.  Definitions and the refinement "no intruder = the
   plain handler"; the theorems about the race are in Engine/OwnershipRaceProofs.v. *)
From Coq Require Import List String Bool Arith ZArith Lia.
From Helm Require Import Common.Assoc Engine.Types Engine.Eff Engine.Ops Engine.Cluster Engine.Seq.
Import ListNotations.
Local Open Scope string_scope.

Inductive iwhen := IGet404 (n : nat) | IPost.

Record intruder := mkIntr { i_key : string; i_when : iwhen; i_obj : fields }.

Record kstate_i := mkKI {
  ki_k : kstate;
  ki_intr : option intruder;      (* still to come *)
  ki_seen : nat }.                (* GETs of its key answered 404 so far *)

Definition with_k (s : kstate_i) (k : kstate) : kstate_i := mkKI k (ki_intr s) (ki_seen s).

Definition fire (s : kstate_i) (i : intruder) : kstate_i :=
  mkKI (set_objs (ki_k s) (aset (i_key i) (i_obj i) (objs (ki_k s)))) None 0.

(* a GET of [key] has just been answered 404 *)
Definition tick_get404 (key : string) (s : kstate_i) : kstate_i :=
  match ki_intr s with
  | Some i =>
      if String.eqb (i_key i) key then
        match i_when i with
        | IGet404 n => if Nat.eqb (S (ki_seen s)) n then fire s i
                       else mkKI (ki_k s) (ki_intr s) (S (ki_seen s))
        | IPost => s
        end
      else s
  | None => s
  end.

(* a POST creating [key] is about to be handled *)
Definition tick_post (key : string) (s : kstate_i) : kstate_i :=
  match ki_intr s with
  | Some i =>
      if String.eqb (i_key i) key then
        match i_when i with IPost => fire s i | IGet404 _ => s end
      else s
  | None => s
  end.

Section HandlersI.
  Variable rn ns : string.

  Fixpoint k_existing_i (s : kstate_i) (rs : list res) (take : bool) (acc : list res)
    : kstate_i * option (list res) :=
    match rs with
    | [] => (s, Some acc)
    | r :: t =>
        if fault_hits (ki_k s) VGet (rkey r) then (with_k s (clear_kfault (ki_k s)), None)
        else match aget (rkey r) (objs (ki_k s)) with
             | None => k_existing_i (tick_get404 (rkey r) s) t take acc
             | Some live =>
                 if take || owned_by rn ns live then k_existing_i s t take (acc ++ [r])%list
                 else (s, None)
             end
    end.

  Fixpoint k_create_i (s : kstate_i) (rs : list res) (ok : bool) (muts : list (verb * string))
    : kstate_i * bool * list (verb * string) :=
    match rs with
    | [] => (s, ok, muts)
    | r :: t =>
        if fault_hits (ki_k s) VCreate (rkey r) then k_create_i (with_k s (clear_kfault (ki_k s))) t false muts
        else
          let s1 := tick_post (rkey r) s in
          if amem (rkey r) (objs (ki_k s1)) then k_create_i s1 t false muts       (* 409 already exists *)
          else k_create_i (with_k s1 (set_objs (ki_k s1) (aset (rkey r) (r_fields r) (objs (ki_k s1))))) t ok
                          (muts ++ [(VCreate, rkey r)])%list
    end.

  Fixpoint k_update_targets_i (s : kstate_i) (cur tgt created : list res) (patcherr : bool)
           (muts : list (verb * string))
    : kstate_i * bool * bool * list res * list (verb * string) :=
    match tgt with
    | [] => (s, false, patcherr, created, muts)
    | r :: t =>
        let key := rkey r in
        let k := ki_k s in
        if fault_hits k VGet key then (with_k s (clear_kfault k), true, patcherr, created, muts)
        else match aget key (objs k) with
             | None =>
                 let s1 := tick_get404 key s in
                 let created' := (created ++ [r])%list in
                 if fault_hits (ki_k s1) VCreate key then (with_k s1 (clear_kfault (ki_k s1)), true, patcherr, created', muts)
                 else
                   let s2 := tick_post key s1 in
                   if amem key (objs (ki_k s2))
                   then (s2, true, patcherr, created', muts)     (* "failed to create resource: already exists" *)
                   else k_update_targets_i (with_k s2 (set_objs (ki_k s2) (aset key (r_fields r) (objs (ki_k s2)))))
                                           cur t created' patcherr (muts ++ [(VCreate, key)])%list
             | Some live =>
                 match find_res key cur with
                 | None => (s, true, patcherr, created, muts)
                 | Some o =>
                     if patch_needed (r_fields o) (r_fields r) live then
                       if fault_hits k VPatch key
                       then k_update_targets_i (with_k s (clear_kfault k)) cur t created true muts
                       else
                         let merged := three_way (r_fields o) (r_fields r) live in
                         let muts' := if fields_eqb merged live then muts else (muts ++ [(VPatch, key)])%list in
                         k_update_targets_i (with_k s (set_objs k (aset key merged (objs k)))) cur t created patcherr muts'
                     else k_update_targets_i s cur t created patcherr muts
                 end
             end
    end.

  Fixpoint k_update_deletes_i (s : kstate_i) (dels : list res) (muts : list (verb * string))
    : kstate_i * list (verb * string) :=
    match dels with
    | [] => (s, muts)
    | r :: t =>
        let key := rkey r in
        let k := ki_k s in
        if fault_hits k VGet key then k_update_deletes_i (with_k s (clear_kfault k)) t muts
        else match aget key (objs k) with
             | None => k_update_deletes_i (tick_get404 key s) t muts
             | Some live =>
                 if live_keep live then k_update_deletes_i s t muts
                 else if fault_hits k VDelete key then k_update_deletes_i (with_k s (clear_kfault k)) t muts
                 else k_update_deletes_i (with_k s (set_objs k (adel key (objs k)))) t (muts ++ [(VDelete, key)])%list
             end
    end.

  Definition k_update_i (s : kstate_i) (cur tgt : list res) : kstate_i * (bool * list res) * list (verb * string) :=
    let '(s1, hard, patcherr, created, muts) := k_update_targets_i s cur tgt [] false [] in
    if hard || patcherr then (s1, (false, created), muts)
    else
      let dels := filter (fun o => negb (in_keys (rkey o) tgt)) cur in
      let '(s2, muts2) := k_update_deletes_i s1 dels muts in
      (s2, (true, created), muts2).

  Definition kube_handle_i (e : eff) (s : kstate_i) : kstate_i * resp e * list kev :=
    match e return kstate_i * resp e * list kev with
    | KExisting rs take =>
        let '(s', r) := k_existing_i s rs take [] in (s', r, [])
    | KCreate rs =>
        match rs with
        | [] => (s, false, [KCall "create" []])
        | _ => let '(s', ok, muts) := k_create_i s rs true [] in (s', ok, [KCall "create" muts])
        end
    | KUpdate cur tgt =>
        let '(s', r, muts) := k_update_i s cur tgt in (s', r, [KCall "update" muts])
    | other =>
        let '(k', r, evs) := kube_handle rn ns other (ki_k s) in (with_k s k', r, evs)
    end.
End HandlersI.

Definition run_store_op_i (rn ns : string) (i : option intruder) (c : opcase) (w : world)
  : world * outcome * list tev :=
  let k0 := mkKI (mkK (w_objs w) (cf_k (oc_cf c)) (cf_h (oc_cf c)) (cf_wait (oc_cf c))) i 0 in
  let '(l, k, out, t) := run_op kstate_i (kube_handle_i rn ns) dead_resp rn ns (oc_op c) (oc_sf c) (w_led w) k0 in
  (mkW l (objs (ki_k k)), out, t).

(* a history with, per step, the intruder of that operation (None: nobody interferes) *)
Fixpoint run_history_i (rn ns : string) (h : list hstep) (is : list (option intruder)) (w : world)
  : list (world * outcome * list tev) :=
  match h with
  | [] => []
  | HOp c :: t =>
      let i := match is with x :: _ => x | [] => None end in
      let '(w', out, tr) := run_store_op_i rn ns i c w in (w', out, tr) :: run_history_i rn ns t (tl is) w'
  | HEdit e :: t => let w' := apply_edit w e in (w', OOk, []) :: run_history_i rn ns t (tl is) w'
  end.

(* C07 — proofs, part 7: the converse of the refusal theorems.  Install and upgrade end in the
   conflict error ONLY when the ownership look-up of a resource they would newly create failed:
   with no rejected GET in the fault plan, only when take-ownership is off and one of THOSE
   resources — at its own key, i.e. its own (namespace, kind, name) — exists and is not owned by
   this release.  An object anywhere else (another name, another kind, the same kind and name in
   another namespace) is never a conflict. *)
From Coq Require Import List String Bool Arith ZArith Lia.
From Helm Require Import Common.Assoc Engine.Types Engine.Eff Engine.Ops Engine.Cluster Engine.Seq
                         Engine.DryRun Engine.DryRunProofs Engine.Ownership Engine.OwnershipProofs.
Import ListNotations.
Local Open Scope string_scope.

Lemma all_ret_bind {A B} (P : B -> Prop) (p : prog A) (g : A -> prog B) :
  (forall a, all_ret P (g a)) -> all_ret P (bind p g).
Proof. intros H. induction p as [a|e k IH]; simpl; auto. apply AR_eff. auto. Qed.

(* when existingResourceConflict / requireAdoption fail *)
Lemma k_existing_none rn ns rs : forall k take acc,
  snd (k_existing rn ns k rs take acc) = None ->
  (exists r, In r rs /\ fault_hits k VGet (rkey r) = true) \/
  (take = false /\ conflict_in rn ns (objs k) rs).
Proof.
  induction rs as [|r t IH]; intros k take acc; simpl; [discriminate|].
  destruct (fault_hits k VGet (rkey r)) eqn:Ef; simpl.
  - intros _. left. exists r. auto.
  - destruct (aget (rkey r) (objs k)) as [live|] eqn:Eg.
    + destruct take; simpl.
      * intros H. apply IH in H. destruct H as [[x [Hx Hf]]|[Ht _]]; [|discriminate].
        left. exists x. split; [now right|assumption].
      * destruct (owned_by rn ns live) eqn:Eo.
        -- intros H. apply IH in H. destruct H as [[x [Hx Hf]]|[_ [x [Hx Hu]]]].
           ++ left. exists x. split; [now right|assumption].
           ++ right. split; auto. exists x. split; [now right|assumption].
        -- intros _. right. split; auto. exists r. split; [now left|]. exists live. auto.
    + intros H. apply IH in H. destruct H as [[x [Hx Hf]]|[Ht [x [Hx Hu]]]].
      * left. exists x. split; [now right|assumption].
      * right. split; auto. exists x. split; [now right|assumption].
Qed.

(* the look-up only reads the objects at the keys of its argument *)
Lemma k_existing_ext rn ns rs : forall k k' take acc,
  kfault k = kfault k' ->
  (forall r, In r rs -> aget (rkey r) (objs k) = aget (rkey r) (objs k')) ->
  snd (k_existing rn ns k rs take acc) = snd (k_existing rn ns k' rs take acc).
Proof.
  induction rs as [|r t IH]; intros k k' take acc Hf Ho; simpl; auto.
  unfold fault_hits. rewrite <- Hf.
  destruct (match kfault k with Some (v', key') => verb_eqb VGet v' && String.eqb (rkey r) key' | None => false end); auto.
  rewrite <- (Ho r (or_introl eq_refl)).
  destruct (aget (rkey r) (objs k)) as [live|].
  - destruct (take || owned_by rn ns live); auto. apply IH; auto. intros; apply Ho; now right.
  - apply IH; auto. intros; apply Ho; now right.
Qed.

(* an object placed at a key the look-up does not name changes nothing *)
Lemma k_existing_other_key rn ns rs k take acc key f :
  ~ In key (keys rs) ->
  snd (k_existing rn ns (set_objs k (aset key f (objs k))) rs take acc) = snd (k_existing rn ns k rs take acc).
Proof.
  intros Hk. apply k_existing_ext; auto. intros r Hr. simpl. apply aget_aset_neq.
  intros ->. apply Hk. unfold keys. now apply in_map.
Qed.

(* programs that read storage and then either go on with a program that never returns the
   conflict error, or look a list of resources up: when the look-up succeeds they continue with
   a program that never returns the conflict error *)
Inductive precheck_path {A : Type} (Rsp : forall e : eff, resp e -> Prop)
          (Pre : list res -> bool -> Prop) (Pn : A -> Prop) : prog A -> Prop :=
| PC_tail : forall p, all_ret Pn p -> precheck_path Rsp Pre Pn p
| PC_read : forall e k, storage_read e -> (forall r, Rsp e r -> precheck_path Rsp Pre Pn (k r)) ->
                        precheck_path Rsp Pre Pn (Eff e k)
| PC_check : forall rs take (k : resp (KExisting rs take) -> prog A),
    Pre rs take -> (forall l, all_ret Pn (k (Some l))) -> precheck_path Rsp Pre Pn (Eff (KExisting rs take) k).

Definition not_conflict (o : outcome) : Prop := o <> OErr EConflict.

Section OnlyIf.
  Variable rn ns : string.
  Variable l0 : list release.
  Variable o0 : list (string * fields).
  Variable f : sfaults.

  Lemma run_precheck_path {A} Pre (Pn : A -> Prop) (p : prog A) :
    precheck_path (Rref rn ns l0 o0) Pre Pn p ->
    forall s, Iref l0 o0 s ->
    Pn (snd (run kstate (kube_handle rn ns) dead_resp f p s)) \/
    exists rs take, Pre rs take /\ snd (k_existing rn ns (ks s) rs take []) = None.
  Proof.
    intros H. induction H as [p Hp|e k He Hk IH|rs take k Hpre Hk]; intros s Hs; simpl.
    - left. now apply run_all_ret.
    - pose proof (Iref_step rn ns l0 o0 f e s Hs (storage_read_silent e He)) as [H1 H2].
      assert (Hks : ks (fst (step kstate (kube_handle rn ns) dead_resp f e s)) = ks s).
      { destruct Hs as (_ & _ & _ & Hd). unfold step.
        destruct e; simpl in He; try contradiction; simpl; rewrite ?andb_false_r; simpl; rewrite Hd; reflexivity. }
      destruct (step kstate (kube_handle rn ns) dead_resp f e s) as [s' r]. simpl in *.
      rewrite <- Hks. apply IH; auto.
    - assert (Hr : snd (step kstate (kube_handle rn ns) dead_resp f (KExisting rs take) s)
                   = snd (k_existing rn ns (ks s) rs take [])).
      { destruct Hs as (_ & _ & _ & Hd). unfold step. simpl. rewrite ?andb_false_r. simpl. rewrite Hd. simpl.
        destruct (k_existing rn ns (ks s) rs take []) as [k' r]. reflexivity. }
      destruct (step kstate (kube_handle rn ns) dead_resp f (KExisting rs take) s) as [s' r]. simpl in *.
      subst r. destruct (snd (k_existing rn ns (ks s) rs take [])) as [l|] eqn:E.
      + left. apply run_all_ret. apply Hk.
      + right. exists rs, take. auto.
  Qed.

  Ltac nc := apply AR_ret; unfold not_conflict; discriminate.

  Lemma install_fail_not_conflict fl rel : all_ret not_conflict (install_fail fl rel).
  Proof.
    unfold install_fail. destruct (f_atomic fl); apply all_ret_bind; intros; nc.
  Qed.

  Lemma upgrade_fail_not_conflict fl up created : all_ret not_conflict (upgrade_fail rn ns fl up created).
  Proof.
    unfold upgrade_fail. apply all_ret_bind. intros _. apply all_ret_bind. intros cleaned.
    destruct (negb cleaned); [nc|]. destruct (f_atomic fl); [|nc].
    apply all_ret_bind. intros h. cbv zeta.
    match goal with |- all_ret _ (match ?x with _ => _ end) => destruct x end; [|nc].
    apply all_ret_bind. intros; nc.
  Qed.

  Local Opaque install_fail upgrade_fail run_hooks storage_create record_release.

  Ltac tl :=
    repeat match goal with
    | |- all_ret _ (Ret _) => nc
    | |- all_ret _ (install_fail _ _) => apply install_fail_not_conflict
    | |- all_ret _ (upgrade_fail _ _ _ _ _) => apply upgrade_fail_not_conflict
    | |- all_ret _ (bind _ _) => apply all_ret_bind; intro
    | |- all_ret _ (Eff _ _) => apply AR_eff; intro
    | |- all_ret _ (match ?x with _ => _ end) => destruct x
    end.

  Lemma install_precheck fl cid vid mani hks :
    precheck_path (Rref rn ns l0 o0)
      (fun rs take => rs = stamp_all rn ns mani /\ take = f_take_ownership fl)
      not_conflict (install rn ns fl cid vid mani hks).
  Proof.
    unfold install.
    destruct (f_dry_run fl) eqn:Hd; simpl.
    - destruct (negb (f_client_only fl) && negb (match stamp_all rn ns mani with [] => true | _ => false end)); simpl.
      + apply PC_check; [split; reflexivity|]. intros l. tl.
      + apply PC_tail. tl.
    - apply PC_read; [exact I|]. intros h Hh.
      destruct (max_rev_of h) as [last|]; simpl.
      + destruct (f_replace fl && (status_eqb (st last) SUninstalled || status_eqb (st last) SFailed)); simpl.
        * destruct (negb (f_client_only fl) && negb (match stamp_all rn ns mani with [] => true | _ => false end)); simpl.
          -- apply PC_check; [split; reflexivity|]. intros l. tl.
          -- apply PC_tail. tl.
        * apply PC_tail. tl.
      + destruct (negb (f_client_only fl) && negb (match stamp_all rn ns mani with [] => true | _ => false end)); simpl.
        * apply PC_check; [split; reflexivity|]. intros l. tl.
        * apply PC_tail. tl.
  Qed.
  Lemma upgrade_precheck fl cid vid mani hks :
    precheck_path (Rref rn ns l0 o0)
      (fun rs take =>
         (exists cur, upgrade_current l0 = Some cur /\
                      rs = filter (fun r => negb (in_keys (rkey r) (manifest cur))) (stamp_all rn ns mani)) /\
         take = f_take_ownership fl)
      not_conflict (upgrade rn ns fl cid vid mani hks).
  Proof.
    unfold upgrade. apply PC_read; [exact I|]. intros h Hh. simpl in Hh. subst h.
    unfold upgrade_current.
    destruct (max_rev_of l0) as [last|]; simpl; [|apply PC_tail; tl].
    destruct (is_pending (st last)) eqn:Ep; simpl; [apply PC_tail; tl|].
    destruct (status_eqb (st last) SDeployed) eqn:Ed; simpl.
    - apply PC_check; [split; [exists last; auto|reflexivity]|]. intros l. tl.
    - apply PC_read; [exact I|]. intros ds Hds. simpl in Hds. subst ds.
      destruct (max_rev_of (filter (fun x => status_eqb (st x) SDeployed) l0)) as [d|]; simpl.
      + apply PC_check; [split; [exists d; auto|reflexivity]|]. intros l. tl.
      + destruct (status_eqb (st last) SFailed || status_eqb (st last) SSuperseded); simpl.
        * apply PC_check; [split; [exists last; auto|reflexivity]|]. intros l. tl.
        * apply PC_tail. tl.
  Qed.
End OnlyIf.

Lemma conflict_in_unstamp rn ns o m : conflict_in rn ns o (stamp_all rn ns m) -> conflict_in rn ns o m.
Proof.
  intros [r [Hin Hu]]. unfold stamp_all in Hin. apply in_map_iff in Hin. destruct Hin as [x [<- Hx]].
  exists x. split; auto.
Qed.

Lemma conflict_in_unstamp_filter rn ns o m cur :
  conflict_in rn ns o (filter (fun r => negb (in_keys (rkey r) cur)) (stamp_all rn ns m)) ->
  conflict_in rn ns o (filter (fun r => negb (in_keys (rkey r) cur)) m).
Proof.
  intros [r [Hin Hu]]. apply filter_In in Hin. destruct Hin as [Hin Hp].
  unfold stamp_all in Hin. apply in_map_iff in Hin. destruct Hin as [x [<- Hx]].
  exists x. split; auto. apply filter_In. split; auto.
Qed.

Lemma fault_hits_get k r : fault_hits k VGet (rkey r) = true -> kfault k = Some (VGet, rkey r).
Proof.
  unfold fault_hits. destruct (kfault k) as [[v key]|]; [|discriminate].
  intros H. apply andb_true_iff in H. destruct H as [H1 H2]. apply String.eqb_eq in H2. subst key.
  destruct v; simpl in H1; try discriminate. reflexivity.
Qed.

Lemma run_store_precheck rn ns (o : op) sf cf w Pre :
  precheck_path (Rref rn ns (w_led w) (w_objs w)) Pre not_conflict (op_prog rn ns o) ->
  snd (fst (run_store_op rn ns (mkOp o sf cf) w)) = OErr EConflict ->
  exists rs take, Pre rs take /\
    snd (k_existing rn ns (mkK (w_objs w) (cf_k cf) (cf_h cf) (cf_wait cf)) rs take []) = None.
Proof.
  intros H. unfold run_store_op, run_op. simpl.
  set (k0 := mkK (w_objs w) (cf_k cf) (cf_h cf) (cf_wait cf)).
  assert (H0 : Iref (w_led w) (w_objs w) (mkR (w_led w) k0 0 0 false [])) by (repeat split).
  pose proof (run_precheck_path rn ns (w_led w) (w_objs w) sf Pre not_conflict (op_prog rn ns o) H
                (mkR (w_led w) k0 0 0 false []) H0) as G.
  destruct (run kstate (kube_handle rn ns) dead_resp sf (op_prog rn ns o) (mkR (w_led w) k0 0 0 false [])) as [s out].
  simpl in *. destruct (dead s); [discriminate|]. intros ->.
  destruct G as [G|G]; [now contradiction G|exact G].
Qed.

(* install ends in the conflict error only if the look-up of a manifest resource was rejected,
   or take-ownership is off and a manifest resource exists, at its own key, un-owned *)
Theorem install_conflict_only_if rn ns fl cid vid mani hks sf cf w :
  snd (fst (run_store_op rn ns (mkOp (OpInstall fl cid vid mani hks) sf cf) w)) = OErr EConflict ->
  (exists key, cf_k cf = Some (VGet, key) /\ In key (keys mani)) \/
  (f_take_ownership fl = false /\ conflict_in rn ns (w_objs w) mani).
Proof.
  intros H.
  destruct (run_store_precheck rn ns (OpInstall fl cid vid mani hks) sf cf w _
              (install_precheck rn ns (w_led w) (w_objs w) fl cid vid mani hks) H)
    as (rs & take & [-> ->] & Hn).
  apply k_existing_none in Hn. destruct Hn as [[r [Hr Hf]]|[Ht Hc]].
  - left. exists (rkey r). split; [exact (fault_hits_get _ r Hf)|].
    rewrite <- (keys_stamp_all rn ns mani). unfold keys. now apply in_map.
  - right. split; auto. exact (conflict_in_unstamp rn ns _ mani Hc).
Qed.

Theorem upgrade_conflict_only_if rn ns fl cid vid mani hks sf cf w :
  snd (fst (run_store_op rn ns (mkOp (OpUpgrade fl cid vid mani hks) sf cf) w)) = OErr EConflict ->
  exists cur, upgrade_current (w_led w) = Some cur /\
    ((exists key, cf_k cf = Some (VGet, key) /\
                  In key (keys (filter (fun r => negb (in_keys (rkey r) (manifest cur))) mani))) \/
     (f_take_ownership fl = false /\
      conflict_in rn ns (w_objs w) (filter (fun r => negb (in_keys (rkey r) (manifest cur))) mani))).
Proof.
  intros H.
  destruct (run_store_precheck rn ns (OpUpgrade fl cid vid mani hks) sf cf w _
              (upgrade_precheck rn ns (w_led w) (w_objs w) fl cid vid mani hks) H)
    as (rs & take & [[cur [Hcur ->]] ->] & Hn).
  exists cur. split; auto.
  apply k_existing_none in Hn. destruct Hn as [[r [Hr Hf]]|[Ht Hc]].
  - left. exists (rkey r). split; [exact (fault_hits_get _ r Hf)|].
    apply filter_In in Hr. destruct Hr as [Hr Hp].
    unfold stamp_all in Hr. apply in_map_iff in Hr. destruct Hr as [x [<- Hx]].
    unfold keys. apply in_map_iff. exists x. split; [reflexivity|]. apply filter_In. split; auto.
  - right. split; auto. exact (conflict_in_unstamp_filter rn ns _ mani (manifest cur) Hc).
Qed.

(* C09, round 5 — the name check of install comes BEFORE everything an install sends to the cluster,
   including what Engine/Ops.v abstracts away: the CRD pre-install step of the chart's crds/
   directory and the creation of the release namespace.  Stated over the SECOND, richer model of
   install ([DryOps.x_install], C06's transcription of Install.RunWithContext with CRD creation,
   wait, cache invalidation and namespace creation in it; required here, not edited): for every
   configuration, every option set that is not a dry run and every chart, the program is
       [IsReachable (unless ClientOnly)] ; History ; ...
   and a history that refuses the name ends it at once with "cannot reuse a name that is still in
   use": a refused install has performed no cluster mutation and no storage write at all.  In the
   same model an install that PASSES the name check performs the CRD step and the namespace creation
   before its revision record exists ([x_install_crds_before_create]): the loser of the create race
   may have sent them (what the harness counts as pre-calls). *)
From Coq Require Import List String Bool Arith ZArith.
From Helm Require Import Common.Assoc Engine.Types Engine.Eff Engine.Ops Engine.DryRun Engine.DryOps.
Import ListNotations.
Local Open Scope string_scope.

Definition name_refused (fl : xflags) (h : list release) : Prop :=
  exists last, max_rev_of h = Some last
    /\ fb fl "Replace" && (status_eqb (st last) SUninstalled || status_eqb (st last) SFailed) = false.

Theorem x_install_name_check_first rn ns g fl c :
  is_dry_run (fb fl "DryRun") (xf_opt fl) = false -> fb fl "HideSecret" = false ->
  exists k : list release -> xprog xoutcome,
    x_install rn ns g fl c
    = (if fb fl "ClientOnly" then XEff (XE TReal SHistory) k
       else XEff XReach (fun r => if negb r then XRet xerr else XEff (XE TReal SHistory) k))
    /\ forall h, name_refused fl h -> k h = XRet (XO (OErr ENameInUse)).
Proof.
  intros Hd Hh. unfold x_install. rewrite Hd, Hh.
  destruct (fb fl "ClientOnly") eqn:Eco; simpl; eexists; (split; [reflexivity|]);
    intros h [last [Hl Hr]]; simpl; rewrite Hl; simpl; rewrite Hr; reflexivity.
Qed.

(* the effects of a program up to (excluding) its first create of a revision record, along the path
   chosen by [pick] (an answer for every effect) *)
Fixpoint before_create {A} (fuel : nat) (pick : forall e : xeff, xresp e) (p : xprog A) : list xeff :=
  match fuel, p with
  | S n, XEff e k =>
      match e with
      | XE _ (SCreate _) => []
      | _ => e :: before_create n pick (k (pick e))
      end
  | _, _ => []
  end.

(* answers with which everything succeeds (empty history: the name is free) *)
Definition happy (e : xeff) : xresp e :=
  match e return xresp e with
  | XE _ e0 =>
      match e0 return resp e0 with
      | SHistory | SDeployedAll => []
      | SGet _ => None
      | SCreate _ | SUpdate _ | SDelete _ => SOk
      | KExisting _ _ => Some []
      | KCreate _ => true
      | KUpdate _ _ => (true, [])
      | KDelete _ | KWait _ | KWaitDelete _ | KHookWatch _ _ => true
      end
  | XGetObj _ => GNotFound
  | XPostRender m => Some m
  | XCrdCreate _ _ | XNsCreate _ => CCreated
  | _ => true
  end.

Definition x_crd := mkRes "CustomResourceDefinition" "widgets.c09.example.com" [].
Definition x_crd_chart : xchart :=
  mkXC 10 10 [mkRes "ConfigMap" "a" [("d:k", "v10")]] [] [[x_crd]] (RDone true) true true true true.
Definition x_crd_flags : xflags := mkXF ["CreateNamespace"] "" 0 0.

Definition is_crd_create (e : xeff) : bool := match e with XCrdCreate _ _ => true | _ => false end.
Definition is_ns_create (e : xeff) : bool := match e with XNsCreate TReal => true | _ => false end.

(* non-vacuity / the other side of the coin: an install that PASSES the name check creates the CRDs
   of crds/ and the namespace BEFORE it creates its revision record *)
Lemma x_install_crds_before_create :
  let pre := before_create 60 happy (x_install "rel" "default" (mkXG true true) x_crd_flags x_crd_chart) in
  existsb is_crd_create pre = true /\ existsb is_ns_create pre = true
  /\ List.length (filter x_cluster_mut pre) = 2
  /\ name_refused x_crd_flags [mkRelease 1 SDeployed 1 1 [] []].
Proof.
  split; [vm_compute; reflexivity|]. split; [vm_compute; reflexivity|]. split; [vm_compute; reflexivity|].
  exists (mkRelease 1 SDeployed 1 1 [] []). split; reflexivity.
Qed.

(* C12 — the four operations around their hooks, for EVERY execution (every cluster
   behaviour, storage fault and crash): nothing of the cluster is changed before the
   pre-hooks, a failing pre-hook leaves only storage writes behind (non-atomic), success
   requires both hook events to have completed, and disabled hooks are never touched. *)
From Coq Require Import List String Ascii Bool Arith ZArith Lia Permutation.
From Helm Require Import Common.Assoc Engine.Types Engine.Eff Engine.Ops Engine.Cluster Engine.Seq
  Engine.HooksProofsSort Engine.HooksProofsTrace Engine.HooksProofsOrder.
Import ListNotations.
Local Open Scope prog_scope.

(* ---- programs that only perform effects of a given class ---- *)
Fixpoint only {A} (Q : eff -> Prop) (p : prog A) : Prop :=
  match p with
  | Ret _ => True
  | Eff e k => Q e /\ forall r, only Q (k r)
  end.

Lemma only_bind {A B} Q (p : prog A) (f : A -> prog B) :
  only Q p -> (forall a, only Q (f a)) -> only Q (bind p f).
Proof.
  induction p as [a|e k IH]; simpl; intros Hp Hf; auto.
  destruct Hp as [He Hk]. split; auto.
Qed.

Lemma only_exec {A} Q (p : prog A) tr a :
  only Q p -> exec p tr a -> Forall (fun x => Q (eff_of x)) tr.
Proof.
  intros Ho H. induction H; simpl in *; constructor; destruct Ho; auto.
Qed.

Lemma only_mono {A} (Q Q' : eff -> Prop) (p : prog A) :
  (forall e, Q e -> Q' e) -> only Q p -> only Q' p.
Proof.
  intros Hq. induction p as [a|e k IH]; simpl; auto. intros [He Hk]. split; auto.
Qed.

Definition storage_eff (e : eff) : Prop := is_cluster_call e = false.

Lemma only_perform (Q : eff -> Prop) e : Q e -> only Q (perform e).
Proof. simpl. auto. Qed.

Lemma delete_all_storage vs : only storage_eff (delete_all vs).
Proof.
  induction vs as [|v t IH]; simpl; auto. split; [reflexivity|]. intros r.
  apply only_bind; auto. intros a. destruct r; simpl; auto.
Qed.

Lemma remove_least_recent_storage m : only storage_eff (remove_least_recent m).
Proof.
  unfold remove_least_recent. simpl. split; [reflexivity|]. intros h.
  destruct h as [|x t]; simpl; auto.
  match goal with |- only _ (if ?c then _ else _) => destruct c end; simpl; auto.
  split; [reflexivity|]. intros ds.
  apply only_bind; [apply delete_all_storage|].
  intros r. destruct (fst r) as [|[|n]]; simpl; auto.
Qed.

Lemma storage_create_storage r m : only storage_eff (storage_create r m).
Proof.
  unfold storage_create. destruct m as [|m]; [simpl; split; [reflexivity|auto]|].
  apply only_bind; [apply remove_least_recent_storage|].
  intros e. destruct e; simpl; auto; split; try reflexivity; auto.
Qed.

Lemma record_release_storage r : only storage_eff (record_release r).
Proof. unfold record_release. simpl. split; [reflexivity|auto]. Qed.

Lemma purge_storage vs : only storage_eff (purge vs).
Proof.
  induction vs as [|v t IH]; simpl; auto. split; [reflexivity|].
  intros r. destruct r; simpl; auto.
Qed.

Lemma supersede_all_storage ds : only storage_eff (supersede_all ds).
Proof.
  induction ds as [|d t IH]; simpl; auto. split; [reflexivity|]. intros _. exact IH.
Qed.

(* ---- trace predicates ---- *)
Definition is_hook_watch (e : eff) : Prop := match e with KHookWatch _ _ => True | _ => False end.

(* before the hooks: no cluster mutation and no hook watch *)
Definition quiet_eff (e : eff) : Prop := is_cluster_mutation e = false /\ ~ is_hook_watch e.
Definition quiet (tr : list er) : Prop := Forall (fun x => quiet_eff (eff_of x)) tr.
Definition storage_only (tr : list er) : Prop := Forall (fun x => storage_eff (eff_of x)) tr.

Lemma storage_quiet e : storage_eff e -> quiet_eff e.
Proof. unfold storage_eff, quiet_eff. destruct e; simpl; intros H; try discriminate; split; auto. Qed.

Lemma storage_only_quiet tr : storage_only tr -> quiet tr.
Proof. apply Forall_impl. intros x. apply storage_quiet. Qed.

Lemma quiet_app a b : quiet a -> quiet b -> quiet (a ++ b).
Proof. intros. apply Forall_app. auto. Qed.

Lemma quiet_cons e (r : resp e) t : quiet_eff e -> quiet t -> quiet (ER e r :: t).
Proof. intros. constructor; auto. Qed.

Lemma storage_only_exec {A} (p : prog A) tr a : only storage_eff p -> exec p tr a -> storage_only tr.
Proof. intros. eapply only_exec; eauto. Qed.

Lemma record_release_exec r tr u : exec (record_release r) tr u -> storage_only tr.
Proof. apply storage_only_exec, record_release_storage. Qed.

Ltac inv_ret H := apply exec_ret_inv in H; destruct H as [? ?]; subst.
Ltac inv_perf H r t := apply exec_perform_bind_inv in H; destruct H as (r & t & ? & H); subst.
Ltac inv_bind H t1 a t2 H1 := apply exec_bind_inv in H; destruct H as (t1 & a & t2 & H1 & H & ?); subst.

Ltac case_if H := match type of H with exec (if ?c then _ else _) _ _ => destruct c eqn:? end.
Ltac case_match H := match type of H with exec (match ?x with _ => _ end) _ _ => destruct x eqn:? end.

Lemma q_sread : quiet_eff SHistory. Proof. split; [reflexivity|intros []]. Qed.
Lemma q_sdep : quiet_eff SDeployedAll. Proof. split; [reflexivity|intros []]. Qed.
Lemma q_sget v : quiet_eff (SGet v). Proof. split; [reflexivity|intros []]. Qed.
Lemma q_supd r : quiet_eff (SUpdate r). Proof. split; [reflexivity|intros []]. Qed.
Lemma q_kex rs t : quiet_eff (KExisting rs t). Proof. split; [reflexivity|intros []]. Qed.
#[local] Hint Resolve q_sread q_sdep q_sget q_supd q_kex : quiet.

Section Gate.
  Variable rn ns : string.

  (* ================= install ================= *)
  (* the structure of every non-atomic, non-dry-run install *)
  Lemma install_shape fl cid vid mani hks tr out :
    f_atomic fl = false -> f_dry_run fl = false ->
    exec (install rn ns fl cid vid mani hks) tr out ->
    exists tr0, quiet tr0 /\
      ((tr = tr0 /\ out <> OOk)
       \/
       exists rel trh b tr2,
         tr = (tr0 ++ trh ++ tr2)%list /\ hooks rel = hks /\ manifest rel = mani /\
         exec (run_hooks fl rel PreInstall) trh b /\
         ((b = false /\ out = OErr EOtherErr /\ storage_only tr2)
          \/
          (b = true /\
           ((out = OErr EOtherErr /\ Forall (fun x => ~ is_hook_watch (eff_of x)) tr2)
            \/
            exists trm trp b2 tr3,
              tr2 = (trm ++ trp ++ tr3)%list /\ Forall (fun x => ~ is_hook_watch (eff_of x)) trm /\
              exec (run_hooks fl rel PostInstall) trp b2 /\ storage_only tr3 /\
              ((b2 = false /\ out = OErr EOtherErr) \/ (b2 = true /\ out = OOk)))))).
  Proof.
    intros Hat Hdry H. unfold install in H. rewrite Hdry in H.
    cbv beta iota zeta delta [negb] in H.
    (* availableName *)
    inv_bind H t0 avail t1 Hav.
    inv_perf Hav h0 t0'.
    assert (t0' = []) by (destruct (max_rev_of h0); inv_ret Hav; auto). subst t0'. clear Hav.
    destruct avail; cbv beta iota in H.
    2:{ inv_ret H. exists [ER SHistory h0]. split; [repeat constructor; auto with quiet|].
        left. split; auto. discriminate. }
    inv_bind H ta adopt tb Ha.
    assert (Qa : quiet ta).
    { case_if Ha.
      - apply (exec_perform_inv (KExisting _ _)) in Ha. subst. repeat constructor; auto with quiet.
      - inv_ret Ha. constructor. }
    destruct adopt as [adopted|].
    2:{ inv_ret H. exists (ER SHistory h0 :: ta ++ []). split.
        - apply quiet_cons; auto with quiet. apply quiet_app; auto. constructor.
        - left. split; auto. discriminate. }
    inv_bind H tc rr td Hc.
    assert (Qc : quiet tc /\ forall rel, rr = Some rel -> hooks rel = hks /\ manifest rel = mani).
    { case_if Hc.
      - inv_perf Hc h1 t2. destruct (max_rev_of h1) as [last|].
        + case_if Hc.
          * inv_ret Hc. split; [repeat constructor; auto with quiet|]. intros rel E. inversion E; subst. auto.
          * inv_perf Hc e1 t3. split.
            -- destruct e1; inv_ret Hc; repeat constructor; auto with quiet.
            -- intros rel E. destruct e1; inv_ret Hc; inversion E; subst; auto.
        + inv_ret Hc. split; [repeat constructor; auto with quiet|]. intros rel E. inversion E; subst. auto.
      - inv_ret Hc. split; [constructor|]. intros rel E. inversion E; subst. auto. }
    destruct Qc as [Qc Hrel].
    destruct rr as [rel|].
    2:{ inv_ret H. exists (ER SHistory h0 :: ta ++ tc ++ []). split.
        - apply quiet_cons; auto with quiet. repeat apply quiet_app; auto. constructor.
        - left. split; auto. discriminate. }
    pose proof (Hrel rel eq_refl) as Hhm. clear Hrel.
    inv_bind H te e tf He.
    assert (Qe : quiet te).
    { apply storage_only_quiet. eapply storage_only_exec; [apply storage_create_storage|exact He]. }
    set (tr0 := ER SHistory h0 :: ta ++ tc ++ te).
    assert (Q0 : quiet tr0).
    { unfold tr0. apply quiet_cons; auto with quiet. repeat apply quiet_app; auto. }
    destruct e; try (inv_ret H; exists (tr0 ++ [])%list; split;
                     [apply quiet_app; auto; constructor|left; split;
                       [unfold tr0; simpl; rewrite <- !app_assoc; reflexivity|discriminate]]).
    (* the revision is stored: pre-install hooks *)
    exists tr0. split; auto. right.
    inv_bind H trh pre t4 Hpre.
    exists rel, trh, pre, t4. split; [unfold tr0; simpl; rewrite <- !app_assoc; reflexivity|].
    split; [apply Hhm|]. split; [apply Hhm|]. split; auto.
    assert (Hfail : forall t o, exec (install_fail fl rel) t o -> o = OErr EOtherErr /\ storage_only t).
    { intros t o Hf. unfold install_fail in Hf. rewrite Hat in Hf.
      inv_bind Hf t5 u t6 Hr. inv_ret Hf. split; auto.
      rewrite app_nil_r. eapply record_release_exec; eauto. }
    destruct pre; cbv beta iota in H.
    2:{ left. destruct (Hfail _ _ H). auto. }
    right. split; auto.
    inv_bind H tg ok th Hg.
    assert (Qg : Forall (fun x => ~ is_hook_watch (eff_of x)) tg).
    { case_match Hg.
      - inv_ret Hg. constructor.
      - case_match Hg.
        + apply (exec_perform_inv (KCreate _)) in Hg. subst. repeat constructor. simpl. auto.
        + inv_perf Hg u t7. inv_ret Hg. repeat constructor. simpl. auto. }
    assert (Qso : forall t, storage_only t -> Forall (fun x => ~ is_hook_watch (eff_of x)) t).
    { intros t. apply Forall_impl. intros x Hx. destruct (eff_of x); simpl in *; auto; discriminate. }
    destruct ok; cbv beta iota in H.
    2:{ left. destruct (Hfail _ _ H) as [-> Hs]. split; auto. apply Forall_app. split; auto. }
    inv_perf H w t8.
    destruct w; cbv beta iota in H.
    2:{ left. destruct (Hfail _ _ H) as [-> Hs]. split; auto.
        apply Forall_app. split; auto. }
    right.
    inv_bind H trp post t9 Hpost.
    exists (tg ++ [ER (KWait (stamp_all rn ns mani)) true])%list, trp, post, t9.
    split; [rewrite <- !app_assoc; reflexivity|].
    split; [apply Forall_app; split; auto; repeat constructor; simpl; auto|].
    split; auto.
    destruct post; cbv beta iota in H.
    - inv_bind H t10 u t11 Hr. inv_ret H. rewrite app_nil_r.
      split; [eapply record_release_exec; eauto|]. right. auto.
    - destruct (Hfail _ _ H) as [-> Hs]. split; auto.
  Qed.

  (* ================= the common structure ================= *)
  Definition nowatch (tr : list er) : Prop := Forall (fun x => ~ is_hook_watch (eff_of x)) tr.

  Lemma storage_only_nowatch t : storage_only t -> nowatch t.
  Proof. apply Forall_impl. intros x Hx. destruct (eff_of x); simpl in *; auto; discriminate. Qed.

  Definition op_shape (fl : flags) (pre post : event) (R : list er -> release -> Prop) (quiet_ok : bool)
             (tr : list er) (out : outcome) : Prop :=
    exists tr0, quiet tr0 /\
      ((tr = tr0 /\ (quiet_ok = false -> out <> OOk))
       \/
       exists rel trh b tr2,
         tr = (tr0 ++ trh ++ tr2)%list /\ R tr0 rel /\ exec (run_hooks fl rel pre) trh b /\
         ((b = false /\ out = OErr EOtherErr /\ storage_only tr2)
          \/
          (b = true /\
           ((out = OErr EOtherErr /\ nowatch tr2)
            \/
            exists trm trp b2 tr3,
              tr2 = (trm ++ trp ++ tr3)%list /\ nowatch trm /\
              exec (run_hooks fl rel post) trp b2 /\ nowatch tr3 /\
              ((b2 = false /\ out <> OOk) \/ b2 = true))))).

  Lemma install_op_shape fl cid vid mani hks tr out :
    f_atomic fl = false -> f_dry_run fl = false ->
    exec (install rn ns fl cid vid mani hks) tr out ->
    op_shape fl PreInstall PostInstall (fun _ rel => hooks rel = hks /\ manifest rel = mani) false tr out.
  Proof.
    intros Hat Hdry H. destruct (install_shape _ _ _ _ _ _ _ Hat Hdry H) as (tr0 & Q0 & S).
    exists tr0. split; auto. destruct S as [[-> Ho]|(rel & trh & b & tr2 & -> & Hh & Hm & Hpre & S)].
    - left. auto.
    - right. exists rel, trh, b, tr2. repeat split; auto.
      destruct S as [S|[-> S]]; [left; exact S|right; split; auto].
      destruct S as [S|(trm & trp & b2 & tr3 & -> & Qm & Hpost & Q3 & S)]; [left; exact S|right].
      exists trm, trp, b2, tr3. repeat split; auto.
      + now apply storage_only_nowatch.
      + destruct S as [[-> ->]|[-> ->]]; [left; split; auto; discriminate|right; auto].
  Qed.

  (* ================= upgrade ================= *)
  Lemma upgrade_fail_exec fl up created t o :
    f_atomic fl = false ->
    exec (upgrade_fail rn ns fl up created) t o ->
    o = OErr EOtherErr /\ nowatch t /\ (created = [] -> storage_only t).
  Proof.
    intros Hat H. unfold upgrade_fail in H. rewrite Hat in H.
    inv_bind H t1 u t2 Hr. pose proof (record_release_exec _ _ _ Hr) as S1.
    inv_bind H t3 cleaned t4 Hc.
    assert (o = OErr EOtherErr /\ t4 = []) as [-> ->].
    { destruct cleaned; cbv beta iota delta [negb] in H; inv_ret H; auto. }
    split; auto. rewrite app_nil_r.
    case_if Hc.
    - apply (exec_perform_inv (KDelete created)) in Hc. subst. split.
      + apply Forall_app. split; [now apply storage_only_nowatch|]. repeat constructor. simpl. auto.
      + intros ->. rewrite andb_false_r in Heqb. discriminate.
    - inv_ret Hc. rewrite app_nil_r. split; auto. now apply storage_only_nowatch.
  Qed.

  Lemma upgrade_op_shape fl cid vid mani hks tr out :
    f_atomic fl = false -> f_dry_run fl = false ->
    exec (upgrade rn ns fl cid vid mani hks) tr out ->
    op_shape fl PreUpgrade PostUpgrade (fun _ rel => hooks rel = hks /\ manifest rel = mani) false tr out.
  Proof.
    intros Hat Hdry H. unfold upgrade in H. rewrite Hdry in H.
    cbv beta iota zeta in H.
    inv_perf H h0 t0.
    assert (Qh : quiet [ER SHistory h0]) by (repeat constructor; auto with quiet).
    destruct (max_rev_of h0) as [last|].
    2:{ inv_ret H. exists [ER SHistory h0]. split; auto. left. split; auto. discriminate. }
    case_if H.
    { inv_ret H. exists [ER SHistory h0]. split; auto. left. split; auto. discriminate. }
    inv_bind H ta cur tb Ha.
    assert (Qa : quiet ta).
    { case_if Ha.
      - inv_ret Ha. constructor.
      - inv_perf Ha ds t1. apply quiet_cons; auto with quiet.
        destruct (max_rev_of ds); [inv_ret Ha; constructor|].
        case_if Ha; inv_ret Ha; constructor. }
    destruct cur as [current|].
    2:{ inv_ret H. exists (ER SHistory h0 :: ta ++ [])%list. split.
        - apply quiet_cons; auto with quiet. apply quiet_app; auto. constructor.
        - left. split; auto. discriminate. }
    inv_perf H adopt t2.
    destruct adopt as [adopted|].
    2:{ inv_ret H. eexists. split; [|left; split; [reflexivity|discriminate]].
        apply quiet_cons; auto with quiet. apply quiet_app; auto. repeat constructor; auto with quiet. }
    inv_bind H te e tf He.
    assert (Qe : quiet te).
    { apply storage_only_quiet. eapply storage_only_exec; [apply storage_create_storage|exact He]. }
    set (up := mkRelease (S (rev last)) SPendingUpgrade cid vid mani hks) in *.
    set (kex := ER (KExisting (filter (fun r => negb (in_keys (rkey r) (manifest current))) (stamp_all rn ns mani))
                              (f_take_ownership fl)) (Some adopted)) in *.
    set (tr0 := (ER SHistory h0 :: ta ++ kex :: te)%list).
    assert (Q0 : quiet tr0).
    { unfold tr0. apply quiet_cons; auto with quiet. apply quiet_app; auto.
      apply quiet_cons; auto. unfold kex. auto with quiet. }
    assert (Etr : forall t, (ER SHistory h0 :: ta ++ kex :: te ++ t)%list = (tr0 ++ t)%list).
    { intros t. unfold tr0. simpl. rewrite <- app_assoc. simpl. reflexivity. }
    destruct e; try (inv_ret H; exists (tr0 ++ [])%list; split;
                     [apply quiet_app; auto; constructor|left; split; [apply Etr|discriminate]]).
    exists tr0. split; auto. right.
    inv_bind H trh pre t4 Hpre.
    exists up, trh, pre, t4. split; [apply Etr|]. split; [split; reflexivity|]. split; auto.
    destruct pre; cbv beta iota delta [negb] in H.
    2:{ left. destruct (upgrade_fail_exec _ _ _ _ _ Hat H) as (-> & _ & Hs). auto. }
    right. split; auto.
    inv_perf H u t5.
    assert (Qu : nowatch [ER (KUpdate (manifest current ++ adopted) (stamp_all rn ns mani)) u]).
    { repeat constructor. simpl. auto. }
    destruct (fst u); cbv beta iota in H.
    2:{ left. inv_bind H t6 x t7 Hr. destruct (upgrade_fail_exec _ _ _ _ _ Hat H) as (-> & Hn & _).
        split; auto. apply (Forall_app _ [_]). split; auto.
        apply Forall_app. split; auto. apply storage_only_nowatch. eapply record_release_exec; eauto. }
    inv_perf H w t6.
    destruct w; cbv beta iota in H.
    2:{ left. inv_bind H t7 x t8 Hr. destruct (upgrade_fail_exec _ _ _ _ _ Hat H) as (-> & Hn & _).
        split; auto. apply (Forall_app _ [_]). split; auto.
        constructor; [simpl; auto|].
        apply Forall_app. split; auto. apply storage_only_nowatch. eapply record_release_exec; eauto. }
    right.
    inv_bind H trp post t9 Hpost.
    exists [ER (KUpdate (manifest current ++ adopted) (stamp_all rn ns mani)) u; ER (KWait (stamp_all rn ns mani)) true], trp, post, t9.
    split; [reflexivity|]. split; [repeat constructor; simpl; auto|]. split; auto.
    destruct post; cbv beta iota in H.
    - inv_bind H t10 x t11 Hr. inv_perf H e2 t12.
      split; [|right; auto].
      apply Forall_app. split; [apply storage_only_nowatch; eapply record_release_exec; eauto|].
      constructor; [simpl; auto|]. destruct e2; inv_ret H; constructor.
    - destruct (upgrade_fail_exec _ _ _ _ _ Hat H) as (-> & Hn & _). split; auto.
      left. split; auto. discriminate.
  Qed.

  (* ================= rollback ================= *)
  Lemma rollback_op_shape fl tr out :
    f_dry_run fl = false ->
    exec (rollback rn ns fl) tr out ->
    op_shape fl PreRollback PostRollback
      (fun tr0 rel => exists v pr, In (ER (SGet v) (Some pr)) tr0 /\ hooks rel = hooks pr /\ manifest rel = manifest pr)
      false tr out.
  Proof.
    intros Hdry H. unfold rollback in H. rewrite Hdry in H.
    cbv beta iota zeta in H.
    inv_perf H h0 t0.
    destruct (max_rev_of h0) as [cur|].
    2:{ inv_ret H. eexists. split; [|left; split; [reflexivity|discriminate]]. repeat constructor; auto with quiet. }
    inv_perf H h2 t1.
    case_if H.
    { inv_ret H. eexists. split; [|left; split; [reflexivity|discriminate]]. repeat constructor; auto with quiet. }
    inv_perf H p t2.
    destruct p as [pr|].
    2:{ inv_ret H. eexists. split; [|left; split; [reflexivity|discriminate]]. repeat constructor; auto with quiet. }
    inv_bind H te e tf He.
    assert (Qe : quiet te).
    { apply storage_only_quiet. eapply storage_only_exec; [apply storage_create_storage|exact He]. }
    match type of He with exec (storage_create ?t _) _ _ => set (tgt := t) in * end.
    match goal with |- op_shape _ _ _ _ _ (_ :: _ :: ?x :: _) _ => set (kget := x) in * end.
    set (tr0 := (ER SHistory h0 :: ER SHistory h2 :: kget :: te)%list).
    assert (Q0 : quiet tr0).
    { unfold tr0, kget. repeat (apply quiet_cons; auto with quiet). }
    assert (Etr : forall t, (ER SHistory h0 :: ER SHistory h2 :: kget :: te ++ t)%list = (tr0 ++ t)%list) by reflexivity.
    destruct e; try (inv_ret H; exists (tr0 ++ [])%list; split;
                     [apply quiet_app; auto; constructor|left; split; [apply Etr|discriminate]]).
    exists tr0. split; auto. right.
    inv_bind H trh pre t4 Hpre.
    exists tgt, trh, pre, t4. split; [apply Etr|].
    split.
    { eexists _, pr. split; [unfold tr0, kget; simpl; right; right; left; reflexivity|]. split; reflexivity. }
    split; auto.
    assert (Hfp : forall t o,
               exec (record_release (with_status tgt SFailed) ;;; Ret (OErr EOtherErr)) t o ->
               o = OErr EOtherErr /\ storage_only t).
    { intros t o Hf. inv_bind Hf t5 u t6 Hr. inv_ret Hf. split; auto.
      rewrite app_nil_r. eapply record_release_exec; eauto. }
    destruct pre; cbv beta iota delta [negb] in H.
    2:{ left. destruct (Hfp _ _ H) as [-> Hs]. auto. }
    right. split; auto.
    inv_perf H u t5.
    destruct (fst u); cbv beta iota in H.
    2:{ left. inv_bind H t6 x t7 Hr. inv_bind H t8 y t9 Hr2.
        assert (out = OErr EOtherErr /\ nowatch t9) as [-> Hn].
        { case_if H.
          - inv_perf H d t10. inv_ret H. split; auto. repeat constructor. simpl. auto.
          - inv_ret H. split; auto. constructor. }
        split; auto. constructor; [simpl; auto|].
        apply Forall_app. split; [apply storage_only_nowatch; eapply record_release_exec; eauto|].
        apply Forall_app. split; auto. apply storage_only_nowatch; eapply record_release_exec; eauto. }
    inv_perf H w t6.
    destruct w; cbv beta iota in H.
    2:{ left. inv_bind H t7 x t8 Hr. inv_bind H t9 y t10 Hr2. inv_ret H. split; auto.
        constructor; [simpl; auto|]. constructor; [simpl; auto|].
        apply Forall_app. split; [apply storage_only_nowatch; eapply record_release_exec; eauto|].
        apply Forall_app. split; [apply storage_only_nowatch; eapply record_release_exec; eauto|constructor]. }
    right.
    inv_bind H trp post t9 Hpost.
    eexists [_; _], trp, post, t9.
    split; [reflexivity|]. split; [repeat constructor; simpl; auto|]. split; auto.
    destruct post; cbv beta iota in H.
    - inv_perf H ds t10. inv_bind H t11 x t12 Hs. inv_perf H e2 t13.
      split; [|right; auto].
      constructor; [simpl; auto|].
      apply Forall_app. split; [apply storage_only_nowatch; eapply storage_only_exec; [apply supersede_all_storage|eauto]|].
      constructor; [simpl; auto|]. destruct e2; inv_ret H; constructor.
    - destruct (Hfp _ _ H) as [-> Hs]. split; [now apply storage_only_nowatch|].
      left. split; auto. discriminate.
  Qed.

  (* ================= uninstall ================= *)
  Lemma uninstall_op_shape fl tr out :
    f_dry_run fl = false ->
    exec (uninstall fl) tr out ->
    op_shape fl PreDelete PostDelete
      (fun tr0 rel => exists h last, tr0 = [ER SHistory h] /\ max_rev_of h = Some last /\ rel = with_status last SUninstalling)
      true tr out.
  Proof.
    intros Hdry H. unfold uninstall in H. rewrite Hdry in H.
    cbv beta iota zeta in H.
    inv_perf H h0 t0.
    assert (Qh : quiet [ER SHistory h0]) by (repeat constructor; auto with quiet).
    destruct (max_rev_of h0) as [last|] eqn:Hmax.
    2:{ inv_ret H. eexists. split; [|left; split; [reflexivity|discriminate]]. auto. }
    case_if H.
    { (* already uninstalled: only the history is removed *)
      case_if H.
      - inv_ret H. eexists. split; [|left; split; [reflexivity|discriminate]]. auto.
      - inv_bind H t1 ok t2 Hp. inv_ret H.
        eexists. split; [|left; split; [reflexivity|discriminate]].
        apply quiet_cons; auto with quiet. apply quiet_app; [|constructor].
        apply storage_only_quiet. eapply storage_only_exec; [apply purge_storage|eauto]. }
    exists [ER SHistory h0]. split; auto. right.
    inv_bind H trh pre t4 Hpre.
    exists (with_status last SUninstalling), trh, pre, t4. split; [reflexivity|].
    split; [exists h0, last; auto|]. split; auto.
    destruct pre; cbv beta iota delta [negb] in H.
    2:{ left. inv_ret H. repeat split; auto. constructor. }
    right. split; auto.
    inv_bind H t5 x t6 Hr.
    pose proof (storage_only_nowatch _ (record_release_exec _ _ _ Hr)) as N5.
    inv_bind H t7 delok t8 Hd.
    assert (N7 : nowatch t7).
    { case_match Hd.
      - inv_ret Hd. constructor.
      - apply (exec_perform_inv (KDelete _)) in Hd. subst. repeat constructor. simpl. auto. }
    destruct delok; cbv beta iota in H.
    2:{ left. inv_ret H. split; auto. apply Forall_app. split; auto. apply Forall_app. split; auto. }
    right.
    inv_perf H w t9.
    inv_bind H trp post t10 Hpost.
    eexists (t5 ++ t7 ++ [_])%list, trp, post, t10.
    split; [rewrite <- !app_assoc; reflexivity|].
    split; [apply Forall_app; split; auto; apply Forall_app; split; auto; repeat constructor; simpl; auto|].
    split; auto.
    assert (N10 : nowatch t10 /\ (post = false -> out <> OOk)).
    { case_if H.
      - inv_bind H t11 y t12 Hr2. inv_ret H. split.
        + rewrite app_nil_r. apply storage_only_nowatch. eapply record_release_exec; eauto.
        + intros ->. rewrite andb_false_r. discriminate.
      - inv_bind H t11 ok t12 Hp. inv_ret H. split.
        + rewrite app_nil_r. apply storage_only_nowatch. eapply storage_only_exec; [apply purge_storage|eauto].
        + intros ->. rewrite andb_false_r. simpl. discriminate. }
    destruct N10 as [N10 Hpo]. split; auto.
    destruct post; [right; auto|left; split; auto].
  Qed.
End Gate.

(* ================= the statements about all four operations ================= *)
Definition op_flags (o : op) : flags :=
  match o with OpInstall fl _ _ _ _ | OpUpgrade fl _ _ _ _ | OpRollback fl | OpUninstall fl => fl end.

Definition pre_event (o : op) : event :=
  match o with OpInstall _ _ _ _ _ => PreInstall | OpUpgrade _ _ _ _ _ => PreUpgrade
             | OpRollback _ => PreRollback | OpUninstall _ => PreDelete end.

Definition post_event (o : op) : event :=
  match o with OpInstall _ _ _ _ _ => PostInstall | OpUpgrade _ _ _ _ _ => PostUpgrade
             | OpRollback _ => PostRollback | OpUninstall _ => PostDelete end.

(* the release record whose hooks the operation runs: the new revision carrying the
   rendered hooks (install, upgrade), the copy of the revision fetched from storage
   (rollback), the last revision marked uninstalling (uninstall) *)
Definition hook_release (o : op) (tr0 : list er) (rel : release) : Prop :=
  match o with
  | OpInstall _ _ _ mani hks | OpUpgrade _ _ _ mani hks => hooks rel = hks /\ manifest rel = mani
  | OpRollback _ =>
      exists v pr, In (ER (SGet v) (Some pr)) tr0 /\ hooks rel = hooks pr /\ manifest rel = manifest pr
  | OpUninstall _ =>
      exists h last, tr0 = [ER SHistory h] /\ max_rev_of h = Some last /\ rel = with_status last SUninstalling
  end.

(* uninstalling an already uninstalled release only removes its history *)
Definition may_succeed_quietly (o : op) : bool :=
  match o with OpUninstall _ => true | _ => false end.

Lemma op_has_shape rn ns o tr out :
  f_atomic (op_flags o) = false -> f_dry_run (op_flags o) = false ->
  exec (op_prog rn ns o) tr out ->
  op_shape (op_flags o) (pre_event o) (post_event o) (hook_release o) (may_succeed_quietly o) tr out.
Proof.
  intros Hat Hdry H. destruct o as [fl cid vid mani hks|fl cid vid mani hks|fl|fl].
  - exact (install_op_shape rn ns fl cid vid mani hks tr out Hat Hdry H).
  - exact (upgrade_op_shape rn ns fl cid vid mani hks tr out Hat Hdry H).
  - exact (rollback_op_shape rn ns fl tr out Hdry H).
  - exact (uninstall_op_shape fl tr out Hdry H).
Qed.

Theorem pre_gate rn ns o tr out :
  f_atomic (op_flags o) = false -> f_dry_run (op_flags o) = false ->
  exec (op_prog rn ns o) tr out ->
  exists tr0 rest, tr = (tr0 ++ rest)%list /\ quiet tr0 /\
    (rest = [] \/
     exists rel trh b tr2,
       rest = (trh ++ tr2)%list /\ hook_release o tr0 rel /\
       exec (run_hooks (op_flags o) rel (pre_event o)) trh b /\
       (b = false -> out = OErr EOtherErr /\ storage_only tr2)).
Proof.
  intros Hat Hdry H. destruct (op_has_shape _ _ _ _ _ Hat Hdry H) as (tr0 & Q0 & S).
  exists tr0. destruct S as [[-> _]|(rel & trh & b & tr2 & -> & HR & Hpre & S)].
  - exists []. rewrite app_nil_r. auto.
  - exists (trh ++ tr2)%list. repeat split; auto. right.
    exists rel, trh, b, tr2. repeat split; auto; destruct S as [(_ & E & Hs)|[-> _]]; auto; discriminate.
Qed.

Theorem success_needs_hooks rn ns o tr :
  f_atomic (op_flags o) = false -> f_dry_run (op_flags o) = false ->
  exec (op_prog rn ns o) tr OOk ->
  (may_succeed_quietly o = true /\ quiet tr)
  \/
  exists tr0 rel trh trm trp tr3,
    tr = (tr0 ++ trh ++ trm ++ trp ++ tr3)%list /\ quiet tr0 /\ hook_release o tr0 rel /\
    exec (run_hooks (op_flags o) rel (pre_event o)) trh true /\ nowatch trm /\
    exec (run_hooks (op_flags o) rel (post_event o)) trp true /\ nowatch tr3.
Proof.
  intros Hat Hdry H. destruct (op_has_shape _ _ _ _ _ Hat Hdry H) as (tr0 & Q0 & S).
  destruct S as [[-> Hq]|(rel & trh & b & tr2 & -> & HR & Hpre & S)].
  - left. split; auto. destruct (may_succeed_quietly o); auto. exfalso. now apply Hq.
  - right. destruct S as [(_ & E & _)|[-> S]]; [discriminate|].
    destruct S as [[E _]|(trm & trp & b2 & tr3 & -> & Nm & Hpost & N3 & S)]; [discriminate|].
    destruct S as [[_ E] | ->]; [now elim E|].
    exists tr0, rel, trh, trm, trp, tr3. repeat split; auto.
Qed.

(* ---- disabled hooks: no hook watch, and the only creation is that of the manifest ---- *)
Definition no_hook_eff (mani : option (list res)) (e : eff) : Prop :=
  match e with
  | KHookWatch _ _ => False
  | KCreate rs => match mani with Some m => rs = m | None => False end
  | _ => True
  end.

Lemma storage_no_hook m e : storage_eff e -> no_hook_eff m e.
Proof. destruct e; simpl; auto; discriminate. Qed.

Lemma only_storage_no_hook {A} m (p : prog A) : only storage_eff p -> only (no_hook_eff m) p.
Proof. apply only_mono. apply storage_no_hook. Qed.

Ltac only_step :=
  match goal with
  | |- only _ (bind _ _) => apply only_bind
  | |- only _ (record_release _) => apply only_storage_no_hook, record_release_storage
  | |- only _ (storage_create _ _) => apply only_storage_no_hook, storage_create_storage
  | |- only _ (purge _) => apply only_storage_no_hook, purge_storage
  | |- only _ (supersede_all _) => apply only_storage_no_hook, supersede_all_storage
  | |- only _ (perform _) => apply only_perform; exact I
  | |- only _ (Ret _) => exact I
  | |- only _ (if ?c then _ else _) => destruct c
  | |- only _ (match ?x with _ => _ end) => destruct x
  | |- forall _, _ => intro
  end.

Lemma run_hooks_disabled_only m fl rl ev : f_no_hooks fl = true -> only (no_hook_eff m) (run_hooks fl rl ev).
Proof. unfold run_hooks. intros ->. exact I. Qed.

Lemma uninstall_no_hooks m fl : f_no_hooks fl = true -> only (no_hook_eff m) (uninstall fl).
Proof.
  intros Hn. unfold uninstall.
  repeat first [apply run_hooks_disabled_only; assumption | only_step].
Qed.

Lemma rollback_no_hooks rn ns m fl : f_no_hooks fl = true -> only (no_hook_eff m) (rollback rn ns fl).
Proof.
  intros Hn. unfold rollback.
  repeat first [apply run_hooks_disabled_only; assumption | only_step].
Qed.

Lemma install_no_hooks rn ns fl cid vid mani hks :
  f_no_hooks fl = true -> only (no_hook_eff (Some (stamp_all rn ns mani))) (install rn ns fl cid vid mani hks).
Proof.
  intros Hn. unfold install, install_fail.
  repeat first [apply run_hooks_disabled_only; assumption
               | apply uninstall_no_hooks; assumption
               | apply only_perform; reflexivity
               | only_step].
Qed.

Lemma upgrade_no_hooks rn ns fl cid vid mani hks :
  f_no_hooks fl = true -> only (no_hook_eff None) (upgrade rn ns fl cid vid mani hks).
Proof.
  intros Hn. unfold upgrade, upgrade_fail.
  repeat first [apply run_hooks_disabled_only; assumption
               | apply rollback_no_hooks; assumption
               | only_step].
Qed.

Definition op_manifest_create (rn ns : string) (o : op) : option (list res) :=
  match o with OpInstall _ _ _ mani _ => Some (stamp_all rn ns mani) | _ => None end.

Theorem no_hooks_op rn ns o tr out :
  f_no_hooks (op_flags o) = true ->
  exec (op_prog rn ns o) tr out ->
  Forall (fun x => no_hook_eff (op_manifest_create rn ns o) (eff_of x)) tr.
Proof.
  intros Hn H. eapply only_exec; [|exact H].
  destruct o; simpl in *.
  - now apply install_no_hooks.
  - now apply upgrade_no_hooks.
  - now apply rollback_no_hooks.
  - now apply uninstall_no_hooks.
Qed.

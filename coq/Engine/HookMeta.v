(* C12 — from the ANNOTATION STRINGS of a hook document to the hook record the engine runs.

   The parsing itself is C08's transcription of manifestFile.sort
   (pkg/release/util/manifest_sorter.go:143-236, Text/Classify.v): [classify] with
     hook_weight        = calculateHookWeight  (strconv.Atoi, any error -> 0; a missing annotation
                          is Atoi("") -> 0),
     parse_events       = the loop over strings.Split(hookTypes, ",") with ToLower(TrimSpace(..))
                          and the [events] table (Gen/Events.v, regenerated from /repo); one
                          unknown token drops the whole document (CDropped),
     annotation_values  = operateAnnotationValues for helm.sh/hook-delete-policy and
                          helm.sh/hook-output-log-policy: EVERY token is kept, known or not.
   Here: a hook document is a [res] whose flattened fields carry its annotations ("a:<key>"),
   exactly the object that is later created in the cluster; [doc_hook] runs C08's [classify] on
   it, [engine_hook] turns the parsed release.Hook into the record of Engine/Types.v that
   [exec_hook] sorts and runs, and [hooks_of_docs] does it for a rendered chart.

   hooks.go decides deletions with hookHasDeletePolicy over the parsed STRINGS
   ([real_has_policy]); the engine model has the three known policies only.  The two agree
   whenever the delete-policy annotation is absent or names at least one known policy
   (HookMetaProofs.engine_hook_has_policy); an annotation made of unknown tokens only (also the
   empty string) switches the default before-hook-creation off, which the three-constructor type
   cannot say ([policy_expressible]; witness HookMetaProofs.unknown_only_not_expressible). *)
From Coq Require Import List String Ascii Bool Arith ZArith.
From Helm Require Import Common.Assoc Engine.Types Engine.Eff Engine.Ops Gen.Events.
From Helm Require Text.Split Text.Classify.
Import ListNotations.
Local Open Scope string_scope.

(* ---- annotations of a flattened resource ------------------------------------- *)

(* "a:<key>" -> Some <key> *)
Definition ann_key (k : string) : option string :=
  match k with
  | String c1 (String c2 r) => if (Ascii.eqb c1 "a" && Ascii.eqb c2 ":")%bool then Some r else None
  | _ => None
  end.

Fixpoint ann_of_fields (f : fields) : list (string * string) :=
  match f with
  | [] => []
  | (k, v) :: t => match ann_key k with Some a => (a, v) :: ann_of_fields t | None => ann_of_fields t end
  end.

Definition ann_of (r : res) : list (string * string) := ann_of_fields (r_fields r).

(* the SimpleHead of the document: sigs.k8s.io/yaml decoding is the identity on what the
   harness renders (kind, metadata.name, metadata.annotations) *)
Definition head_of_res (r : res) : Classify.head :=
  Classify.mkHead "v1" (r_kind r) (Some (r_name r, ann_of r)).

(* one iteration of manifestFile.sort on the document *)
Definition doc_class (r : res) : Classify.cls :=
  Classify.classify (fun _ => Some (head_of_res r)) "" "".

(* the release.Hook of the document, if it is one *)
Definition doc_hook (r : res) : option Classify.hook :=
  match doc_class r with Classify.CHook h => Some h | _ => None end.

(* the weight as the code reads it from the annotation strings of the document *)
Definition weight_of (s : string) : Z := match Classify.atoi_z s with Some z => z | None => 0%Z end.
Definition doc_weight (r : res) : Z := Classify.hook_weight (ann_of r).

(* ---- to the engine's hook record ---------------------------------------------- *)

Definition all_events : list event :=
  [PreInstall; PostInstall; PreDelete; PostDelete; PreUpgrade; PostUpgrade; PreRollback; PostRollback; TestHook].
Definition all_policies : list policy := [BeforeHookCreation; HookSucceeded; HookFailed].

Definition policy_str (p : policy) : string :=
  match p with
  | BeforeHookCreation => "before-hook-creation" | HookSucceeded => "hook-succeeded" | HookFailed => "hook-failed"
  end.

Definition event_of_string (s : string) : option event := find (fun e => String.eqb (event_str e) s) all_events.
Definition policy_of_string (s : string) : option policy := find (fun p => String.eqb (policy_str p) s) all_policies.

Fixpoint keep_some {A B} (f : A -> option B) (l : list A) : list B :=
  match l with
  | [] => []
  | x :: t => match f x with Some y => y :: keep_some f t | None => keep_some f t end
  end.

Definition engine_hook (r : res) (h : Classify.hook) : hook :=
  mkHook r (keep_some event_of_string (Classify.hk_events h)) (Classify.hk_weight h)
         (keep_some policy_of_string (Classify.hk_delete h)).

Definition hook_of_doc (r : res) : list hook :=
  match doc_hook r with Some h => [engine_hook r h] | None => [] end.

(* the hooks of a rendered chart, documents given in the (kind-sorted) order SortManifests
   returns them *)
Definition hooks_of_docs (docs : list res) : list hook := flat_map hook_of_doc docs.

(* ---- hooks.go over the parsed strings ------------------------------------------ *)

(* execHook: `if len(h.DeletePolicies) == 0 { h.DeletePolicies = [before-hook-creation] }`,
   then hookHasDeletePolicy *)
Definition real_effective (del : list string) : list string :=
  match del with [] => [policy_str BeforeHookCreation] | l => l end.
Definition real_has_policy (del : list string) (p : policy) : bool :=
  existsb (String.eqb (policy_str p)) (real_effective del).

(* what the three-constructor policy type can express *)
Definition policy_expressible (del : list string) : bool :=
  match del with [] => true | _ => existsb (fun s => match policy_of_string s with Some _ => true | None => false end) del end.

(* outputLogsByPolicy (hooks.go:207-224): whether the logs of the hook's pods are fetched for
   the policy ("hook-succeeded" after every hook of the event succeeded, "hook-failed" after
   the hook's own failure), and with which list selector *)
Inductive log_sel := LogByLabel (sel : string) | LogByField (sel : string).

Definition hook_has_output_log_policy (log : list string) (p : string) : bool :=
  existsb (String.eqb p) log.                                   (* slices.Contains *)

Definition output_logs_by_policy (kind name : string) (log : list string) (p : string) : option log_sel :=
  if hook_has_output_log_policy log p then
    if String.eqb kind "Job" then Some (LogByLabel ("job-name=" ++ name))
    else if String.eqb kind "Pod" then Some (LogByField ("metadata.name=" ++ name))
    else None
  else None.

Definition doc_log_fetch (r : res) (p : string) : option log_sel :=
  match doc_hook r with
  | Some h => output_logs_by_policy (r_kind r) (r_name r) (Classify.hk_outlog h) p
  | None => None
  end.

(* ---- the log fetches of execHook, interleaved with its watches (hooks.go:96-131) ---- *)
(* observable events: a hook watch with its outcome, a GetPodList with its selector, an
   OutputContainerLogsForPodList *)
Inductive lev := LWatch (key : string) (ok : bool) | LFetch (sel : log_sel) | LOut.

Definition hook_log_fetch (h : hook) (p : string) : list lev :=
  match doc_log_fetch (h_res h) p with Some s => [LFetch s; LOut] | None => [] end.

(* one execHook call over its sorted hooks [hs], given the outcomes [ws] of the watches still to
   come in the operation: its events, the outcomes left, and whether every hook completed.
   A failed watch is followed by outputLogsByPolicy(h, hook-failed); when all hooks succeeded, the
   final loop runs outputLogsByPolicy(h, hook-succeeded) from the last hook to the first.  No watch
   left (or the watch of another resource) = the deletion before creation or the creation failed
   and execHook returned. *)
Fixpoint phase_levs (hs done : list hook) (ws : list (string * bool)) : list lev * list (string * bool) * bool :=
  match hs with
  | [] => (flat_map (fun h => hook_log_fetch h "hook-succeeded") (List.rev done), ws, true)
  | h :: t =>
      match ws with
      | [] => ([], [], false)
      | (k, ok) :: ws' =>
          if negb (String.eqb k (rkey (h_res h))) then ([], ws, false)
          else if ok then
            let '(l, r, c) := phase_levs t (done ++ [h])%list ws' in (LWatch k true :: l, r, c)
          else ((LWatch k false :: hook_log_fetch h "hook-failed")%list, ws', false)
      end
  end.

(* a non-atomic install / upgrade with hooks enabled: the pre-event hooks, then (only if they all
   completed) the post-event hooks *)
Definition op_levs (hs : list hook) (pre post : event) (ws : list (string * bool)) : list lev :=
  let '(l1, r, c) := phase_levs (Ops.sort_hooks (Ops.hooks_for pre hs)) [] ws in
  if c then (l1 ++ fst (fst (phase_levs (Ops.sort_hooks (Ops.hooks_for post hs)) [] r)))%list else l1.

(* C07 — proofs, part 2: what one cluster call can delete (pkg/kube/client.go as modelled in
   Engine/Cluster.v): Create deletes nothing, Update deletes only keys of the ORIGINAL list
   that are not in the target, Delete only keys of its argument. *)
From Coq Require Import List String Bool Arith ZArith Lia.
From Helm Require Import Common.Assoc Engine.Types Engine.Eff Engine.Ops Engine.Cluster Engine.Seq
                         Engine.DryRun Engine.Ownership.
Import ListNotations.
Local Open Scope string_scope.

Lemma mut_deletes_app a b : mut_deletes (a ++ b) = (mut_deletes a ++ mut_deletes b)%list.
Proof. unfold mut_deletes. apply flat_map_app. Qed.

Lemma trace_deletes_app a b : trace_deletes (a ++ b) = (trace_deletes a ++ trace_deletes b)%list.
Proof. unfold trace_deletes. apply flat_map_app. Qed.

Section Calls.
  Variable rn ns : string.

  Lemma k_create_deletes rs : forall k ok muts,
    mut_deletes (snd (k_create k rs ok muts)) = mut_deletes muts.
  Proof.
    induction rs as [|r t IH]; intros k ok muts; simpl; auto.
    destruct (fault_hits k VCreate (rkey r)); [apply IH|].
    destruct (amem (rkey r) (objs k)); [apply IH|].
    rewrite IH, mut_deletes_app. simpl. now rewrite app_nil_r.
  Qed.

  Lemma k_update_targets_deletes tgt : forall k cur created pe muts,
    mut_deletes (snd (k_update_targets k cur tgt created pe muts)) = mut_deletes muts.
  Proof.
    induction tgt as [|r t IH]; intros k cur created pe muts; simpl; auto.
    destruct (fault_hits k VGet (rkey r)); simpl; auto.
    destruct (aget (rkey r) (objs k)) as [live|].
    - destruct (find_res (rkey r) cur) as [o|]; simpl; auto.
      destruct (patch_needed (r_fields o) (r_fields r) live).
      + destruct (fault_hits k VPatch (rkey r)); [apply IH|].
        rewrite IH.
        destruct (fields_eqb (three_way (r_fields o) (r_fields r) live) live); auto.
        rewrite mut_deletes_app. simpl. now rewrite app_nil_r.
      + apply IH.
    - destruct (fault_hits k VCreate (rkey r)); simpl; auto.
      rewrite IH, mut_deletes_app. simpl. now rewrite app_nil_r.
  Qed.

  Lemma k_update_targets_created tgt : forall k cur created pe muts,
    incl (keys created) (keys tgt ++ keys created) ->
    forall K0, incl (keys created) K0 -> incl (keys tgt) K0 ->
    incl (keys (snd (fst (k_update_targets k cur tgt created pe muts)))) K0.
  Proof.
    induction tgt as [|r t IH]; intros k cur created pe muts _ K0 Hc Ht; simpl; auto.
    assert (Hr : In (rkey r) K0) by (apply Ht; now left).
    assert (Ht' : incl (keys t) K0) by (intros x Hx; apply Ht; now right).
    assert (Hc' : incl (keys (created ++ [r])) K0).
    { unfold keys. rewrite map_app. simpl. intros x Hx. apply in_app_iff in Hx.
      destruct Hx as [Hx|[<-|[]]]; auto. }
    destruct (fault_hits k VGet (rkey r)); simpl; auto.
    destruct (aget (rkey r) (objs k)) as [live|].
    - destruct (find_res (rkey r) cur) as [o|]; simpl; auto.
      destruct (patch_needed (r_fields o) (r_fields r) live).
      + destruct (fault_hits k VPatch (rkey r)); apply IH; auto; apply incl_appr, incl_refl.
      + apply IH; auto. apply incl_appr, incl_refl.
    - destruct (fault_hits k VCreate (rkey r)); simpl; auto.
      apply IH; auto. apply incl_appr, incl_refl.
  Qed.

  Lemma k_update_deletes_deletes dels : forall k muts,
    incl (mut_deletes (snd (k_update_deletes k dels muts))) (mut_deletes muts ++ keys dels).
  Proof.
    induction dels as [|r t IH]; intros k muts; simpl.
    - rewrite app_nil_r. apply incl_refl.
    - assert (Hstep : forall k' , incl (mut_deletes (snd (k_update_deletes k' t muts))) (mut_deletes muts ++ rkey r :: keys t)).
      { intros k'. eapply incl_tran; [apply IH|]. intros x Hx. apply in_app_iff in Hx. apply in_app_iff.
        destruct Hx; [now left|right; now right]. }
      destruct (fault_hits k VGet (rkey r)); [apply Hstep|].
      destruct (aget (rkey r) (objs k)) as [live|]; [|apply Hstep].
      destruct (live_keep live); [apply Hstep|].
      destruct (fault_hits k VDelete (rkey r)); [apply Hstep|].
      eapply incl_tran; [apply IH|]. rewrite mut_deletes_app. simpl.
      intros x Hx. apply in_app_iff in Hx. apply in_app_iff.
      destruct Hx as [Hx|Hx].
      + apply in_app_iff in Hx. destruct Hx as [Hx|[<-|[]]]; [now left|right; now left].
      + right. now right.
  Qed.

  (* Client.update: deletes are confined to the ORIGINAL resources absent from the target;
     Result.Created is a sub-list of the target *)
  Lemma k_update_deletes_confined k cur tgt :
    incl (mut_deletes (snd (k_update k cur tgt)))
         (keys (filter (fun o => negb (in_keys (rkey o) tgt)) cur)).
  Proof.
    unfold k_update.
    pose proof (k_update_targets_deletes tgt k cur [] false []) as Ht.
    destruct (k_update_targets k cur tgt [] false []) as [[[[k1 hard] pe] created] muts] eqn:E.
    simpl in Ht.
    destruct (hard || pe); simpl.
    - rewrite Ht. simpl. apply incl_nil_l.
    - pose proof (k_update_deletes_deletes (filter (fun o => negb (in_keys (rkey o) tgt)) cur) k1 muts) as Hd.
      destruct (k_update_deletes k1 (filter (fun o => negb (in_keys (rkey o) tgt)) cur) muts) as [k2 muts2].
      simpl in *. rewrite Ht in Hd. exact Hd.
  Qed.

  Lemma k_update_deletes_in_cur k cur tgt :
    incl (mut_deletes (snd (k_update k cur tgt))) (keys cur).
  Proof.
    eapply incl_tran; [apply k_update_deletes_confined|].
    unfold keys. intros x Hx. apply in_map_iff in Hx. destruct Hx as [r [<- Hr]].
    apply filter_In in Hr. apply in_map. tauto.
  Qed.

  Lemma k_update_created_in_tgt k cur tgt :
    incl (keys (snd (snd (fst (k_update k cur tgt))))) (keys tgt).
  Proof.
    unfold k_update.
    pose proof (k_update_targets_created tgt k cur [] false [] (incl_nil_l _) (keys tgt) (incl_nil_l _) (incl_refl _)) as Hc.
    destruct (k_update_targets k cur tgt [] false []) as [[[[k1 hard] pe] created] muts] eqn:E.
    simpl in Hc.
    destruct (hard || pe); simpl; auto.
    destruct (k_update_deletes k1 (filter (fun o => negb (in_keys (rkey o) tgt)) cur) muts). simpl. auto.
  Qed.

  (* rdelete: only keys of the argument *)
  Lemma k_delete_deletes rs : forall k ok muts,
    incl (mut_deletes (snd (k_delete k rs ok muts))) (mut_deletes muts ++ keys rs).
  Proof.
    induction rs as [|r t IH]; intros k ok muts; simpl.
    - rewrite app_nil_r. apply incl_refl.
    - assert (Hstep : forall k' ok', incl (mut_deletes (snd (k_delete k' t ok' muts))) (mut_deletes muts ++ rkey r :: keys t)).
      { intros k' ok'. eapply incl_tran; [apply IH|]. intros x Hx. apply in_app_iff in Hx. apply in_app_iff.
        destruct Hx; [now left|right; now right]. }
      destruct (fault_hits k VDelete (rkey r)); [apply Hstep|].
      destruct (amem (rkey r) (objs k)); [|apply Hstep].
      eapply incl_tran; [apply IH|]. rewrite mut_deletes_app. simpl.
      intros x Hx. apply in_app_iff in Hx. apply in_app_iff.
      destruct Hx as [Hx|Hx].
      + apply in_app_iff in Hx. destruct Hx as [Hx|[<-|[]]]; [now left|right; now left].
      + right. now right.
  Qed.

  (* existingResourceConflict / requireAdoption return a sub-list of their argument *)
  Lemma k_existing_sublist rs : forall k take acc l K0,
    snd (k_existing rn ns k rs take acc) = Some l ->
    incl (keys acc) K0 -> incl (keys rs) K0 -> incl (keys l) K0.
  Proof.
    induction rs as [|r t IH]; intros k take acc l K0; simpl.
    - intros H. inversion H; subst. auto.
    - intros H Ha Hr.
      assert (Hr1 : In (rkey r) K0) by (apply Hr; now left).
      assert (Ht : incl (keys t) K0) by (intros x Hx; apply Hr; now right).
      destruct (fault_hits k VGet (rkey r)); [discriminate|].
      destruct (aget (rkey r) (objs k)) as [live|].
      + destruct (take || owned_by rn ns live); [|discriminate].
        eapply IH; eauto. unfold keys. rewrite map_app. simpl.
        intros x Hx. apply in_app_iff in Hx. destruct Hx as [Hx|[<-|[]]]; auto.
      + eapply IH; eauto.
  Qed.

  (* the log of one handler call: its deletes are confined as above *)
  Lemma kube_handle_deletes (e : eff) (k : kstate) (A : list string) :
    (match e with
     | KDelete rs => incl (keys rs) A
     | KUpdate cur _ => incl (keys cur) A
     | _ => True
     end) ->
    incl (trace_deletes (map TKube (snd (kube_handle rn ns e k)))) A.
  Proof.
    destruct e; simpl; intros H; try apply incl_nil_l.
    - destruct (k_existing rn ns k rs take []). simpl. apply incl_nil_l.
    - destruct rs as [|r t]; [simpl; apply incl_nil_l|]. cbv beta iota.
      pose proof (k_create_deletes (r :: t) k true []) as Hc.
      destruct (k_create k (r :: t) true []) as [[k' ok] muts]. cbn [snd map trace_deletes flat_map] in *.
      rewrite app_nil_r, Hc. apply incl_nil_l.
    - pose proof (k_update_deletes_in_cur k cur tgt) as Hu.
      destruct (k_update k cur tgt) as [[k' r] muts]. simpl in *. rewrite app_nil_r.
      eapply incl_tran; eauto.
    - destruct rs as [|r t]; [simpl; apply incl_nil_l|]. cbv beta iota.
      pose proof (k_delete_deletes (r :: t) k true []) as Hd.
      destruct (k_delete k (r :: t) true []) as [[k' ok] muts]. cbn [snd map trace_deletes flat_map mut_deletes app] in *.
      rewrite app_nil_r. eapply incl_tran; eauto.
    - destruct (waitfail k); simpl; apply incl_nil_l.
    - destruct (hfault k) as [[n c]|]; simpl; [|apply incl_nil_l].
      destruct (String.eqb n (h_name h)); [destruct c|]; simpl; apply incl_nil_l.
  Qed.
End Calls.

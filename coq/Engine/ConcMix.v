(* C09, round 4 — (a) the harness's start rule is a schedule ([run_started_is_run]); (b) the pending
   check of the model's upgrade does not depend on ANY flag; (c) MIXES: a rollback or an uninstall
   running beside the install / upgrade operations.  What still holds for every schedule and any
   number of operations (unique creator of every revision, distinct revisions at quiescence,
   inert losers — also for a rollback —) and what does not (at most one deployed revision: an
   explicit rollback never looks at the pending status; an uninstall overwrites the pending record
   with "uninstalling", which is not a pending status). *)
From Coq Require Import List String Bool Arith ZArith Lia.
From Helm Require Import Common.Assoc Engine.Types Engine.Eff Engine.Ops Engine.OpsFix Engine.Cluster Engine.Seq Engine.SeqProofs
                         Engine.Conc Engine.ConcStart Engine.ConcProofs Engine.ConcLocal Engine.ConcLocalFix Engine.ConcProofsB
                         Engine.ConcRG Engine.ConcC09.
Import ListNotations.
Local Open Scope string_scope.
Local Open Scope prog_scope.

(* ------------------------------------------------------------------ *)
(* (a) launching every operation up to its first gate, then the gate schedule, is [run] on an
   expanded schedule: every theorem stated for ALL schedules covers what the correspondence run
   evaluates *)
Section StartIsRun.
  Variable K : Type.
  Variable kh : forall e : eff, K -> K * resp e * list kev.
  Variable dresp : forall e : eff, resp e.
  Variable A : Type.

  Lemma prestart_as_sched is : forall ts s,
    exists pre, prestart K kh dresp A is ts s = run_sched K kh dresp A pre ts s.
  Proof.
    induction is as [|i t IH]; intros ts s; simpl.
    - exists []. reflexivity.
    - destruct (nth_error ts i) as [p|] eqn:E; [|apply IH].
      destruct (drain_ungated_as_sched K kh dresp A i p ts s E) as [n Hn]. rewrite Hn.
      destruct (run_sched K kh dresp A (repeat i n) ts s) as [ts' s'] eqn:R.
      destruct (IH ts' s') as [pre Hp]. exists (repeat i n ++ pre)%list.
      rewrite run_sched_app, R. simpl. exact Hp.
  Qed.

  Theorem run_started_is_run ts sch s :
    exists sch', run_started K kh dresp A ts sch s = run K kh dresp A ts sch' s.
  Proof.
    unfold run_started.
    destruct (prestart_as_sched (seq 0 (List.length ts)) ts s) as [pre Hp]. rewrite Hp.
    destruct (run_sched K kh dresp A pre ts s) as [ts0 s0] eqn:R.
    destruct (run_gated_is_run K kh dresp A ts0 sch s0) as [sch' H]. exists (pre ++ sch')%list.
    rewrite H. unfold Conc.run. rewrite run_sched_app, R. reflexivity.
  Qed.
End StartIsRun.

(* ------------------------------------------------------------------ *)
(* (b) the lock path of upgrade: whatever the flags (there is no flag in the model that could
   switch the check off — in particular none for --force), the first effect is the history read
   and a pending last revision ends the operation at once with "another operation is in
   progress".  The Go condition is tied to [is_pending (st last)] for all values of all option
   fields by the decision translator (notes/DEC.md, item "ret errPending" of
   Upgrade.prepareUpgrade). *)
Theorem upgrade_pending_check_all_flags rn ns fl cid vid mani hks :
  exists k, upgrade rn ns fl cid vid mani hks = Eff SHistory k
    /\ forall h last, max_rev_of h = Some last -> is_pending (st last) = true -> k h = Ret (OErr EPending).
Proof.
  unfold upgrade. simpl. eexists. split; [reflexivity|].
  intros h last Hl Hp. simpl. rewrite Hl, Hp. reflexivity.
Qed.

(* the same for the name check of install: only --dry-run (no check at all) and --replace (reuse of
   an uninstalled / failed name) matter *)
Theorem install_name_check_all_flags rn ns fl cid vid mani hks :
  f_dry_run fl = false ->
  exists k, install_fx rn ns fl cid vid mani hks = Eff SHistory k
    /\ forall h last, max_rev_of h = Some last ->
         f_replace fl && (status_eqb (st last) SUninstalled || status_eqb (st last) SFailed) = false ->
         k h = Ret (OErr ENameInUse).
Proof.
  intros Hd. unfold install_fx. rewrite Hd. simpl. eexists. split; [reflexivity|].
  intros h last Hl Hr. simpl. rewrite Hl. simpl. rewrite Hr. reflexivity.
Qed.

(* ------------------------------------------------------------------ *)
(* (c) mixes *)

(* uninstall --keep-history (and a dry run) never deletes a stored revision *)
Lemma nd_uninstall fl :
  f_keep_history fl = true \/ f_dry_run fl = true -> all_eff not_delete (uninstall fl).
Proof.
  intros H. unfold uninstall. destruct (f_dry_run fl) eqn:Hd.
  - nd_auto.
  - destruct H as [H|H]; [|discriminate]. rewrite H. nd_auto.
Qed.

(* rollback: no cluster mutation before its own successful create; a refused create ends it with
   the already-exists error *)
Theorem rollback_inert rn ns fl : inert (fun o => o = OErr EExistsRev) (rollback rn ns fl).
Proof.
  unfold rollback. simpl. split; [reflexivity|]. intros h.
  destruct (max_rev_of h) as [cur|]; simpl; auto.
  split; [reflexivity|]. intros h2.
  match goal with |- context [if negb ?b then _ else _] => destruct b end; simpl; auto.
  split; [reflexivity|]. intros p. destruct p as [pr|]; simpl; auto.
  destruct (f_dry_run fl); simpl; auto.
  eapply inert_bind; [apply inert_storage_create| |].
  - intros a ->. eauto.
  - intros e He. destruct e; simpl; auto. congruence.
Qed.

Section Mix.
  Variable K : Type.
  Variable kh : forall e : eff, K -> K * resp e * list kev.
  Variable dresp : forall e : eff, resp e.
  Variable rn ns : string.

  (* operations that never delete a stored revision: also rollback without history pruning and
     uninstall --keep-history *)
  Definition no_delete_mix (o : op) : Prop :=
    match o with
    | OpInstall fl _ _ _ _ => f_atomic fl = false
    | OpUpgrade fl _ _ _ _ => f_max_history fl = 0
    | OpRollback fl => f_max_history fl = 0
    | OpUninstall fl => f_keep_history fl = true \/ f_dry_run fl = true
    end.

  Lemma no_delete_mix_prog o : no_delete_mix o -> all_eff not_delete (op_prog_fx rn ns o).
  Proof.
    destruct o; simpl; intros H.
    - now apply install_fx_no_delete.
    - now apply upgrade_no_delete.
    - now apply nd_rollback.
    - now apply nd_uninstall.
  Qed.

  Theorem mix_unique_creator (ops : list op) (sch : list nat) (l0 : list release) (k : K) :
    Forall no_delete_mix ops -> NoDup (revs l0) ->
    let res := run K kh dresp outcome (map (op_prog_fx rn ns) ops) sch (mkC l0 k []) in
    let tr := c_tr (snd res) in
    NoDup (created_revs tr)
    /\ (forall v, In v (revs (c_led (snd res))) -> ~ In v (revs l0) -> exists i, creators_of v tr = [i])
    /\ (forall v, In v (created_revs tr) -> ~ In v (revs l0) /\ In v (revs (c_led (snd res)))).
  Proof.
    intros HF H0 res tr.
    assert (HF' : Forall (all_eff not_delete) (map (op_prog_fx rn ns) ops)).
    { rewrite Forall_forall in *. intros p Hp. apply in_map_iff in Hp. destruct Hp as [o [<- Ho]].
      apply no_delete_mix_prog. auto. }
    destruct (run_unique_creator K kh dresp outcome l0 _ sch k HF' H0) as [G1 [G2 G3]].
    fold res in G1, G2, G3. fold tr in G1, G2, G3.
    split; [exact G1|]. split.
    - intros v Hv Hn. apply G2 in Hv. destruct Hv as [Hv|Hv]; [contradiction|].
      now apply creators_of_unique.
    - intros v Hv. split; [now apply G3|]. apply G2. now right.
  Qed.

  (* the inert-loser statement covers a rollback as well (an uninstall creates nothing and deletes
     the release's resources by design) *)
  Definition creating_op (o : op) : Prop := match o with OpUninstall _ => False | _ => True end.

  Theorem mix_losers_are_inert (ts : list (prog outcome)) (sch : list nat) (l : list release) (k : K) (i : nat) (o : op) :
    nth_error ts i = Some (op_prog_fx rn ns o) -> creating_op o ->
    let res := run K kh dresp outcome ts sch (mkC l k []) in
    let tr := c_tr (snd res) in
    mutations_guarded false (thread_events i tr) = true
    /\ (thread_created i tr = false ->
        thread_mutated i tr = false
        /\ (thread_refused i tr = true ->
            nth_error (outcomes outcome (fst res)) i = Some (Some (OErr EExistsRev)))).
  Proof.
    intros Hn Ho res tr.
    assert (Hi : inert (fun x => x = OErr EExistsRev) (op_prog_fx rn ns o)).
    { destruct o; simpl in *; try contradiction; [apply install_fx_inert|apply upgrade_inert|apply rollback_inert]. }
    destruct (run_losers_inert K kh dresp _ ts sch l k i _ Hn Hi) as [G1 G2].
    fold res in G1, G2. fold tr in G1, G2. split; [exact G1|].
    intros Hc. destruct (G2 Hc) as [M R]. split; [exact M|].
    intros Hr. destruct (R Hr) as [x [Hx ->]]. exact Hx.
  Qed.
End Mix.

(* ---- what does NOT survive a mix: at most one deployed revision ---- *)

(* an explicit rollback (to the previous revision) racing an upgrade, NO cluster fault: the upgrade
   creates revision 3 (pending-upgrade); Rollback never looks at the pending status of the last
   revision: it creates revision 4, supersedes what is deployed and records 4 deployed; the upgrade
   then records 3 deployed.  The mechanism of K-C09-2 without --atomic and without a fault. *)
Definition x_rb_ops := [OpRollback x_fl0; OpUpgrade x_fl0 5 5 [x_cm "a" "v5"] []].
Definition x_rb_sched := ([1; 1; 1] ++ repeat 0 16)%list.

Lemma mix_rollback_refuted :
  let res := x_run x_rb_ops x_rb_sched x_dep (k0 x_objs) in
  outcomes outcome (fst res) = [Some OOk; Some OOk]
  /\ map (fun r => (rev r, st r)) (c_led (snd res)) = [(1, SSuperseded); (2, SSuperseded); (3, SDeployed); (4, SDeployed)]
  /\ creations (c_tr (snd res)) = [(1, 3); (0, 4)].
Proof. vm_compute. repeat split; reflexivity. Qed.

(* two upgrades and an uninstall --keep-history: the first upgrade creates revision 3 (pending); the
   uninstall reads it as the last revision, marks IT "uninstalling" — not a pending status, so the
   lock is gone — and finishes (3: uninstalled); the second upgrade now passes the pending check and
   creates revision 4; both upgrades finish: 3 and 4 deployed. *)
Definition x_flK := mkFlags false false true false 0 false false false false 0.
Definition x_un_ops :=
  [OpUpgrade x_fl0 5 5 [x_cm "a" "v5"] []; OpUpgrade x_fl0 6 6 [x_cm "b" "v6"] []; OpUninstall x_flK].
Definition x_un_sched := ([0; 0; 0] ++ repeat 2 6 ++ [1; 1; 1; 1])%list.

Lemma mix_uninstall_refuted :
  let res := x_run x_un_ops x_un_sched x_dep (k0 x_objs) in
  outcomes outcome (fst res) = [Some OOk; Some OOk; Some OOk]
  /\ map (fun r => (rev r, st r)) (c_led (snd res)) = [(1, SSuperseded); (2, SSuperseded); (3, SDeployed); (4, SDeployed)]
  /\ creations (c_tr (snd res)) = [(0, 3); (1, 4)].
Proof. vm_compute. repeat split; reflexivity. Qed.

(* "uninstalling" is not a pending status: an upgrade that starts while an uninstall is in flight is
   not answered "another operation is in progress"; here the uninstall has taken the deployed
   revision, so the upgrade finds nothing deployed and stops without creating or mutating *)
Lemma mix_uninstalling_not_pending :
  is_pending SUninstalling = false
  /\ let res := x_run [OpUninstall x_flK; OpUpgrade x_fl0 6 6 [x_cm "b" "v6"] []] [0; 0; 1; 1; 1] x_dep (k0 x_objs) in
     outcomes outcome (fst res) = [Some OOk; Some (OErr ENoDeployed)]
     /\ thread_created 1 (c_tr (snd res)) = false /\ thread_mutated 1 (c_tr (snd res)) = false.
Proof. vm_compute. repeat split; reflexivity. Qed.

(* non-vacuity of the mixed unique-creator theorem: the operations above meet its hypothesis *)
Lemma x_mix_hyps : Forall no_delete_mix x_rb_ops /\ Forall no_delete_mix x_un_ops.
Proof. split; repeat constructor. Qed.

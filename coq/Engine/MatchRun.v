(* C02 — generic facts about running effect programs over the object-store cluster:
   [run] distributes over [bind]; a program whose cluster mutations name only keys in [P]
   (its footprint) leaves every other object alone, under EVERY fault plan; requests are never
   rejected once no fault is pending; without a crash point the process stays alive. *)
From Coq Require Import List String Bool Arith.
From Helm Require Import Common.Assoc Engine.Types Engine.Eff Engine.Ops Engine.Cluster Engine.Seq.
From Helm Require Import Engine.MatchDefs Engine.MatchUpdate.
Import ListNotations.

(* ------------------------------------------------------------------ *)
(* frame and fault-freedom of the handlers, for every pending fault     *)

Lemma k_existing_objs rn ns : forall rs k take acc k' r,
  k_existing rn ns k rs take acc = (k', r) -> objs k' = objs k /\ (nofault k -> k' = k).
Proof.
  induction rs as [|x t IH]; intros k take acc k' r H; simpl in H.
  - inversion H; subst. auto.
  - destruct (fault_hits k VGet (rkey x)) eqn:F.
    + inversion H; subst. split; auto. intros Hn. rewrite fault_hits_nofault in F by assumption. discriminate.
    + destruct (aget (rkey x) (objs k)) as [live|].
      * destruct (take || owned_by rn ns live).
        -- eapply IH; eauto.
        -- inversion H; subst. auto.
      * eapply IH; eauto.
Qed.

Lemma k_create_frame : forall rs k ok muts k' ok' muts' key,
  k_create k rs ok muts = (k', ok', muts') -> in_keys key rs = false ->
  aget key (objs k') = aget key (objs k).
Proof.
  induction rs as [|r t IH]; intros k ok muts k' ok' muts' key H Hk; simpl in H.
  - now inversion H.
  - rewrite in_keys_cons in Hk. apply orb_false_iff in Hk. destruct Hk as [Hne Hk].
    destruct (fault_hits k VCreate (rkey r)).
    + now rewrite (IH _ _ _ _ _ _ _ H Hk).
    + destruct (amem (rkey r) (objs k)).
      * now apply (IH _ _ _ _ _ _ _ H Hk).
      * rewrite (IH _ _ _ _ _ _ _ H Hk). simpl. apply aget_aset_neq.
        intros E. rewrite E, String.eqb_refl in Hne. discriminate.
Qed.

Lemma k_delete_frame : forall rs k ok muts k' ok' muts' key,
  k_delete k rs ok muts = (k', ok', muts') -> in_keys key rs = false ->
  aget key (objs k') = aget key (objs k).
Proof.
  induction rs as [|r t IH]; intros k ok muts k' ok' muts' key H Hk; simpl in H.
  - now inversion H.
  - rewrite in_keys_cons in Hk. apply orb_false_iff in Hk. destruct Hk as [Hne Hk].
    destruct (fault_hits k VDelete (rkey r)).
    + now rewrite (IH _ _ _ _ _ _ _ H Hk).
    + destruct (amem (rkey r) (objs k)).
      * rewrite (IH _ _ _ _ _ _ _ H Hk). simpl. apply aget_adel_neq.
        intros E. rewrite E, String.eqb_refl in Hne. discriminate.
      * now apply (IH _ _ _ _ _ _ _ H Hk).
Qed.

Lemma k_update_targets_frame : forall tgt k cur created pe muts k1 hard pe' created' muts' key,
  k_update_targets k cur tgt created pe muts = (k1, hard, pe', created', muts') ->
  in_keys key tgt = false -> aget key (objs k1) = aget key (objs k).
Proof.
  induction tgt as [|r t IH]; intros k cur created pe muts k1 hard pe' created' muts' key H Hk; simpl in H.
  - now inversion H.
  - rewrite in_keys_cons in Hk. apply orb_false_iff in Hk. destruct Hk as [Hne Hk].
    assert (Hneq : rkey r <> key) by (intros E; rewrite E, String.eqb_refl in Hne; discriminate).
    destruct (fault_hits k VGet (rkey r)); [now inversion H|].
    destruct (aget (rkey r) (objs k)) as [live|].
    + destruct (find_res (rkey r) cur) as [old|]; [|now inversion H].
      destruct (patch_needed (r_fields old) (r_fields r) live).
      * destruct (fault_hits k VPatch (rkey r)).
        -- now rewrite (IH _ _ _ _ _ _ _ _ _ _ _ H Hk).
        -- rewrite (IH _ _ _ _ _ _ _ _ _ _ _ H Hk). simpl. now apply aget_aset_neq.
      * now apply (IH _ _ _ _ _ _ _ _ _ _ _ H Hk).
    + destruct (fault_hits k VCreate (rkey r)); [now inversion H|].
      rewrite (IH _ _ _ _ _ _ _ _ _ _ _ H Hk). simpl. now apply aget_aset_neq.
Qed.

Lemma k_update_deletes_frame : forall dels k muts k2 muts2 key,
  k_update_deletes k dels muts = (k2, muts2) -> in_keys key dels = false ->
  aget key (objs k2) = aget key (objs k).
Proof.
  induction dels as [|r t IH]; intros k muts k2 muts2 key H Hk; simpl in H.
  - now inversion H.
  - rewrite in_keys_cons in Hk. apply orb_false_iff in Hk. destruct Hk as [Hne Hk].
    assert (Hneq : rkey r <> key) by (intros E; rewrite E, String.eqb_refl in Hne; discriminate).
    destruct (fault_hits k VGet (rkey r)); [now rewrite (IH _ _ _ _ _ H Hk)|].
    destruct (aget (rkey r) (objs k)) as [live|]; [|now apply (IH _ _ _ _ _ H Hk)].
    destruct (live_keep live); [now apply (IH _ _ _ _ _ H Hk)|].
    destruct (fault_hits k VDelete (rkey r)); [now rewrite (IH _ _ _ _ _ H Hk)|].
    rewrite (IH _ _ _ _ _ H Hk). simpl. now apply aget_adel_neq.
Qed.

Lemma k_update_frame k cur tgt k' r muts key :
  k_update k cur tgt = (k', r, muts) -> in_keys key cur = false -> in_keys key tgt = false ->
  aget key (objs k') = aget key (objs k).
Proof.
  unfold k_update. intros H Hc Ht.
  destruct (k_update_targets k cur tgt [] false []) as [[[[k1 hard] pe] cr] m1] eqn:T.
  pose proof (k_update_targets_frame _ _ _ _ _ _ _ _ _ _ _ key T Ht) as F1.
  destruct (hard || pe).
  - inversion H; subst. exact F1.
  - destruct (k_update_deletes k1 _ m1) as [k2 m2] eqn:D.
    inversion H; subst. rewrite <- F1.
    eapply k_update_deletes_frame; eauto.
    fold (removed cur tgt). rewrite in_keys_removed, Hc. reflexivity.
Qed.

(* the keys a cluster effect may create, change or delete *)
Definition eff_in (P : string -> Prop) (e : eff) : Prop :=
  match e with
  | KCreate rs | KDelete rs => forall r, In r rs -> P (rkey r)
  | KUpdate cur tgt => forall r, In r (cur ++ tgt)%list -> P (rkey r)
  | _ => True
  end.

Lemma not_P_not_in (P : string -> Prop) rs key :
  (forall r, In r rs -> P (rkey r)) -> ~ P key -> in_keys key rs = false.
Proof.
  intros H Hn. apply in_keys_false_iff. intros Hin. apply in_map_iff in Hin.
  destruct Hin as [r [<- Hin]]. auto.
Qed.

Lemma kube_handle_frame rn ns (P : string -> Prop) e k key :
  eff_in P e -> ~ P key ->
  aget key (objs (fst (fst (kube_handle rn ns e k)))) = aget key (objs k).
Proof.
  intros He Hn. destruct e; simpl in *; auto.
  - destruct (k_existing rn ns k rs take []) as [k' r] eqn:E. simpl.
    apply k_existing_objs in E. now rewrite (proj1 E).
  - destruct rs as [|x t]; auto.
    destruct (k_create k (x :: t) true []) as [[k' ok] m] eqn:E. simpl.
    eapply k_create_frame; eauto. eapply not_P_not_in; eauto.
  - destruct (k_update k cur tgt) as [[k' r] m] eqn:E. simpl.
    eapply k_update_frame; eauto; eapply not_P_not_in; eauto; intros r0 Hin; apply He; apply in_or_app; auto.
  - destruct rs as [|x t]; auto.
    destruct (k_delete k (x :: t) true []) as [[k' ok] m] eqn:E. simpl.
    eapply k_delete_frame; eauto. eapply not_P_not_in; eauto.
  - now destruct (waitfail k).
  - destruct (hfault k) as [[n cnt]|]; auto.
    destruct (String.eqb n (h_name h)); auto. now destruct cnt.
Qed.

(* once no request fault is pending none appears *)
Lemma k_create_keeps_nofault : forall rs k ok muts k' ok' muts',
  nofault k -> k_create k rs ok muts = (k', ok', muts') -> nofault k'.
Proof. intros. eapply k_create_nofault; eauto. Qed.

Lemma kube_handle_nofault rn ns e k : nofault k -> nofault (fst (fst (kube_handle rn ns e k))).
Proof.
  intros Hn. destruct e; simpl; auto.
  - destruct (k_existing rn ns k rs take []) as [k' r] eqn:E. simpl.
    apply k_existing_objs in E. now rewrite (proj2 E Hn).
  - destruct rs as [|x t]; auto.
    destruct (k_create k (x :: t) true []) as [[k' ok] m] eqn:E. simpl.
    eapply k_create_nofault; eauto.
  - destruct (k_update k cur tgt) as [[k' [ok cr]] m] eqn:E. simpl.
    eapply k_update_nofault; eauto.
  - destruct rs as [|x t]; auto.
    destruct (k_delete k (x :: t) true []) as [[k' ok] m] eqn:E. simpl.
    eapply k_delete_nofault; eauto.
  - now destruct (waitfail k).
  - destruct (hfault k) as [[n cnt]|]; auto.
    destruct (String.eqb n (h_name h)); auto. now destruct cnt.
Qed.

(* ------------------------------------------------------------------ *)
(* the interpreter over the object-store cluster                        *)

Section RunStore.
  Variable rn ns : string.

  Notation rstate := (rstate kstate).
  Notation stepS := (step kstate (kube_handle rn ns) dead_resp).
  Notation runS := (run kstate (kube_handle rn ns) dead_resp).

  Lemma run_bind {A B} f (p : prog A) (q : A -> prog B) : forall s : rstate,
    runS f (bind p q) s = let '(s', a) := runS f p s in runS f (q a) s'.
  Proof.
    induction p as [a|e k IH]; intros s; simpl; auto.
    destruct (stepS f e s) as [s' r]. apply IH.
  Qed.

  Lemma run_perform f e (s : rstate) : runS f (perform e) s = stepS f e s.
  Proof. simpl. now destruct (stepS f e s). Qed.

  (* one step: the object map changes only through the handler, and only while alive *)
  Lemma step_objs f e (s : rstate) :
    ks (fst (stepS f e s)) = ks s \/
    (is_cluster_call e = true /\ ks (fst (stepS f e s)) = fst (fst (kube_handle rn ns e (ks s)))).
  Proof.
    unfold step.
    destruct (negb (dead s) && (is_storage_write e || is_cluster_mutation e) && eq_opt (crash f) (nmut s)).
    - cbn [dead led ks].
      destruct (is_storage_write e || is_cluster_call e); simpl; auto.
      destruct (storage_apply dead_resp e (led s)) as [[? ?] ?]. simpl. auto.
    - destruct (dead s).
      + destruct (is_storage_write e || is_cluster_call e); simpl; auto.
        destruct (storage_apply dead_resp e (led s)) as [[? ?] ?]. simpl. auto.
      + destruct (is_cluster_call e) eqn:C.
        * destruct (kube_handle rn ns e (ks s)) as [[k' r] evs]. simpl. auto.
        * destruct (is_storage_write e).
          -- destruct (eq_opt (wfail f) (nwrites s)); simpl; auto.
             destruct (storage_apply dead_resp e (led s)) as [[? ?] ?]. simpl. auto.
          -- destruct (storage_apply dead_resp e (led s)) as [[? ?] ?]. simpl. auto.
  Qed.

  Lemma step_frame f (P : string -> Prop) e (s : rstate) key :
    eff_in P e -> ~ P key ->
    aget key (objs (ks (fst (stepS f e s)))) = aget key (objs (ks s)).
  Proof.
    intros He Hn. destruct (step_objs f e s) as [->|[_ ->]]; auto.
    now apply kube_handle_frame with (P := P).
  Qed.

  Lemma step_nofault f e (s : rstate) : nofault (ks s) -> nofault (ks (fst (stepS f e s))).
  Proof.
    intros Hn. destruct (step_objs f e s) as [->|[_ ->]]; auto.
    now apply kube_handle_nofault.
  Qed.

  (* footprint: every cluster mutation the program can issue, whatever it is answered, names keys in P *)
  Inductive fp {A} (P : string -> Prop) : prog A -> Prop :=
  | fp_ret a : fp P (Ret a)
  | fp_eff e k : eff_in P e -> (forall r, fp P (k r)) -> fp P (Eff e k).

  Lemma fp_bind {A B} P (p : prog A) (q : A -> prog B) :
    fp P p -> (forall a, fp P (q a)) -> fp P (bind p q).
  Proof.
    intros Hp Hq. induction Hp as [a|e k He Hk IH]; simpl; auto.
    constructor; auto.
  Qed.

  Lemma fp_perform P e : eff_in P e -> fp P (perform e).
  Proof. intros H. constructor; auto. intros r. constructor. Qed.

  Lemma fp_weaken {A} (P Q : string -> Prop) (p : prog A) :
    (forall k, P k -> Q k) -> fp P p -> fp Q p.
  Proof.
    intros HPQ Hp. induction Hp as [a|e k He Hk IH]; constructor; auto.
    destruct e; simpl in *; auto.
  Qed.

  Theorem run_fp_frame {A} f (P : string -> Prop) (p : prog A) :
    fp P p -> forall (s : rstate) key, ~ P key ->
    aget key (objs (ks (fst (runS f p s)))) = aget key (objs (ks s)).
  Proof.
    intros Hp. induction Hp as [a|e k He Hk IH]; intros s key Hn; simpl; auto.
    destruct (stepS f e s) as [s' r] eqn:E.
    rewrite IH by assumption.
    replace s' with (fst (stepS f e s)) by (now rewrite E).
    now apply step_frame with (P := P).
  Qed.

  Theorem run_nofault {A} f (p : prog A) : forall s : rstate,
    nofault (ks s) -> nofault (ks (fst (runS f p s))).
  Proof.
    induction p as [a|e k IH]; intros s Hn; simpl; auto.
    destruct (stepS f e s) as [s' r] eqn:E. apply IH.
    replace s' with (fst (stepS f e s)) by (now rewrite E). now apply step_nofault.
  Qed.

  (* ---- no storage fault, no crash point ---- *)
  Definition nf : sfaults := mkSF None None.

  Lemma step_nf (e : eff) (s : rstate) :
    dead s = false ->
    stepS nf e s =
      if is_cluster_call e then
        let '(k', r, evs) := kube_handle rn ns e (ks s) in
        (mkR (led s) k' (nwrites s)
             (if is_storage_write e || is_cluster_mutation e then S (nmut s) else nmut s) false
             (tr s ++ map TKube evs)%list, r)
      else if is_storage_write e then
        let '(l', r, evs) := storage_apply dead_resp e (led s) in
        (mkR l' (ks s) (S (nwrites s)) (S (nmut s)) false (tr s ++ evs)%list, r)
      else let '(_, r, _) := storage_apply dead_resp e (led s) in (s, r).
  Proof.
    intros Hd. unfold step. simpl. rewrite andb_false_r, Hd. reflexivity.
  Qed.

  Lemma step_nf_alive e (s : rstate) : dead s = false -> dead (fst (stepS nf e s)) = false.
  Proof.
    intros Hd. rewrite step_nf by assumption.
    destruct (is_cluster_call e).
    - now destruct (kube_handle rn ns e (ks s)) as [[? ?] ?].
    - destruct (is_storage_write e); destruct (storage_apply dead_resp e (led s)) as [[? ?] ?]; auto.
  Qed.

  Theorem run_nf_alive {A} (p : prog A) : forall s : rstate,
    dead s = false -> dead (fst (runS nf p s)) = false.
  Proof.
    induction p as [a|e k IH]; intros s Hd; simpl; auto.
    destruct (stepS nf e s) as [s' r] eqn:E. apply IH.
    replace s' with (fst (stepS nf e s)) by (now rewrite E). now apply step_nf_alive.
  Qed.

  (* a read of the whole history answers the ledger and changes nothing *)
  Lemma step_nf_history (s : rstate) : dead s = false -> stepS nf SHistory s = (s, led s).
  Proof. intros Hd. now rewrite step_nf. Qed.

  Lemma step_nf_deployed (s : rstate) :
    dead s = false -> stepS nf SDeployedAll s = (s, filter (fun r => status_eqb (st r) SDeployed) (led s)).
  Proof. intros Hd. now rewrite step_nf. Qed.

  (* a cluster call: only the cluster state, the counter and the trace move *)
  Lemma step_nf_cluster e (s : rstate) :
    dead s = false -> is_cluster_call e = true ->
    exists s', stepS nf e s = (s', snd (fst (kube_handle rn ns e (ks s)))) /\
               ks s' = fst (fst (kube_handle rn ns e (ks s))) /\ led s' = led s /\ dead s' = false.
  Proof.
    intros Hd Hc. rewrite step_nf by assumption. rewrite Hc.
    destruct (kube_handle rn ns e (ks s)) as [[k' r] evs]. simpl. eexists. split; [reflexivity|]. auto.
  Qed.

  Ltac fp_perf := match goal with |- fp ?P (perform ?e) => apply (fp_perform P e) end.

  (* ---- footprints of the storage-only sub-programs: empty ---- *)
  Lemma fp_record_release P r : fp P (record_release r).
  Proof. unfold record_release. apply fp_bind; [fp_perf; exact I|]. intros. constructor. Qed.

  Lemma fp_delete_all P : forall vs, fp P (delete_all vs).
  Proof.
    induction vs as [|v t IH]; cbn [delete_all]; [constructor|].
    apply fp_bind; [fp_perf; exact I|]. intros e.
    apply fp_bind; auto. intros rest. destruct e; constructor.
  Qed.

  Lemma fp_storage_create P r n : fp P (storage_create r n).
  Proof.
    destruct n as [|m]; cbn [storage_create]; [fp_perf; exact I|].
    apply fp_bind.
    - unfold remove_least_recent. apply fp_bind; [fp_perf; exact I|]. intros h.
      destruct h as [|x t]; [constructor|].
      destruct (Nat.leb (List.length (x :: t)) m); [constructor|].
      apply fp_bind; [fp_perf; exact I|]. intros ds.
      apply fp_bind; [apply fp_delete_all|]. intros r0.
      destruct (fst r0) as [|[|?]]; constructor.
    - intros e. destruct e; first [fp_perf; exact I|constructor].
  Qed.

  Lemma fp_purge P : forall vs, fp P (purge vs).
  Proof.
    induction vs as [|v t IH]; cbn [purge]; [constructor|].
    apply fp_bind; [fp_perf; exact I|]. intros e. destruct e; auto; constructor.
  Qed.

  Lemma fp_supersede_all P : forall ds, fp P (supersede_all ds).
  Proof.
    induction ds as [|d t IH]; cbn [supersede_all]; [constructor|].
    apply fp_bind; [apply fp_record_release|]. auto.
  Qed.

  (* ---- hooks touch hook objects only ---- *)
  Definition hook_key (hs : list hook) (key : string) : Prop :=
    exists h, In h hs /\ rkey (h_res h) = key.

  Lemma fp_delete_hook_by_policy (P : string -> Prop) h p : P (rkey (h_res h)) -> fp P (delete_hook_by_policy h p).
  Proof.
    intros Hp. unfold delete_hook_by_policy.
    destruct (String.eqb (h_kind h) "CustomResourceDefinition"); [constructor|].
    destruct (has_policy h p); [|constructor].
    apply fp_bind.
    - fp_perf. simpl. intros r [<-|[]]. exact Hp.
    - intros ok. destruct ok; [fp_perf; exact I|constructor].
  Qed.

  Lemma fp_delete_hooks_by_policy (P : string -> Prop) p : forall hs,
    (forall h, In h hs -> P (rkey (h_res h))) -> fp P (delete_hooks_by_policy hs p).
  Proof.
    induction hs as [|h t IH]; intros H; cbn [delete_hooks_by_policy]; [constructor|].
    apply fp_bind; [apply fp_delete_hook_by_policy; apply H; now left|].
    intros ok. destruct ok; [|constructor]. apply IH. intros x Hx. apply H. now right.
  Qed.

  Lemma fp_exec_hooks_loop (P : string -> Prop) rl ev : forall todo done,
    (forall h, In h todo -> P (rkey (h_res h))) -> (forall h, In h done -> P (rkey (h_res h))) ->
    fp P (exec_hooks_loop rl ev todo done).
  Proof.
    induction todo as [|h t IH]; intros done Ht Hd; cbn [exec_hooks_loop].
    - apply fp_delete_hooks_by_policy. intros x Hx. apply Hd. now apply in_rev.
    - assert (Hh : P (rkey (h_res h))) by (apply Ht; now left).
      apply fp_bind; [now apply fp_delete_hook_by_policy|]. intros ok.
      destruct (negb ok); [constructor|].
      apply fp_bind; [apply fp_record_release|]. intros _.
      apply fp_bind; [fp_perf; simpl; intros r [<-|[]]; exact Hh|]. intros created.
      destruct (negb created); [constructor|].
      apply fp_bind; [fp_perf; exact I|]. intros ready.
      destruct ready.
      + apply IH.
        * intros x Hx. apply Ht. now right.
        * intros x Hx. apply in_app_or in Hx. destruct Hx as [Hx|[<-|[]]]; auto.
      + apply fp_bind; [now apply fp_delete_hook_by_policy|]. intros _.
        apply fp_bind; [now apply fp_delete_hooks_by_policy|]. intros _. constructor.
  Qed.

  Lemma In_hook_insert x h l : In x (hook_insert h l) -> x = h \/ In x l.
  Proof.
    induction l as [|y t IH]; simpl.
    - intros [<-|[]]. now left.
    - destruct (hook_less y h); simpl.
      + intros [<-|H]; [right; now left|]. destruct (IH H); auto.
      + intros [<-|[<-|H]]; auto.
  Qed.

  Lemma In_sort_hooks x l : In x (sort_hooks l) -> In x l.
  Proof.
    induction l as [|h t IH]; simpl; auto.
    intros H. apply In_hook_insert in H. destruct H as [->|H]; auto.
  Qed.

  Lemma In_hooks_for x ev hs : In x (hooks_for ev hs) -> In x hs.
  Proof.
    unfold hooks_for. rewrite in_flat_map. intros [h [Hin Hx]].
    apply in_map_iff in Hx. destruct Hx as [_ [<- _]]. exact Hin.
  Qed.

  Lemma fp_run_hooks fl rl ev : fp (hook_key (hooks rl)) (run_hooks fl rl ev).
  Proof.
    unfold run_hooks. destruct (f_no_hooks fl); [constructor|].
    unfold exec_hook. apply fp_exec_hooks_loop; [|intros h []].
    intros h Hin. exists h. split; auto.
    apply In_sort_hooks in Hin. now apply In_hooks_for in Hin.
  Qed.

  (* with hooks disabled the program is empty *)
  Lemma run_hooks_disabled fl rl ev f (s : rstate) :
    f_no_hooks fl = true -> runS f (run_hooks fl rl ev) s = (s, true).
  Proof. intros H. unfold run_hooks. now rewrite H. Qed.

  (* what the theorems need of a hook phase: alive, no fault pending, only hook objects touched
     (none at all when hooks are disabled), ledger-independent *)
  Definition hooks_touch (fl : flags) (hs : list hook) (key : string) : Prop :=
    f_no_hooks fl = false /\ hook_key hs key.

  Lemma run_hooks_frame fl rl ev f (s : rstate) key :
    ~ hooks_touch fl (hooks rl) key ->
    aget key (objs (ks (fst (runS f (run_hooks fl rl ev) s)))) = aget key (objs (ks s)).
  Proof.
    intros Hn. destruct (f_no_hooks fl) eqn:E.
    - now rewrite run_hooks_disabled.
    - apply run_fp_frame with (P := hook_key (hooks rl)); [apply fp_run_hooks|].
      intros Hk. apply Hn. split; auto.
  Qed.
End RunStore.

(* C03 (stretch) — the full semantics of a run without storage fault and crash under the
   object-store handler, as a relation on (ledger, cluster state): storage effects act on
   the ledger as the driver does, cluster calls act as kube_handle does. *)
From Coq Require Import List String Bool Arith ZArith Lia.
From Helm Require Import Common.Assoc Engine.Types Engine.Eff Engine.Ops Engine.Cluster Engine.Seq
  Engine.SeqProofs Engine.HooksProofsTrace Engine.HooksProofsGate Engine.ContainLedger Engine.ContainCluster.
Import ListNotations.
Local Open Scope prog_scope.

Section WRun.
  Variable rn ns : string.

  Notation sresp := (sresp dead_resp).
  Notation sled := (sled dead_resp).
  Notation kresp_of := (kresp_of rn ns).
  Notation kstate_of := (kstate_of rn ns).

  Inductive wrun {A : Type} : prog A -> list release -> kstate -> list release -> kstate -> A -> Prop :=
  | WRet a l k : wrun (Ret a) l k l k a
  | WSto e kk l k l' k' a : is_cluster_call e = false ->
                            wrun (kk (sresp e l)) (sled e l) k l' k' a -> wrun (Eff e kk) l k l' k' a
  | WClu e kk l k l' k' a : is_cluster_call e = true ->
                            wrun (kk (kresp_of e k)) l (kstate_of e k) l' k' a -> wrun (Eff e kk) l k l' k' a.

  Lemma wrun_inv {A} (p : prog A) l k l' k' a :
    wrun p l k l' k' a ->
    match p with
    | Ret a' => l' = l /\ k' = k /\ a = a'
    | Eff e kk =>
        (is_cluster_call e = false /\ wrun (kk (sresp e l)) (sled e l) k l' k' a)
        \/ (is_cluster_call e = true /\ wrun (kk (kresp_of e k)) l (kstate_of e k) l' k' a)
    end.
  Proof. intros H. destruct H; auto. Qed.

  Lemma wrun_ret_inv {A} (a b : A) l k l' k' : wrun (Ret a) l k l' k' b -> l' = l /\ k' = k /\ b = a.
  Proof. intros H. exact (wrun_inv _ _ _ _ _ _ H). Qed.

  Lemma wrun_storage_inv {A} e (kk : resp e -> prog A) l k l' k' a :
    is_cluster_call e = false -> wrun (Eff e kk) l k l' k' a -> wrun (kk (sresp e l)) (sled e l) k l' k' a.
  Proof. intros Hc H. apply wrun_inv in H. destruct H as [[_ H]|[Hc' _]]; [exact H|congruence]. Qed.

  Lemma wrun_cluster_inv {A} e (kk : resp e -> prog A) l k l' k' a :
    is_cluster_call e = true -> wrun (Eff e kk) l k l' k' a -> wrun (kk (kresp_of e k)) l (kstate_of e k) l' k' a.
  Proof. intros Hc H. apply wrun_inv in H. destruct H as [[Hc' _]|[_ H]]; [congruence|exact H]. Qed.

  Lemma wrun_bind_inv {A B} (p : prog A) (f : A -> prog B) :
    forall l k l' k' b, wrun (bind p f) l k l' k' b ->
      exists l1 k1 a, wrun p l k l1 k1 a /\ wrun (f a) l1 k1 l' k' b.
  Proof.
    induction p as [a|e kk IH]; simpl; intros l k l' k' b H.
    - exists l, k, a. split; auto. constructor.
    - apply wrun_inv in H. destruct H as [[Hc H]|[Hc H]].
      + apply IH in H. destruct H as (l1 & k1 & a & H1 & H2). exists l1, k1, a. split; auto. now apply WSto.
      + apply IH in H. destruct H as (l1 & k1 & a & H1 & H2). exists l1, k1, a. split; auto. now apply WClu.
  Qed.

  (* projections to the ledger-only and cluster-only abstractions *)
  Lemma wrun_lrun {A} (p : prog A) l k l' k' a : wrun p l k l' k' a -> @lrun dead_resp A p l l' a.
  Proof. intros H. induction H; [constructor|now apply LSto|eapply LClu; eauto]. Qed.

  Lemma wrun_krun {A} (p : prog A) l k l' k' a : wrun p l k l' k' a -> exists tr, krun rn ns p k k' a tr.
  Proof.
    intros H. induction H.
    - exists []. constructor.
    - destruct IHwrun as [tr Ht]. eexists. apply KSto; eauto.
    - destruct IHwrun as [tr Ht]. eexists. apply KClu; eauto.
  Qed.

  Lemma run_wrun {A} (p : prog A) :
    forall (s s' : rstate kstate) a,
      dead s = false -> run kstate (kube_handle rn ns) dead_resp nofault p s = (s', a) ->
      wrun p (led s) (ks s) (led s') (ks s') a /\ dead s' = false.
  Proof.
    induction p as [x|e kk IH]; intros s s' a Hd H; simpl in H.
    - inversion H; subst. split; auto. constructor.
    - destruct (step kstate (kube_handle rn ns) dead_resp nofault e s) as [s1 r] eqn:Es.
      unfold step in Es. simpl crash in Es. simpl wfail in Es. unfold eq_opt in Es.
      rewrite andb_false_r in Es. rewrite Hd in Es.
      destruct (is_cluster_call e) eqn:Hc.
      + destruct (kube_handle rn ns e (ks s)) as [[k1 r1] evs] eqn:Ek. inversion Es; subst. clear Es.
        eapply IH in H; [|reflexivity]. destruct H as [H Hd']. simpl in H. split; auto.
        apply WClu; auto. unfold ContainCluster.kresp_of, ContainCluster.kstate_of. rewrite Ek. exact H.
      + destruct (is_storage_write e) eqn:Hw.
        * destruct (storage_apply dead_resp e (led s)) as [[l1 r1] evs] eqn:Ea. inversion Es; subst. clear Es.
          eapply IH in H; [|reflexivity]. destruct H as [H Hd']. simpl in H. split; auto.
          apply WSto; auto. unfold ContainLedger.sresp, ContainLedger.sled. rewrite Ea. exact H.
        * destruct (storage_apply dead_resp e (led s)) as [[l1 r1] evs] eqn:Ea. inversion Es; subst. clear Es.
          eapply IH in H; [|exact Hd]. destruct H as [H Hd']. split; auto.
          apply WSto; auto. unfold ContainLedger.sresp, ContainLedger.sled. rewrite Ea. simpl.
          assert (l1 = led s1).
          { destruct e; simpl in *; try discriminate; inversion Ea; auto. }
          subst l1. exact H.
  Qed.
End WRun.

(* Decision translator — the Coq side of the table: for every site of the Go source
   (coq/Gen/ActionDecisions.v, in source order per function) the condition the MODEL tests at
   the corresponding branch of Engine/Ops.v, as a function of the same environment; and the
   programs of Engine/Ops.v written once more with every data condition replaced by the
   named condition applied to the environment of that program point ([*_d]).
   Engine/DecisionsOps.v proves each [*_d] equal to the original (pointwise for programs), so
   a named condition cannot drift away from what Ops.v does.  Definitions only.
   See notes/DEC.md. *)
From Coq Require Import List String Bool Arith ZArith.
From Helm Require Import Common.Assoc Engine.Types Engine.Eff Engine.Ops Engine.OpsFix Engine.Decisions.
Import ListNotations.
Local Open Scope string_scope.
Local Open Scope Z_scope.

(* ================================================================== *)
(* 1. the model's conditions, by Go function, in source order           *)

(* ---- pkg/action/install.go ---- *)

(* Install.RunWithContext: `!i.ClientOnly && !isUpgrade && len(resources) > 0` (isUpgrade is
   i.IsUpgrade && i.isDryRun()): ask the cluster which resources already exist *)
Definition c_inst_check (m : menv) : bool :=
  negb (m_flag m "ClientOnly") && negb (m_flag m "IsUpgrade" && m_flag m "DryRun") && (0 <? m_n m "len(Build)").

(* Install.performInstall: nothing to adopt and something to create -> Create; else
   something to create -> Update(toBeAdopted, resources) *)
Definition c_inst_create (m : menv) : bool := (m_n m "len(arg2)" =? 0) && (0 <? m_n m "len(arg3)").
Definition c_inst_update (m : menv) : bool := 0 <? m_n m "len(arg3)".

(* Install.availableName: no history -> the name is free *)
Definition c_avail_free (m : menv) : bool := m_err m "History" || (m_n m "len(History)" <? 1).
(* --replace and the newest revision is uninstalled or failed -> the name may be reused *)
Definition c_avail_replace (m : menv) : bool :=
  m_flag m "Replace" && (status_eqb (m_s m "revsorted(History)[0].status") SUninstalled
                         || status_eqb (m_s m "revsorted(History)[0].status") SFailed).

(* Install.replaceRelease *)
Definition c_repl_none (m : menv) : bool := m_err m "History" || (m_n m "len(History)" =? 0).
Definition c_repl_failed (m : menv) : bool := status_eqb (m_s m "revsorted(History)[0].status") SFailed.
Definition c_repl_pending (m : menv) : bool := is_pending (m_s m "revsorted(History)[0].status").

(* ---- pkg/action/upgrade.go ---- *)

(* Upgrade.prepareUpgrade *)
Definition c_up_pending (m : menv) : bool := is_pending (m_s m "Last.status").
Definition c_up_last_deployed (m : menv) : bool := status_eqb (m_s m "Last.status") SDeployed.
(* Deployed() answered "no deployed releases" and the newest revision is failed or
   superseded -> upgrade from the newest revision *)
Definition c_up_fallback (m : menv) : bool :=
  m_err m "Deployed is Is driver.ErrNoDeployedReleases"
  && (status_eqb (m_s m "Last.status") SFailed || status_eqb (m_s m "Last.status") SSuperseded).

(* Upgrade.failRelease *)
Definition c_fail_cleanup (m : menv) : bool := m_flag m "CleanupOnFail" && (0 <? m_n m "len(arg2)").
(* the filter closure: revisions that count as "previously successful" *)
Definition c_fail_good (m : menv) : bool :=
  status_eqb (m_s m "it.status") SSuperseded || status_eqb (m_s m "it.status") SDeployed.
Definition c_fail_none (m : menv) : bool := m_n m "len(filtered(NewHistory.Run))" =? 0.

(* ---- pkg/action/rollback.go ---- *)

(* Rollback.prepareRollback: version 0 = the revision before the newest one *)
Definition c_rb_default (m : menv) : bool := m_n m "opt.Version" =? 0.
Definition c_rb_same (m : menv) : bool := m_n m "previousVersion" =? m_n m "each(History).version".
Definition c_rb_missing (m : menv) : bool := negb (m_b m "previousVersionExist").

(* ---- pkg/action/uninstall.go ---- *)

Definition c_un_none (m : menv) : bool := m_n m "len(History)" <? 1.
Definition c_un_already (m : menv) : bool := status_eqb (m_s m "sorted(History)[last].status") SUninstalled.
(* Uninstall.deleteRelease: something left to delete after the keep filter *)
Definition c_un_delete (m : menv) : bool := 0 <? m_n m "len(Build)".

(* ---- pkg/action/hooks.go ---- *)

(* Configuration.execHook: the hook is registered for the event *)
Definition c_hook_event (m : menv) : bool := event_eqb (m_e m "arg2") (m_e m "each(each(arg1.hooks).events)").
(* no delete policy -> before-hook-creation *)
Definition c_hook_default (m : menv) : bool := m_n m "len(each(hookByWeight(executingHooks)).deletePolicies)" =? 0.
(* hookByWeight.Less *)
Definition c_hook_less (m : menv) : bool :=
  if m_n m "recv[arg1].weight" =? m_n m "recv[arg2].weight"
  then vstr_ltb (m_str m "recv[arg1].name") (m_str m "recv[arg2].name")
  else m_n m "recv[arg1].weight" <? m_n m "recv[arg2].weight".
(* Configuration.deleteHookByPolicy *)
Definition c_hook_crd (m : menv) : bool := vstr_eqb (m_str m "arg1.kind") "CustomResourceDefinition".
Definition c_hook_policy (m : menv) : bool := m_b m "hookHasDeletePolicy(arg1,arg2)".
Definition c_hook_delete_failed (m : menv) : bool := 0 <? m_n m "len(Delete)".
(* hookHasDeletePolicy: the loop body *)
Definition c_policy_match (m : menv) : bool := policy_eqb (m_p m "arg2") (m_p m "each(arg1.deletePolicies)").

(* ---- pkg/action/action.go ---- *)

(* Configuration.releaseContent: version <= 0 -> the newest revision *)
Definition c_content_last (m : menv) : bool := m_n m "arg2" <=? 0.

(* ---- pkg/action/resource_policy.go: filterManifestsToKeep ---- *)

Definition c_keep_absent (m : menv) : bool :=
  negb (m_b m "has(each(arg1).head.metadata.annotations[helm.sh/resource-policy])").
Definition c_keep_value (m : menv) : bool :=
  vstr_eqb (m_str m "ToLower(TrimSpace(each(arg1).head.metadata.annotations[helm.sh/resource-policy]))") "keep".

(* ---- pkg/action/validate.go: requireValue (the three tests of checkOwnership) ---- *)

Definition c_req_missing (m : menv) : bool := negb (m_b m "has(arg1[arg2])").
Definition c_req_differs (m : menv) : bool := negb (vstr_eqb (m_str m "arg1[arg2]") (m_str m "arg3")).

(* ---- pkg/storage/storage.go ---- *)

(* Storage.Create: a history limit is set *)
Definition c_create_limit (m : menv) : bool := 0 <? m_n m "MaxHistory".
(* Storage.Deployed: no deployed revision *)
Definition c_deployed_none (m : menv) : bool := m_n m "len(DeployedAll)" =? 0.
(* Storage.removeLeastRecent *)
Definition c_rlr_fits (m : menv) : bool := m_n m "len(History)" <=? m_n m "arg2".
Definition c_rlr_enough (m : menv) : bool := m_n m "len(sorted(History))" - m_n m "len(toDelete)" =? m_n m "arg2".
Definition c_rlr_has_deployed (m : menv) : bool := negb (m_nil m "Deployed").
Definition c_rlr_other (m : menv) : bool := negb (m_n m "each(sorted(History)).version" =? m_n m "Deployed.version").
Definition c_rlr_no_error (m : menv) : bool := m_n m "len(errs)" =? 0.
Definition c_rlr_one_error (m : menv) : bool := m_n m "len(errs)" =? 1.
(* Storage.Last: no revision at all *)
Definition c_last_none (m : menv) : bool := m_n m "len(History)" =? 0.

(* ---- pkg/release/v1/status.go, pkg/release/util/sorter.go ---- *)

Definition c_is_pending (m : menv) : bool := is_pending (m_s m "recv").
Definition c_rev_less (m : menv) : bool := m_n m "recv.list[arg1].version" <? m_n m "recv.list[arg2].version".

(* ================================================================== *)
(* 2. the table: one entry per site of coq/Gen/ActionDecisions.v, same order              *)

Definition sites : list (string * list site) :=
  [ ("Install.RunWithContext",
      [ Outside "crds" "the crds/ directory of a chart is not in the model (skeleton: Other installCRDs)";
        Outside "system-labels" "validation of user labels happens before the modelled part";
        Outside "output-dir" "rendering and --output-dir are abstracted: the model receives the rendered manifest";
        Modelled "existing-resources-check" c_inst_check ]);
    ("Install.performInstall",
      [ Modelled "create" c_inst_create;
        Modelled "update-adopted" c_inst_update ]);
    ("Install.failRelease", []);
    ("Install.availableName",
      [ Modelled "name-free" c_avail_free;
        Modelled "replace-allowed" c_avail_replace ]);
    ("Install.replaceRelease",
      [ Modelled "no-history" c_repl_none;
        Modelled "last-failed" c_repl_failed;
        Modelled "last-pending" c_repl_pending ]);
    ("Upgrade.RunWithContext", []);
    ("Upgrade.prepareUpgrade",
      [ Outside "chart-nil" "the chart argument is abstracted: the model receives the rendered manifest";
        Modelled "last-pending" c_up_pending;
        Modelled "last-deployed" c_up_last_deployed;
        Modelled "fallback-to-last" c_up_fallback;
        Outside "system-labels" "validation of user labels: outside the model";
        Outside "notes" "NOTES.txt rendering is abstracted" ]);
    ("Upgrade.performUpgrade",
      [ Outside "to-be-created" "membership of a resource in the current manifest is a map lookup; the model's filter (in_keys) is tied by the correspondence runs of C02/C12" ]);
    ("Upgrade.releasingUpgrade", []);
    ("Upgrade.failRelease",
      [ Modelled "cleanup" c_fail_cleanup;
        Modelled "previously-successful" c_fail_good;
        Modelled "none-successful" c_fail_none ]);
    ("Rollback.Run",
      [ Outside "still-pending" "the model resolves this test statically: the paths on which the target is still pending-rollback (failed hooks) end in fail_pending, the other failure paths record the failure themselves" ]);
    ("Rollback.prepareRollback",
      [ Outside "negative-version" "the model's target version is a natural number";
        Modelled "default-version" c_rb_default;
        Modelled "version-found" c_rb_same;
        Modelled "version-missing" c_rb_missing ]);
    ("Rollback.performRollback", []);
    ("Uninstall.Run",
      [ Modelled "no-history" c_un_none;
        Modelled "already-uninstalled" c_un_already;
        Outside "kept-text" "the text listing the kept resources is not in the model";
        Outside "errors-purge" "the accumulated error list: the model returns the conjunction of the three answers (wait, post-delete hooks, purge)";
        Outside "errors-keep" "as above (keep-history path)" ]);
    ("Uninstall.purgeReleases", []);
    ("Uninstall.deleteRelease",
      [ Modelled "something-to-delete" c_un_delete ]);
    ("Configuration.execHook",
      [ Modelled "event" c_hook_event;
        Modelled "default-policy" c_hook_default;
        Outside "reverse-loop" "loop counter of the reverse iteration over the executed hooks (model: List.rev)" ]);
    ("hookByWeight.Less",
      [ Modelled "less" c_hook_less ]);
    ("Configuration.deleteHookByPolicy",
      [ Modelled "crd" c_hook_crd;
        Modelled "has-policy" c_hook_policy;
        Modelled "delete-failed" c_hook_delete_failed ]);
    ("Configuration.deleteHooksByPolicy", []);
    ("hookHasDeletePolicy",
      [ Modelled "match" c_policy_match ]);
    ("Configuration.outputLogsByPolicy",
      [ Outside "log-policy" "hook log output is not in the model";
        Outside "job" "hook log output is not in the model";
        Outside "pod" "hook log output is not in the model" ]);
    ("Configuration.releaseContent",
      [ Modelled "newest" c_content_last ]);
    ("filterManifestsToKeep",
      [ Outside "no-annotations" "subsumed by the lookup below: without annotations the policy annotation is absent (the model's fields have no separate annotations map)";
        Modelled "annotation-absent" c_keep_absent;
        Modelled "keep" c_keep_value ]);
    ("requireValue",
      [ Modelled "missing" c_req_missing;
        Modelled "differs" c_req_differs ]);
    ("Storage.Create",
      [ Modelled "limit" c_create_limit ]);
    ("Storage.Deployed",
      [ Modelled "none" c_deployed_none ]);
    ("Storage.DeployedAll", []);
    ("Storage.removeLeastRecent",
      [ Outside "negative-max" "unreachable: Create passes MaxHistory-1 under MaxHistory > 0 (the model's limit is a natural number)";
        Modelled "fits" c_rlr_fits;
        Modelled "enough" c_rlr_enough;
        Modelled "has-deployed" c_rlr_has_deployed;
        Modelled "other-version" c_rlr_other;
        Modelled "no-error" c_rlr_no_error;
        Modelled "one-error" c_rlr_one_error ]);
    ("Storage.Last",
      [ Modelled "none" c_last_none ]);
    ("Status.IsPending",
      [ Modelled "pending" c_is_pending ]);
    ("ByRevision.Less",
      [ Modelled "less" c_rev_less ]) ].

(* ================================================================== *)
(* 3. the environment of a program point                                                  *)

Definition znat (n : nat) : Z := Z.of_nat n.

(* the answer of Storage.History / .Last: read errors are not in the model (an empty answer
   stands for "not found"), so the error is absent and the length decides *)
Definition env_hist (h : list release) : menv := set_n "len(History)" (zlen h) env0.
Definition env_flags (fl : flags) : menv := set_flags (flag_env fl) env0.

(* ================================================================== *)
(* 4. Engine/Ops.v once more, branching on the named conditions                             *)

Local Open Scope prog_scope.

(* ---- pure helpers ---- *)

(* sorter.go ByRevision.Less on two releases *)
Definition rev_less (a b : release) : bool :=
  c_rev_less (set_n "recv.list[arg1].version" (znat (rev a)) (set_n "recv.list[arg2].version" (znat (rev b)) env0)).

(* hooks.go *)
Definition hook_less_d (a b : hook) : bool :=
  c_hook_less (set_n "recv[arg1].weight" (h_weight a) (set_n "recv[arg2].weight" (h_weight b)
              (set_str "recv[arg1].name" (h_name a) (set_str "recv[arg2].name" (h_name b) env0)))).

Definition hooks_for_d (ev : event) (hs : list hook) : list hook :=
  flat_map (fun h => map (fun _ => h)
     (filter (fun e => c_hook_event (set_e "arg2" ev (set_e "each(each(arg1.hooks).events)" e env0))) (h_events h))) hs.

Definition effective_policies_d (h : hook) : list policy :=
  if c_hook_default (set_n "len(each(hookByWeight(executingHooks)).deletePolicies)" (zlen (h_policies h)) env0)
  then [BeforeHookCreation] else h_policies h.

Definition has_policy_d (h : hook) (p : policy) : bool :=
  existsb (fun v => c_policy_match (set_p "arg2" p (set_p "each(arg1.deletePolicies)" v env0))) (effective_policies h).

(* resource_policy.go *)
Definition manifest_keep_d (r : res) : bool :=
  let a := aget policy_key (r_fields r) in
  let m := set_b "has(each(arg1).head.metadata.annotations[helm.sh/resource-policy])"
                 (match a with Some _ => true | None => false end)
           (set_str "ToLower(TrimSpace(each(arg1).head.metadata.annotations[helm.sh/resource-policy]))"
                 (match a with Some v => to_lower (trim_space v) | None => "" end) env0) in
  if c_keep_absent m then false else c_keep_value m.

(* validate.go: requireValue(meta, k, v) = nil *)
Definition require_value_d (k v : string) (f : fields) : bool :=
  let a := aget k f in
  let m := set_b "has(arg1[arg2])" (match a with Some _ => true | None => false end)
           (set_str "arg1[arg2]" (match a with Some x => x | None => "" end) (set_str "arg3" v env0)) in
  if c_req_missing m then false else if c_req_differs m then false else true.

(* storage.go: the toDelete loop *)
Fixpoint prune_pick_d (h : list release) (deployed : option nat) (total maxkeep picked : nat) : list nat :=
  match h with
  | [] => []
  | r :: t =>
      if c_rlr_enough (set_n "len(sorted(History))" (znat total) (set_n "len(toDelete)" (znat picked)
                      (set_n "arg2" (znat maxkeep) env0)))
      then []
      else if c_rlr_has_deployed (set_nil "Deployed" (match deployed with Some _ => false | None => true end) env0)
      then if c_rlr_other (set_n "each(sorted(History)).version" (znat (rev r))
                          (set_n "Deployed.version" (match deployed with Some d => znat d | None => 0%Z end) env0))
           then rev r :: prune_pick_d t deployed total maxkeep (S picked)
           else prune_pick_d t deployed total maxkeep picked
      else rev r :: prune_pick_d t deployed total maxkeep (S picked)
  end.

(* ---- storage.Storage.Create ---- *)

Definition remove_least_recent_d (maxkeep : nat) : prog serr :=
  h <- perform SHistory ;;
  match h with
  | [] => Ret SNotFound
  | _ =>
      if c_rlr_fits (set_n "len(History)" (zlen h) (set_n "arg2" (znat maxkeep) env0)) then Ret SOk
      else
        ds <- perform SDeployedAll ;;
        let dep := if c_deployed_none (set_n "len(DeployedAll)" (zlen ds) env0) then None
                   else match max_rev_of ds with Some d => Some (rev d) | None => None end in
        let picks := prune_pick_d (sort_by_rev h) dep (List.length h) maxkeep 0 in
        r <- delete_all picks ;;
        let m := set_n "len(errs)" (znat (fst r)) env0 in
        if c_rlr_no_error m then Ret SOk
        else if c_rlr_one_error m then Ret (snd r)
        else Ret SFail
  end.

Definition storage_create_d (r : release) (max_history : nat) : prog serr :=
  if c_create_limit (set_n "MaxHistory" (znat max_history) env0) then
    e <- remove_least_recent (max_history - 1) ;;
    match e with
    | SOk | SNotFound => perform (SCreate r)
    | _ => Ret e
    end
  else perform (SCreate r).

(* ---- hooks.go ---- *)

Definition delete_hook_by_policy_d (h : hook) (p : policy) : prog bool :=
  if c_hook_crd (set_str "arg1.kind" (h_kind h) env0) then Ret true
  else if c_hook_policy (set_b "hookHasDeletePolicy(arg1,arg2)" (has_policy h p) env0) then
    ok <- perform (KDelete [h_res h]) ;;
    (* the model's answer of a delete: true = the error list is empty *)
    if c_hook_delete_failed (set_n "len(Delete)" (if ok then 0%Z else 1%Z) env0) then Ret false
    else perform (KWaitDelete [h_res h])
  else Ret true.

Section OpsD.
  Variable rn ns : string.

  (* ---- uninstall.go ---- *)
  Definition uninstall_d (fl : flags) : prog outcome :=
    if f_dry_run fl then
      (* cfg.releaseContent(name, 0) *)
      if c_content_last (set_n "arg2" 0%Z env0) then
        h <- perform SHistory ;;
        if c_last_none (env_hist h) then Ret (OErr ENotFoundRel) else Ret OOk
      else Ret OCrashed          (* releaseContent with a positive version: not called by the model *)
    else
    h <- perform SHistory ;;
    if c_un_none (env_hist h) then Ret (OErr ENotFoundRel) else
    match max_rev_of h with
    | None => Ret (OErr ENotFoundRel)
    | Some last =>
        let revs := map rev (sort_by_rev h) in
        if c_un_already (set_s "sorted(History)[last].status" (st last) env0) then
          if f_keep_history fl then Ret (OErr EOtherErr)
          else ok <- purge revs ;; Ret (if ok then OOk else OErr EOtherErr)
        else
          let rel := with_status last SUninstalling in
          pre <- run_hooks fl rel PreDelete ;;
          if negb pre then Ret (OErr EOtherErr) else
          record_release rel ;;;
          let todel := filter (fun r => negb (manifest_keep r)) (manifest rel) in
          delok <- (if c_un_delete (set_n "len(Build)" (zlen todel) env0)
                    then perform (KDelete todel) else Ret true) ;;
          if negb delok then Ret (OErr EOtherErr) else
          w <- perform (KWaitDelete todel) ;;
          post <- run_hooks fl rel PostDelete ;;
          let rel' := with_status rel SUninstalled in
          if f_keep_history fl then
            record_release rel' ;;;
            Ret (if w && post then OOk else OErr EOtherErr)
          else
            ok <- purge revs ;;
            Ret (if w && post && ok then OOk else OErr EOtherErr)
    end.

  (* ---- rollback.go ---- *)
  Definition rollback_d (fl : flags) : prog outcome :=
    h <- perform SHistory ;;
    if c_last_none (env_hist h) then Ret (OErr ENotFoundRel) else
    match max_rev_of h with
    | None => Ret (OErr ENotFoundRel)
    | Some cur =>
        let prev := if c_rb_default (set_n "opt.Version" (znat (f_version fl)) env0)
                    then (rev cur - 1)%nat else f_version fl in
        h2 <- perform SHistory ;;
        let found := existsb (fun r => c_rb_same (set_n "previousVersion" (znat prev)
                                                 (set_n "each(History).version" (znat (rev r)) env0))) h2 in
        if c_rb_missing (set_b "previousVersionExist" found env0) then Ret (OErr EOtherErr) else
        p <- perform (SGet prev) ;;
        match p with
        | None => Ret (OErr EOtherErr)
        | Some pr =>
            let tgt := mkRelease (S (rev cur)) SPendingRollback (chart_id pr) (config_id pr)
                                 (manifest pr) (hooks pr) in
            if f_dry_run fl then Ret OOk else
            e <- storage_create tgt (f_max_history fl) ;;
            match e with
            | SExists => Ret (OErr EExistsRev)
            | SNotFound | SFail => Ret (OErr EOtherErr)
            | SOk =>
                let fail_pending := record_release (with_status tgt SFailed) ;;; Ret (OErr EOtherErr) in
                pre <- run_hooks fl tgt PreRollback ;;
                if negb pre then fail_pending else
                u <- perform (KUpdate (manifest cur) (stamp_all rn ns (manifest tgt))) ;;
                if negb (fst u) then
                  record_release (with_status cur SSuperseded) ;;;
                  record_release (with_status tgt SFailed) ;;;
                  (if f_cleanup fl then _d <- perform (KDelete (snd u)) ;; Ret (OErr EOtherErr)
                   else Ret (OErr EOtherErr))
                else
                w <- perform (KWait (stamp_all rn ns (manifest tgt))) ;;
                if negb w then
                  record_release cur ;;;
                  record_release (with_status tgt SFailed) ;;;
                  Ret (OErr EOtherErr)
                else
                post <- run_hooks fl tgt PostRollback ;;
                if negb post then fail_pending else
                ds <- perform SDeployedAll ;;
                supersede_all ds ;;;
                e2 <- perform (SUpdate (with_status tgt SDeployed)) ;;
                match e2 with SOk => Ret OOk | _ => Ret (OErr EOtherErr) end
            end
        end
    end.

  (* ---- install.go ---- *)
  (* [fx]: with the repaired replaceRelease (OpsFix.install_fx); without, Ops.install *)
  Definition install_gen (fx : bool) (fl : flags) (cid vid : nat) (mani : list res) (hks : list hook) : prog outcome :=
    let dry := f_dry_run fl in
    (* availableName *)
    avail <- (if dry then Ret true
              else h <- perform SHistory ;;
                   if c_avail_free (env_hist h) then Ret true else
                   match max_rev_of h with
                   | None => Ret true
                   | Some last =>
                       Ret (c_avail_replace (set_s "revsorted(History)[0].status" (st last) (env_flags fl)))
                   end) ;;
    if negb avail then Ret (OErr ENameInUse) else
    let rel0 := mkRelease 1 SPendingInstall cid vid mani hks in
    let resources := stamp_all rn ns mani in
    adopt <- (if c_inst_check (set_n "len(Build)" (zlen resources) (env_flags fl))
              then perform (KExisting resources (f_take_ownership fl))
              else Ret (Some [])) ;;
    match adopt with
    | None => Ret (OErr EConflict)
    | Some adopted =>
        if dry then Ret OOk else
        (* replaceRelease *)
        rr <- (if f_replace fl then
                 h <- perform SHistory ;;
                 if c_repl_none (env_hist h) then Ret (ROk rel0) else
                 match max_rev_of h with
                 | None => Ret (ROk rel0)
                 | Some last =>
                     let rel1 := with_rev rel0 (S (rev last)) in
                     let m := set_s "revsorted(History)[0].status" (st last) env0 in
                     if c_repl_failed m then Ret (ROk rel1)
                     else if fx && c_repl_pending m then Ret (RErr EPending)
                     else e <- perform (SUpdate (with_status last SSuperseded)) ;;
                          match e with SOk => Ret (ROk rel1) | _ => Ret (RErr EOtherErr) end
                 end
               else Ret (ROk rel0)) ;;
        match rr with
        | RErr c => Ret (OErr c)
        | ROk rel =>
            e <- storage_create rel 0 ;;
            match e with
            | SExists => Ret (OErr EExistsRev)
            | SNotFound | SFail => Ret (OErr EOtherErr)
            | SOk =>
                pre <- run_hooks fl rel PreInstall ;;
                if negb pre then install_fail fl rel else
                let m := set_n "len(arg2)" (zlen adopted) (set_n "len(arg3)" (zlen resources) env0) in
                ok <- (if c_inst_create m then perform (KCreate resources)
                       else if c_inst_update m then u <- perform (KUpdate adopted resources) ;; Ret (fst u)
                       else Ret true) ;;
                if negb ok then install_fail fl rel else
                w <- perform (KWait resources) ;;
                if negb w then install_fail fl rel else
                post <- run_hooks fl rel PostInstall ;;
                if negb post then install_fail fl rel else
                record_release (with_status rel SDeployed) ;;; Ret OOk
            end
        end
    end.

  (* ---- upgrade.go ---- *)
  Definition upgrade_fail_d (fl : flags) (up : release) (created : list res) : prog outcome :=
    record_release (with_status up SFailed) ;;;
    cleaned <- (if c_fail_cleanup (set_n "len(arg2)" (zlen created) (env_flags fl))
                then perform (KDelete created) else Ret true) ;;
    if negb cleaned then Ret (OErr EOtherErr) else
    if f_atomic fl then
      h <- perform SHistory ;;
      let good := filter (fun r => c_fail_good (set_s "it.status" (st r) env0)) h in
      if c_fail_none (set_n "len(filtered(NewHistory.Run))" (zlen good) env0) then Ret (OErr EOtherErr) else
      match max_rev_of good with
      | None => Ret (OErr EOtherErr)
      | Some g =>
          _r <- rollback rn ns (mkFlags false false false false 0 (f_no_hooks fl) false false false (rev g)) ;;
          Ret (OErr EOtherErr)
      end
    else Ret (OErr EOtherErr).

  Definition upgrade_d (fl : flags) (cid vid : nat) (mani : list res) (hks : list hook) : prog outcome :=
    h <- perform SHistory ;;
    (* Releases.Last *)
    if c_last_none (env_hist h) then Ret (OErr ENoDeployed) else
    match max_rev_of h with
    | None => Ret (OErr ENoDeployed)
    | Some last =>
        let ml := set_s "Last.status" (st last) env0 in
        if c_up_pending ml then Ret (OErr EPending) else
        cur <- (if c_up_last_deployed ml then Ret (Some last)
                else ds <- perform SDeployedAll ;;
                     (* Releases.Deployed *)
                     if c_deployed_none (set_n "len(DeployedAll)" (zlen ds) env0)
                     then (if c_up_fallback (set_err "Deployed is Is driver.ErrNoDeployedReleases" true ml)
                           then Ret (Some last) else Ret None)
                     else Ret (max_rev_of ds)) ;;
        match cur with
        | None => Ret (OErr ENoDeployed)
        | Some current =>
            let up := mkRelease (S (rev last)) SPendingUpgrade cid vid mani hks in
            let target := stamp_all rn ns mani in
            let tobecreated := filter (fun r => negb (in_keys (rkey r) (manifest current))) target in
            adopt <- perform (KExisting tobecreated (f_take_ownership fl)) ;;
            match adopt with
            | None => Ret (OErr EConflict)
            | Some adopted =>
                let curres := (manifest current ++ adopted)%list in
                if f_dry_run fl then Ret OOk else
                e <- storage_create up (f_max_history fl) ;;
                match e with
                | SExists => Ret (OErr EExistsRev)
                | SNotFound | SFail => Ret (OErr EOtherErr)
                | SOk =>
                    pre <- run_hooks fl up PreUpgrade ;;
                    if negb pre then upgrade_fail rn ns fl up [] else
                    u <- perform (KUpdate curres target) ;;
                    if negb (fst u) then record_release current ;;; upgrade_fail rn ns fl up (snd u) else
                    w <- perform (KWait target) ;;
                    if negb w then record_release current ;;; upgrade_fail rn ns fl up (snd u) else
                    post <- run_hooks fl up PostUpgrade ;;
                    if negb post then upgrade_fail rn ns fl up (snd u) else
                    record_release (with_status current SSuperseded) ;;;
                    e2 <- perform (SUpdate (with_status up SDeployed)) ;;
                    match e2 with SOk => Ret OOk | _ => Ret (OErr EOtherErr) end
                end
            end
        end
    end.
End OpsD.

(* Decision translator — the Coq side of the table: (1) the conditions the MODEL tests at the
   branches of Engine/Ops.v, as functions of an environment; (2) for the guarded items of the
   Go functions (coq/Gen/ActionDecisions.v: returns, calls, appends, field assignments,
   predicates, each with its path condition) the path condition of the corresponding branch
   of the model, composed of those conditions, and the assumptions under which the model
   stands for the Go function; (3) the programs of Engine/Ops.v written once more with every
   data condition replaced by the named condition applied to the environment of that
   program point ([*_d]).
   Engine/DecisionsOps.v proves each [*_d] equal to the original (pointwise for programs), so
   a named condition cannot drift away from what Ops.v does.  Definitions only.
   See notes/DEC.md. *)
From Coq Require Import List String Bool Arith ZArith.
From Helm Require Import Common.Assoc Engine.Types Engine.Eff Engine.Ops Engine.OpsFix Engine.Decisions.
Import ListNotations.
Local Open Scope string_scope.
Local Open Scope Z_scope.

(* ================================================================== *)
(* 1. the model's conditions, by Go function, in source order           *)

(* ---- pkg/action/install.go ---- *)

(* Install.RunWithContext: `!i.ClientOnly && !isUpgrade && len(resources) > 0` (isUpgrade is
   i.IsUpgrade && i.isDryRun()): ask the cluster which resources already exist *)
Definition c_inst_check (m : menv) : bool :=
  negb (m_flag m "ClientOnly") && negb (m_flag m "IsUpgrade" && m_flag m "DryRun") && (0 <? m_n m "len(Build)").

(* Install.performInstall: nothing to adopt and something to create -> Create; else
   something to create -> Update(toBeAdopted, resources) *)
Definition c_inst_create (m : menv) : bool := (m_n m "len(arg2)" =? 0) && (0 <? m_n m "len(arg3)").
Definition c_inst_update (m : menv) : bool := 0 <? m_n m "len(arg3)".

(* Install.availableName: no history -> the name is free *)
Definition c_avail_free (m : menv) : bool := m_err m "History" || (m_n m "len(History)" <? 1).
(* --replace and the newest revision is uninstalled or failed -> the name may be reused *)
Definition c_avail_replace (m : menv) : bool :=
  m_flag m "Replace" && (status_eqb (m_s m "revsorted(History)[0].status") SUninstalled
                         || status_eqb (m_s m "revsorted(History)[0].status") SFailed).

(* Install.replaceRelease *)
Definition c_repl_none (m : menv) : bool := m_err m "History" || (m_n m "len(History)" =? 0).
Definition c_repl_failed (m : menv) : bool := status_eqb (m_s m "revsorted(History)[0].status") SFailed.
Definition c_repl_pending (m : menv) : bool := is_pending (m_s m "revsorted(History)[0].status").

(* ---- pkg/action/upgrade.go ---- *)

(* Upgrade.prepareUpgrade *)
Definition c_up_pending (m : menv) : bool := is_pending (m_s m "Last.status").
Definition c_up_last_deployed (m : menv) : bool := status_eqb (m_s m "Last.status") SDeployed.
(* Deployed() answered "no deployed releases" and the newest revision is failed or
   superseded -> upgrade from the newest revision *)
Definition c_up_fallback (m : menv) : bool :=
  m_err m "Deployed is Is driver.ErrNoDeployedReleases"
  && (status_eqb (m_s m "Last.status") SFailed || status_eqb (m_s m "Last.status") SSuperseded).

(* Upgrade.failRelease *)
Definition c_fail_cleanup (m : menv) : bool := m_flag m "CleanupOnFail" && (0 <? m_n m "len(arg2)").
(* the filter closure: revisions that count as "previously successful" *)
Definition c_fail_good (m : menv) : bool :=
  status_eqb (m_s m "it.status") SSuperseded || status_eqb (m_s m "it.status") SDeployed.
Definition c_fail_none (m : menv) : bool := m_n m "len(filtered(NewHistory.Run))" =? 0.

(* ---- pkg/action/rollback.go ---- *)

(* Rollback.prepareRollback: version 0 = the revision before the newest one *)
Definition c_rb_default (m : menv) : bool := m_n m "opt.Version" =? 0.
Definition c_rb_same (m : menv) : bool := m_n m "previousVersion" =? m_n m "each(History).version".
Definition c_rb_missing (m : menv) : bool := negb (m_b m "any(History)").
(* the revision to roll back to, as Go computes it (in int) *)
Definition v_rb_prev (m : menv) : Z := if c_rb_default m then m_n m "Last.version" - 1 else m_n m "opt.Version".

(* ---- pkg/action/uninstall.go ---- *)

Definition c_un_none (m : menv) : bool := m_n m "len(History)" <? 1.
Definition c_un_already (m : menv) : bool := status_eqb (m_s m "sorted(History)[last].status") SUninstalled.
(* Uninstall.deleteRelease: something left to delete after the keep filter *)
Definition c_un_delete (m : menv) : bool := 0 <? m_n m "len(Build)".

(* ---- pkg/action/hooks.go ---- *)

(* Configuration.execHook: the hook is registered for the event *)
Definition c_hook_event (m : menv) : bool := event_eqb (m_e m "arg2") (m_e m "each(each(arg1.hooks).events)").
(* no delete policy -> before-hook-creation *)
Definition c_hook_default (m : menv) : bool := m_n m "len(each(hookByWeight(new([]Hook))).deletePolicies)" =? 0.
(* hookByWeight.Less *)
Definition c_hook_less (m : menv) : bool :=
  if m_n m "recv[arg1].weight" =? m_n m "recv[arg2].weight"
  then vstr_ltb (m_str m "recv[arg1].name") (m_str m "recv[arg2].name")
  else m_n m "recv[arg1].weight" <? m_n m "recv[arg2].weight".
(* Configuration.deleteHookByPolicy *)
Definition c_hook_crd (m : menv) : bool := vstr_eqb (m_str m "arg1.kind") "CustomResourceDefinition".
Definition c_hook_policy (m : menv) : bool := m_b m "hookHasDeletePolicy(arg1,arg2)".
Definition c_hook_delete_failed (m : menv) : bool := 0 <? m_n m "len(Delete)".
(* hookHasDeletePolicy: the loop body *)
Definition c_policy_match (m : menv) : bool := policy_eqb (m_p m "arg2") (m_p m "each(arg1.deletePolicies)").

(* ---- pkg/action/action.go ---- *)

(* Configuration.releaseContent: version <= 0 -> the newest revision *)
Definition c_content_last (m : menv) : bool := m_n m "arg2" <=? 0.

(* ---- pkg/action/resource_policy.go: filterManifestsToKeep ---- *)

(* no metadata / no annotations at all: nothing to look up *)
Definition c_keep_none (m : menv) : bool :=
  m_nil m "each(arg1).head.metadata" || m_nil m "each(arg1).head.metadata.annotations"
  || (m_n m "len(each(arg1).head.metadata.annotations)" =? 0).
Definition c_keep_absent (m : menv) : bool :=
  negb (m_b m "has(each(arg1).head.metadata.annotations[helm.sh/resource-policy])").
Definition c_keep_value (m : menv) : bool :=
  vstr_eqb (to_lower (trim_space (m_str m "each(arg1).head.metadata.annotations[helm.sh/resource-policy]"))) "keep".

(* ---- pkg/action/validate.go: requireValue (the three tests of checkOwnership) ---- *)

Definition c_req_missing (m : menv) : bool := negb (m_b m "has(arg1[arg2])").
Definition c_req_differs (m : menv) : bool := negb (vstr_eqb (m_str m "arg1[arg2]") (m_str m "arg3")).

(* ---- pkg/storage/storage.go ---- *)

(* Storage.Create: a history limit is set *)
Definition c_create_limit (m : menv) : bool := 0 <? m_n m "MaxHistory".
(* Storage.Deployed: no deployed revision *)
Definition c_deployed_none (m : menv) : bool := m_n m "len(DeployedAll)" =? 0.
(* Storage.removeLeastRecent *)
Definition c_rlr_fits (m : menv) : bool := m_n m "len(History)" <=? m_n m "arg2".
Definition c_rlr_enough (m : menv) : bool := m_n m "len(sorted(History))" - m_n m "len(new([]Release))" =? m_n m "arg2".
Definition c_rlr_has_deployed (m : menv) : bool := negb (m_nil m "Deployed").
Definition c_rlr_other (m : menv) : bool := negb (m_n m "each(sorted(History)).version" =? m_n m "Deployed.version").
Definition c_rlr_no_error (m : menv) : bool := m_n m "len(new([]error))" =? 0.
Definition c_rlr_one_error (m : menv) : bool := m_n m "len(new([]error))" =? 1.
(* Storage.Last: no revision at all *)
Definition c_last_none (m : menv) : bool := m_n m "len(History)" =? 0.

(* ---- pkg/release/v1/status.go, pkg/release/util/sorter.go ---- *)

Definition c_is_pending (m : menv) : bool := is_pending (m_s m "recv").
Definition c_rev_less (m : menv) : bool := m_n m "recv.list[arg1].version" <? m_n m "recv.list[arg2].version".

(* ================================================================== *)
(* 2. the guarded items of the Go functions: the model's path conditions                    *)

(* A path condition of the model is the conjunction of the named conditions on the way to
   the corresponding branch of the twin program of section 4 (read off its text: every `if c
   … then A else B` contributes c on the way to A and its negation on the way to B). *)

(* ---- Install.RunWithContext: which of the two "does it exist already" checks runs ---- *)
Definition p_inst_conflict (m : menv) : bool := c_inst_check m && negb (m_flag m "TakeOwnership").
Definition p_inst_adopt (m : menv) : bool := c_inst_check m && m_flag m "TakeOwnership".

(* ---- Install.performInstall: how the resources reach the cluster ---- *)
Definition p_inst_create (m : menv) : bool := c_inst_create m.
Definition p_inst_merge (m : menv) : bool := negb (c_inst_create m) && c_inst_update m && m_flag m "TakeOwnership".
Definition p_inst_update (m : menv) : bool := negb (c_inst_create m) && c_inst_update m && negb (m_flag m "TakeOwnership").

(* ---- Install.availableName ---- *)
Definition p_avail_ok (m : menv) : bool := m_flag m "DryRun" || c_avail_free m || c_avail_replace m.
Definition p_avail_in_use (m : menv) : bool := negb (p_avail_ok m).
Definition p_avail_reads (m : menv) : bool := negb (m_flag m "DryRun").

(* ---- Install.replaceRelease ---- *)
Definition p_repl_keep (m : menv) : bool := c_repl_none m || c_repl_failed m.
Definition p_repl_pending (m : menv) : bool := negb (c_repl_none m) && negb (c_repl_failed m) && c_repl_pending m.
Definition p_repl_supersede (m : menv) : bool := negb (c_repl_none m) && negb (c_repl_failed m) && negb (c_repl_pending m).

(* ---- Upgrade.prepareUpgrade ---- *)
Definition p_up_pending (m : menv) : bool := c_up_pending m.
Definition p_up_ask_deployed (m : menv) : bool := negb (c_up_pending m) && negb (c_up_last_deployed m).
Definition p_up_no_deployed (m : menv) : bool :=
  negb (c_up_pending m) && negb (c_up_last_deployed m) && m_err m "Deployed" && negb (c_up_fallback m).

(* ---- Upgrade.failRelease ---- *)
Definition p_fail_cleanup (m : menv) : bool := c_fail_cleanup m.
(* the cleanup, if any, succeeded *)
Definition p_fail_cleaned (m : menv) : bool := negb (c_fail_cleanup m && m_err m "Delete").
Definition p_fail_no_target (m : menv) : bool := p_fail_cleaned m && m_flag m "Atomic" && c_fail_none m.
Definition p_fail_rollback (m : menv) : bool := p_fail_cleaned m && m_flag m "Atomic" && negb (c_fail_none m).

(* ---- Rollback.prepareRollback ---- *)
Definition p_rb_no_release (m : menv) : bool := m_err m "Last".
Definition p_rb_missing (m : menv) : bool := negb (m_err m "Last") && c_rb_missing m.
Definition p_rb_get (m : menv) : bool := negb (m_err m "Last") && negb (c_rb_missing m).

(* ---- Uninstall.Run ---- *)
Definition p_un_none (m : menv) : bool := negb (m_flag m "DryRun") && c_un_none m.
Definition p_un_already_kept (m : menv) : bool :=
  negb (m_flag m "DryRun") && negb (c_un_none m) && c_un_already m && m_flag m "KeepHistory".
Definition p_un_proceed (m : menv) : bool := negb (m_flag m "DryRun") && negb (c_un_none m) && negb (c_un_already m).

(* ---- Uninstall.deleteRelease ---- *)
Definition p_un_delete_plain (m : menv) : bool := c_un_delete m && negb (m_flag m "is kube.InterfaceDeletionPropagation").
Definition p_un_delete_prop (m : menv) : bool := c_un_delete m && m_flag m "is kube.InterfaceDeletionPropagation".

(* ---- Configuration.deleteHookByPolicy ---- *)
Definition p_hook_delete (m : menv) : bool := negb (c_hook_crd m) && c_hook_policy m.
Definition p_hook_delete_failed (m : menv) : bool := negb (c_hook_crd m) && c_hook_policy m && c_hook_delete_failed m.
Definition p_hook_wait (m : menv) : bool := negb (c_hook_crd m) && c_hook_policy m && negb (c_hook_delete_failed m).

(* ---- hookHasDeletePolicy ---- *)
Definition p_policy_found (m : menv) : bool := m_b m "any(arg1.deletePolicies)".

(* ---- filterManifestsToKeep ---- *)
Definition p_keep (m : menv) : bool := negb (c_keep_none m) && negb (c_keep_absent m) && c_keep_value m.
Definition p_remaining (m : menv) : bool := negb (p_keep m).

(* ---- requireValue ---- *)
Definition p_req_ok (m : menv) : bool := negb (c_req_missing m) && negb (c_req_differs m).

(* ---- Storage.removeLeastRecent ---- *)
Definition p_rlr_prune (m : menv) : bool := negb (c_rlr_fits m).
Definition p_rlr_stop (m : menv) : bool := negb (c_rlr_fits m) && c_rlr_enough m.
Definition p_rlr_pick (m : menv) : bool :=
  negb (c_rlr_fits m) && negb (c_rlr_enough m) && (if c_rlr_has_deployed m then c_rlr_other m else true).
Definition p_rlr_ok (m : menv) : bool := c_rlr_fits m || c_rlr_no_error m.
Definition p_rlr_one_error (m : menv) : bool := negb (c_rlr_fits m) && negb (c_rlr_no_error m) && c_rlr_one_error m.
Definition p_rlr_many_errors (m : menv) : bool := negb (c_rlr_fits m) && negb (c_rlr_no_error m) && negb (c_rlr_one_error m).

Global Hint Unfold
  c_inst_check c_inst_create c_inst_update c_avail_free c_avail_replace c_repl_none c_repl_failed c_repl_pending
  c_up_pending c_up_last_deployed c_up_fallback c_fail_cleanup c_fail_good c_fail_none
  c_rb_default c_rb_same c_rb_missing v_rb_prev c_un_none c_un_already c_un_delete
  c_hook_event c_hook_default c_hook_less c_hook_crd c_hook_policy c_hook_delete_failed c_policy_match
  c_content_last c_keep_none c_keep_absent c_keep_value c_req_missing c_req_differs
  c_create_limit c_deployed_none c_rlr_fits c_rlr_enough c_rlr_has_deployed c_rlr_other c_rlr_no_error c_rlr_one_error
  c_last_none c_is_pending c_rev_less
  p_inst_conflict p_inst_adopt p_inst_create p_inst_merge p_inst_update p_avail_ok p_avail_in_use p_avail_reads
  p_repl_keep p_repl_pending p_repl_supersede p_up_pending p_up_ask_deployed p_up_no_deployed
  p_fail_cleanup p_fail_cleaned p_fail_no_target p_fail_rollback p_rb_no_release p_rb_missing p_rb_get
  p_un_none p_un_already_kept p_un_proceed p_un_delete_plain p_un_delete_prop
  p_hook_delete p_hook_delete_failed p_hook_wait p_policy_found p_keep p_remaining p_req_ok
  p_rlr_prune p_rlr_stop p_rlr_pick p_rlr_ok p_rlr_one_error p_rlr_many_errors : dec.

Definition no_err (why : string) (l : list string) : list (assumption * string) := map (fun s => (ANoErr s, why)) l.

(* the table: per Go function, the assumptions under which the model stands for it, and the
   items the model knows with their path conditions.  Items of the Go function that are not
   listed (logging, rendering, calls of helpers, …) are not compared. *)
Definition model : list fmodel :=
  [ mkFn "Install.RunWithContext"
      (no_err "the model starts after a successful name check, dependency processing, capabilities lookup and rendering: these failures end the operation before anything the model has happens"
              ["IsReachable"; "availableName"; "ProcessDependencies"; "installCRDs"; "getCapabilities";
               "ToRenderValuesWithSchemaValidation"; "renderResources"; "Build"; "Build.Visit"] ++
       [ (AFlag "HideSecret" false, "--hide-secret is not in the model");
         (AOpaque "ContainsSystemLabels(labels)" false, "validation of user labels happens before the modelled part") ])
      [ ("call existingResourceConflict", IB p_inst_conflict);
        ("call requireAdoption", IB p_inst_adopt) ];
    mkFn "Install.performInstall"
      (no_err "a failing pre-install hook ends performInstall before the resources are applied (model: run_hooks … install_fail)" ["execHook"])
      [ ("call KubeClient.Create", IB p_inst_create);
        ("call KubeClient.UpdateThreeWayMerge", IB p_inst_merge);
        ("call KubeClient.Update", IB p_inst_update) ];
    mkFn "Install.availableName"
      (no_err "release names are valid in the model" ["ValidateReleaseName"] ++
       [ (AErrOnly "History" "Is driver.ErrReleaseNotFound", "the history read answers nil or not-found: the model has no failing reads (an empty answer stands for 'no such release'); any other read error makes the Go function return it before anything the model has happens -- the Go-only item 'ret err(History)'") ])
      [ ("ret ok", IB p_avail_ok);
        ("ret new", IB p_avail_in_use);
        ("call Releases.History", IB p_avail_reads) ];
    mkFn "Install.replaceRelease"
      [ (AErrOnly "History" "Is driver.ErrReleaseNotFound", "the history read answers nil or not-found: the model has no failing reads (an empty answer stands for 'no such release'); any other read error makes the Go function return it before anything the model has happens -- the Go-only item 'ret err(History)'") ]
      [ ("ret ok", IB p_repl_keep);
        ("ret errPending", IB p_repl_pending);
        ("ret call(recordRelease)", IB p_repl_supersede) ];
    mkFn "Upgrade.prepareUpgrade"
      [ (ANil "arg2" false, "the chart argument is abstracted: the model receives the rendered manifest");
        (AFlag "HideSecret" false, "--hide-secret is not in the model");
        (ANoErr "Last", "Releases.Last fails exactly when there is no revision: Storage.Last, item 'ret new'; the model's upgrade answers ENoDeployed there") ]
      [ ("ret errPending", IB p_up_pending);
        ("call Releases.Deployed", IB p_up_ask_deployed);
        ("ret err(Deployed)", IB p_up_no_deployed) ];
    mkFn "Upgrade.failRelease"
      (no_err "History.Run only validates the name and reads the history" ["NewHistory.Run"])
      [ ("call KubeClient.Delete", IB p_fail_cleanup);
        ("pred filtered(NewHistory.Run)", IB c_fail_good);
        ("ret err(arg3)", IB p_fail_no_target);
        ("call NewRollback.Run", IB p_fail_rollback) ];
    mkFn "Rollback.prepareRollback"
      (no_err "release names are valid in the model; the second history read answers like the first" ["ValidateReleaseName"; "History"] ++
       [ (ANonNeg "opt.Version", "the model's target version is a natural number") ])
      [ ("ret err(Last)", IB p_rb_no_release);
        ("pred any(History)", IB c_rb_same);
        ("val previousVersion", IN v_rb_prev);
        ("ret new", IB p_rb_missing);
        ("call Releases.Get", IB p_rb_get) ];
    mkFn "Uninstall.Run"
      (no_err "the cluster is reachable, a waiter exists, names are valid; a failing history read is the empty history of the model"
              ["IsReachable"; "GetWaiter"; "ValidateReleaseName"; "History"])
      [ ("ret errMissingRelease", IB p_un_none);
        ("ret new", IB p_un_already_kept);
        ("set sorted(History)[last].status = uninstalling", IB p_un_proceed) ];
    mkFn "Uninstall.deleteRelease"
      (no_err "manifests of the model parse and build" ["SortManifests"; "Build"])
      [ ("call KubeClient.Delete", IB p_un_delete_plain);
        ("call kubeClient.DeleteWithPropagationPolicy", IB p_un_delete_prop) ];
    mkFn "Configuration.execHook" []
      [ ("append new([]Hook) each(arg1.hooks)", IB c_hook_event);
        ("set each(hookByWeight(new([]Hook))).deletePolicies", IB c_hook_default) ];
    mkFn "hookByWeight.Less" []
      [ ("ret true", IB c_hook_less) ];
    mkFn "Configuration.deleteHookByPolicy"
      (no_err "hook manifests of the model build; a waiter exists" ["Build"; "GetWaiter"])
      [ ("call KubeClient.Delete", IB p_hook_delete);
        ("ret err(Delete)", IB p_hook_delete_failed);
        ("call GetWaiter.WaitForDelete", IB p_hook_wait) ];
    mkFn "hookHasDeletePolicy" []
      [ ("pred any(arg1.deletePolicies)", IB c_policy_match);
        ("ret true", IB p_policy_found) ];
    mkFn "Configuration.releaseContent"
      (no_err "release names are valid in the model" ["ValidateReleaseName"])
      [ ("ret call(Releases.Last)", IB c_content_last) ];
    mkFn "filterManifestsToKeep" []
      [ ("append keep each(arg1)", IB p_keep);
        ("append remaining each(arg1)", IB p_remaining) ];
    mkFn "requireValue" []
      [ ("ret new", IB c_req_missing);
        ("ret ok", IB p_req_ok) ];
    mkFn "Storage.Create" []
      [ ("call removeLeastRecent", IB c_create_limit) ];
    mkFn "Storage.Deployed"
      (no_err "the label query of the model does not fail" ["DeployedAll"])
      [ ("ret call(NewErrNoDeployedReleases)", IB c_deployed_none) ];
    mkFn "Storage.removeLeastRecent"
      (no_err "a failing history read is the model's empty-history branch (SNotFound); the only error Deployed answers in the model is 'no deployed releases', which the code tolerates"
              ["History"; "Deployed"] ++
       [ (ANonNeg "arg2", "Create passes MaxHistory-1 under MaxHistory > 0; the model's limit is a natural number") ])
      [ ("call Deployed", IB p_rlr_prune);
        ("break", IB p_rlr_stop);
        ("append new([]Release) each(sorted(History))", IB p_rlr_pick);
        ("ret ok", IB p_rlr_ok);
        ("ret val(new([]error)[0])", IB p_rlr_one_error);
        ("ret new", IB p_rlr_many_errors) ];
    mkFn "Storage.Last"
      (no_err "a failing history read is the empty history of the model" ["History"])
      [ ("ret new", IB c_last_none) ];
    mkFn "Status.IsPending" []
      [ ("ret true", IB c_is_pending) ];
    mkFn "ByRevision.Less" []
      [ ("ret true", IB c_rev_less) ] ].

(* ================================================================== *)
(* 3. the environment of a program point                                                  *)

Definition znat (n : nat) : Z := Z.of_nat n.

(* the answer of Storage.History / .Last: read errors are not in the model (an empty answer
   stands for "not found"), so the error is absent and the length decides *)
Definition env_hist (h : list release) : menv := set_n "len(History)" (zlen h) env0.
Definition env_flags (fl : flags) : menv := set_flags (flag_env fl) env0.

(* ================================================================== *)
(* 4. Engine/Ops.v once more, branching on the named conditions                             *)

Local Open Scope prog_scope.

(* ---- pure helpers ---- *)

(* sorter.go ByRevision.Less on two releases *)
Definition rev_less (a b : release) : bool :=
  c_rev_less (set_n "recv.list[arg1].version" (znat (rev a)) (set_n "recv.list[arg2].version" (znat (rev b)) env0)).

(* hooks.go *)
Definition hook_less_d (a b : hook) : bool :=
  c_hook_less (set_n "recv[arg1].weight" (h_weight a) (set_n "recv[arg2].weight" (h_weight b)
              (set_str "recv[arg1].name" (h_name a) (set_str "recv[arg2].name" (h_name b) env0)))).

Definition hooks_for_d (ev : event) (hs : list hook) : list hook :=
  flat_map (fun h => map (fun _ => h)
     (filter (fun e => c_hook_event (set_e "arg2" ev (set_e "each(each(arg1.hooks).events)" e env0))) (h_events h))) hs.

Definition effective_policies_d (h : hook) : list policy :=
  if c_hook_default (set_n "len(each(hookByWeight(new([]Hook))).deletePolicies)" (zlen (h_policies h)) env0)
  then [BeforeHookCreation] else h_policies h.

Definition has_policy_d (h : hook) (p : policy) : bool :=
  existsb (fun v => c_policy_match (set_p "arg2" p (set_p "each(arg1.deletePolicies)" v env0))) (effective_policies h).

(* resource_policy.go *)
Definition manifest_keep_d (r : res) : bool :=
  let a := aget policy_key (r_fields r) in
  (* the model's fields have no separate annotations map: it is non-nil, and non-empty
     exactly when the policy annotation is there *)
  let m := set_n "len(each(arg1).head.metadata.annotations)" (match a with Some _ => 1 | None => 0 end)
           (set_b "has(each(arg1).head.metadata.annotations[helm.sh/resource-policy])"
                 (match a with Some _ => true | None => false end)
           (set_str "each(arg1).head.metadata.annotations[helm.sh/resource-policy]"
                 (match a with Some v => v | None => "" end) env0)) in
  if c_keep_none m then false else if c_keep_absent m then false else c_keep_value m.

(* validate.go: requireValue(meta, k, v) = nil *)
Definition require_value_d (k v : string) (f : fields) : bool :=
  let a := aget k f in
  let m := set_b "has(arg1[arg2])" (match a with Some _ => true | None => false end)
           (set_str "arg1[arg2]" (match a with Some x => x | None => "" end) (set_str "arg3" v env0)) in
  if c_req_missing m then false else if c_req_differs m then false else true.

(* storage.go: the toDelete loop *)
Fixpoint prune_pick_d (h : list release) (deployed : option nat) (total maxkeep picked : nat) : list nat :=
  match h with
  | [] => []
  | r :: t =>
      if c_rlr_enough (set_n "len(sorted(History))" (znat total) (set_n "len(new([]Release))" (znat picked)
                      (set_n "arg2" (znat maxkeep) env0)))
      then []
      else if c_rlr_has_deployed (set_nil "Deployed" (match deployed with Some _ => false | None => true end) env0)
      then if c_rlr_other (set_n "each(sorted(History)).version" (znat (rev r))
                          (set_n "Deployed.version" (match deployed with Some d => znat d | None => 0%Z end) env0))
           then rev r :: prune_pick_d t deployed total maxkeep (S picked)
           else prune_pick_d t deployed total maxkeep picked
      else rev r :: prune_pick_d t deployed total maxkeep (S picked)
  end.

(* ---- storage.Storage.Create ---- *)

Definition remove_least_recent_d (maxkeep : nat) : prog serr :=
  h <- perform SHistory ;;
  match h with
  | [] => Ret SNotFound
  | _ =>
      if c_rlr_fits (set_n "len(History)" (zlen h) (set_n "arg2" (znat maxkeep) env0)) then Ret SOk
      else
        ds <- perform SDeployedAll ;;
        let dep := if c_deployed_none (set_n "len(DeployedAll)" (zlen ds) env0) then None
                   else match max_rev_of ds with Some d => Some (rev d) | None => None end in
        let picks := prune_pick_d (sort_by_rev h) dep (List.length h) maxkeep 0 in
        r <- delete_all picks ;;
        let m := set_n "len(new([]error))" (znat (fst r)) env0 in
        if c_rlr_no_error m then Ret SOk
        else if c_rlr_one_error m then Ret (snd r)
        else Ret SFail
  end.

Definition storage_create_d (r : release) (max_history : nat) : prog serr :=
  if c_create_limit (set_n "MaxHistory" (znat max_history) env0) then
    e <- remove_least_recent (max_history - 1) ;;
    match e with
    | SOk | SNotFound => perform (SCreate r)
    | _ => Ret e
    end
  else perform (SCreate r).

(* ---- hooks.go ---- *)

Definition delete_hook_by_policy_d (h : hook) (p : policy) : prog bool :=
  if c_hook_crd (set_str "arg1.kind" (h_kind h) env0) then Ret true
  else if c_hook_policy (set_b "hookHasDeletePolicy(arg1,arg2)" (has_policy h p) env0) then
    ok <- perform (KDelete [h_res h]) ;;
    (* the model's answer of a delete: true = the error list is empty *)
    if c_hook_delete_failed (set_n "len(Delete)" (if ok then 0%Z else 1%Z) env0) then Ret false
    else perform (KWaitDelete [h_res h])
  else Ret true.

Section OpsD.
  Variable rn ns : string.

  (* ---- uninstall.go ---- *)
  Definition uninstall_d (fl : flags) : prog outcome :=
    if f_dry_run fl then
      (* cfg.releaseContent(name, 0) *)
      if c_content_last (set_n "arg2" 0%Z env0) then
        h <- perform SHistory ;;
        if c_last_none (env_hist h) then Ret (OErr ENotFoundRel) else Ret OOk
      else Ret OCrashed          (* releaseContent with a positive version: not called by the model *)
    else
    h <- perform SHistory ;;
    if c_un_none (env_hist h) then Ret (OErr ENotFoundRel) else
    match max_rev_of h with
    | None => Ret (OErr ENotFoundRel)
    | Some last =>
        let revs := map rev (sort_by_rev h) in
        if c_un_already (set_s "sorted(History)[last].status" (st last) env0) then
          if f_keep_history fl then Ret (OErr EOtherErr)
          else ok <- purge revs ;; Ret (if ok then OOk else OErr EOtherErr)
        else
          let rel := with_status last SUninstalling in
          pre <- run_hooks fl rel PreDelete ;;
          if negb pre then Ret (OErr EOtherErr) else
          record_release rel ;;;
          let todel := filter (fun r => negb (manifest_keep r)) (manifest rel) in
          delok <- (if c_un_delete (set_n "len(Build)" (zlen todel) env0)
                    then perform (KDelete todel) else Ret true) ;;
          if negb delok then Ret (OErr EOtherErr) else
          w <- perform (KWaitDelete todel) ;;
          post <- run_hooks fl rel PostDelete ;;
          let rel' := with_status rel SUninstalled in
          if f_keep_history fl then
            record_release rel' ;;;
            Ret (if w && post then OOk else OErr EOtherErr)
          else
            ok <- purge revs ;;
            Ret (if w && post && ok then OOk else OErr EOtherErr)
    end.

  (* ---- rollback.go ---- *)
  Definition rollback_d (fl : flags) : prog outcome :=
    h <- perform SHistory ;;
    if c_last_none (env_hist h) then Ret (OErr ENotFoundRel) else
    match max_rev_of h with
    | None => Ret (OErr ENotFoundRel)
    | Some cur =>
        let prev := if c_rb_default (set_n "opt.Version" (znat (f_version fl)) env0)
                    then (rev cur - 1)%nat else f_version fl in
        h2 <- perform SHistory ;;
        let found := existsb (fun r => c_rb_same (set_n "previousVersion" (znat prev)
                                                 (set_n "each(History).version" (znat (rev r)) env0))) h2 in
        if c_rb_missing (set_b "any(History)" found env0) then Ret (OErr EOtherErr) else
        p <- perform (SGet prev) ;;
        match p with
        | None => Ret (OErr EOtherErr)
        | Some pr =>
            let tgt := mkRelease (S (rev cur)) SPendingRollback (chart_id pr) (config_id pr)
                                 (manifest pr) (hooks pr) in
            if f_dry_run fl then Ret OOk else
            e <- storage_create tgt (f_max_history fl) ;;
            match e with
            | SExists => Ret (OErr EExistsRev)
            | SNotFound | SFail => Ret (OErr EOtherErr)
            | SOk =>
                let fail_pending := record_release (with_status tgt SFailed) ;;; Ret (OErr EOtherErr) in
                pre <- run_hooks fl tgt PreRollback ;;
                if negb pre then fail_pending else
                u <- perform (KUpdate (manifest cur) (stamp_all rn ns (manifest tgt))) ;;
                if negb (fst u) then
                  record_release (with_status cur SSuperseded) ;;;
                  record_release (with_status tgt SFailed) ;;;
                  (if f_cleanup fl then _d <- perform (KDelete (snd u)) ;; Ret (OErr EOtherErr)
                   else Ret (OErr EOtherErr))
                else
                w <- perform (KWait (stamp_all rn ns (manifest tgt))) ;;
                if negb w then
                  record_release cur ;;;
                  record_release (with_status tgt SFailed) ;;;
                  Ret (OErr EOtherErr)
                else
                post <- run_hooks fl tgt PostRollback ;;
                if negb post then fail_pending else
                ds <- perform SDeployedAll ;;
                supersede_all ds ;;;
                e2 <- perform (SUpdate (with_status tgt SDeployed)) ;;
                match e2 with SOk => Ret OOk | _ => Ret (OErr EOtherErr) end
            end
        end
    end.

  (* ---- install.go ---- *)
  (* [fx]: with the repaired replaceRelease (OpsFix.install_fx); without, Ops.install *)
  Definition install_gen (fx : bool) (fl : flags) (cid vid : nat) (mani : list res) (hks : list hook) : prog outcome :=
    let dry := f_dry_run fl in
    (* availableName *)
    avail <- (if dry then Ret true
              else h <- perform SHistory ;;
                   if c_avail_free (env_hist h) then Ret true else
                   match max_rev_of h with
                   | None => Ret true
                   | Some last =>
                       Ret (c_avail_replace (set_s "revsorted(History)[0].status" (st last) (env_flags fl)))
                   end) ;;
    if negb avail then Ret (OErr ENameInUse) else
    let rel0 := mkRelease 1 SPendingInstall cid vid mani hks in
    let resources := stamp_all rn ns mani in
    adopt <- (if c_inst_check (set_n "len(Build)" (zlen resources) (env_flags fl))
              then perform (KExisting resources (f_take_ownership fl))
              else Ret (Some [])) ;;
    match adopt with
    | None => Ret (OErr EConflict)
    | Some adopted =>
        if dry then Ret OOk else
        (* replaceRelease *)
        rr <- (if f_replace fl then
                 h <- perform SHistory ;;
                 if c_repl_none (env_hist h) then Ret (ROk rel0) else
                 match max_rev_of h with
                 | None => Ret (ROk rel0)
                 | Some last =>
                     let rel1 := with_rev rel0 (S (rev last)) in
                     let m := set_s "revsorted(History)[0].status" (st last) env0 in
                     if c_repl_failed m then Ret (ROk rel1)
                     else if fx && c_repl_pending m then Ret (RErr EPending)
                     else e <- perform (SUpdate (with_status last SSuperseded)) ;;
                          match e with SOk => Ret (ROk rel1) | _ => Ret (RErr EOtherErr) end
                 end
               else Ret (ROk rel0)) ;;
        match rr with
        | RErr c => Ret (OErr c)
        | ROk rel =>
            e <- storage_create rel 0 ;;
            match e with
            | SExists => Ret (OErr EExistsRev)
            | SNotFound | SFail => Ret (OErr EOtherErr)
            | SOk =>
                pre <- run_hooks fl rel PreInstall ;;
                if negb pre then install_fail fl rel else
                let m := set_n "len(arg2)" (zlen adopted) (set_n "len(arg3)" (zlen resources) env0) in
                ok <- (if c_inst_create m then perform (KCreate resources)
                       else if c_inst_update m then u <- perform (KUpdate adopted resources) ;; Ret (fst u)
                       else Ret true) ;;
                if negb ok then install_fail fl rel else
                w <- perform (KWait resources) ;;
                if negb w then install_fail fl rel else
                post <- run_hooks fl rel PostInstall ;;
                if negb post then install_fail fl rel else
                record_release (with_status rel SDeployed) ;;; Ret OOk
            end
        end
    end.

  (* ---- upgrade.go ---- *)
  Definition upgrade_fail_d (fl : flags) (up : release) (created : list res) : prog outcome :=
    record_release (with_status up SFailed) ;;;
    cleaned <- (if c_fail_cleanup (set_n "len(arg2)" (zlen created) (env_flags fl))
                then perform (KDelete created) else Ret true) ;;
    if negb cleaned then Ret (OErr EOtherErr) else
    if f_atomic fl then
      h <- perform SHistory ;;
      let good := filter (fun r => c_fail_good (set_s "it.status" (st r) env0)) h in
      if c_fail_none (set_n "len(filtered(NewHistory.Run))" (zlen good) env0) then Ret (OErr EOtherErr) else
      match max_rev_of good with
      | None => Ret (OErr EOtherErr)
      | Some g =>
          _r <- rollback rn ns (mkFlags false false false false 0 (f_no_hooks fl) false false false (rev g)) ;;
          Ret (OErr EOtherErr)
      end
    else Ret (OErr EOtherErr).

  Definition upgrade_d (fl : flags) (cid vid : nat) (mani : list res) (hks : list hook) : prog outcome :=
    h <- perform SHistory ;;
    (* Releases.Last *)
    if c_last_none (env_hist h) then Ret (OErr ENoDeployed) else
    match max_rev_of h with
    | None => Ret (OErr ENoDeployed)
    | Some last =>
        let ml := set_s "Last.status" (st last) env0 in
        if c_up_pending ml then Ret (OErr EPending) else
        cur <- (if c_up_last_deployed ml then Ret (Some last)
                else ds <- perform SDeployedAll ;;
                     (* Releases.Deployed *)
                     if c_deployed_none (set_n "len(DeployedAll)" (zlen ds) env0)
                     then (if c_up_fallback (set_err "Deployed is Is driver.ErrNoDeployedReleases" true ml)
                           then Ret (Some last) else Ret None)
                     else Ret (max_rev_of ds)) ;;
        match cur with
        | None => Ret (OErr ENoDeployed)
        | Some current =>
            let up := mkRelease (S (rev last)) SPendingUpgrade cid vid mani hks in
            let target := stamp_all rn ns mani in
            let tobecreated := filter (fun r => negb (in_keys (rkey r) (manifest current))) target in
            adopt <- perform (KExisting tobecreated (f_take_ownership fl)) ;;
            match adopt with
            | None => Ret (OErr EConflict)
            | Some adopted =>
                let curres := (manifest current ++ adopted)%list in
                if f_dry_run fl then Ret OOk else
                e <- storage_create up (f_max_history fl) ;;
                match e with
                | SExists => Ret (OErr EExistsRev)
                | SNotFound | SFail => Ret (OErr EOtherErr)
                | SOk =>
                    pre <- run_hooks fl up PreUpgrade ;;
                    if negb pre then upgrade_fail rn ns fl up [] else
                    u <- perform (KUpdate curres target) ;;
                    if negb (fst u) then record_release current ;;; upgrade_fail rn ns fl up (snd u) else
                    w <- perform (KWait target) ;;
                    if negb w then record_release current ;;; upgrade_fail rn ns fl up (snd u) else
                    post <- run_hooks fl up PostUpgrade ;;
                    if negb post then upgrade_fail rn ns fl up (snd u) else
                    record_release (with_status current SSuperseded) ;;;
                    e2 <- perform (SUpdate (with_status up SDeployed)) ;;
                    match e2 with SOk => Ret OOk | _ => Ret (OErr EOtherErr) end
                end
            end
        end
    end.
End OpsD.

(* C03 — histories with more than one fault: witnesses, by evaluation of the model; the same
   histories are in the harness corpus and are replayed on the real code on every run. *)
From Coq Require Import List String Bool Arith ZArith.
From Helm Require Import Common.Assoc Engine.Types Engine.Eff Engine.Ops Engine.Cluster Engine.Seq Engine.Contain.
Import ListNotations.
Local Open Scope string_scope.

Definition fl_v1 : flags := mkFlags false false false false 0 false false false false 1.
Definition mf_patch_a : cfaults := mkCF (Some (VPatch, "ConfigMap/a")) None false.
Definition mf_wait : cfaults := mkCF None None true.

(* the statuses after every step, and whether revision v is recorded deployed after some step *)
Definition trail (h : list hstep) : list (list (nat * status)) :=
  map (fun x => statuses (w_led (fst (fst x)))) (run_history "rel" "default" h (mkW [] [])).

Definition ever_deployed (h : list hstep) (v : nat) : bool :=
  existsb (fun line => existsb (fun p => Nat.eqb (fst p) v && status_eqb (snd p) SDeployed) line) (trail h).

Definition manifest_of (v : nat) (w : world) : option (list res) :=
  match find (fun r => Nat.eqb (rev r) v) (w_led w) with Some r => Some (manifest r) | None => None end.

Definition data_of (key : string) (w : world) : option string :=
  match aget key (w_objs w) with Some f => aget "d:k" f | None => None end.

(* ---- no revision is deployed when the atomic upgrade fails ----
   install {a=v1}; upgrade to {a=v2}; rollback with PATCH a rejected (1:superseded 2:superseded
   3:failed, a still v2); upgrade --atomic to {a=v4} whose wait fails: the recovery picks
   revision 2 — superseded, and the most recent revision that had been deployed — and ends
   with 5:deployed carrying its manifest, a = v2 again *)
Definition nodep_history : list hstep :=
  [ clean (OpInstall fl0 1 1 [cmr "a" "v1"] []);
    clean (OpUpgrade fl0 2 2 [cmr "a" "v2"] []);
    faulted (OpRollback fl0) mf_patch_a;
    faulted (OpUpgrade fl_atomic 4 4 [cmr "a" "v4"] []) mf_wait ].

Lemma atomic_upgrade_without_deployed :
  trail nodep_history =
    [ [(1, SDeployed)];
      [(1, SSuperseded); (2, SDeployed)];
      [(1, SSuperseded); (2, SSuperseded); (3, SFailed)];
      [(1, SSuperseded); (2, SSuperseded); (3, SFailed); (4, SFailed); (5, SDeployed)] ] /\
  exists w, final nodep_history = Some (w, OErr EOtherErr) /\
            manifest_of 5 w = Some [cmr "a" "v2"] /\ data_of "ConfigMap/a" w = Some "v2".
Proof. split; [vm_compute; reflexivity|]. eexists. vm_compute. repeat split. Qed.

(* ---- K11: the atomic rollback restores a revision that was never deployed ----
   install {a=v1}; upgrade to {a=v2} whose wait fails (2:failed); rollback to 1 with PATCH a
   rejected: the update failure marks the CURRENT revision 2 superseded; upgrade --atomic to
   {a=v4} whose wait fails: the "previously successful" revision is the highest one recorded
   superseded or deployed, i.e. 2 — never deployed at any point of the history — and the new
   deployed revision 5 carries a=v2, not the manifest of revision 1 *)
Definition k11_history : list hstep :=
  [ clean (OpInstall fl0 1 1 [cmr "a" "v1"] []);
    faulted (OpUpgrade fl0 2 2 [cmr "a" "v2"] []) mf_wait;
    faulted (OpRollback fl_v1) mf_patch_a;
    faulted (OpUpgrade fl_atomic 4 4 [cmr "a" "v4"] []) mf_wait ].

Lemma atomic_restores_never_deployed_refuted :
  exists h w,
    final h = Some (w, OErr EOtherErr) /\
    trail h =
      [ [(1, SDeployed)];
        [(1, SDeployed); (2, SFailed)];
        [(1, SDeployed); (2, SSuperseded); (3, SFailed)];
        [(1, SSuperseded); (2, SSuperseded); (3, SFailed); (4, SFailed); (5, SDeployed)] ] /\
    ever_deployed h 1 = true /\ ever_deployed h 2 = false /\
    manifest_of 1 w = Some [cmr "a" "v1"] /\
    manifest_of 5 w = Some [cmr "a" "v2"] /\ data_of "ConfigMap/a" w = Some "v2".
Proof. exists k11_history. eexists. vm_compute. repeat split. Qed.

(* ---- K12: a history limit prunes the only revision the automatic rollback could be aimed at ----
   the ledger without a deployed revision of [nodep_history]; upgrade --atomic --history-max 2 whose
   wait fails: Storage.Create prunes revisions 1 and 2 (pruning spares only a DEPLOYED revision),
   failRelease then finds no previously successful release: 3:failed 4:failed *)
Definition fl_atomic_max2 : flags := mkFlags true false false false 2 false false false false 0.
Definition k12_history : list hstep :=
  [ clean (OpInstall fl0 1 1 [cmr "a" "v1"] []);
    clean (OpUpgrade fl0 2 2 [cmr "a" "v2"] []);
    faulted (OpRollback fl0) mf_patch_a;
    faulted (OpUpgrade fl_atomic_max2 4 4 [cmr "a" "v4"] []) mf_wait ].

Lemma atomic_target_pruned_refuted :
  exists h w,
    final h = Some (w, OErr EOtherErr) /\
    trail h =
      [ [(1, SDeployed)];
        [(1, SSuperseded); (2, SDeployed)];
        [(1, SSuperseded); (2, SSuperseded); (3, SFailed)];
        [(3, SFailed); (4, SFailed)] ] /\
    data_of "ConfigMap/a" w = Some "v4".
Proof. exists k12_history. eexists. vm_compute. repeat split. Qed.

(* C12 — `helm test` keeps the hooks of the stored release (Engine/HookTest.v).

   execHook records the release with the REDUCED hook list before every hook creation; the final
   Releases.Update writes the list back, skipped hooks first.  For every name filter and every
   behaviour of the cluster (every outcome of the test hooks), when storage writes do not fail
   and the process does not die, the stored history after `helm test` is the history before it:
   same revisions, status, manifest, and the hooks of every revision as a multiset
   (test_preserves_hooks).  With a failing final write the reduced list stays behind
   (test_final_write_fails_refuted). *)
From Coq Require Import List String Bool Arith ZArith Lia Permutation.
From Helm Require Import Common.Assoc Engine.Types Engine.Eff Engine.Ops Engine.Cluster Engine.Seq
  Engine.HookTest.
Import ListNotations.
Local Open Scope prog_scope.

(* ---- the filters only rearrange ---- *)
Lemma filter_partition_perm {A} (p : A -> bool) l :
  Permutation (filter p l ++ filter (fun x => negb (p x)) l) l.
Proof.
  induction l as [|a t IH]; simpl; auto.
  destruct (p a); simpl.
  - now constructor.
  - apply Permutation_sym, Permutation_cons_app, Permutation_sym, IH.
Qed.

Lemma test_split_perm incl excl hs :
  Permutation (fst (test_split incl excl hs) ++ snd (test_split incl excl hs)) hs.
Proof.
  unfold test_split.
  set (se := match excl with
             | [] => ([], hs)
             | _ => (filter (name_in excl) hs, filter (fun h => negb (name_in excl h)) hs)
             end).
  assert (P : Permutation (fst se ++ snd se) hs).
  { subst se. destruct excl; simpl; auto. apply filter_partition_perm. }
  destruct se as [sk ex]. simpl in P.
  destruct incl as [|i0 it]; simpl; auto.
  rewrite <- app_assoc. etransitivity; [|exact P]. apply Permutation_app_head.
  etransitivity; [apply Permutation_app_comm|]. apply filter_partition_perm.
Qed.

Lemma max_rev_of_in l m : max_rev_of l = Some m -> In m l.
Proof.
  revert m. induction l as [|r t IH]; simpl; intros m H; [discriminate|].
  destruct (max_rev_of t) as [x|].
  - destruct (Nat.ltb (rev x) (rev r)); inversion H; subst; auto.
  - inversion H; auto.
Qed.

(* ---- programs whose only storage writes are updates of one release ---- *)
Inductive upd_only (x : release) {A : Type} : prog A -> Prop :=
| UO_ret a : upd_only x (Ret a)
| UO_eff e k : (is_storage_write e = true -> e = SUpdate x) -> (forall r, upd_only x (k r)) ->
               upd_only x (Eff e k).

Lemma upd_only_bind x {A B} (p : prog A) (g : A -> prog B) :
  upd_only x p -> (forall a, upd_only x (g a)) -> upd_only x (bind p g).
Proof. induction 1; simpl; intros G; auto. constructor; auto. Qed.

Lemma upd_only_perform x e :
  (is_storage_write e = true -> e = SUpdate x) -> upd_only x (perform e).
Proof. intros H. unfold perform. constructor; auto. intros r. constructor. Qed.

Lemma upd_only_delete_hook x h p : upd_only x (delete_hook_by_policy h p).
Proof.
  unfold delete_hook_by_policy. destruct (String.eqb (h_kind h) "CustomResourceDefinition"); [constructor|].
  destruct (has_policy h p); [|constructor].
  apply upd_only_bind; [apply upd_only_perform; discriminate|].
  intros [|]; [apply upd_only_perform; discriminate|constructor].
Qed.

Lemma upd_only_delete_hooks x hs p : upd_only x (delete_hooks_by_policy hs p).
Proof.
  induction hs as [|h t IH]; simpl; [constructor|].
  apply upd_only_bind; [apply upd_only_delete_hook|]. intros [|]; [exact IH|constructor].
Qed.

Lemma upd_only_loop rl ev todo : forall done, upd_only rl (exec_hooks_loop rl ev todo done).
Proof.
  induction todo as [|h t IH]; intros done; simpl; [apply upd_only_delete_hooks|].
  apply upd_only_bind; [apply upd_only_delete_hook|]. intros ok.
  destruct ok; simpl; [|constructor].
  unfold record_release. simpl.
  constructor; [intros _; reflexivity|]. intros _. simpl.
  constructor; [discriminate|]. intros created. destruct created; simpl; [|constructor].
  constructor; [discriminate|]. intros ready. destruct ready; [apply IH|].
  apply upd_only_bind; [apply upd_only_delete_hook|]. intros _.
  apply upd_only_bind; [apply upd_only_delete_hooks|]. intros _. constructor.
Qed.

Lemma upd_only_exec_hook rl ev : upd_only rl (exec_hook rl ev).
Proof. apply upd_only_loop. Qed.

(* ---- the ledger under such a program, without storage faults ---- *)
Lemma replace_rev_idem x y l :
  rev x = rev y -> replace_rev x (replace_rev y l) = replace_rev x l.
Proof.
  intros E. unfold replace_rev. rewrite map_map. apply map_ext. intros r.
  destruct (Nat.eqb (rev r) (rev y)) eqn:Q.
  - apply Nat.eqb_eq in Q.
    replace (Nat.eqb (rev y) (rev x)) with true by (symmetry; apply Nat.eqb_eq; congruence).
    replace (Nat.eqb (rev r) (rev x)) with true by (symmetry; apply Nat.eqb_eq; congruence).
    reflexivity.
  - reflexivity.
Qed.

Lemma has_rev_replace v x l : has_rev v (replace_rev x l) = has_rev v l.
Proof.
  unfold has_rev, replace_rev. induction l as [|r t IH]; simpl; auto.
  rewrite IH. f_equal. destruct (Nat.eqb (rev r) (rev x)) eqn:Q; auto.
  apply Nat.eqb_eq in Q. now rewrite Q.
Qed.

Section TestRun.
  Variable K : Type.
  Variable kh : forall e : eff, K -> K * resp e * list kev.
  Variable dresp : forall e : eff, resp e.

  Definition nofault : sfaults := mkSF None None.

  Lemma run_bind0 {A B} (p : prog A) (g : A -> prog B) : forall s : rstate K,
    run K kh dresp nofault (bind p g) s
    = run K kh dresp nofault (g (snd (run K kh dresp nofault p s))) (fst (run K kh dresp nofault p s)).
  Proof.
    induction p as [a|e k IH]; intros s; simpl; auto.
    destruct (step K kh dresp nofault e s) as [s' r]. apply IH.
  Qed.

  (* alive, and the ledger is the initial one with (possibly) the revision of x replaced by x *)
  Definition inv (x : release) (l0 : list release) (s : rstate K) : Prop :=
    dead s = false /\ (led s = l0 \/ led s = replace_rev x l0).

  (* one step of a live process without storage faults *)
  Lemma step_nofault e (s : rstate K) :
    dead s = false ->
    step K kh dresp nofault e s =
    if is_cluster_call e then
      let '(k', r, evs) := kh e (ks s) in
      (mkR (led s) k' (nwrites s) (if (is_storage_write e || is_cluster_mutation e)%bool then S (nmut s) else nmut s) false
           (tr s ++ map TKube evs)%list, r)
    else if is_storage_write e then
      let '(l', r, evs) := storage_apply dresp e (led s) in
      (mkR l' (ks s) (S (nwrites s)) (S (nmut s)) false (tr s ++ evs)%list, r)
    else
      let '(_, r, _) := storage_apply dresp e (led s) in (s, r).
  Proof.
    intros D. unfold step, nofault. cbn [crash wfail eq_opt]. rewrite !andb_false_r. rewrite D. reflexivity.
  Qed.

  Lemma step_inv x l0 e (s : rstate K) :
    inv x l0 s -> (is_storage_write e = true -> e = SUpdate x) ->
    inv x l0 (fst (step K kh dresp nofault e s)).
  Proof.
    intros [D L] W. rewrite (step_nofault e s D).
    destruct (is_cluster_call e) eqn:C.
    - destruct (kh e (ks s)) as [[k' r] evs]. simpl. split; auto.
    - destruct (is_storage_write e) eqn:S.
      + specialize (W eq_refl). subst e. simpl.
        destruct (has_rev (rev x) (led s)) eqn:H; simpl; split; auto.
        destruct L as [-> | ->]; [now right|]. right. now apply replace_rev_idem.
      + destruct (storage_apply dresp e (led s)) as [[l' r] evs]. simpl. split; auto.
  Qed.

  Lemma run_inv x l0 {A} (p : prog A) :
    upd_only x p -> forall s, inv x l0 s -> inv x l0 (fst (run K kh dresp nofault p s)).
  Proof.
    induction 1 as [a|e k W _ IH]; intros s I; simpl; auto.
    pose proof (step_inv x l0 e s I W) as I'.
    destruct (step K kh dresp nofault e s) as [s' r]. simpl in I'. apply IH, I'.
  Qed.

  (* the stored history after helm test *)
  Definition test_ledger (incl excl : list string) (l : list release) : list release :=
    match max_rev_of l with
    | None => l
    | Some rel =>
        replace_rev (with_hooks rel (fst (test_split incl excl (hooks rel)) ++ snd (test_split incl excl (hooks rel)))%list) l
    end.

  Lemma run_test_ledger incl excl l k :
    led (fst (run K kh dresp nofault (release_testing incl excl) (mkR l k 0 0 false []))) = test_ledger incl excl l.
  Proof.
    unfold release_testing, test_ledger.
    rewrite run_bind0. unfold perform at 1. cbn [run].
    rewrite (step_nofault SHistory (mkR l k 0 0 false []) eq_refl). cbn [is_cluster_call is_storage_write storage_apply fst snd led].
    destruct (max_rev_of l) as [rel|] eqn:M; [|reflexivity].
    destruct (test_split incl excl (hooks rel)) as [skipped executing] eqn:TS. simpl fst. simpl snd.
    rewrite run_bind0.
    set (s0 := mkR l k 0 0 false []).
    pose proof (run_inv (with_hooks rel executing) l _ (upd_only_exec_hook (with_hooks rel executing) TestHook) s0) as I.
    assert (I0 : inv (with_hooks rel executing) l s0) by (split; [reflexivity|now left]).
    specialize (I I0).
    destruct (run K kh dresp nofault (exec_hook (with_hooks rel executing) TestHook) s0) as [s1 ok].
    simpl fst in *. simpl snd. destruct I as [D L].
    set (final := with_hooks rel (skipped ++ executing)%list).
    assert (HR : has_rev (rev final) (led s1) = true).
    { assert (H0 : has_rev (rev rel) l = true).
      { apply max_rev_of_in in M. unfold has_rev. apply existsb_exists. exists rel. split; auto. apply Nat.eqb_refl. }
      destruct L as [-> | ->]; simpl; [exact H0|]. rewrite has_rev_replace. exact H0. }
    rewrite (step_nofault _ s1 D). cbn [is_cluster_call is_storage_write storage_apply]. rewrite HR. simpl.
    assert (E : replace_rev final (led s1) = replace_rev final l).
    { destruct L as [-> | ->]; auto. now apply replace_rev_idem. }
    destruct (negb ok); simpl; exact E.
  Qed.

  (* C12_test_preserves_hooks *)
  Theorem test_preserves_hooks incl excl l k :
    NoDup (map rev l) ->
    Forall2 (fun a b => rev b = rev a /\ st b = st a /\ chart_id b = chart_id a /\ config_id b = config_id a
                        /\ manifest b = manifest a /\ Permutation (hooks b) (hooks a))
            l (led (fst (run K kh dresp nofault (release_testing incl excl) (mkR l k 0 0 false [])))).
  Proof.
    intros ND. rewrite run_test_ledger. unfold test_ledger.
    assert (R : forall l', Forall2 (fun a b => rev b = rev a /\ st b = st a /\ chart_id b = chart_id a /\ config_id b = config_id a
                        /\ manifest b = manifest a /\ Permutation (hooks b) (hooks a)) l' l').
    { induction l'; constructor; auto. repeat split; auto. }
    destruct (max_rev_of l) as [rel|] eqn:M; [|apply R].
    apply max_rev_of_in in M.
    unfold replace_rev.
    assert (G : forall l', (forall a, In a l' -> rev a = rev rel -> a = rel) ->
      Forall2 (fun a b => rev b = rev a /\ st b = st a /\ chart_id b = chart_id a /\ config_id b = config_id a
                        /\ manifest b = manifest a /\ Permutation (hooks b) (hooks a)) l'
        (map (fun r => if Nat.eqb (rev r)
                            (rev (with_hooks rel (fst (test_split incl excl (hooks rel)) ++ snd (test_split incl excl (hooks rel)))%list))
                       then with_hooks rel (fst (test_split incl excl (hooks rel)) ++ snd (test_split incl excl (hooks rel)))%list
                       else r) l')).
    { induction l' as [|a t IH]; intros U; simpl; constructor.
      - simpl rev. destruct (Nat.eqb (rev a) (rev rel)) eqn:Q.
        + apply Nat.eqb_eq in Q. rewrite (U a (or_introl eq_refl) Q). simpl.
          repeat split; auto. apply test_split_perm.
        + repeat split; auto.
      - apply IH. intros b Hb. apply U. now right. }
    apply G. intros a Ha E.
    clear G R. induction l as [|x t IH]; [destruct Ha|].
    simpl in ND. inversion ND as [|? ? N1 N2]; subst.
    destruct Ha as [<-|Ha], M as [<-|M]; auto.
    - exfalso. apply N1. rewrite E. now apply in_map.
    - exfalso. apply N1. rewrite <- E. now apply in_map.
  Qed.
End TestRun.

(* ---- the hypothesis "no storage fault" is needed: a failing final write leaves the reduced hook
   list in storage (the record execHook wrote before creating the test hook) ---- *)
Local Open Scope string_scope.
Definition tf_test : hook := mkHook (mkRes "ConfigMap" "ht" [("d:h", "ht")]) [TestHook] 0 [].
Definition tf_pre : hook := mkHook (mkRes "ConfigMap" "hpre" [("d:h", "hpre")]) [PreDelete] 0 [].
Definition tf_rel : release := mkRelease 1 SDeployed 1 1 [mkRes "ConfigMap" "a" [("d:k", "v1")]] [tf_test; tf_pre].

(* storage writes of `helm test --filter name=ht`: #0 the record of execHook, #1 the final Update *)
Definition tf_world_after : world * outcome * list tev :=
  run_test_op "rel" "default" ["ht"] [] (mkSF (Some 1) None) (mkCF None None false) (mkW [tf_rel] []).

Example test_final_write_fails_refuted :
  map (fun r => map h_name (hooks r)) (w_led (fst (fst tf_world_after))) = [["ht"]]
  /\ snd (fst tf_world_after) = OErr EOtherErr.
Proof. vm_compute. split; reflexivity. Qed.

(* non-vacuity of test_preserves_hooks: the same run without the fault *)
Example test_keeps_hooks_example :
  map (fun r => map h_name (hooks r))
      (w_led (fst (fst (run_test_op "rel" "default" ["ht"] [] (mkSF None None) (mkCF None None false) (mkW [tf_rel] [])))))
  = [["hpre"; "ht"]].
Proof. vm_compute. reflexivity. Qed.

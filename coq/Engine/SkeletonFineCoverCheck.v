(* NOT part of any check (nothing requires this file; built by a full `make` only, like
   Engine/SkeletonDeep.v): the literal SkeletonFineCover.expected_unneeded is what the
   label-based necessity computes on the expected table (about 50 s; coqchk would need many
   minutes).  By hand:  cd coq && coqc -Q . Helm Engine/SkeletonFineCoverCheck.v *)
From Coq Require Import List String.
From Helm Require Import Engine.Skeleton Engine.SkeletonExpected Engine.SkeletonFine Engine.SkeletonFineCover.
Import ListNotations.

Lemma expected_unneeded_computed : unneeded expected the_probes = expected_unneeded.
Proof. vm_compute. reflexivity. Qed.

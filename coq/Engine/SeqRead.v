(* Storage READ faults and the release-engine model.

   The effect signature (Engine/Eff.v) gives the storage reads no error answer: SHistory and
   SDeployedAll answer a list of records, SGet an option.  The Go code has three reactions to a
   failed read: the operation aborts (Upgrade.prepareUpgrade, Storage.removeLeastRecent, Rollback,
   Uninstall), the error is taken for "no such release" on purpose (Install.availableName,
   Install.replaceRelease), or — Rollback's last lookup — the operation fails after its record was
   created.  None of them can be told apart from an EMPTY answer inside the model, so histories
   with a read fault are compared with the model only up to the faulted operation and judged by
   the runtime oracles from there on (harness/internal/eng/rfail.go).

   What the model CAN say is what would happen if a failed read were answered like an empty one —
   which is exactly what the seeded changes C01-10 / C13-10 make Storage.DeployedAll do (every
   error of the status=deployed query becomes ErrNoDeployedReleases).  [lose_read n p] is the
   program p whose n-th read effect (0-based, in execution order) is performed but answered
   with the empty answer; everything else runs as usual.  The two refutations below are the
   model's account of clauses (a) and (b) of C01-10; the harness replays the same histories on
   the real code with a real injected read error (corpus of c01_rfail.go), where the unchanged
   tree aborts and leaves the ledger alone. *)
From Coq Require Import List String Bool Arith ZArith.
From Helm Require Import Common.Assoc Engine.Types Engine.Eff Engine.Ops Engine.Cluster Engine.Seq Engine.Contain.
Import ListNotations.
Local Open Scope string_scope.

Definition is_read (e : eff) : bool :=
  match e with SHistory | SDeployedAll | SGet _ => true | _ => false end.

(* the empty answer: no records / no such revision (for the other effects: never used) *)
Definition empty_answer (e : eff) : resp e := dead_resp e.

Fixpoint lose_read {A} (n : nat) (p : prog A) : prog A :=
  match p with
  | Ret a => Ret a
  | Eff e k =>
      if is_read e then
        match n with
        | 0 => Eff e (fun _ => k (empty_answer e))
        | S m => Eff e (fun r => lose_read m (k r))
        end
      else Eff e (fun r => lose_read n (k r))
  end.

(* losing no read at all: the counter is never reached by a program with fewer reads; and the
   transformation keeps the effects of the prefix — stated for the one fact used below *)
Lemma lose_read_ret {A} n (a : A) : lose_read n (Ret a) = Ret a.
Proof. reflexivity. Qed.

(* one operation on a world of the object-store cluster, its n-th read answered empty *)
Definition run_lost_read (n : nat) (o : op) (w : world) : world * outcome * list tev :=
  let k0 := mkK (w_objs w) None None false in
  let '(s, out) := run kstate (kube_handle "rel" "default") dead_resp (mkSF None None)
                       (lose_read n (op_prog "rel" "default" o)) (mkR (w_led w) k0 0 0 false []) in
  (mkW (led s) (objs (ks s)), out, tr s).

Definition world_of (h : list hstep) : world :=
  match List.rev (run_history "rel" "default" h (mkW [] [])) with
  | (w, _, _) :: _ => w
  | [] => mkW [] []
  end.

Definition cf_waitf : cfaults := mkCF None None true.

(* (a) 1:deployed 2:failed 3:failed; upgrade --history-max 3.  Reads of the upgrade: Last (0), the
   deployed lookup of prepareUpgrade (1), History (2) and the deployed lookup (3) of
   removeLeastRecent.  With read 3 answered empty the pruning loop protects nothing and deletes
   the oldest revision — the DEPLOYED one *)
Definition ra_prefix : list hstep :=
  [ clean (OpInstall fl0 1 1 [cmr "a" "v1"] []);
    faulted (OpUpgrade fl0 2 2 [cmr "a" "v2"] []) cf_waitf;
    faulted (OpUpgrade fl0 3 3 [cmr "a" "v3"] []) cf_waitf ].
Definition fl_max3 : flags := mkFlags false false false false 3 false false false false 0.
Definition ra_op : op := OpUpgrade fl_max3 4 4 [cmr "a" "v4"] [].

Lemma lost_read_prunes_deployed_refuted :
  statuses (w_led (world_of ra_prefix)) = [(1, SDeployed); (2, SFailed); (3, SFailed)] /\
  (* answered truthfully: revision 2, the oldest one that is not deployed, is pruned *)
  (let '(w, out, _) := run_store_op "rel" "default" (mkOp ra_op (mkSF None None) (mkCF None None false)) (world_of ra_prefix) in
   out = OOk /\ statuses (w_led w) = [(1, SSuperseded); (3, SFailed); (4, SDeployed)]) /\
  (* the deployed lookup of the pruning answered empty: revision 1 is deleted while it is deployed *)
  (let '(w, out, t) := run_lost_read 3 ra_op (world_of ra_prefix) in
   out = OOk /\ statuses (w_led w) = [(2, SFailed); (3, SFailed); (4, SDeployed)] /\
   In (TStore "delete" 1 SUnknown) t).
Proof. vm_compute. repeat split. left. reflexivity. Qed.

(* (b) 1:superseded 2:deployed; rollback to 1.  Reads: Last (0), History (1), Get (2), and the lookup
   of the revisions to supersede (3).  With read 3 answered empty nothing is superseded and the
   rollback reports success with TWO deployed revisions *)
Definition rb_prefix : list hstep :=
  [ clean (OpInstall fl0 1 1 [cmr "a" "v1"] []);
    clean (OpUpgrade fl0 2 2 [cmr "a" "v2"; cmr "b" "v2"] []) ].
Definition fl_to1 : flags := mkFlags false false false false 0 false false false false 1.

Lemma lost_read_two_deployed_refuted :
  statuses (w_led (world_of rb_prefix)) = [(1, SSuperseded); (2, SDeployed)] /\
  (let '(w, out, _) := run_store_op "rel" "default" (mkOp (OpRollback fl_to1) (mkSF None None) (mkCF None None false)) (world_of rb_prefix) in
   out = OOk /\ statuses (w_led w) = [(1, SSuperseded); (2, SSuperseded); (3, SDeployed)]) /\
  (let '(w, out, _) := run_lost_read 3 (OpRollback fl_to1) (world_of rb_prefix) in
   out = OOk /\ statuses (w_led w) = [(1, SSuperseded); (2, SDeployed); (3, SDeployed)]).
Proof. vm_compute. repeat split. Qed.

(* losing a read that the operation does not make changes nothing: the upgrade above makes four *)
Lemma lost_read_beyond_is_identity :
  run_lost_read 4 ra_op (world_of ra_prefix)
  = run_store_op "rel" "default" (mkOp ra_op (mkSF None None) (mkCF None None false)) (world_of ra_prefix).
Proof. vm_compute. reflexivity. Qed.

(* Finding K14 (repaired in /repo: availableName and replaceRelease now return every error of
   Releases.History but not-found; this lemma stays as the refutation of the code BEFORE the
   repair) — the one place where the Go code itself took a failed read for an empty answer:
   Install.availableName (and replaceRelease) returned nil on ANY error of Releases.History.
   So here [lose_read] WAS the behaviour of the code: 2:superseded 3:deployed (revision 1
   pruned by a history limit); install with its name check (read 0) lost: revision 1 is created
   next to the history and deployed — a new revision BELOW the highest one, two deployed *)
Definition fl_max2 : flags := mkFlags false false false false 2 false false false false 0.
Definition nc_prefix : list hstep :=
  [ clean (OpInstall fl0 1 1 [cmr "a" "v1"] []);
    clean (OpUpgrade fl0 2 2 [cmr "a" "v2"] []);
    clean (OpUpgrade fl_max2 3 3 [cmr "a" "v3"] []) ].
Definition nc_op : op := OpInstall fl0 4 4 [cmr "a" "v4"] [].

Lemma lost_name_check_refuted :
  statuses (w_led (world_of nc_prefix)) = [(2, SSuperseded); (3, SDeployed)] /\
  (* answered truthfully: the name is in use *)
  (let '(w, out, _) := run_store_op "rel" "default" (mkOp nc_op (mkSF None None) (mkCF None None false)) (world_of nc_prefix) in
   out = OErr ENameInUse /\ statuses (w_led w) = [(2, SSuperseded); (3, SDeployed)]) /\
  (let '(w, out, _) := run_lost_read 0 nc_op (world_of nc_prefix) in
   out = OOk /\ statuses (w_led w) = [(1, SDeployed); (2, SSuperseded); (3, SDeployed)]).
Proof. vm_compute. repeat split. Qed.

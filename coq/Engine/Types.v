(* Release engine — data.  Shared by C01 C02 C03 C06 C07 C09 C12. *)
From Coq Require Import List String Ascii Bool Arith ZArith.
From Helm Require Import Common.Assoc.
Import ListNotations.
Local Open Scope string_scope.

Inductive status :=
| SUnknown | SDeployed | SUninstalled | SSuperseded | SFailed | SUninstalling
| SPendingInstall | SPendingUpgrade | SPendingRollback.

Definition status_eqb (a b : status) : bool :=
  match a, b with
  | SUnknown, SUnknown | SDeployed, SDeployed | SUninstalled, SUninstalled
  | SSuperseded, SSuperseded | SFailed, SFailed | SUninstalling, SUninstalling
  | SPendingInstall, SPendingInstall | SPendingUpgrade, SPendingUpgrade
  | SPendingRollback, SPendingRollback => true
  | _, _ => false
  end.

Definition status_str (s : status) : string :=
  match s with
  | SUnknown => "unknown" | SDeployed => "deployed" | SUninstalled => "uninstalled"
  | SSuperseded => "superseded" | SFailed => "failed" | SUninstalling => "uninstalling"
  | SPendingInstall => "pending-install" | SPendingUpgrade => "pending-upgrade"
  | SPendingRollback => "pending-rollback"
  end.

Definition all_statuses : list status :=
  [SUnknown; SDeployed; SUninstalled; SSuperseded; SFailed; SUninstalling;
   SPendingInstall; SPendingUpgrade; SPendingRollback].

(* Status.IsPending *)
Definition is_pending (s : status) : bool :=
  match s with SPendingInstall | SPendingUpgrade | SPendingRollback => true | _ => false end.

(* A Kubernetes object restricted to maps of scalars: flattened field map.
   Field names: "d:<key>" data entries, "l:<key>" labels, "a:<key>" annotations. *)
Definition fields := list (string * string).

Record res := mkRes { r_kind : string; r_name : string; r_fields : fields }.

(* objects live in one namespace; the key is Kind/name *)
Definition rkey (r : res) : string := r_kind r ++ "/" ++ r_name r.

Inductive event :=
| PreInstall | PostInstall | PreDelete | PostDelete | PreUpgrade | PostUpgrade
| PreRollback | PostRollback | TestHook.

Definition event_eqb (a b : event) : bool :=
  match a, b with
  | PreInstall, PreInstall | PostInstall, PostInstall | PreDelete, PreDelete
  | PostDelete, PostDelete | PreUpgrade, PreUpgrade | PostUpgrade, PostUpgrade
  | PreRollback, PreRollback | PostRollback, PostRollback | TestHook, TestHook => true
  | _, _ => false
  end.

Definition event_str (e : event) : string :=
  match e with
  | PreInstall => "pre-install" | PostInstall => "post-install" | PreDelete => "pre-delete"
  | PostDelete => "post-delete" | PreUpgrade => "pre-upgrade" | PostUpgrade => "post-upgrade"
  | PreRollback => "pre-rollback" | PostRollback => "post-rollback" | TestHook => "test"
  end.

Inductive policy := BeforeHookCreation | HookSucceeded | HookFailed.

Definition policy_eqb (a b : policy) : bool :=
  match a, b with
  | BeforeHookCreation, BeforeHookCreation | HookSucceeded, HookSucceeded | HookFailed, HookFailed => true
  | _, _ => false
  end.

Record hook := mkHook {
  h_res : res;                      (* kind, name, content of the hook resource *)
  h_events : list event;
  h_weight : Z;
  h_policies : list policy }.

Definition h_name (h : hook) : string := r_name (h_res h).
Definition h_kind (h : hook) : string := r_kind (h_res h).

Record release := mkRelease {
  rev : nat;
  st : status;
  chart_id : nat;                   (* which chart version *)
  config_id : nat;                  (* which user values *)
  manifest : list res;              (* as rendered: without ownership metadata *)
  hooks : list hook }.

Definition with_status (r : release) (s : status) : release :=
  mkRelease (rev r) s (chart_id r) (config_id r) (manifest r) (hooks r).

Definition with_rev (r : release) (n : nat) : release :=
  mkRelease n (st r) (chart_id r) (config_id r) (manifest r) (hooks r).

(* ---- ownership metadata (validate.go) ---- *)
Definition managed_by_key := "l:app.kubernetes.io/managed-by".
Definition rel_name_key := "a:meta.helm.sh/release-name".
Definition rel_ns_key := "a:meta.helm.sh/release-namespace".
Definition policy_key := "a:helm.sh/resource-policy".

(* setMetadataVisitor with force = true *)
Definition stamp_fields (rel_name rel_ns : string) (f : fields) : fields :=
  aset rel_ns_key rel_ns (aset rel_name_key rel_name (aset managed_by_key "Helm" f)).

Definition stamp (rel_name rel_ns : string) (r : res) : res :=
  mkRes (r_kind r) (r_name r) (stamp_fields rel_name rel_ns (r_fields r)).

(* checkOwnership *)
Definition owned_by (rel_name rel_ns : string) (f : fields) : bool :=
  match aget managed_by_key f, aget rel_name_key f, aget rel_ns_key f with
  | Some m, Some n, Some s => String.eqb m "Helm" && String.eqb n rel_name && String.eqb s rel_ns
  | _, _, _ => false
  end.

(* ---- strings.ToLower / strings.TrimSpace on ASCII, for the keep policy ---- *)
Definition lower_ascii (c : ascii) : ascii :=
  let n := nat_of_ascii c in
  if Nat.leb 65 n && Nat.leb n 90 then ascii_of_nat (n + 32) else c.

Fixpoint to_lower (s : string) : string :=
  match s with EmptyString => EmptyString | String c t => String (lower_ascii c) (to_lower t) end.

Definition is_space (c : ascii) : bool :=
  let n := nat_of_ascii c in
  Nat.eqb n 32 || Nat.eqb n 9 || Nat.eqb n 10 || Nat.eqb n 13 || Nat.eqb n 11 || Nat.eqb n 12.

Fixpoint trim_left (s : string) : string :=
  match s with
  | String c t => if is_space c then trim_left t else s
  | EmptyString => EmptyString
  end.

Fixpoint rev_string (s acc : string) : string :=
  match s with EmptyString => acc | String c t => rev_string t (String c acc) end.

Definition trim_space (s : string) : string :=
  rev_string (trim_left (rev_string (trim_left s) EmptyString)) EmptyString.

(* filterManifestsToKeep: manifest-side policy, case-insensitive, trimmed *)
Definition manifest_keep (r : res) : bool :=
  match aget policy_key (r_fields r) with
  | Some v => String.eqb (to_lower (trim_space v)) "keep"
  | None => false
  end.

(* kube.Client.update: live-side policy, exact *)
Definition live_keep (f : fields) : bool :=
  match aget policy_key f with Some v => String.eqb v "keep" | None => false end.

Definition in_keys (k : string) (rs : list res) : bool := existsb (fun r => String.eqb (rkey r) k) rs.

Fixpoint max_rev_of (l : list release) : option release :=
  match l with
  | [] => None
  | r :: t => match max_rev_of t with
              | Some m => if Nat.ltb (rev m) (rev r) then Some r else Some m
              | None => Some r
              end
  end.

(* operation flags, one record for all four operations *)
Record flags := mkFlags {
  f_atomic : bool; f_cleanup : bool; f_keep_history : bool; f_replace : bool;
  f_max_history : nat; f_no_hooks : bool; f_dry_run : bool; f_client_only : bool;
  f_take_ownership : bool; f_version : nat (* rollback target, 0 = previous *) }.

Inductive errclass :=
| EPending | ENameInUse | EExistsRev | ENoDeployed | EConflict | ENotFoundRel | EOtherErr.

Inductive outcome := OOk | OErr (c : errclass) | OCrashed.

Definition errclass_eqb (a b : errclass) : bool :=
  match a, b with
  | EPending, EPending | ENameInUse, ENameInUse | EExistsRev, EExistsRev | ENoDeployed, ENoDeployed
  | EConflict, EConflict | ENotFoundRel, ENotFoundRel | EOtherErr, EOtherErr => true
  | _, _ => false
  end.

Definition outcome_eqb (a b : outcome) : bool :=
  match a, b with
  | OOk, OOk | OCrashed, OCrashed => true
  | OErr x, OErr y => errclass_eqb x y
  | _, _ => false
  end.

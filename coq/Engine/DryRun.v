(* C06 — dry-run: definitions.
   [is_dry_run] transcribes Install.isDryRun (pkg/action/install.go) and Upgrade.isDryRun
   (pkg/action/upgrade.go): DryRun || DryRunOption == "client" || == "server" || == "true".
   Rollback and Uninstall have the single boolean field DryRun.
   [all_eff Q p]: every effect on every path of the resumption program [p] satisfies [Q],
   whatever the responses are. *)
From Coq Require Import List String Bool Arith ZArith.
From Helm Require Import Common.Assoc Engine.Types Engine.Eff Engine.Ops Engine.Cluster Engine.Seq.
Import ListNotations.
Local Open Scope string_scope.

(* the spellings of DryRunOption that make an install / upgrade a dry run *)
Definition dry_spellings : list string := ["client"; "server"; "true"].

Definition is_dry_run (b : bool) (opt : string) : bool :=
  b || String.eqb opt "client" || String.eqb opt "server" || String.eqb opt "true".

(* the form the translator table is compared with *)
Definition is_dry_run_tbl (tbl : list string) (b : bool) (opt : string) : bool :=
  b || existsb (String.eqb opt) tbl.

Definition set_dry_flags (fl : flags) (d : bool) : flags :=
  mkFlags (f_atomic fl) (f_cleanup fl) (f_keep_history fl) (f_replace fl) (f_max_history fl)
          (f_no_hooks fl) d (f_client_only fl) (f_take_ownership fl) (f_version fl).

Definition op_flags (o : op) : flags :=
  match o with
  | OpInstall fl _ _ _ _ | OpUpgrade fl _ _ _ _ | OpRollback fl | OpUninstall fl => fl
  end.

Definition set_dry_op (o : op) (d : bool) : op :=
  match o with
  | OpInstall fl c v m h => OpInstall (set_dry_flags fl d) c v m h
  | OpUpgrade fl c v m h => OpUpgrade (set_dry_flags fl d) c v m h
  | OpRollback fl => OpRollback (set_dry_flags fl d)
  | OpUninstall fl => OpUninstall (set_dry_flags fl d)
  end.

Definition op_dry (o : op) : bool := f_dry_run (op_flags o).

(* ---- predicates over programs ---- *)
Inductive all_eff {A : Type} (Q : eff -> Prop) : prog A -> Prop :=
| AE_ret : forall a, all_eff Q (Ret a)
| AE_eff : forall e k, Q e -> (forall r, all_eff Q (k r)) -> all_eff Q (Eff e k).

(* every value the program can return satisfies P *)
Inductive all_ret {A : Type} (P : A -> Prop) : prog A -> Prop :=
| AR_ret : forall a, P a -> all_ret P (Ret a)
| AR_eff : forall e k, (forall r, all_ret P (k r)) -> all_ret P (Eff e k).

(* no storage write and no mutating cluster call *)
Definition non_mutating (e : eff) : Prop :=
  is_storage_write e = false /\ is_cluster_mutation e = false.

(* effects that neither write nor log anything under the object-store handler:
   storage reads and the ownership look-up *)
Definition silent (e : eff) : Prop :=
  match e with
  | SHistory | SDeployedAll | SGet _ | KExisting _ _ => True
  | _ => False
  end.

(* storage reads only: nothing reaches the cluster *)
Definition storage_read (e : eff) : Prop :=
  match e with SHistory | SDeployedAll | SGet _ => True | _ => False end.

Definition is_tstore (t : tev) : bool := match t with TStore _ _ _ => true | TKube _ => false end.

Definition kev_muts (c : kev) : list (verb * string) := match c with KCall _ m => m end.

(* the effective mutations of a trace *)
Definition trace_muts (t : list tev) : list (verb * string) :=
  flat_map (fun e => match e with TKube c => kev_muts c | TStore _ _ _ => [] end) t.

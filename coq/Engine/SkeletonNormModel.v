(* Transfer of the model theorems from the expected skeleton to any table with the same normal
   form, under the path semantics nx of Engine/SkeletonNorm.v: a run that the checker of
   Engine/Skeleton.v accepts on the expected table (raccepts) is an nx-path of the inlined
   expected entry function (Engine/SkeletonInlineProofs.v), hence of its normal form, hence of
   the inlined entry function of the other table (Engine/SkeletonNormProofs.v).  No computation:
   the lemmas are generic in the tables. *)
From Coq Require Import List String Bool Arith Lia.
From Helm Require Import Engine.Types Engine.Eff Engine.Ops Engine.Skeleton Engine.SkeletonExpected
                         Engine.SkeletonModel Engine.SkeletonProofs Engine.SkeletonNorm
                         Engine.SkeletonNormProofs Engine.SkeletonInlineProofs.
Import ListNotations.
Local Open Scope string_scope.

(* the model's behaviour in scenario s is an nx-path of the inlined entry function of table t
   (FUEL rounds per loop) *)
Notation nfollows t s fails :=
  (naccepts (inline_root t (entry_of (sc_op s))) (model_trace s fails) FUEL (env_of (sc_fl s))).

Lemma FUEL_le_depth : FUEL <= S DEPTH.
Proof. unfold FUEL, DEPTH. lia. Qed.

(* [follows] unfolded; stated in this direction the kernel checks it at once (the other way
   round it evaluates the checker: notes/SKEL.md, "Kernel conversion") *)
Lemma follows_unfold (t : table) (rt : rtable) (s : scen) (fails : list nat) :
  follows t rt s fails =
  raccepts rt (model_trace s fails) FUEL (index_of (entry_of (sc_op s)) t) (env_of (sc_fl s)).
Proof. reflexivity. Qed.

Lemma follows_transfer (t1 t2 : table) (rt1 : rtable) :
  rt1 = resolve_table t1 ->
  forall (s : scen) (fails : list nat),
    norm_root t2 (entry_of (sc_op s)) = norm_root t1 (entry_of (sc_op s)) ->
    follows t1 rt1 s fails = true ->
    nfollows t2 s fails = true.
Proof.
  intros -> s fails Hn H. rewrite follows_unfold in H.
  rewrite (same_normal_form_same_paths t2 t1 _ Hn).
  exact (raccepts_naccepts t1 _ FUEL _ _ FUEL_le_depth H).
Qed.

Lemma entry_is_root : forall o, In (entry_of o) roots.
Proof. intros []; cbn; tauto. Qed.

(* nx is not vacuous: the install trace of Props/Skeleton.v with the storage create moved
   behind the cluster create, or dropped, is no path of the inlined skeleton either *)
Lemma nx_rejects_reordered :
  naccepts (inline_root expected "Install.RunWithContext")
           [DHistory; KcExisting false; KcCreate; DCreate; KcWait; DUpdate] 6 (env_of (sc_fl s_install)) = false.
Proof. vm_compute. reflexivity. Qed.

Lemma nx_rejects_dropped :
  naccepts (inline_root expected "Install.RunWithContext")
           [DHistory; KcExisting false; KcCreate; KcWait; DUpdate] 6 (env_of (sc_fl s_install)) = false.
Proof. vm_compute. reflexivity. Qed.

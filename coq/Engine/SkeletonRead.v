(* Read faults against the effect skeleton of the Go source.

   Engine/SkeletonFine.v asks whether a run of the model - a list of (effect kind, answered an error) -
   is a path of the inlined Go entry point.  Here the runs are those of Engine/OpsR.v with the n-th
   storage read FAILING: the read appears in the run as (its kind, true) - the Go code did call the driver
   and got an error - followed by what the handler does, and nothing else.  [read_fine_ok t]: for every
   scenario of the failure space of Engine/SkeletonModel.v (options x ledgers) and every read position of
   the operation, that run is a path of the skeleton t.  Evaluated on the table regenerated from /repo on
   every check run (Props/C01.v): where the Go code tests the error of a read and returns, the model's
   handler must return there too (and vice versa), and what a handler still does (rollback's last lookup:
   record the revision failed) must be what the Go code does on that branch.  Definitions only. *)
From Coq Require Import List String Bool Arith NArith ZArith.
From Helm Require Import Common.Assoc Engine.Types Engine.Eff Engine.Ops Engine.Cluster Engine.Seq Engine.OpsR
                         Engine.Skeleton Engine.SkeletonModel Engine.SkeletonNorm Engine.SkeletonFine.
Import ListNotations.
Local Open Scope string_scope.

(* run a program of Engine/Ops.v in the scripted world of SkeletonModel: run, result, ledger *)
Fixpoint orun {A} (adopt : bool) (p : prog A) (led : list release) : list (kind * bool) * A * list release :=
  match p with
  | Ret a => ([], a, led)
  | Eff e k =>
      if is_cluster_call e then
        let r := ok_resp adopt e in
        let '(t, a, l) := orun adopt (k r) led in ((kind_of e, resp_err e r) :: t, a, l)
      else
        let '(led', r, _) := storage_apply dead_resp e led in
        let '(t, a, l) := orun adopt (k r) led' in ((kind_of e, resp_err e r) :: t, a, l)
  end.

(* the run of an operation of Engine/OpsR.v whose n-th read fails (None: no read fails) *)
Fixpoint rorun {A} (adopt : bool) (n : option nat) (p : rprog A) (led : list release) : list (kind * bool) :=
  match p with
  | RRet _ => []
  | RTry e k h =>
      match n with
      | Some 0 => (kind_of e, true) :: fst (fst (orun adopt (erase h) led))
      | _ =>
          let '(led', r, _) := storage_apply dead_resp e led in
          (kind_of e, resp_err e r) :: rorun adopt (option_map Nat.pred n) (k r) led'
      end
  | RLift q k =>
      let '(t, b, led') := orun adopt q led in (t ++ rorun adopt n (k b) led')%list
  end.

Definition progR_of (s : scen) : rprog outcome :=
  match sc_op s with
  | OInstall => installR rn ns (sc_fl s) 2 2 [r1; r3] hks
  | OUpgrade => upgradeR rn ns (sc_fl s) 2 2 [r1; r3] hks
  | ORollback => rollbackR rn ns (sc_fl s)
  | OUninstall => uninstallR (sc_fl s)
  end.

Definition read_kind (k : kind) : bool :=
  match k with DHistory | DDeployed | DGet => true | _ => false end.

(* the number of reads of the fault-free run *)
Definition nreads (s : scen) : nat :=
  List.length (filter (fun x => read_kind (fst x)) (rorun (sc_adopt s) None (progR_of s) (sc_led s))).

Definition rfollows (root : nsk) (s : scen) (n : option nat) : bool :=
  oaccepts root (rorun (sc_adopt s) n (progR_of s) (sc_led s)) OFUEL (env_of (sc_fl s)).

(* fault-free (the runs of SkeletonFine, through the programs of OpsR) and every read position *)
Definition rcheck (t : table) (o : opk) : bool :=
  let root := oroot t o in
  forallb (fun fl => forallb (fun l =>
     let s := mkScen o fl l false in
     rfollows root s None && forallb (fun n => rfollows root s (Some n)) (List.seq 0 (nreads s)))
     (fail_ledgers o)) (fail_flag_space o).

Definition read_fine_ok (t : table) : bool := forallb (rcheck t) ops.

(* how many read-faulted runs that is *)
Definition read_fine_count : nat :=
  fold_right Nat.add 0 (map (fun o => fold_right Nat.add 0 (map (fun fl => fold_right Nat.add 0
     (map (fun l => nreads (mkScen o fl l false)) (fail_ledgers o))) (fail_flag_space o))) ops).

(* C09 — the pruning window.  What storage.Create's removeLeastRecent can delete:
   a revision [v] is pruned only if the pruner's own history read [h] (the one made inside
   Create) contains at least [max-history - 1] revisions numbered >= v (v included), i.e. at
   least max-history - 2 newer ones.  Nothing protects a PENDING revision of another operation.
   List lemma on [prune_pick] over the insertion-sorted history, a state-carrying predicate over
   [prog] ("every delete is justified by the latest history read"), its path lemma, and the
   proof for [upgrade] with every flag. *)
From Coq Require Import List String Bool Arith ZArith Lia Sorted.
From Helm Require Import Common.Assoc Engine.Types Engine.Eff Engine.Ops Engine.Cluster Engine.Seq Engine.SeqProofs
                         Engine.Conc Engine.ConcProofs Engine.ConcLocal Engine.ConcProofsB.
Import ListNotations.
Local Open Scope prog_scope.

Definition cnt (f : release -> bool) (l : list release) : nat := List.length (filter f l).

Lemma cnt_cons f x l : cnt f (x :: l) = (if f x then 1 else 0) + cnt f l.
Proof. unfold cnt. simpl. destruct (f x); reflexivity. Qed.

Lemma cnt_app f a b : cnt f (a ++ b) = cnt f a + cnt f b.
Proof. unfold cnt. rewrite filter_app, app_length. reflexivity. Qed.

Lemma cnt_insert f r l : cnt f (insert_by_rev r l) = cnt f (r :: l).
Proof.
  induction l as [|x t IH]; simpl; auto.
  destruct (Nat.leb (rev r) (rev x)); auto.
  rewrite !cnt_cons. rewrite IH, cnt_cons. lia.
Qed.

Lemma cnt_sort f l : cnt f (sort_by_rev l) = cnt f l.
Proof.
  induction l as [|x t IH]; simpl; auto. rewrite cnt_insert, !cnt_cons, IH. reflexivity.
Qed.

Lemma length_sort l : List.length (sort_by_rev l) = List.length l.
Proof.
  pose proof (cnt_sort (fun _ => true) l) as H. unfold cnt in H.
  assert (G : forall m : list release, filter (fun _ => true) m = m).
  { induction m; simpl; congruence. }
  now rewrite !G in H.
Qed.

Definition rle (a b : release) : Prop := rev a <= rev b.

Lemma in_insert y r l : In y (insert_by_rev r l) <-> y = r \/ In y l.
Proof.
  induction l as [|x t IH]; simpl; [intuition|].
  destruct (Nat.leb (rev r) (rev x)); simpl; [intuition|]. rewrite IH. intuition.
Qed.

Lemma insert_sorted r l : StronglySorted rle l -> StronglySorted rle (insert_by_rev r l).
Proof.
  induction l as [|x t IH]; simpl; intros H.
  - constructor; constructor.
  - inversion H; subst. destruct (Nat.leb (rev r) (rev x)) eqn:E.
    + apply Nat.leb_le in E. constructor; [exact H|]. constructor; [exact E|].
      rewrite Forall_forall in *. intros y Hy. specialize (H3 y Hy). unfold rle in *. lia.
    + apply Nat.leb_gt in E. constructor; [now apply IH|].
      rewrite Forall_forall in *. intros y Hy. apply in_insert in Hy. destruct Hy as [->|Hy]; [unfold rle; lia|auto].
Qed.

Lemma sort_sorted l : StronglySorted rle (sort_by_rev l).
Proof. induction l as [|x t IH]; simpl; [constructor|now apply insert_sorted]. Qed.

Lemma sorted_split a x b : StronglySorted rle (a ++ x :: b) -> Forall (rle x) b.
Proof.
  induction a as [|y t IH]; simpl; intros H; inversion H; subst; auto.
Qed.

Definition skipb (dep : option nat) (x : release) : bool :=
  match dep with Some d => Nat.eqb (rev x) d | None => false end.

Lemma prune_pick_split dep total maxkeep v : forall t p k,
  total = p + k + List.length t -> k + cnt (skipb dep) t <= 1 -> maxkeep <= total - p ->
  In v (prune_pick t dep total maxkeep p) ->
  exists a x b, t = (a ++ x :: b)%list /\ rev x = v /\ maxkeep <= S (List.length b).
Proof.
  induction t as [|x t IH]; simpl; intros p k Ht Hk Hm Hin; [contradiction|].
  destruct (Nat.eqb (total - p) maxkeep) eqn:E; [contradiction|]. apply Nat.eqb_neq in E.
  rewrite cnt_cons in Hk. fold (skipb dep x) in Hin.
  destruct (skipb dep x) eqn:Es.
  - destruct (IH p (S k)) as [a [y [b [E1 [E2 E3]]]]]; auto; try lia.
    exists (x :: a), y, b. subst. auto.
  - destruct Hin as [Hv|Hin].
    + exists [], x, t. split; [reflexivity|]. split; [exact Hv|]. lia.
    + destruct (IH (S p) k) as [a [y [b [E1 [E2 E3]]]]]; auto; try lia.
      exists (x :: a), y, b. subst. auto.
Qed.

Lemma nodup_cnt_rev d l : NoDup (revs l) -> cnt (fun x => Nat.eqb (rev x) d) l <= 1.
Proof.
  unfold revs. induction l as [|x t IH]; simpl; intros H; [unfold cnt; simpl; lia|].
  inversion H; subst. rewrite cnt_cons. specialize (IH H3).
  destruct (Nat.eqb (rev x) d) eqn:E; [|lia]. apply Nat.eqb_eq in E.
  assert (cnt (fun y => Nat.eqb (rev y) d) t = 0); [|lia].
  unfold cnt. destruct (filter (fun y => Nat.eqb (rev y) d) t) as [|y u] eqn:F; auto.
  exfalso. assert (Hy : In y (filter (fun y => Nat.eqb (rev y) d) t)) by (rewrite F; now left).
  apply filter_In in Hy. destruct Hy as [Hy Ey]. apply Nat.eqb_eq in Ey. apply H2. rewrite E, <- Ey. now apply in_map.
Qed.

(* the bound: at least [maxkeep] revisions of the history are numbered >= the pruned one *)
Definition newer_or_same (v : nat) (h : list release) : nat := cnt (fun x => Nat.leb v (rev x)) h.

Theorem prune_pick_newer h dep maxkeep v :
  NoDup (revs h) -> maxkeep < List.length h ->
  In v (prune_pick (sort_by_rev h) dep (List.length h) maxkeep 0) ->
  maxkeep <= newer_or_same v h.
Proof.
  intros Hn Hl Hin.
  destruct (prune_pick_split dep (List.length h) maxkeep v (sort_by_rev h) 0 0) as [a [x [b [E1 [E2 E3]]]]]; auto.
  - now rewrite length_sort.
  - simpl. destruct dep as [d|]; simpl.
    + rewrite (cnt_sort (fun x => Nat.eqb (rev x) d)). now apply nodup_cnt_rev.
    + unfold cnt. clear. induction (sort_by_rev h); simpl; auto.
  - lia.
  - unfold newer_or_same. rewrite <- (cnt_sort _ h), E1, cnt_app, cnt_cons.
    pose proof (sort_sorted h) as S. rewrite E1 in S. apply sorted_split in S.
    assert (G : cnt (fun y => Nat.leb v (rev y)) b = List.length b).
    { unfold cnt. clear -S E2. induction b as [|y t IH]; simpl; auto. inversion S; subst.
      unfold rle in H1. assert (Nat.leb (rev x) (rev y) = true) by (apply Nat.leb_le; lia).
      rewrite H. simpl. f_equal. auto. }
    rewrite G, E2, Nat.leb_refl. lia.
Qed.

(* ---- every delete of a program is justified by its latest history read ---- *)
Fixpoint prune_ok {A} (m : nat) (hl : option (list release)) (p : prog A) : Prop :=
  match p with
  | Ret _ => True
  | Eff e k =>
      match e as e' return (resp e' -> prog A) -> (option (list release) -> resp e' -> Prop) -> Prop with
      | SHistory => fun _ ih => forall h, ih (Some h) h
      | SDelete v => fun _ ih =>
          (exists h, hl = Some h /\ (NoDup (revs h) -> m <= newer_or_same v h)) /\ forall r, ih hl r
      | _ => fun _ ih => forall r, ih hl r
      end k (fun hl' r => prune_ok m hl' (k r))
  end.

Lemma prune_ok_of_no_delete {A} m (p : prog A) : all_eff not_delete p -> forall hl, prune_ok m hl p.
Proof.
  induction p as [a|e k IH]; simpl; auto. intros [He Hk] hl.
  destruct e; simpl in *; try contradiction; intros; apply IH; auto.
Qed.

Lemma prune_ok_bind {A B} m (p : prog A) (f : A -> prog B) : forall hl,
  prune_ok m hl p -> (forall a hl', prune_ok m hl' (f a)) -> prune_ok m hl (bind p f).
Proof.
  induction p as [a|e k IH]; simpl; intros hl Hp Hf; auto.
  destruct e; simpl in *; try (intros rr; apply IH; auto).
  destruct Hp as [Hb Hk]. split; [exact Hb|]. intros rr. apply IH; auto.
Qed.

(* the latest history answer before each position, threaded along a path *)
Definition delete_target (c : cev) : option nat :=
  match ce_eff c with SDelete v => Some v | _ => None end.

Fixpoint deletes_justified (m : nat) (hl : option (list release)) (evs : list cev) : Prop :=
  match evs with
  | [] => True
  | c :: t =>
      match delete_target c with
      | Some v => exists h, hl = Some h /\ (NoDup (revs h) -> m <= newer_or_same v h)
      | None => True
      end
      /\ deletes_justified m (match history_seen c with Some h => Some h | None => hl end) t
  end.

Lemma prune_ok_path {A} m evs : forall (p q : prog A) hl,
  prune_ok m hl p -> follows p evs q -> deletes_justified m hl evs.
Proof.
  induction evs as [|c t IH]; intros p q hl Hp Hf; simpl; auto.
  simpl in Hf. destruct p as [a|e k]; [contradiction|].
  destruct Hf as [rsp [out [Hc Hf]]]. rewrite Hc. unfold delete_target, history_seen. cbn [ce_eff ce_resp].
  revert rsp Hc Hf. destruct e; intros rsp Hc Hf; simpl in Hp; cbn;
    try (split; [exact I|]; eapply IH; [apply Hp|exact Hf]).
  destruct Hp as [Hb Hk]. split; [exact Hb|]. eapply IH; [apply Hk|exact Hf].
Qed.

(* ---- the programs ---- *)
Lemma prune_ok_delete_all m h vs :
  (forall v, In v vs -> NoDup (revs h) -> m <= newer_or_same v h) ->
  prune_ok m (Some h) (delete_all vs).
Proof.
  induction vs as [|v t IH]; simpl; intros H; auto.
  split; [exists h; split; [reflexivity|apply H; now left]|].
  intros e. apply prune_ok_bind; [apply IH; intros w Hw; apply H; now right|].
  intros a hl'. destruct e; simpl; exact I.
Qed.

Lemma prune_ok_remove_least_recent m hl : prune_ok m hl (remove_least_recent m).
Proof.
  unfold remove_least_recent. simpl. intros h.
  destruct h as [|x h']; [exact I|].
  destruct (Nat.leb (List.length (x :: h')) m) eqn:E; [exact I|]. apply Nat.leb_gt in E.
  simpl. intros ds.
  apply prune_ok_bind.
  - apply prune_ok_delete_all. intros v Hv Hn. eapply prune_pick_newer; eauto.
  - intros [n e] hl'. simpl. destruct n as [|[|n]]; exact I.
Qed.

Lemma prune_ok_storage_create r mh hl : prune_ok (mh - 1) hl (storage_create r mh).
Proof.
  unfold storage_create. destruct mh as [|m]; [simpl; intros; exact I|].
  replace (S m - 1) with m by lia.
  apply prune_ok_bind; [apply prune_ok_remove_least_recent|].
  intros e hl'. destruct e; simpl; intros; exact I.
Qed.

Theorem upgrade_prune_ok rn ns fl cid vid mani hks :
  prune_ok (f_max_history fl - 1) None (upgrade rn ns fl cid vid mani hks).
Proof.
  unfold upgrade. simpl. intros h.
  destruct (max_rev_of h) as [last|]; [|exact I].
  destruct (is_pending (st last)); [exact I|].
  apply prune_ok_bind.
  { destruct (status_eqb (st last) SDeployed); simpl; [exact I|]. intros ds.
    destruct (max_rev_of ds); simpl; [exact I|].
    destruct (status_eqb (st last) SFailed || status_eqb (st last) SSuperseded); exact I. }
  intros cur hl1. destruct cur as [current|]; [|exact I].
  simpl. intros adopt. destruct adopt as [adopted|]; [|exact I].
  destruct (f_dry_run fl); [exact I|].
  apply prune_ok_bind; [apply prune_ok_storage_create|].
  intros e hl2. apply prune_ok_of_no_delete. destruct e; nd_auto.
Qed.

(* Conc level: every delete performed by an upgrade thread, under every schedule and among any
   other threads, is justified by that thread's own latest history read *)
Theorem run_upgrade_prunes_old (K : Type) (kh : forall e : eff, K -> K * resp e * list kev) (dresp : forall e, resp e)
        rn ns (ts : list (prog outcome)) sch l k i fl cid vid mani hks :
  nth_error ts i = Some (upgrade rn ns fl cid vid mani hks) ->
  deletes_justified (f_max_history fl - 1) None
    (thread_events i (c_tr (snd (run K kh dresp outcome ts sch (mkC l k []))))).
Proof.
  intros Hn. destruct (run_follows K kh dresp outcome ts sch l k i _ Hn) as [a [_ Hf]].
  eapply prune_ok_path; [apply upgrade_prune_ok|exact Hf].
Qed.

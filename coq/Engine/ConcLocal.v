(* C09 — thread-local facts: structural predicates over [prog] ("no cluster mutation before
   a successful create", "no storage delete"), what they imply for every path through the
   program, and their proofs for [install] / [upgrade] with ALL flags, manifests and hooks. *)
From Coq Require Import List String Bool Arith ZArith Lia.
From Helm Require Import Common.Assoc Engine.Types Engine.Eff Engine.Ops Engine.Cluster Engine.Seq Engine.SeqProofs
                         Engine.Conc Engine.ConcProofs.
Import ListNotations.
Local Open Scope prog_scope.

(* ---- predicates on programs ---- *)
Fixpoint all_eff {A} (P : eff -> Prop) (p : prog A) : Prop :=
  match p with
  | Ret _ => True
  | Eff e k => P e /\ forall r, all_eff P (k r)
  end.

Lemma all_eff_bind {A B} (P : eff -> Prop) (p : prog A) (f : A -> prog B) :
  all_eff P p -> (forall a, all_eff P (f a)) -> all_eff P (bind p f).
Proof.
  induction p as [a|e k IH]; simpl; intros Hp Hf; auto.
  destruct Hp as [He Hk]. split; auto.
Qed.

Lemma all_eff_perform (P : eff -> Prop) (e : eff) : P e -> all_eff P (perform e).
Proof. intros H. simpl. split; auto. Qed.

Lemma all_eff_mono {A} (P Q : eff -> Prop) (p : prog A) :
  (forall e, P e -> Q e) -> all_eff P p -> all_eff Q p.
Proof.
  intros PQ. induction p as [a|e k IH]; simpl; auto. intros [He Hk]. split; auto.
Qed.

Definition not_delete (e : eff) : Prop := match e with SDelete _ => False | _ => True end.
Definition not_write (e : eff) : Prop := is_storage_write e = false.
(* neither a create nor a cluster mutation *)
Definition quiet_eff (e : eff) : Prop :=
  match e with SCreate _ => False | _ => is_cluster_mutation e = false end.

(* [inertR P R p]: on every path of [p], no mutating cluster effect happens before a create
   that answered SOk; a create that answers SExists ends the program at once with a value
   satisfying [P]; a value returned without any successful create satisfies [R]; nothing is
   required after a successful create. *)
Fixpoint inertR {A} (P R : A -> Prop) (p : prog A) : Prop :=
  match p with
  | Ret a => R a
  | Eff e k =>
      match e as e' return (resp e' -> prog A) -> (resp e' -> Prop) -> Prop with
      | SCreate x => fun k ih => (exists a, k SExists = Ret a /\ P a) /\ ih SNotFound /\ ih SFail
      | e' => fun _ ih => is_cluster_mutation e' = false /\ forall r, ih r
      end k (fun r => inertR P R (k r))
  end.

Definition inert {A} (P : A -> Prop) (p : prog A) : Prop := inertR P (fun _ => True) p.

Lemma inertR_of_quiet {A} P (R : A -> Prop) (p : prog A) :
  all_eff quiet_eff p -> (forall a, R a) -> inertR P R p.
Proof.
  intros Hq HR. induction p as [a|e k IH]; simpl; auto. destruct Hq as [He Hk].
  destruct e; simpl in *; try contradiction; split; auto.
Qed.

Lemma inert_bind {A B} (Pa Ra : A -> Prop) (P R : B -> Prop) (p : prog A) (f : A -> prog B) :
  inertR Pa Ra p ->
  (forall a, Pa a -> exists b, f a = Ret b /\ P b) ->
  (forall a, Ra a -> inertR P R (f a)) ->
  inertR P R (bind p f).
Proof.
  intros Hp Hx Hf. induction p as [a|e k IH]; simpl in *; auto.
  destruct e; simpl in *;
    try (destruct Hp as [Hm Hk]; split; [exact Hm|intros rr; apply IH; apply Hk]).
  destruct Hp as [[a [Ha Pa']] [H1 H2]]. split; [|split; apply IH; assumption].
  rewrite Ha. simpl. apply Hx. exact Pa'.
Qed.

Lemma inert_bind_quiet {A B} (P R : B -> Prop) (p : prog A) (f : A -> prog B) :
  all_eff quiet_eff p -> (forall a, inertR P R (f a)) -> inertR P R (bind p f).
Proof.
  intros Hp Hf. apply inert_bind with (Pa := fun _ => False) (Ra := fun _ => True).
  - now apply inertR_of_quiet.
  - intros a [].
  - intros a _. apply Hf.
Qed.

(* ---- what [inert] means for a path ---- *)
Definition created_any (evs : list cev) : bool := existsb is_created_ev evs.
Definition mutated_any (evs : list cev) : bool := existsb is_mutation_ev evs.
Definition refused_any (evs : list cev) : bool := existsb create_refused evs.

Lemma mutations_guarded_true evs : mutations_guarded true evs = true.
Proof. induction evs as [|c t IH]; simpl; auto. rewrite IH. destruct (is_mutation_ev c); reflexivity. Qed.

Lemma follows_ret {A} (a : A) evs q : follows (Ret a) evs q -> evs = [] /\ q = Ret a.
Proof. destruct evs; simpl; intros H; [auto|contradiction]. Qed.

Lemma inert_path {A} (P R : A -> Prop) evs : forall (p q : prog A),
  inertR P R p -> follows p evs q ->
  mutations_guarded false evs = true
  /\ (created_any evs = false ->
      mutated_any evs = false
      /\ (refused_any evs = true -> exists a, q = Ret a /\ P a)
      /\ (refused_any evs = false -> inertR P R q)).
Proof.
  induction evs as [|c t IH]; intros p q Hp Hf.
  - simpl in Hf. subst q. simpl. split; [reflexivity|]. intros _. split; [reflexivity|].
    split; [discriminate|auto].
  - simpl in Hf. destruct p as [a|e k]; [contradiction|].
    destruct Hf as [rsp [out [Hc Hf]]].
    unfold created_any, mutated_any, refused_any. simpl.
    rewrite Hc. unfold is_created_ev, is_mutation_ev, created_rev, create_refused. cbn [ce_eff ce_resp].
    revert rsp Hc Hf.
    destruct e; intros rsp Hc Hf; simpl in Hp;
      try (destruct Hp as [Hm _]; discriminate Hm);
      try (destruct Hp as [Hm Hk]; destruct (IH _ _ (Hk rsp) Hf) as [G1 G2];
           cbn; rewrite ?Hm; split; [exact G1|exact G2]).
    (* SCreate *)
    destruct Hp as [[a [Ha Pa]] [H1 H2]]. cbn.
    destruct rsp; cbn.
    + split; [apply mutations_guarded_true|discriminate].
    + rewrite Ha in Hf. apply follows_ret in Hf. destruct Hf as [-> ->]. cbn.
      split; [reflexivity|]. intros _. split; [reflexivity|]. split; [eauto|discriminate].
    + destruct (IH _ _ H1 Hf) as [G1 G2]. split; [exact G1|exact G2].
    + destruct (IH _ _ H2 Hf) as [G1 G2]. split; [exact G1|exact G2].
Qed.

(* ---- the programs ---- *)
Lemma quiet_delete_all vs : all_eff quiet_eff (delete_all vs).
Proof.
  induction vs as [|v t IH]; simpl; auto. split; [reflexivity|]. intros r.
  apply all_eff_bind; [exact IH|]. intros a. destruct r; simpl; auto.
Qed.

Lemma quiet_remove_least_recent m : all_eff quiet_eff (remove_least_recent m).
Proof.
  unfold remove_least_recent. simpl. split; [reflexivity|]. intros h.
  destruct h as [|x h']; [exact I|].
  destruct (Nat.leb (List.length (x :: h')) m); [exact I|].
  split; [reflexivity|]. intros ds.
  apply all_eff_bind; [apply quiet_delete_all|]. intros [n e]. simpl.
  destruct n as [|[|n]]; simpl; auto.
Qed.

Lemma inert_storage_create r mh : inertR (fun e => e = SExists) (fun e => e <> SOk) (storage_create r mh).
Proof.
  unfold storage_create. destruct mh as [|m].
  - simpl. split; [eauto|split; discriminate].
  - apply inert_bind_quiet; [apply quiet_remove_least_recent|].
    intros e. destruct e; simpl; try discriminate; (split; [eauto|split; discriminate]).
Qed.

Theorem install_inert rn ns fl cid vid mani hks :
  inert (fun o => o = OErr EExistsRev) (install rn ns fl cid vid mani hks).
Proof.
  unfold install.
  apply inert_bind_quiet.
  { destruct (f_dry_run fl); simpl; auto. split; [reflexivity|]. intros h. destruct (max_rev_of h); simpl; auto. }
  intros avail. destruct (negb avail); simpl; auto.
  apply inert_bind_quiet.
  { destruct (negb (f_client_only fl) && negb match stamp_all rn ns mani with [] => true | _ => false end); simpl; auto. }
  intros adopt. destruct adopt as [adopted|]; simpl; auto.
  destruct (f_dry_run fl); simpl; auto.
  apply inert_bind_quiet.
  { destruct (f_replace fl); simpl; auto. split; [reflexivity|]. intros h.
    destruct (max_rev_of h) as [last|]; simpl; auto.
    destruct (status_eqb (st last) SFailed); simpl; auto.
    split; [reflexivity|]. intros e. destruct e; simpl; auto. }
  intros rr. destruct rr as [rel|]; simpl; auto.
  split; [eauto|auto].
Qed.

Theorem upgrade_inert rn ns fl cid vid mani hks :
  inert (fun o => o = OErr EExistsRev) (upgrade rn ns fl cid vid mani hks).
Proof.
  unfold upgrade. simpl. split; [reflexivity|]. intros h.
  destruct (max_rev_of h) as [last|]; simpl; auto.
  destruct (is_pending (st last)); simpl; auto.
  apply inert_bind_quiet.
  { destruct (status_eqb (st last) SDeployed); simpl; auto. split; [reflexivity|]. intros ds.
    destruct (max_rev_of ds); simpl; auto.
    destruct (status_eqb (st last) SFailed || status_eqb (st last) SSuperseded); simpl; auto. }
  intros cur. destruct cur as [current|]; simpl; auto.
  split; [reflexivity|]. intros adopt. destruct adopt as [adopted|]; simpl; auto.
  destruct (f_dry_run fl); simpl; auto.
  eapply inert_bind; [apply inert_storage_create| |].
  - intros a ->. eauto.
  - intros e He. destruct e; simpl; auto. congruence.
Qed.

(* ---- outcome classes: what the first history read decides ---- *)
Lemma follows_ret_eq {A} (a b : A) evs : follows (Ret a) evs (Ret b) -> evs = [] /\ a = b.
Proof. intros H. apply follows_ret in H. destruct H as [-> H]. inversion H. auto. Qed.

(* upgrade: a pending last revision => "another operation is in progress", and nothing else happens;
   an empty history => "has no deployed releases" *)
Theorem upgrade_first_read rn ns fl cid vid mani hks evs a :
  follows (upgrade rn ns fl cid vid mani hks) evs (Ret a) ->
  exists c t, evs = c :: t /\ exists h, history_seen c = Some h /\
    (forall last, max_rev_of h = Some last -> is_pending (st last) = true -> a = OErr EPending /\ t = []) /\
    (max_rev_of h = None -> a = OErr ENoDeployed /\ t = []).
Proof.
  unfold upgrade. destruct evs as [|c t]; simpl; [discriminate|].
  intros [h [out [Hc Hf]]]. exists c, t. split; [reflexivity|]. exists h.
  split; [rewrite Hc; reflexivity|]. split.
  - intros last Hl Hp. rewrite Hl, Hp in Hf. apply follows_ret_eq in Hf. destruct Hf; auto.
  - intros Hl. rewrite Hl in Hf. apply follows_ret_eq in Hf. destruct Hf; auto.
Qed.

(* install (not a dry run): a name that is in use => "cannot reuse a name that is still in use" *)
Theorem install_first_read rn ns fl cid vid mani hks evs a :
  f_dry_run fl = false ->
  follows (install rn ns fl cid vid mani hks) evs (Ret a) ->
  exists c t, evs = c :: t /\ exists h, history_seen c = Some h /\
    (forall last, max_rev_of h = Some last ->
       f_replace fl && (status_eqb (st last) SUninstalled || status_eqb (st last) SFailed) = false ->
       a = OErr ENameInUse /\ t = []).
Proof.
  intros Hd. unfold install. rewrite Hd. destruct evs as [|c t]; simpl; [discriminate|].
  intros [h [out [Hc Hf]]]. exists c, t. split; [reflexivity|]. exists h.
  split; [rewrite Hc; reflexivity|].
  intros last Hl Hr. rewrite Hl in Hf. simpl in Hf. rewrite Hr in Hf. simpl in Hf.
  apply follows_ret_eq in Hf. destruct Hf; auto.
Qed.

(* ------------------------------------------------------------------ *)
(* no storage delete: install without --atomic, upgrade without history pruning *)
Ltac nd_auto :=
  repeat (first
    [ exact I
    | solve [auto with nd]
    | match goal with H : forall _, all_eff _ _ |- _ => apply H end
    | match goal with
      | |- all_eff _ (Ret _) => exact I
      | |- all_eff _ (perform _) => apply all_eff_perform; exact I
      | |- all_eff _ (Eff _ _) => simpl; split; [exact I|intros ?]
      | |- all_eff _ (bind _ _) => apply all_eff_bind; [|intros ?]
      | |- all_eff _ (if ?b then _ else _) => destruct b
      | |- all_eff _ (match ?x with _ => _ end) => destruct x
      | |- _ /\ _ => split
      | |- forall _, _ => intros ?
      end ]).

Lemma nd_record_release r : all_eff not_delete (record_release r).
Proof. unfold record_release. simpl. split; [exact I|]. intros; exact I. Qed.
#[export] Hint Resolve nd_record_release : nd.

Lemma nd_delete_hook_by_policy h p : all_eff not_delete (delete_hook_by_policy h p).
Proof. unfold delete_hook_by_policy. nd_auto. Qed.
#[export] Hint Resolve nd_delete_hook_by_policy : nd.

Lemma nd_delete_hooks_by_policy hs p : all_eff not_delete (delete_hooks_by_policy hs p).
Proof. induction hs as [|h t IH]; simpl; nd_auto. Qed.
#[export] Hint Resolve nd_delete_hooks_by_policy : nd.

Lemma nd_exec_hooks_loop rl ev todo : forall done, all_eff not_delete (exec_hooks_loop rl ev todo done).
Proof. induction todo as [|h t IH]; intros done; simpl; nd_auto. Qed.
#[export] Hint Resolve nd_exec_hooks_loop : nd.

Lemma nd_run_hooks fl rl ev : all_eff not_delete (run_hooks fl rl ev).
Proof. unfold run_hooks, exec_hook. nd_auto. Qed.
#[export] Hint Resolve nd_run_hooks : nd.

Lemma nd_supersede_all ds : all_eff not_delete (supersede_all ds).
Proof. induction ds as [|d t IH]; simpl; nd_auto. Qed.
#[export] Hint Resolve nd_supersede_all : nd.

Lemma nd_storage_create_0 r : all_eff not_delete (storage_create r 0).
Proof. simpl. nd_auto. Qed.
#[export] Hint Resolve nd_storage_create_0 : nd.

Lemma nd_rollback rn ns fl : f_max_history fl = 0 -> all_eff not_delete (rollback rn ns fl).
Proof. intros H. unfold rollback. rewrite H. nd_auto. Qed.

Lemma nd_upgrade_fail rn ns fl up created : all_eff not_delete (upgrade_fail rn ns fl up created).
Proof.
  unfold upgrade_fail. nd_auto. apply nd_rollback. reflexivity.
Qed.
#[export] Hint Resolve nd_upgrade_fail : nd.

Theorem install_no_delete rn ns fl cid vid mani hks :
  f_atomic fl = false -> all_eff not_delete (install rn ns fl cid vid mani hks).
Proof.
  intros H. unfold install, install_fail. rewrite H. nd_auto.
Qed.

Theorem upgrade_no_delete rn ns fl cid vid mani hks :
  f_max_history fl = 0 -> all_eff not_delete (upgrade rn ns fl cid vid mani hks).
Proof.
  intros H. unfold upgrade. rewrite H. nd_auto.
Qed.

(* C02 — the vocabulary of the translator table Gen/C02Patch.v (harness/cmd/hx/gentables_c02.go): symbolic
   values and the cluster calls of kube.updateResource, as the symbolic evaluation of the Go source finds them. *)
From Coq Require Import List String.

Inductive sval :=
| SParam (n : nat) (path : string)   (* a field of the n-th parameter of updateResource; "" = the parameter itself *)
| SLive                               (* what helper.Get(target.Namespace, target.Name) returned *)
| SOther (s : string).

Inductive pev :=
| PGetLive
| PReplace (overwrite : string) (obj : sval)
| PPatch (lib : string) (docs : list sval) (extra : list string) (ptype : string)
| PTargetGet
| PRefresh (from : string)
| PBranch (what : string) (b : bool)
| PUnknown (s : string).

(* Release engine with failing storage reads — proofs (model: Engine/OpsR.v).

   1. [erase_op]: forgetting the read handlers gives the programs of Engine/Ops.v up to [req]
      (the same run under every cluster handler, fault plan and state); so without a read
      fault everything proved about Engine/Ops.v holds of the programs of Engine/OpsR.v.
   2. [rfail_led]: the transfer principle.  Let P be a predicate on ledgers that a storage
      update to a non-deployed status preserves.  If P holds of the ledger the fault-free
      program leaves behind for EVERY crash point (and without a crash), then P holds of the
      ledger left behind when the n-th read fails, for every n — provided every read handler
      is [quiet]: it only records revisions with a status other than deployed, or returns at
      once.  (A failed read that aborts the operation leaves the ledger that a crash before
      the next mutating effect leaves.)
   3. [read_fault_ledger] / [run_opsR_ledger]: for each of the four operations, every flag
      assignment, every cluster behaviour and every read position — and along any history
      whose operations carry a crash point or a read fault — revisions stay unique and at
      most one revision is deployed (under H2 of Engine/LedgerDep.v, as without read faults). *)
From Coq Require Import List String Bool Arith ZArith Lia.
From Helm Require Import Common.Assoc Engine.Types Engine.Eff Engine.Ops Engine.Cluster Engine.Seq
                         Engine.SeqProofs Engine.LedgerBase Engine.LedgerDep Engine.OpsR.
Import ListNotations.
Local Open Scope string_scope.

Definition is_read (e : eff) : bool :=
  match e with SHistory | SDeployedAll | SGet _ => true | _ => false end.

Section RF.
  Variable K : Type.
  Variable kh : forall e : eff, K -> K * resp e * list kev.
  Variable dresp : forall e : eff, resp e.
  Notation run := (run K kh dresp).
  Notation step := (step K kh dresp).
  Notation rstate := (rstate K).

  (* ---- the same run under every fault plan and state ---- *)
  Definition req {A} (p q : prog A) : Prop := forall f (s : rstate), run f p s = run f q s.

  Lemma req_refl {A} (p : prog A) : req p p.
  Proof. intros f s; reflexivity. Qed.

  Lemma req_trans {A} (p q r : prog A) : req p q -> req q r -> req p r.
  Proof. intros H1 H2 f s. now rewrite H1. Qed.

  Lemma req_eff {A} e (k k' : resp e -> prog A) : (forall r, req (k r) (k' r)) -> req (Eff e k) (Eff e k').
  Proof. intros H f s. simpl. destruct (step f e s) as [s' r]. apply H. Qed.

  Lemma run_bind {A B} f (p : prog A) (g : A -> prog B) (s : rstate) :
    run f (bind p g) s = let '(s', a) := run f p s in run f (g a) s'.
  Proof.
    revert s; induction p as [a|e k IH]; intros s; simpl; [reflexivity|].
    destruct (step f e s) as [s' r]. apply IH.
  Qed.

  Lemma req_bind {A B} (p p' : prog A) (g g' : A -> prog B) :
    req p p' -> (forall a, req (g a) (g' a)) -> req (bind p g) (bind p' g').
  Proof.
    intros H Hg f s. rewrite !run_bind, H. destruct (run f p' s) as [s' a]. apply Hg.
  Qed.

  Lemma erase_rbind_gen {A B} (p : rprog A) (f : A -> rprog B) :
    req (erase (rbind p f)) (bind (erase p) (fun a => erase (f a))).
  Proof.
    induction p as [a|e k IH h IHh|C q k IH]; cbn [rbind erase bind].
    - apply req_refl.
    - apply req_eff. intro r. apply IH.
    - intros f0 s. rewrite !run_bind. destruct (run f0 q s) as [s' b].
      rewrite IH, run_bind. reflexivity.
  Qed.

  Lemma erase_rbind {A B} (p : rprog A) (q : prog A) (f : A -> rprog B) (g : A -> prog B) :
    req (erase p) q -> (forall a, req (erase (f a)) (g a)) -> req (erase (rbind p f)) (bind q g).
  Proof.
    intros H Hg. eapply req_trans; [apply erase_rbind_gen|]. now apply req_bind.
  Qed.

  (* ---- the interpreter, without a crash point and with one ---- *)
  Definition mutating (e : eff) : bool := is_storage_write e || is_cluster_mutation e.
  Definition fc (f : sfaults) (m : nat) : sfaults := mkSF (wfail f) (Some m).

  Ltac open_step s f Hd Hc :=
    destruct s as [l k nw nm d t]; cbn in Hd; subst d; destruct f as [w c]; cbn in Hc; subst c;
    unfold Seq.step; cbn [crash wfail eq_opt dead led ks nwrites nmut tr negb andb];
    rewrite ?andb_false_r; cbn [dead led ks nwrites nmut tr].

  Lemma step_alive f e (s : rstate) :
    crash f = None -> dead s = false -> dead (fst (step f e s)) = false.
  Proof.
    intros Hc Hd. open_step s f Hd Hc.
    destruct (is_cluster_call e).
    - destruct (kh e k) as [[k' r] evs]. reflexivity.
    - destruct (is_storage_write e).
      + destruct (eq_opt w nw); [reflexivity|].
        destruct (storage_apply dresp e l) as [[l' r] evs]. reflexivity.
      + destruct (storage_apply dresp e l) as [[l' r] evs]. reflexivity.
  Qed.

  Lemma step_nmut f e (s : rstate) :
    crash f = None -> dead s = false ->
    nmut (fst (step f e s)) = if mutating e then S (nmut s) else nmut s.
  Proof.
    intros Hc Hd. unfold mutating. open_step s f Hd Hc.
    destruct (is_cluster_call e) eqn:Ec.
    - destruct (kh e k) as [[k' r] evs]. reflexivity.
    - destruct (is_storage_write e) eqn:Ew.
      + destruct (eq_opt w nw); [reflexivity|].
        destruct (storage_apply dresp e l) as [[l' r] evs]. reflexivity.
      + destruct (storage_apply dresp e l) as [[l' r] evs]. cbn.
        destruct e; cbn in *; try discriminate; reflexivity.
  Qed.

  Lemma step_same f m e (s : rstate) :
    crash f = None -> dead s = false -> (mutating e = false \/ m <> nmut s) ->
    step (fc f m) e s = step f e s.
  Proof.
    intros Hc Hd H. unfold fc, mutating in *.
    destruct s as [l k nw nm d t]; cbn in Hd; subst d. destruct f as [w c]; cbn in Hc; subst c.
    cbn [nmut] in H. unfold Seq.step. cbn [crash wfail eq_opt dead led ks nwrites nmut tr negb andb].
    assert (X : (is_storage_write e || is_cluster_mutation e) && Nat.eqb m nm = false).
    { destruct H as [-> | H]; [reflexivity|]. apply Nat.eqb_neq in H. rewrite H. apply andb_false_r. }
    rewrite X, andb_false_r. reflexivity.
  Qed.

  Lemma run_alive {A} f (p : prog A) : forall s : rstate,
    crash f = None -> dead s = false -> dead (fst (run f p s)) = false.
  Proof.
    induction p as [a|e k IH]; intros s Hc Hd; simpl; [exact Hd|].
    destruct (step f e s) as [s' r] eqn:E. apply IH; auto.
    replace s' with (fst (step f e s)) by now rewrite E. now apply step_alive.
  Qed.

  Lemma run_nmut_le {A} f (p : prog A) : forall s : rstate,
    crash f = None -> dead s = false -> nmut s <= nmut (fst (run f p s)).
  Proof.
    induction p as [a|e k IH]; intros s Hc Hd; simpl; [lia|].
    destruct (step f e s) as [s' r] eqn:E.
    assert (Hs : s' = fst (step f e s)) by now rewrite E.
    assert (Ha : dead s' = false) by (rewrite Hs; now apply step_alive).
    assert (Hn : nmut s <= nmut s').
    { rewrite Hs, step_nmut by auto. destruct (mutating e); lia. }
    specialize (IH r s' Hc Ha). lia.
  Qed.

  (* a crash point that lies behind the state is never reached *)
  Lemma run_crash_past {A} f m (p : prog A) : forall s : rstate,
    crash f = None -> dead s = false -> m < nmut s -> run (fc f m) p s = run f p s.
  Proof.
    induction p as [a|e k IH]; intros s Hc Hd Hm; simpl; [reflexivity|].
    rewrite step_same by (auto; right; lia).
    destruct (step f e s) as [s' r] eqn:E.
    assert (Hs : s' = fst (step f e s)) by now rewrite E.
    apply IH; auto.
    - rewrite Hs; now apply step_alive.
    - rewrite Hs, step_nmut by auto. destruct (mutating e); lia.
  Qed.

  (* a crash point beyond the last mutating effect of the run is never reached *)
  Lemma run_crash_later {A} f m (p : prog A) : forall s : rstate,
    crash f = None -> dead s = false -> nmut (fst (run f p s)) <= m -> run (fc f m) p s = run f p s.
  Proof.
    induction p as [a|e k IH]; intros s Hc Hd Hm; simpl in *; [reflexivity|].
    destruct (step f e s) as [s' r] eqn:E.
    assert (Hs : s' = fst (step f e s)) by now rewrite E.
    assert (Ha : dead s' = false) by (rewrite Hs; now apply step_alive).
    assert (Hle := run_nmut_le f (k r) s' Hc Ha).
    assert (Hn : nmut s' = if mutating e then S (nmut s) else nmut s) by (rewrite Hs; now apply step_nmut).
    rewrite step_same; auto.
    - rewrite E. apply IH; auto.
    - destruct (mutating e); [right; lia | now left].
  Qed.

  Lemma step_dead_led f e (s : rstate) : dead s = true -> led (fst (step f e s)) = led s /\ dead (fst (step f e s)) = true.
  Proof.
    intros Hd. destruct s as [l k nw nm d t]. cbn in Hd. subst d. unfold Seq.step.
    cbn [dead led negb andb ks nwrites nmut tr].
    destruct (is_storage_write e || is_cluster_call e); [split; reflexivity|].
    destruct (storage_apply dresp e l) as [[l' r] evs]. split; reflexivity.
  Qed.

  Lemma run_dead_led {A} f (p : prog A) : forall s : rstate, dead s = true -> led (fst (run f p s)) = led s.
  Proof.
    induction p as [a|e k IH]; intros s Hd; simpl; [reflexivity|].
    destruct (step f e s) as [s' r] eqn:E.
    assert (Hs : s' = fst (step f e s)) by now rewrite E.
    destruct (step_dead_led f e s Hd) as [Hl Hd'].
    rewrite IH by (rewrite Hs; exact Hd'). rewrite Hs. exact Hl.
  Qed.

  (* a non-mutating effect leaves the ledger and the counter alone *)
  Lemma step_nonmut_led f e (s : rstate) :
    dead s = false -> mutating e = false -> led (fst (step f e s)) = led s.
  Proof.
    intros Hd Hm. unfold mutating in Hm. destruct s as [l k nw nm d t]; cbn in Hd; subst d.
    unfold Seq.step. rewrite Hm. cbn [dead led negb andb ks nwrites nmut tr].
    destruct (is_cluster_call e).
    - destruct (kh e k) as [[k' r] evs]. reflexivity.
    - apply orb_false_iff in Hm. destruct Hm as [Hw _]. rewrite Hw.
      destruct (storage_apply dresp e l) as [[l' r] evs]. reflexivity.
  Qed.

  Lemma step_crash_now_led f e (s : rstate) :
    dead s = false -> mutating e = true ->
    let s' := fst (step (fc f (nmut s)) e s) in led s' = led s /\ dead s' = true.
  Proof.
    intros Hd Hm. unfold mutating in Hm. destruct s as [l k nw nm d t]; cbn in Hd; subst d.
    unfold Seq.step, fc. cbn [crash nmut eq_opt]. rewrite Hm, Nat.eqb_refl.
    cbn [dead led negb andb ks nwrites nmut tr].
    destruct (is_storage_write e || is_cluster_call e); [split; reflexivity|].
    destruct (storage_apply dresp e l) as [[l' r] evs]. split; reflexivity.
  Qed.

  (* dying before the next mutating effect leaves the ledger as it is *)
  Lemma run_crash_now {A} f (p : prog A) : forall s : rstate,
    crash f = None -> dead s = false -> led (fst (run (fc f (nmut s)) p s)) = led s.
  Proof.
    induction p as [a|e k IH]; intros s Hc Hd; simpl; [reflexivity|].
    destruct (mutating e) eqn:Em.
    - destruct (step_crash_now_led f e s Hd Em) as [Hl Hdd].
      destruct (step (fc f (nmut s)) e s) as [s' r] eqn:E. cbn [fst] in *.
      rewrite run_dead_led by exact Hdd. exact Hl.
    - assert (E1 : step (fc f (nmut s)) e s = step f e s) by (apply step_same; auto).
      destruct (step f e s) as [s' r] eqn:E.
      assert (Hs : s' = fst (step f e s)) by now rewrite E.
      rewrite E1.
      assert (Hn : nmut s' = nmut s) by (rewrite Hs, step_nmut by auto; now rewrite Em).
      assert (Hl : led s' = led s) by (rewrite Hs; now apply step_nonmut_led).
      rewrite <- Hn, IH; auto. rewrite Hs. now apply step_alive.
  Qed.

  (* what one storage update does to the ledger *)
  Lemma step_update_led f x (s : rstate) :
    crash f = None -> dead s = false ->
    let s' := fst (step f (SUpdate x) s) in
    dead s' = false /\ (led s' = led s \/ led s' = replace_rev x (led s)).
  Proof.
    intros Hc Hd. split; [now apply step_alive|].
    open_step s f Hd Hc. cbn [is_storage_write is_cluster_mutation is_cluster_call orb].
    destruct (eq_opt w nw); [now left|].
    cbn [storage_apply]. destruct (has_rev (rev x) l); [now right | now left].
  Qed.

  (* ---- quiet handlers, and programs all of whose handlers are quiet ---- *)
  Inductive quietQ {A} (Q : A -> Prop) : rprog A -> Prop :=
  | qq_ret : forall a, Q a -> quietQ Q (RRet a)
  | qq_rec : forall x k, st x <> SDeployed -> (forall b, quietQ Q (k b)) ->
                         quietQ Q (RLift (record_release x) k).

  Inductive hqQ {A} (Q : A -> Prop) : rprog A -> Prop :=
  | hq_ret : forall a, hqQ Q (RRet a)
  | hq_try : forall e k h, is_read e = true -> (forall r, hqQ Q (k r)) -> quietQ Q h -> hqQ Q (RTry e k h)
  | hq_lift : forall B (p : prog B) k, (forall b, hqQ Q (k b)) -> hqQ Q (RLift p k).

  Definition anyQ {A} : A -> Prop := fun _ => True.
  Notation quiet := (quietQ anyQ).
  Notation hq := (hqQ anyQ).

  Lemma quiet_rbind {A B} (Q : A -> Prop) (R : B -> Prop) (h : rprog A) (f : A -> rprog B) :
    quietQ Q h -> (forall a, Q a -> quietQ R (f a)) -> quietQ R (rbind h f).
  Proof.
    induction 1 as [a Ha | x k Hx Hk IH]; intros Hf; cbn [rbind]; [now apply Hf|].
    apply qq_rec; auto.
  Qed.

  Lemma hq_rbind {A B} (Q : A -> Prop) (R : B -> Prop) (p : rprog A) (f : A -> rprog B) :
    hqQ Q p -> (forall a, hqQ R (f a)) -> (forall a, Q a -> quietQ R (f a)) -> hqQ R (rbind p f).
  Proof.
    induction 1 as [a | e k h He Hk IH Hh | C q k Hk IH]; intros Hf Hq; cbn [rbind].
    - apply Hf.
    - apply hq_try; auto. eapply quiet_rbind; eauto.
    - apply hq_lift; auto.
  Qed.

  Lemma hq_weaken {A} (Q R : A -> Prop) (p : rprog A) : (forall a, Q a -> R a) -> hqQ Q p -> hqQ R p.
  Proof.
    intros HQR. induction 1 as [a | e k h He Hk IH Hh | C q k Hk IH]; constructor; auto.
    clear -HQR Hh. induction Hh; constructor; auto.
  Qed.


  (* ---- what the operation reports: the fault-free run, or what a handler returns ---- *)
  Lemma quietQ_run {A} (Q : A -> Prop) f (h : rprog A) :
    quietQ Q h -> forall s : rstate, Q (snd (run f (erase h) s)).
  Proof.
    induction 1 as [a Ha | x k Hx Hk IH]; intros s; cbn [erase]; [exact Ha|].
    rewrite run_bind. destruct (run f (record_release x) s) as [s' b]. apply IH.
  Qed.

  (* either the n-th read is never reached - the run is the fault-free run - or the result is one a
     handler returns *)
  Theorem rfail_result {A} (Q : A -> Prop) (p : rprog A) : hqQ Q p -> forall n f (s : rstate),
    run f (rfail n p) s = run f (erase p) s \/ Q (snd (run f (rfail n p) s)).
  Proof.
    induction 1 as [a | e k h He Hk IH Hh | C q k Hk IH]; intros n f s; cbn [rfail erase].
    - now left.
    - destruct n as [|n']; [right; now apply quietQ_run|].
      simpl. destruct (step f e s) as [s' r]. apply IH.
    - rewrite !run_bind. destruct (run f q s) as [s' b]. apply IH.
  Qed.

  (* ---- the transfer principle ---- *)
  Section Transfer.
    Variable P : list release -> Prop.
    Hypothesis P_upd : forall x l, st x <> SDeployed -> P l -> P (replace_rev x l).

    Lemma quiet_run {A} f (h : rprog A) : quiet h -> forall s : rstate,
      crash f = None -> dead s = false -> P (led s) -> P (led (fst (run f (erase h) s))).
    Proof.
      induction 1 as [a _ | x k Hx Hk IH]; intros s Hc Hd HP; cbn [erase]; [exact HP|].
      unfold record_release. cbn [bind perform]. simpl.
      destruct (step_update_led f x s Hc Hd) as [Ha Hl].
      destruct (step f (SUpdate x) s) as [s' r] eqn:E. cbn [fst] in *.
      apply IH; auto. destruct Hl as [-> | ->]; auto.
    Qed.

    Lemma seq_transfer {B A} (q : prog B) (kE kF : B -> prog A) f (s : rstate) :
      crash f = None -> dead s = false ->
      (forall m, P (led (fst (run (fc f m) (bind q kE) s)))) ->
      P (led (fst (run f (bind q kE) s))) ->
      (forall b (s1 : rstate), dead s1 = false ->
         (forall m, P (led (fst (run (fc f m) (kE b) s1)))) ->
         P (led (fst (run f (kE b) s1))) -> P (led (fst (run f (kF b) s1)))) ->
      P (led (fst (run f (bind q kF) s))).
    Proof.
      intros Hc Hd Hcr Hff Hk. rewrite run_bind. rewrite run_bind in Hff.
      destruct (run f q s) as [s1 b] eqn:E.
      assert (Hs : s1 = fst (run f q s)) by now rewrite E.
      assert (Ha : dead s1 = false) by (rewrite Hs; now apply run_alive).
      apply Hk; auto.
      intros m. destruct (Nat.ltb m (nmut s1)) eqn:Em.
      - apply Nat.ltb_lt in Em. rewrite run_crash_past; auto.
      - apply Nat.ltb_ge in Em. specialize (Hcr m). rewrite run_bind in Hcr.
        rewrite run_crash_later in Hcr by (auto; rewrite <- Hs; exact Em).
        rewrite E in Hcr. exact Hcr.
    Qed.

    Theorem rfail_led {A} (p : rprog A) : hq p -> forall n f (s : rstate),
      crash f = None -> dead s = false ->
      (forall m, P (led (fst (run (fc f m) (erase p) s)))) ->
      P (led (fst (run f (erase p) s))) ->
      P (led (fst (run f (rfail n p) s))).
    Proof.
      induction 1 as [a | e k h He Hk IH Hh | C q k Hk IH]; intros n f s Hc Hd Hcr Hff; cbn [rfail erase] in *.
      - exact Hff.
      - destruct n as [|n'].
        + (* the read fails: the handler runs from the ledger a crash right here would leave *)
          apply quiet_run; auto. rewrite <- (run_crash_now f (Eff e (fun r => erase (k r))) s Hc Hd). apply Hcr.
        + change (Eff e (fun r => rfail n' (k r))) with (bind (perform e) (fun r => rfail n' (k r))).
          apply seq_transfer with (kE := fun r => erase (k r)); auto.
      - apply seq_transfer with (kE := fun b => erase (k b)); auto.
    Qed.
  End Transfer.
End RF.

(* C06 — the dry-run flow of pkg/action as a table (generated: Gen/DryFlow.v, by
   harness/cmd/hx/gentables_c06_flow.go from the Go source on every run) and a reachability
   analysis over it: under a PARTIAL assignment of the options (three-valued: set, clear,
   unknown), which kinds of effect can a path through a function reach?

   The analysis is an abstract interpretation: conditions are evaluated three-valued (an unknown
   condition goes both ways), local booleans, "the kube client is the printing fake", "the
   release store is the private memory store" and "capabilities are cached" are tracked
   three-valued through assignments, calls of table functions are followed (parameters bound to
   the conditions of the arguments), a nested action runs with the options it is given and all
   others clear, a loop is iterated to a fixpoint, [DOpaque] may do everything.  It
   over-approximates: "cannot" is a guarantee for every concrete option assignment and every
   outcome of every data-dependent test. *)
From Coq Require Import List String Bool Arith.
Import ListNotations.
Local Open Scope string_scope.

Inductive tv := TT | TF | TU.

Definition tv_of (b : bool) : tv := if b then TT else TF.
Definition tv_not (a : tv) : tv := match a with TT => TF | TF => TT | TU => TU end.
Definition tv_and (a b : tv) : tv :=
  match a, b with TF, _ | _, TF => TF | TT, TT => TT | _, _ => TU end.
Definition tv_or (a b : tv) : tv :=
  match a, b with TT, _ | _, TT => TT | TF, TF => TF | _, _ => TU end.
Definition tv_eqb (a b : tv) : bool :=
  match a, b with TT, TT | TF, TF | TU, TU => true | _, _ => false end.
Definition tv_join (a b : tv) : tv := if tv_eqb a b then a else TU.

Inductive dcond :=
| DcFlag (f : string)       (* a boolean option of the action, by field name; "PostRenderer" / "OutputDir": set / non-empty *)
| DcDry                     (* isDryRun() *)
| DcOpt (s : string)        (* DryRunOption == s *)
| DcVar (x : string)        (* local boolean / parameter *)
| DcCaps                    (* cfg.Capabilities != nil *)
| DcGetter                  (* cfg.RESTClientGetter != nil *)
| DcNot (c : dcond)
| DcAnd (a b : dcond)
| DcOr (a b : dcond)
| DcTrue | DcFalse
| DcData.                   (* anything else *)

Inductive dtarget := OnKube | OnStore | OnGetter | OnLocal.
Inductive dmode := MMut | MRead | MNone.

Inductive dnode :=
| DCall (t : dtarget) (m : dmode) (name : string)
| DFn (callee : string) (args : list (string * dcond))
| DNested (callee : string) (sets : list (string * dcond))
| DSet (x : string) (c : dcond)
| DSwap (what : string)
| DIf (c : dcond) (th el : dblock)
| DLoop (b : dblock)
| DRet
| DBreak
| DOpaque (why : string)
with dblock := BNil | BCons (n : dnode) (b : dblock).

Definition dtable := list (string * (list string * dblock)).

Fixpoint lookup_fn (name : string) (t : dtable) : option (list string * dblock) :=
  match t with
  | [] => None
  | (n, x) :: r => if String.eqb n name then Some x else lookup_fn name r
  end.

(* ---- helm template plumbing (second part of the generated file) ---- *)
Inductive tguard := GAlways | GOptEmpty | GOther.
Inductive texpr := TTrue | TFalse | TCli (flag : string) | TNotCli (flag : string) | TStr (s : string) | TOther.

(* ---- environment: what is known about the options ---- *)
Inductive aopt :=
| OptIs (s : string)
| OptNotIn (l : list string)
| OptAny.

Record denv := mkDE {
  de_flag : string -> tv;
  de_opt : aopt;
  de_spell : list string;        (* the DryRunOption values that make isDryRun true (Gen/DryRunSpellings.v) *)
  de_nested : bool }.            (* inside the Run of a nested action (failRelease) *)

Definition mem (s : string) (l : list string) : bool := existsb (String.eqb s) l.

Definition eval_opt (o : aopt) (s : string) : tv :=
  match o with
  | OptIs s' => tv_of (String.eqb s s')
  | OptNotIn l => if mem s l then TF else TU
  | OptAny => TU
  end.

Definition eval_dry (e : denv) : tv :=
  tv_or (de_flag e "DryRun")
        (match de_opt e with
         | OptIs s => tv_of (mem s (de_spell e))
         | OptNotIn l => if forallb (fun s => mem s l) (de_spell e) then TF else TU
         | OptAny => TU
         end).

(* ---- state ---- *)
Record dstate := mkDS {
  ds_fake : tv;                  (* cfg.KubeClient is the printing fake *)
  ds_priv : tv;                  (* cfg.Releases is the private memory store *)
  ds_caps : tv;                  (* cfg.Capabilities != nil *)
  ds_getter : tv;                (* cfg.RESTClientGetter != nil *)
  ds_vars : list (string * tv) }.

Fixpoint var_get (x : string) (l : list (string * tv)) : tv :=
  match l with
  | [] => TU
  | (y, v) :: t => if String.eqb x y then v else var_get x t
  end.

Fixpoint var_set (x : string) (v : tv) (l : list (string * tv)) : list (string * tv) :=
  match l with
  | [] => [(x, v)]
  | (y, w) :: t => if String.eqb x y then (y, v) :: t else (y, w) :: var_set x v t
  end.

(* variables known on one side only are unknown after the join *)
Definition vars_join (a b : list (string * tv)) : list (string * tv) :=
  map (fun kv => (fst kv, tv_join (snd kv) (var_get (fst kv) b))) a
  ++ map (fun kv => (fst kv, TU)) (filter (fun kv => negb (existsb (fun ka => String.eqb (fst ka) (fst kv)) a)) b).

Definition ds_join (a b : dstate) : dstate :=
  mkDS (tv_join (ds_fake a) (ds_fake b)) (tv_join (ds_priv a) (ds_priv b))
       (tv_join (ds_caps a) (ds_caps b)) (tv_join (ds_getter a) (ds_getter b))
       (vars_join (ds_vars a) (ds_vars b)).

Fixpoint vars_eqb (a b : list (string * tv)) : bool :=
  match a, b with
  | [], [] => true
  | (x, v) :: t, (y, w) :: u => String.eqb x y && tv_eqb v w && vars_eqb t u
  | _, _ => false
  end.

Definition ds_eqb (a b : dstate) : bool :=
  tv_eqb (ds_fake a) (ds_fake b) && tv_eqb (ds_priv a) (ds_priv b) && tv_eqb (ds_caps a) (ds_caps b)
  && tv_eqb (ds_getter a) (ds_getter b) && vars_eqb (ds_vars a) (ds_vars b).

Definition join_opt (a b : option dstate) : option dstate :=
  match a, b with
  | Some x, Some y => Some (ds_join x y)
  | Some x, None | None, Some x => Some x
  | None, None => None
  end.

Fixpoint eval (e : denv) (s : dstate) (c : dcond) : tv :=
  match c with
  | DcFlag f => de_flag e f
  | DcDry => eval_dry e
  | DcOpt o => eval_opt (de_opt e) o
  | DcVar x => var_get x (ds_vars s)
  | DcCaps => ds_caps s
  | DcGetter => ds_getter s
  | DcNot a => tv_not (eval e s a)
  | DcAnd a b => tv_and (eval e s a) (eval e s b)
  | DcOr a b => tv_or (eval e s a) (eval e s b)
  | DcTrue => TT
  | DcFalse => TF
  | DcData => TU
  end.

(* ---- what a path may do ---- *)
Record dsum := mkSum {
  may_kube_mut : bool;           (* Create / Update / Delete on the configured cluster *)
  may_kube_read : bool;          (* IsReachable, Build, GETs, waits on the configured cluster *)
  may_store_write : bool;        (* Driver Create / Update / Delete on the configured storage *)
  may_store_read : bool;
  may_getter_read : bool;        (* discovery, REST mapper *)
  may_lookup : bool;             (* template engine built from the REST config *)
  may_opaque : bool }.

Definition sum0 : dsum := mkSum false false false false false false false.
Definition sum_all : dsum := mkSum true true true true true true true.

Definition sum_or (a b : dsum) : dsum :=
  mkSum (may_kube_mut a || may_kube_mut b) (may_kube_read a || may_kube_read b)
        (may_store_write a || may_store_write b) (may_store_read a || may_store_read b)
        (may_getter_read a || may_getter_read b) (may_lookup a || may_lookup b)
        (may_opaque a || may_opaque b).

Definition not_tt (v : tv) : bool := match v with TT => false | _ => true end.

Definition call_sum (t : dtarget) (m : dmode) (name : string) (s : dstate) : dsum :=
  match t, m with
  | OnKube, MMut => mkSum (not_tt (ds_fake s)) false false false false false false
  | OnKube, MRead => mkSum false (not_tt (ds_fake s)) false false false false false
  | OnStore, MMut => mkSum false false (not_tt (ds_priv s)) false false false false
  | OnStore, MRead => mkSum false false false (not_tt (ds_priv s)) false false false
  | OnGetter, MRead => if String.eqb name "Engine.Render.remote"
                       then mkSum false false false false false true false
                       else mkSum false false false false true false false
  | OnGetter, MMut => sum_all
  | OnLocal, MMut => sum_all
  | _, _ => sum0
  end.

Record dres := mkDR {
  r_sum : dsum;
  r_fall : option dstate;        (* state(s) in which control reaches the end of the block *)
  r_ret : option dstate;         (* ... a return *)
  r_brk : option dstate }.       (* ... a break / continue of the enclosing loop *)

Definition opaque_state (s : dstate) : dstate :=
  mkDS TU TU TU TU (map (fun kv => (fst kv, TU)) (ds_vars s)).

Definition opaque_res (s : dstate) : dres := mkDR sum_all (Some (opaque_state s)) (Some (opaque_state s)) None.

Definition swap (what : string) (s : dstate) : dstate :=
  if String.eqb what "KubeClient" then mkDS TT (ds_priv s) (ds_caps s) (ds_getter s) (ds_vars s)
  else if String.eqb what "Releases" then mkDS (ds_fake s) TT (ds_caps s) (ds_getter s) (ds_vars s)
  else if String.eqb what "Capabilities" then mkDS (ds_fake s) (ds_priv s) TT (ds_getter s) (ds_vars s)
  else if String.eqb what "RESTClientGetter" then mkDS (ds_fake s) (ds_priv s) (ds_caps s) TU (ds_vars s)
  else opaque_state s.

(* after a callee: the configuration state is the callee's, the locals are the caller's *)
Definition back_to (caller : dstate) (callee : dstate) : dstate :=
  mkDS (ds_fake callee) (ds_priv callee) (ds_caps callee) (ds_getter callee) (ds_vars caller).

(* loop: iterate the head state to a fixpoint *)
Fixpoint loop_iter (body : dstate -> dres) (k : nat) (head : dstate) : dres :=
  let r := body head in
  (* the next iteration starts where the body ended or was left by break / continue *)
  let head' := match join_opt (r_fall r) (r_brk r) with Some f => ds_join head f | None => head end in
  if ds_eqb head head' then
    mkDR (r_sum r) (Some head) (r_ret r) None
  else match k with
       | 0 => opaque_res head
       | S k' => loop_iter body k' head'
       end.

(* the options of a nested action: what the caller set, everything else clear - or, when the
   action was built by a helper whose settings the translator could not carry over (marker "*"),
   everything else unknown *)
Definition nested_env (e : denv) (s : dstate) (sets : list (string * tv)) : denv :=
  mkDE (fun f => match find (fun kv => String.eqb (fst kv) f) sets with
                 | Some kv => snd kv
                 | None => if existsb (fun kv => String.eqb (fst kv) "*") sets then TU else TF
                 end)
       (OptIs "") (de_spell e) true.

Section Walk.
  Variable call : string -> denv -> dstate -> dres.

  Fixpoint walk_node (e : denv) (n : dnode) (s : dstate) : dres :=
    match n with
    | DCall t m name => mkDR (call_sum t m name s) (Some s) None None
    | DFn callee args =>
        let s_in := mkDS (ds_fake s) (ds_priv s) (ds_caps s) (ds_getter s)
                         (map (fun pc => (fst pc, eval e s (snd pc))) args) in
        let r := call callee e s_in in
        mkDR (r_sum r) (option_map (back_to s) (r_fall r)) None None
    | DNested callee sets =>
        let e' := nested_env e s (map (fun pc => (fst pc, eval e s (snd pc))) sets) in
        let r := call callee e' (mkDS (ds_fake s) (ds_priv s) (ds_caps s) (ds_getter s) []) in
        mkDR (r_sum r) (option_map (back_to s) (r_fall r)) None None
    | DSet x c => mkDR sum0 (Some (mkDS (ds_fake s) (ds_priv s) (ds_caps s) (ds_getter s)
                                        (var_set x (eval e s c) (ds_vars s)))) None None
    | DSwap what => mkDR sum0 (Some (swap what s)) None None
    | DIf c th el =>
        match eval e s c with
        | TT => walk_block e th s
        | TF => walk_block e el s
        | TU =>
            let a := walk_block e th s in
            let b := walk_block e el s in
            mkDR (sum_or (r_sum a) (r_sum b)) (join_opt (r_fall a) (r_fall b))
                 (join_opt (r_ret a) (r_ret b)) (join_opt (r_brk a) (r_brk b))
        end
    | DLoop b => loop_iter (walk_block e b) 24 s
    | DRet => mkDR sum0 None (Some s) None
    | DBreak => mkDR sum0 None None (Some s)
    | DOpaque _ => opaque_res s
    end
  with walk_block (e : denv) (b : dblock) (s : dstate) : dres :=
    match b with
    | BNil => mkDR sum0 (Some s) None None
    | BCons n rest =>
        let r1 := walk_node e n s in
        match r_fall r1 with
        | None => r1
        | Some s' =>
            let r2 := walk_block e rest s' in
            mkDR (sum_or (r_sum r1) (r_sum r2)) (r_fall r2)
                 (join_opt (r_ret r1) (r_ret r2)) (join_opt (r_brk r1) (r_brk r2))
        end
    end.
End Walk.

Fixpoint walk_fn (tbl : dtable) (fuel : nat) (name : string) (e : denv) (s : dstate) : dres :=
  match fuel with
  | 0 => opaque_res s
  | S f =>
      match lookup_fn name tbl with
      | None => opaque_res s
      | Some (_, body) =>
          let r := walk_block (walk_fn tbl f) e body s in
          (* a return and the end of the body both come back to the caller *)
          mkDR (r_sum r) (join_opt (r_fall r) (r_ret r)) None None
      end
  end.

Definition state0 : dstate := mkDS TF TF TU TU [].

Definition analyse (tbl : dtable) (name : string) (e : denv) : dsum := r_sum (walk_fn tbl 24 name e state0).

(* ---- environments ---- *)
Definition flags_of (known : list (string * bool)) : string -> tv :=
  fun f => match find (fun kv => String.eqb (fst kv) f) known with Some kv => tv_of (snd kv) | None => TU end.

(* ---- helm template plumbing ---- *)
(* the value of option [f] after the assignments, as a function of what was set before and of
   the command-line flags of template: Some true / Some false / None = as before *)
Fixpoint plumbed (asg : list (string * tguard * texpr)) (cli : string -> bool) (f : string) (acc : option (option bool))
  : option (option bool) :=
  match asg with
  | [] => acc
  | (g, guard, ex) :: t =>
      if String.eqb g f then
        match guard, ex with
        | GAlways, TTrue => plumbed t cli f (Some (Some true))
        | GAlways, TFalse => plumbed t cli f (Some (Some false))
        | GAlways, TCli c => plumbed t cli f (Some (Some (cli c)))
        | GAlways, TNotCli c => plumbed t cli f (Some (Some (negb (cli c))))
        | _, _ => plumbed t cli f (Some None)
        end
      else plumbed t cli f acc
  end.

(* the DryRunOption after the plumbing *)
Fixpoint plumbed_opt (asg : list (string * tguard * texpr)) (opt : string) : option string :=
  match asg with
  | [] => Some opt
  | (g, guard, ex) :: t =>
      if String.eqb g "DryRunOption" then
        match guard, ex with
        | GOptEmpty, TStr s => plumbed_opt t (if String.eqb opt "" then s else opt)
        | GAlways, TStr s => plumbed_opt t s
        | _, _ => None
        end
      else plumbed_opt t opt
  end.

(* ================================================================== *)
(* Path matcher: is a sequence of effect labels a path through a function of the table, under a
   total assignment of the options?  Same abstract interpretation, carrying a SET OF POSITIONS
   of the input (bits of an N) instead of a summary.  Data-dependent tests go both ways.  Calls
   that the model has no effect for are skipped ([LSkip]); Build and GetWaiter, which the model
   has only up to the bail-out, are optional ([LOpt]); the remote template engine stands for any
   number of lookups ([LStar]). *)
From Coq Require Import NArith.

Definition item := (string * bool)%type.       (* label, and: did it go to the configured back end *)

Inductive lmode := LOne | LOpt | LStar | LSkip.

Definition label_mode (nested : bool) (m : dmode) (name : string) : lmode :=
  if String.eqb name "Engine.Render.remote" then LStar
  (* the shared model (Engine/Ops.v) runs the nested uninstall / rollback of failRelease without
     their reachability check *)
  else if nested && String.eqb name "KubeClient.IsReachable" then LOpt
  else if String.eqb name "KubeClient.Build" || String.eqb name "KubeClient.GetWaiter" then LOpt
  else match m with
       | MNone => if String.eqb name "PostRenderer.Run" || String.eqb name "writeToFile" then LOne else LSkip
       | _ => LOne
       end.

Fixpoint mask_from (i : N) (tr : list item) (p : item -> bool) : N :=
  match tr with
  | [] => 0%N
  | x :: t => N.lor (if p x then N.shiftl 1%N i else 0%N) (mask_from (N.succ i) t p)
  end.

Definition real_ok (v : tv) (real : bool) : bool :=
  match v with TT => negb real | TF => real | TU => true end.

Definition item_matches (t : dtarget) (name : string) (s : dstate) (x : item) : bool :=
  String.eqb (fst x) name &&
  match t with
  | OnKube => real_ok (ds_fake s) (snd x)
  | OnStore => real_ok (ds_priv s) (snd x)
  | _ => snd x
  end.

Definition mstate := (dstate * N)%type.

Definition mjoin (a b : option mstate) : option mstate :=
  match a, b with
  | Some (s1, p1), Some (s2, p2) => Some (ds_join s1 s2, N.lor p1 p2)
  | Some x, None | None, Some x => Some x
  | None, None => None
  end.

Definition alive (s : dstate) (p : N) : option mstate := if N.eqb p 0 then None else Some (s, p).

Record mres := mkMR { m_fall : option mstate; m_ret : option mstate; m_brk : option mstate }.

Definition mnone : mres := mkMR None None None.

Definition mstate_eqb (a b : mstate) : bool := ds_eqb (fst a) (fst b) && N.eqb (snd a) (snd b).

Fixpoint star_iter (k : nat) (m p : N) : N :=
  match k with
  | 0 => p
  | S k' => let p' := N.lor p (N.shiftl (N.land p m) 1) in if N.eqb p p' then p else star_iter k' m p'
  end.

(* every position from the lowest one of p up to len *)
Definition all_from (len : nat) (p : N) : N :=
  star_iter (S len) (N.ones (N.of_nat len)) p.

Fixpoint mloop_iter (body : mstate -> mres) (k : nat) (head : mstate) (rets : option mstate) : mres :=
  let r := body head in
  let head' := match mjoin (Some head) (mjoin (m_fall r) (m_brk r)) with Some h => h | None => head end in
  let rets' := mjoin rets (m_ret r) in
  if mstate_eqb head head' then mkMR (Some head) rets' None
  else match k with
       | 0 => mkMR (Some head') rets' None
       | S k' => mloop_iter body k' head' rets'
       end.

Section Match.
  Variable tr : list item.
  Variable call : string -> denv -> mstate -> mres.

  Definition len := List.length tr.

  Fixpoint match_node (e : denv) (n : dnode) (sp : mstate) : mres :=
    let '(s, p) := sp in
    match n with
    | DCall t m name =>
        let mk := mask_from 0 tr (item_matches t name s) in
        let p' := match label_mode (de_nested e) m name with
                  | LOne => N.shiftl (N.land p mk) 1
                  | LOpt => N.lor p (N.shiftl (N.land p mk) 1)
                  | LStar => star_iter (S len) mk p
                  | LSkip => p
                  end in
        mkMR (alive s p') None None
    | DFn callee args =>
        let s_in := mkDS (ds_fake s) (ds_priv s) (ds_caps s) (ds_getter s)
                         (map (fun pc => (fst pc, eval e s (snd pc))) args) in
        let r := call callee e (s_in, p) in
        mkMR (option_map (fun x => (back_to s (fst x), snd x)) (m_fall r)) None None
    | DNested callee sets =>
        let e' := nested_env e s (map (fun pc => (fst pc, eval e s (snd pc))) sets) in
        let r := call callee e' (mkDS (ds_fake s) (ds_priv s) (ds_caps s) (ds_getter s) [], p) in
        mkMR (option_map (fun x => (back_to s (fst x), snd x)) (m_fall r)) None None
    | DSet x c => mkMR (Some (mkDS (ds_fake s) (ds_priv s) (ds_caps s) (ds_getter s)
                                   (var_set x (eval e s c) (ds_vars s)), p)) None None
    | DSwap what => mkMR (Some (swap what s, p)) None None
    | DIf c th el =>
        match eval e s c with
        | TT => match_block e th sp
        | TF => match_block e el sp
        | TU =>
            let a := match_block e th sp in
            let b := match_block e el sp in
            mkMR (mjoin (m_fall a) (m_fall b)) (mjoin (m_ret a) (m_ret b)) (mjoin (m_brk a) (m_brk b))
        end
    | DLoop b => mloop_iter (match_block e b) (len + 40) sp None
    | DRet => mkMR None (Some sp) None
    | DBreak => mkMR None None (Some sp)
    | DOpaque _ => let x := Some (opaque_state s, all_from len p) in mkMR x x None
    end
  with match_block (e : denv) (b : dblock) (sp : mstate) : mres :=
    match b with
    | BNil => mkMR (Some sp) None None
    | BCons n rest =>
        let r1 := match_node e n sp in
        match m_fall r1 with
        | None => r1
        | Some sp' =>
            let r2 := match_block e rest sp' in
            mkMR (m_fall r2) (mjoin (m_ret r1) (m_ret r2)) (mjoin (m_brk r1) (m_brk r2))
        end
    end.
End Match.

Fixpoint match_fn (tr : list item) (tbl : dtable) (fuel : nat) (name : string) (e : denv) (sp : mstate) : mres :=
  match fuel with
  | 0 => mnone
  | S f =>
      match lookup_fn name tbl with
      | None => mnone
      | Some (_, body) =>
          let r := match_block tr (match_fn tr tbl f) e body sp in
          mkMR (mjoin (m_fall r) (m_ret r)) None None
      end
  end.

(* the whole input is consumed when the entry function returns *)
Definition follows (tbl : dtable) (entry : string) (e : denv) (s0 : dstate) (tr : list item) : bool :=
  match m_fall (match_fn tr tbl 24 entry e (s0, 1%N)) with
  | Some (_, p) => N.testbit p (N.of_nat (List.length tr))
  | None => false
  end.

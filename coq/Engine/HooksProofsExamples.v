(* C12 — corollaries in the form used by Props/C12.v, and concrete examples. *)
From Coq Require Import List String Ascii Bool Arith ZArith Lia Permutation.
From Helm Require Import Common.Assoc Engine.Types Engine.Eff Engine.Ops Engine.Cluster Engine.Seq
  Engine.HooksProofsSort Engine.HooksProofsTrace Engine.HooksProofsOrder Engine.HooksProofsGate.
Import ListNotations.
Local Open Scope string_scope.

(* no creation was refused *)
Definition create_ok (x : er) : Prop :=
  match x with
  | ER e r => match e return resp e -> Prop with KCreate _ => fun ok => ok = true | _ => fun _ => True end r
  end.

Lemma in_cview_create rs ok tr : In (CCreate rs ok) (cview tr) -> In (ER (KCreate rs) ok) tr.
Proof.
  unfold cview. rewrite in_flat_map. intros ([e r] & Hin & Hv).
  destruct e; simpl in Hv; try contradiction; destruct Hv as [Hv|[]]; try discriminate.
  inversion Hv; subst. exact Hin.
Qed.

(* C12_policies: when no creation is refused (K8 excluded) and no deletion fails *)
Theorem exec_hook_policies rl ev tr b :
  exec (exec_hook rl ev) tr b -> Forall del_ok tr -> Forall create_ok tr ->
  let hs := sort_hooks (hooks_for ev (hooks rl)) in
  (b = true /\ cview tr = (flat_map (run_ok ev) hs ++ succ_dels (List.rev hs))%list)
  \/
  (b = false /\ exists pre h post, hs = (pre ++ h :: post)%list /\
      cview tr = (flat_map (run_ok ev) pre ++ pol_del h BeforeHookCreation
                  ++ [CCreate [h_res h] true; CWatch ev h false]
                  ++ pol_del h HookFailed ++ succ_dels pre)%list).
Proof.
  intros H Hd Hc hs. destruct (exec_hook_trace _ _ _ _ H Hd) as [S|[-> (pre & h & post & E & S)]]; [left; exact S|].
  right. split; auto. exists pre, h, post. split; auto.
  destruct S as [S|S]; auto. exfalso.
  assert (Hin : In (ER (KCreate [h_res h]) false) tr).
  { apply in_cview_create. rewrite S. rewrite !in_app_iff. right. right. now left. }
  rewrite Forall_forall in Hc. specialize (Hc _ Hin). simpl in Hc. discriminate.
Qed.

(* ---- examples ---- *)
Definition hk_ (n : string) (w : Z) (evs : list event) (ps : list policy) : hook :=
  mkHook (mkRes "ConfigMap" n [("d:h", n)]) evs w ps.

(* the probe of DESIGN.md: hb(-1), hd(0), ha(5), hz(5) *)
Definition probe : list hook :=
  [ hk_ "hz" 5 [PreInstall] [HookFailed]; hk_ "ha" 5 [PreInstall] [HookSucceeded];
    hk_ "hd" 0 [PreInstall] []; hk_ "hb" (-1) [PreInstall] [HookSucceeded; BeforeHookCreation] ].

Lemma probe_order :
  map h_name (sort_hooks (hooks_for PreInstall probe)) = ["hb"; "hd"; "ha"; "hz"].
Proof. reflexivity. Qed.

(* an event named twice selects the hook twice *)
Lemma duplicated_event_runs_twice :
  let h := hk_ "hd" 0 [PreInstall; PreInstall] [] in
  sort_hooks (hooks_for PreInstall [h]) = [h; h].
Proof. reflexivity. Qed.

(* a concrete, fault-free run of the probe under the object-store cluster: the complete
   cluster-visible trace of the pre-install hooks *)
Definition probe_rel : release := mkRelease 1 SPendingInstall 1 1 [] probe.
Definition k_empty : kstate := mkK [] None None false.
Definition probe_run :=
  run_tr kstate (kube_handle "rel" "default") dead_resp (mkSF None None)
         (exec_hook probe_rel PreInstall) (mkR [probe_rel] k_empty 0 0 false []).

Lemma probe_run_exec : exec (exec_hook probe_rel PreInstall) (snd probe_run) true.
Proof.
  replace true with (snd (fst probe_run)) by (vm_compute; reflexivity).
  apply run_tr_exec.
Qed.

Lemma probe_run_hyps : Forall del_ok (snd probe_run) /\ Forall create_ok (snd probe_run).
Proof. vm_compute. split; repeat constructor. Qed.

Lemma probe_run_view :
  cview (snd probe_run) =
  let r n := [mkRes "ConfigMap" n [("d:h", n)]] in
  [ CDelete (r "hb") true; CCreate (r "hb") true;
    CWatch PreInstall (hk_ "hb" (-1) [PreInstall] [HookSucceeded; BeforeHookCreation]) true;
    CDelete (r "hd") true; CCreate (r "hd") true; CWatch PreInstall (hk_ "hd" 0 [PreInstall] []) true;
    CCreate (r "ha") true; CWatch PreInstall (hk_ "ha" 5 [PreInstall] [HookSucceeded]) true;
    CCreate (r "hz") true; CWatch PreInstall (hk_ "hz" 5 [PreInstall] [HookFailed]) true;
    CDelete (r "ha") true; CDelete (r "hb") true ].
Proof. vm_compute. reflexivity. Qed.

(* a non-atomic install whose pre-install hook hd fails: the hypotheses of the gate theorem
   are met by a real execution, which ends in an error *)
Definition gate_op : op :=
  OpInstall (mkFlags false false false false 0 false false false false 0) 1 1
            [mkRes "ConfigMap" "a" [("d:k", "v1")]] probe.
Definition gate_run :=
  run_tr kstate (kube_handle "rel" "default") dead_resp (mkSF None None)
         (op_prog "rel" "default" gate_op) (mkR [] (mkK [] None (Some ("hd", 0)) false) 0 0 false []).

Lemma gate_example :
  exec (op_prog "rel" "default" gate_op) (snd gate_run) (OErr EOtherErr) /\
  (exists h, In (ER (KHookWatch PreInstall h) false) (snd gate_run)) /\
  ~ In (CCreate [stamp "rel" "default" (mkRes "ConfigMap" "a" [("d:k", "v1")])] true) (cview (snd gate_run)).
Proof.
  split; [|split].
  - replace (OErr EOtherErr) with (snd (fst gate_run)) by (vm_compute; reflexivity).
    apply run_tr_exec.
  - eexists. vm_compute. repeat (first [left; reflexivity | right]).
  - vm_compute. intros H. repeat (destruct H as [H|H]; [discriminate|]). exact H.
Qed.

(* ---- statements in the expanded form of Props/C12.v ---- *)
Lemma hook_phase_events rl ev tr b :
  exec (exec_hook rl ev) tr b ->
  Forall (fun x =>
    match eff_of x with
    | KDelete rs | KWaitDelete rs | KCreate rs =>
        exists h, In h (sort_hooks (hooks_for ev (hooks rl))) /\ rs = [h_res h]
    | KHookWatch ev' h => ev' = ev /\ In h (sort_hooks (hooks_for ev (hooks rl)))
    | SUpdate r => r = rl
    | _ => False
    end) tr.
Proof.
  intros H. eapply Forall_impl; [|exact (exec_hook_events rl ev tr b H)].
  intros x. unfold hook_ev. destruct (eff_of x); auto.
  intros (h & Hi & E & _). exists h. auto.
Qed.

Lemma no_hooks_stmt rn ns o tr out :
  f_no_hooks (op_flags o) = true ->
  exec (op_prog rn ns o) tr out ->
  Forall (fun x =>
    match eff_of x with
    | KHookWatch _ _ => False
    | KCreate rs => match o with OpInstall _ _ _ mani _ => rs = stamp_all rn ns mani | _ => False end
    | _ => True
    end) tr.
Proof.
  intros Hn H. eapply Forall_impl; [|exact (no_hooks_op rn ns o tr out Hn H)].
  intros x. unfold no_hook_eff, op_manifest_create. destruct (eff_of x); auto. destruct o; auto.
Qed.

Lemma probe_run_all :
  exec (exec_hook probe_rel PreInstall) (snd probe_run) true /\
  Forall del_ok (snd probe_run) /\ Forall create_ok (snd probe_run) /\
  cview (snd probe_run) =
  (let r n := [mkRes "ConfigMap" n [("d:h", n)]] in
   [ CDelete (r "hb") true; CCreate (r "hb") true;
     CWatch PreInstall (hk_ "hb" (-1) [PreInstall] [HookSucceeded; BeforeHookCreation]) true;
     CDelete (r "hd") true; CCreate (r "hd") true; CWatch PreInstall (hk_ "hd" 0 [PreInstall] []) true;
     CCreate (r "ha") true; CWatch PreInstall (hk_ "ha" 5 [PreInstall] [HookSucceeded]) true;
     CCreate (r "hz") true; CWatch PreInstall (hk_ "hz" 5 [PreInstall] [HookFailed]) true;
     CDelete (r "ha") true; CDelete (r "hb") true ]).
Proof.
  split; [exact probe_run_exec|]. split; [exact (proj1 probe_run_hyps)|].
  split; [exact (proj2 probe_run_hyps)|exact probe_run_view].
Qed.

Lemma gate_example_all :
  f_atomic (op_flags gate_op) = false /\ f_dry_run (op_flags gate_op) = false /\
  exec (op_prog "rel" "default" gate_op) (snd gate_run) (OErr EOtherErr) /\
  (exists h, In (ER (KHookWatch PreInstall h) false) (snd gate_run)) /\
  ~ In (CCreate [stamp "rel" "default" (mkRes "ConfigMap" "a" [("d:k", "v1")])] true) (cview (snd gate_run)).
Proof. split; [reflexivity|]. split; [reflexivity|]. exact gate_example. Qed.

(* C06 — obligations over the GENERATED flow table (Gen/DryFlow.v), by computation:
   the reachability analysis of Engine/DryFlow.v under the option assignments of the property,
   the helm template plumbing, and examples showing that the analysis and the path matcher
   reject what they should. *)
From Coq Require Import List String Bool Arith NArith.
From Helm Require Import Engine.Types Engine.DryRun Engine.DryOps Engine.DryOpsProofs Engine.DryFlow Engine.DryFlowModel.
From Helm Require Import Gen.DryFlow Gen.DryRunSpellings.
Import ListNotations.
Local Open Scope string_scope.

(* no mutating request to the configured cluster, no write to the configured storage, nothing opaque *)
Definition writes_nothing (s : dsum) : bool :=
  negb (may_kube_mut s) && negb (may_store_write s) && negb (may_opaque s).

(* nothing at all on the configured cluster and storage *)
Definition touches_nothing (s : dsum) : bool :=
  writes_nothing s && negb (may_kube_read s) && negb (may_store_read s) && negb (may_getter_read s) && negb (may_lookup s).

(* the option assignments under which isDryRun() holds: the boolean, or one of the spellings
   read from the source; every other option unknown *)
Definition dry_envs (spell : list string) : list denv :=
  mkDE (flags_of [("DryRun", true)]) OptAny spell false
  :: map (fun s => mkDE (flags_of []) (OptIs s) spell false) spell.

Lemma flow_dry_fact :
  forallb (fun e => writes_nothing (analyse flow "Install.RunWithContext" e)) (dry_envs install_dry_spellings)
  && forallb (fun e => writes_nothing (analyse flow "Upgrade.RunWithContext" e)) (dry_envs upgrade_dry_spellings)
  && writes_nothing (analyse flow "Rollback.Run" (mkDE (flags_of [("DryRun", true)]) OptAny [] false))
  && writes_nothing (analyse flow "Uninstall.Run" (mkDE (flags_of [("DryRun", true)]) OptAny [] false)) = true.
Proof. vm_compute. reflexivity. Qed.

(* the same runs WITHOUT the dry-run option can do all of it: the analysis is not blind *)
Lemma flow_not_dry_fact :
  forallb (fun f => let s := analyse flow f (mkDE (flags_of [("DryRun", false)]) (OptIs "") install_dry_spellings false) in
                    may_kube_mut s && may_store_write s)
          ["Install.RunWithContext"; "Upgrade.RunWithContext"; "Rollback.Run"; "Uninstall.Run"] = true.
Proof. vm_compute. reflexivity. Qed.

(* lookups: only when DryRunOption asks for the server *)
Lemma flow_lookup_fact :
  forallb (fun f =>
    negb (may_lookup (analyse flow f (mkDE (flags_of [("DryRun", true)]) (OptNotIn ["server"; "none"; "false"]) install_dry_spellings false)))
    && negb (may_lookup (analyse flow f (mkDE (flags_of []) (OptIs "client") install_dry_spellings false)))
    && negb (may_lookup (analyse flow f (mkDE (flags_of []) (OptIs "true") install_dry_spellings false)))
    && may_lookup (analyse flow f (mkDE (flags_of []) (OptIs "server") install_dry_spellings false)))
          ["Install.RunWithContext"; "Upgrade.RunWithContext"] = true.
Proof. vm_compute. reflexivity. Qed.

(* ClientOnly, every other option unknown: at most the name check reads the storage and a
   template looks something up; ClientOnly + dry run + a DryRunOption that does not ask for the
   server: nothing *)
Lemma flow_client_only_fact :
  (let s := analyse flow "Install.RunWithContext" (mkDE (flags_of [("ClientOnly", true)]) OptAny install_dry_spellings false) in
   writes_nothing s && negb (may_kube_read s) && negb (may_getter_read s))
  && touches_nothing (analyse flow "Install.RunWithContext"
        (mkDE (flags_of [("ClientOnly", true); ("DryRun", true)]) (OptNotIn ["server"; "none"; "false"]) install_dry_spellings false))
  && forallb (fun o => touches_nothing (analyse flow "Install.RunWithContext"
        (mkDE (flags_of [("ClientOnly", true)]) (OptIs o) install_dry_spellings false))) ["client"; "true"] = true.
Proof. vm_compute. reflexivity. Qed.

(* ---- helm template ---- *)
Definition cli_of (validate include_crds : bool) : string -> bool :=
  fun n => if String.eqb n "validate" then validate else if String.eqb n "include-crds" then include_crds else false.

Lemma flow_template_fact (validate include_crds : bool) (cli : xflags) :
  plumbed template_assigns (cli_of validate include_crds) "DryRun" None
    = Some (Some (fb (template_flags validate include_crds cli) "DryRun")) /\
  plumbed template_assigns (cli_of validate include_crds) "ClientOnly" None
    = Some (Some (fb (template_flags validate include_crds cli) "ClientOnly")) /\
  plumbed template_assigns (cli_of validate include_crds) "Replace" None
    = Some (Some (fb (template_flags validate include_crds cli) "Replace")) /\
  plumbed template_assigns (cli_of validate include_crds) "IncludeCRDs" None
    = Some (Some (fb (template_flags validate include_crds cli) "IncludeCRDs")) /\
  plumbed_opt template_assigns (xf_opt cli) = Some (xf_opt (template_flags validate include_crds cli)) /\
  (* no other boolean option of action.Install is assigned *)
  forallb (fun f => match plumbed template_assigns (fun _ => false) f None with
                    | None => true
                    | Some _ => mem f ["DryRun"; "ClientOnly"; "Replace"; "IncludeCRDs"]
                    end)
          (match find (fun kv => String.eqb (fst kv) "Install") flow_options with Some kv => snd kv | None => ["?"] end) = true /\
  (* runInstall refuses any other --dry-run value before RunWithContext *)
  template_validates_dry_run = true /\
  (forall s, dry_opt_allowed s = mem s template_allowed_dry_run).
Proof.
  destruct (template_flags_spec validate include_crds cli) as (H1 & H2 & H3 & H4 & H5 & _).
  rewrite H1, H2, H3, H4, H5.
  repeat split; try (destruct validate, include_crds; reflexivity).
Qed.

(* ---- the command layer: validateDryRunOptionFlag and the flag plumbing of install / upgrade ---- *)
(* the values the validator lets through that are neither a documented "no" nor a spelling the
   action treats as dry: must be empty (the list IS the witness when it is not) *)
Definition cmd_validator_witnesses : list string :=
  filter (fun s => negb (mem s ["none"; "false"] || is_dry_run false s)) cmd_validator_accepts.

Lemma cmd_validator_fact :
  dry_table_problems = [] /\
  cmd_validator_witnesses = [] /\
  cmd_validator_exact = true /\
  (forall s, dry_opt_allowed s = mem s cmd_validator_accepts) /\
  (* the bare flag of install / upgrade stands for a dry spelling, the one the model uses *)
  cmd_bare_dry_run = [("install", cmd_string_opt (Some None)); ("upgrade", cmd_string_opt (Some None))] /\
  forallb (fun kv => is_dry_run false (snd kv)) cmd_bare_dry_run = true /\
  (* an empty value becomes what the model says (template: "true") *)
  cmd_empty_dry_run = [("install", cmd_default_opt ""); ("upgrade", cmd_default_opt ""); ("template", "true")] /\
  (* every function of install.go / upgrade.go that runs the action validates first *)
  cmd_validated_before_run = [("install.runInstall", true); ("upgrade.newUpgradeCmd", true)].
Proof.
  split; [reflexivity|]. split; [vm_compute; reflexivity|]. split; [reflexivity|].
  split.
  { intros s. unfold dry_opt_allowed, mem, cmd_validator_accepts. cbn [existsb].
    repeat match goal with |- context [String.eqb s ?x] => destruct (String.eqb s x) end; reflexivity. }
  repeat split; vm_compute; reflexivity.
Qed.

(* ---- the checkers reject what they should ---- *)
(* a flow that creates the release before the bail-out *)
Definition bad_flow : dtable :=
  [("F", ([], BCons (DCall OnStore MMut "Driver.Create") (BCons (DIf DcDry (BCons DRet BNil) BNil)
                   (BCons (DCall OnKube MMut "KubeClient.Create") BNil))))].

(* a flow whose helper is unknown to the translator *)
Definition opaque_flow : dtable :=
  [("F", ([], BCons (DIf DcDry (BCons DRet BNil) BNil) (BCons (DCall OnKube MMut "KubeClient.Create") BNil)));
   ("G", ([], BCons (DOpaque "unknown method cfg.store") (BCons (DIf DcDry (BCons DRet BNil) BNil) BNil)))].

Lemma flow_examples :
  may_store_write (analyse bad_flow "F" (mkDE (flags_of [("DryRun", true)]) OptAny [] false)) = true /\
  may_kube_mut (analyse bad_flow "F" (mkDE (flags_of [("DryRun", true)]) OptAny [] false)) = false /\
  writes_nothing (analyse opaque_flow "F" (mkDE (flags_of [("DryRun", true)]) OptAny [] false)) = true /\
  writes_nothing (analyse opaque_flow "G" (mkDE (flags_of [("DryRun", true)]) OptAny [] false)) = false /\
  (* a spelling the table does not know leaves the run a real one *)
  writes_nothing (analyse flow "Install.RunWithContext" (mkDE (flags_of []) (OptIs "none") install_dry_spellings false)) = false /\
  (* the path matcher: the plain dry-run install trace is a path; with the namespace created
     before the bail-out, or the reachability check missing, it is not *)
  follows flow "Install.RunWithContext" (env_of install_dry_spellings (mkXF ["DryRun"; "CreateNamespace"] "" 0 0)) (state_of (mkXG false true))
          [("KubeClient.IsReachable", true); ("KubeClient.Build", true); ("Helper.Get", true)] = true /\
  follows flow "Install.RunWithContext" (env_of install_dry_spellings (mkXF ["DryRun"; "CreateNamespace"] "" 0 0)) (state_of (mkXG false true))
          [("KubeClient.IsReachable", true); ("KubeClient.Build", true); ("Helper.Get", true); ("KubeClient.Create", true)] = false /\
  follows flow "Install.RunWithContext" (env_of install_dry_spellings (mkXF ["DryRun"; "CreateNamespace"] "" 0 0)) (state_of (mkXG false true))
          [("KubeClient.Build", true); ("Helper.Get", true)] = false.
Proof. repeat split; vm_compute; reflexivity. Qed.

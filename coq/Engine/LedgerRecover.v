(* C01 — after a crash: what blocks, and that a successful recovery operation re-establishes
   "exactly one deployed revision, and it is the highest". *)
From Coq Require Import List String Bool Arith Lia.
From Helm Require Import Common.Assoc Engine.Types Engine.Eff Engine.Ops Engine.Cluster Engine.Seq
  Engine.SeqProofs Engine.LedgerBase Engine.LedgerPieces Engine.LedgerDep.
Import ListNotations.

Definition one_deployed_highest (l : list release) : Prop :=
  ndep l = 1 /\ exists x, In x l /\ st x = SDeployed /\ forall r, In r l -> rev r <= rev x.

Lemma succ_new_one l0 l' x : ndep l' <= 1 -> succ_new l0 l' x -> one_deployed_highest l'.
Proof.
  intros Hd [Hin [Hs [_ Hmax]]]. split; [|exists x; auto].
  assert (In x (filter is_deployed l')).
  { apply filter_In. split; auto. unfold is_deployed. now apply status_eqb_eq. }
  unfold ndep in *. destruct (filter is_deployed l'); [contradiction|simpl in *; lia].
Qed.

Lemma highest_not_pending l x last :
  NoDup (revs l) -> In x l -> st x = SDeployed -> (forall r, In r l -> rev r <= rev x) ->
  max_rev_of l = Some last -> is_pending (st last) = false.
Proof.
  intros Hn Hx Hs Hmax Hl. apply max_rev_of_some in Hl. destruct Hl as [Hin Hle].
  assert (last = x).
  { eapply nodup_revs_inj; eauto. specialize (Hmax last Hin). specialize (Hle x Hx). lia. }
  subst. now rewrite Hs.
Qed.

Definition creating (o : op) : bool := match o with OpUninstall _ => false | _ => true end.

Section Recover.
  Variable K : Type.
  Variable kh : forall e : eff, K -> K * resp e * list kev.
  Variable dresp : forall e : eff, resp e.
  Variable rn ns : string.
  Notation run_op := (run_op K kh dresp rn ns).

  (* ---- the stuck cases: refused before any write, whatever the flags and the fault plan ---- *)
  Lemma upgrade_pending_blocked fl cid vid mani hks f l k last :
    max_rev_of l = Some last -> is_pending (st last) = true ->
    run_op (OpUpgrade fl cid vid mani hks) f l k = (l, k, OErr EPending, []).
  Proof.
    intros Hm Hp. unfold Seq.run_op. cbn [op_prog]. unfold upgrade, perform. cbn [bind].
    rewrite run_eff. rewrite (step_read K kh dresp f SHistory _ eq_refl eq_refl).
    cbn [fst snd storage_apply led]. rewrite Hm, Hp. reflexivity.
  Qed.

  Lemma install_blocked fl cid vid mani hks f l k last :
    max_rev_of l = Some last ->
    f_replace fl && (status_eqb (st last) SUninstalled || status_eqb (st last) SFailed) = false ->
    f_dry_run fl = false ->
    run_op (OpInstall fl cid vid mani hks) f l k = (l, k, OErr ENameInUse, []).
  Proof.
    intros Hm Hb Hd. unfold Seq.run_op. cbn [op_prog]. unfold install, perform. rewrite Hd. cbn [bind].
    rewrite run_eff. rewrite (step_read K kh dresp f SHistory _ eq_refl eq_refl).
    cbn [fst snd storage_apply led]. rewrite Hm. cbn [bind]. rewrite Hb. reflexivity.
  Qed.

  (* in particular: a pending head (what a crashed install / upgrade / rollback leaves) *)
  Lemma install_pending_blocked fl cid vid mani hks f l k last :
    max_rev_of l = Some last -> is_pending (st last) = true -> f_dry_run fl = false ->
    run_op (OpInstall fl cid vid mani hks) f l k = (l, k, OErr ENameInUse, []).
  Proof.
    intros Hm Hp. apply (install_blocked fl cid vid mani hks f l k last Hm).
    destruct (st last); simpl in Hp; try discriminate; simpl; apply andb_false_r.
  Qed.

  (* ---- where a history ends ---- *)
  Fixpoint ops_end (h : list (op * sfaults)) (l : list release) (k : K) : list release * K :=
    match h with
    | [] => (l, k)
    | (o, f) :: t => let r := run_op o f l k in ops_end t (res_led K r) (res_ks K r)
    end.

  Lemma ops_end_wf h : forall l k,
    honest dresp -> NoDup (revs l) -> ndep l <= 1 ->
    h1_hist K kh dresp rn ns h l k -> h2_hist K kh dresp rn ns h l k ->
    NoDup (revs (fst (ops_end h l k))) /\ ndep (fst (ops_end h l k)) <= 1.
  Proof.
    induction h as [|[o f] t IH]; intros l k Hh Hn Hd H1 H2; simpl; auto.
    destruct H1 as [H1o H1t]. destruct H2 as [H2o H2t].
    destruct (run_op_D_gen K kh dresp rn ns f fail_ok2 o l k (or_intror Hh) (fun e He => He) H1o Hn Hd H2o)
      as [A [B _]].
    apply IH; auto.
  Qed.

  (* ---- recovery: whatever happened before (crashes, tolerated write failures, failed
     operations), a later install / upgrade / rollback that reports success leaves exactly one
     deployed revision, the highest one ---- *)
  Lemma recovery h o f l k :
    honest dresp -> NoDup (revs l) -> ndep l <= 1 ->
    h1_hist K kh dresp rn ns h l k -> h2_hist K kh dresp rn ns h l k ->
    let le := fst (ops_end h l k) in
    let ke := snd (ops_end h l k) in
    fail_hits_only K kh dresp rn ns fail_ok3 o f le ke -> h2_op o le ->
    let r := run_op o f le ke in
    res_out K r = OOk -> f_dry_run (op_flags o) = false -> creating o = true ->
    one_deployed_highest (res_led K r) /\
    forall last, max_rev_of (res_led K r) = Some last -> is_pending (st last) = false.
  Proof.
    intros Hh Hn Hd H1 H2. cbv zeta. intros Hf H2o Hout Hdry Hcr.
    destruct (ops_end_wf h l k Hh Hn Hd H1 H2) as [Hne Hde].
    destruct (run_op_D_narrow K kh dresp rn ns f o _ _ Hh Hf Hne Hde H2o) as [A [B C]].
    specialize (C Hout Hdry).
    assert (X : exists x, succ_new (fst (ops_end h l k))
                            (res_led K (run_op o f (fst (ops_end h l k)) (snd (ops_end h l k)))) x).
    { destruct o; simpl in C, Hcr; try discriminate.
      - destruct C as [x [S _]]. eauto.
      - destruct C as [x [S _]]. eauto.
      - destruct C as [x [pr [S _]]]. eauto. }
    destruct X as [x S]. split; [eapply succ_new_one; eauto|].
    destruct S as [Hin [Hs [_ Hmax]]]. intros last Hl. eapply highest_not_pending; eauto.
  Qed.

  (* the stuck case and its way out, in one statement *)
  Lemma pending_blocks_upgrade_until_rollback l last :
    max_rev_of l = Some last -> is_pending (st last) = true ->
    (* every upgrade is refused, nothing is written *)
    (forall fl cid vid mani hks f k,
        run_op (OpUpgrade fl cid vid mani hks) f l k = (l, k, OErr EPending, [])) /\
    (* a rollback that reports success re-establishes the invariant and unblocks upgrade *)
    (forall fl f k,
        honest dresp -> NoDup (revs l) -> ndep l <= 1 ->
        fail_hits_only K kh dresp rn ns fail_ok3 (OpRollback fl) f l k ->
        let r := run_op (OpRollback fl) f l k in
        res_out K r = OOk -> f_dry_run fl = false ->
        one_deployed_highest (res_led K r) /\
        forall last', max_rev_of (res_led K r) = Some last' -> is_pending (st last') = false).
  Proof.
    intros Hm Hp. split.
    - intros. now apply (upgrade_pending_blocked fl cid vid mani hks f l k last).
    - intros fl f k Hh Hn Hd Hf. cbv zeta. intros Hout Hdry.
      exact (recovery [] (OpRollback fl) f l k Hh Hn Hd I I Hf I Hout Hdry eq_refl).
  Qed.

  (* a crashed install: install (even --replace) is refused; uninstall is the way out *)
  Lemma pending_blocks_install_until_uninstall l last :
    max_rev_of l = Some last -> is_pending (st last) = true ->
    (forall fl cid vid mani hks f k, f_dry_run fl = false ->
        run_op (OpInstall fl cid vid mani hks) f l k = (l, k, OErr ENameInUse, [])) /\
    (forall fl f k,
        honest dresp -> NoDup (revs l) -> ndep l <= 1 ->
        fail_hits_only K kh dresp rn ns fail_ok3 (OpUninstall fl) f l k ->
        let r := run_op (OpUninstall fl) f l k in
        res_out K r = OOk -> f_dry_run fl = false -> f_keep_history fl = false ->
        res_led K r = []).
  Proof.
    intros Hm Hp. split.
    - intros. now apply (install_pending_blocked fl cid vid mani hks f l k last).
    - intros fl f k Hh Hn Hd Hf. cbv zeta. intros Hout Hdry Hk.
      destruct (run_op_D_narrow K kh dresp rn ns f (OpUninstall fl) l k Hh Hf Hn Hd I) as [_ [_ C]].
      specialize (C Hout Hdry). simpl in C. now rewrite Hk in C.
  Qed.
End Recover.

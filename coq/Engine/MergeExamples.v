(* C02, round 4 — concrete objects: non-vacuity of the hypotheses of Engine/Merge3Proofs.v,
   MergeJsonProofs.v, Update2Proofs.v, the witness of the two-way JSON patch exception (K8-C02), and a
   record of what the merges do (the same triples are in the harness corpus and run on the real code). *)
From Coq Require Import List String Bool Arith.
From Helm Require Import Common.Assoc Engine.Cluster Engine.Obj2 Engine.Update2.
From Helm Require Import Engine.Merge3Proofs Engine.MergeJsonProofs Engine.MergeJson3Proofs Engine.Update2Proofs.
Import ListNotations.
Local Open Scope string_scope.

Definition js (s : string) : tree := TS ("""" ++ s ++ """").
Definition envv (v : string) : tree := TM [("value", js v)].

(* ---- a Deployment: keyed lists (containers by name) inside keyed lists (env by name) ---- *)
Definition dep (containers : list (string * tree)) (replicas : string) (labels : list (string * tree)) : tree :=
  TM [("metadata", TM (match labels with [] => [] | _ => [("labels", TM labels)] end));
      ("spec", TM [("replicas", TS replicas);
                   ("template", TM [("spec", TM [("containers", TK containers)])])])].

Definition ex_o : tree :=
  dep [("web", TM [("args", TA [js "-v"]); ("env", TK [("A", envv "1"); ("B", envv "2")]); ("image", js "nginx:1.25")]);
       ("log", TM [("image", js "busybox:1")])] "2" [].
Definition ex_t : tree :=
  dep [("web", TM [("args", TA [js "-v"; js "--debug"]); ("env", TK [("C", envv "3"); ("A", envv "1")]); ("image", js "nginx:1.25")])] "2" [].
(* live: image and env A edited out of band, a foreign container, a foreign env var, a foreign label, replicas scaled *)
Definition ex_l : tree :=
  dep [("istio", TM [("image", js "proxy:1")]);
       ("web", TM [("args", TA [js "-v"]); ("env", TK [("A", envv "EDITED"); ("X", envv "foreign"); ("B", envv "2")]); ("image", js "evil:latest")]);
       ("log", TM [("image", js "busybox:1")])] "5" [("foreign", js "f")].

Definition cpath : list string := ["spec"; "template"; "spec"; "containers"].
Definition p_env : list string := cpath ++ ["web"; "env"].              (* the env list of container web *)
Definition p_envA : list string := p_env ++ ["A"; "value"].

Example strategic_drift_corrected :
  s3 (Some ex_o) ex_t (Some ex_l) =
  dep [("web", TM [("args", TA [js "-v"; js "--debug"]);
                   ("env", TK [("C", envv "3"); ("A", envv "1"); ("X", envv "foreign")]);
                   ("image", js "nginx:1.25")]);
       ("istio", TM [("image", js "proxy:1")])] "2" [("foreign", js "f")].
Proof. vm_compute. reflexivity. Qed.

Example strategic_hypotheses_met :
  (* a specified path inside a keyed-list element inside a keyed-list element *)
  tget (cpath ++ ["web"; "env"; "A"; "value"]) ex_t = Some (js "1") /\
  tget (cpath ++ ["web"; "env"; "A"; "value"]) ex_l = Some (js "EDITED") /\
  (* the merge descends to the env list of container web *)
  merges (cpath ++ ["web"; "env"]) ex_t ex_l /\ merges3 (cpath ++ ["web"; "env"]) ex_o ex_t ex_l /\
  (* X is foreign there, B is dropped there *)
  tget ((cpath ++ ["web"; "env"]) ++ ["X"]) ex_t = None /\ tget ((cpath ++ ["web"; "env"]) ++ ["X"]) ex_o = None /\
  tget ((cpath ++ ["web"; "env"]) ++ ["X"]) ex_l <> None /\
  tget ((cpath ++ ["web"; "env"]) ++ ["B"]) ex_t = None /\ tget ((cpath ++ ["web"; "env"]) ++ ["B"]) ex_o <> None /\
  tget ((cpath ++ ["web"; "env"]) ++ ["B"]) ex_l <> None.
Proof. vm_compute. repeat split; discriminate. Qed.

(* the quirk kept from the library: container web was deleted out of band; it comes back with a ghost of
   the env var B the new manifest dropped (a bare merge key) *)
Definition ex_l_noweb : tree := dep [("istio", TM [("image", js "proxy:1")])] "2" [].
Example strategic_ghost_element :
  tget (cpath ++ ["web"; "env"]) (s3 (Some ex_o) ex_t (Some ex_l_noweb))
  = Some (TK [("C", envv "3"); ("A", envv "1"); ("B", TM [])]).
Proof. vm_compute. reflexivity. Qed.

(* whole-map removal: the new manifest names no data entry; the foreign entry goes with the map *)
Example strategic_whole_map_removed :
  s3 (Some (TM [("data", TM [("k", js "v1")]); ("metadata", TM [])]))
     (TM [("metadata", TM [])])
     (Some (TM [("data", TM [("k", js "v1"); ("foreign", js "f")]); ("metadata", TM [])]))
  = TM [("metadata", TM [])].
Proof. vm_compute. reflexivity. Qed.

(* ---- a custom resource: JSON merge patches ---- *)
Definition wid (size color : string) (limits : list (string * tree)) (tags : list tree) : tree :=
  TM [("metadata", TM []);
      ("spec", TM [("color", js color); ("limits", TM limits); ("size", TS size); ("tags", TA tags)])].

Definition w_o : tree := wid "1" "web" [("cpu", js "v1"); ("memory", js "v1")] [js "web"].
Definition w_t : tree := wid "2" "web" [("cpu", js "v1"); ("memory", js "v1")] [js "web"].
Definition w_l : tree := wid "1" "DRIFT" [("cpu", js "DRIFT"); ("foreign", js "f")] [js "web"; js "DRIFT"].

(* Client.Update (upgrade, rollback): only "size" is in the patch *)
Example json2_result :
  j2 w_o w_t w_l = wid "2" "DRIFT" [("cpu", js "DRIFT"); ("foreign", js "f")] [js "web"; js "DRIFT"].
Proof. vm_compute. reflexivity. Qed.

(* UpdateThreeWayMerge (install --take-ownership): everything the manifest specifies is corrected *)
Example json3_result :
  teqv (j3 w_o w_t w_l) (wid "2" "web" [("cpu", js "v1"); ("foreign", js "f"); ("memory", js "v1")] [js "web"]) = true.
Proof. vm_compute. reflexivity. Qed.

Example json2_hypotheses_met :
  wf_tree w_o = true /\ wf_tree w_t = true /\
  mget ["spec"; "size"] w_t = Some (TS "2") /\ nonmap (TS "2") = true /\
  same_at ["spec"; "size"] w_o (TS "2") = false /\
  maps3 ["spec"; "limits"] w_o w_t w_l /\
  mget (["spec"; "limits"] ++ ["foreign"]) w_t = None /\ mget (["spec"; "limits"] ++ ["foreign"]) w_o = None /\
  mget (["spec"; "limits"] ++ ["foreign"]) w_l <> None.
Proof. vm_compute. repeat split; discriminate. Qed.

Example json3_hypotheses_met :
  wf_tree w_o = true /\ wf_tree w_t = true /\ wf_tree w_l = true /\
  mget ["spec"; "color"] w_t = Some (js "web") /\ nonmap (js "web") = true /\
  mget ["spec"; "color"] w_l = Some (js "DRIFT") /\
  mget ["spec"; "color"] (j3 w_o w_t w_l) = Some (js "web").
Proof. vm_compute. repeat split; reflexivity. Qed.

(* K8-C02.  A member path the target gives a value, the original gives the same value, the live object
   does not hold it: after the two-way patch the result still does not hold it.  (Replayed on the real
   kube.Client: corpus of harness/cmd/hx/c02_objcorpus.go and c02_objact.go.) *)
Theorem j2_unchanged_drift_refuted :
  exists (om tm lm : list (string * tree)) (p : list string) (v : tree),
    wf_tree (TM om) = true /\ wf_tree (TM tm) = true /\ wf_tree (TM lm) = true /\
    mget p (TM tm) = Some v /\ nonmap v = true /\
    same_at p (TM om) v = true /\
    mget p (TM lm) <> Some v /\
    mget p (j2 (TM om) (TM tm) (TM lm)) <> Some v.
Proof.
  exists [("metadata", TM []); ("spec", TM [("color", js "web"); ("size", TS "1")])],
         [("metadata", TM []); ("spec", TM [("color", js "web"); ("size", TS "2")])],
         [("metadata", TM []); ("spec", TM [("color", js "DRIFT"); ("size", TS "1")])],
         ["spec"; "color"], (js "web").
  vm_compute. repeat split; discriminate.
Qed.

(* K9-C02.  Upgrade / install ADOPT a resource that exists, is owned by the release and is in no manifest of
   the deployed revision by appending the TARGET entry itself to the "original" list (upgrade.go: current.Append(r)).
   For a custom kind the two-way patch of (target, target) is empty: the live object stays as it is, whatever the
   new manifest says.  (Replayed on the real actions: corpus of harness/cmd/hx/c02_objact.go; a built-in kind in
   the same situation is corrected: s3 (Some t) t (Some l) carries every path of t, Merge3Proofs.s3_specified.) *)
Theorem j2_adopted_noop_refuted :
  exists (tm lm : list (string * tree)) (p : list string) (v : tree),
    wf_tree (TM tm) = true /\ wf_tree (TM lm) = true /\
    mget p (TM tm) = Some v /\ nonmap v = true /\
    mget p (TM lm) <> Some v /\
    j2 (TM tm) (TM tm) (TM lm) = TM lm /\
    mget p (j2 (TM tm) (TM tm) (TM lm)) <> Some v.
Proof.
  exists [("metadata", TM []); ("spec", TM [("color", js "db"); ("size", TS "2")])],
         [("metadata", TM []); ("spec", TM [("color", js "web"); ("size", TS "1")])],
         ["spec"; "size"], (TS "2").
  vm_compute. repeat split; try reflexivity; discriminate.
Qed.

(* ---- kube.Client.update on whole objects ---- *)
Definition r_dep (ver : string) (o : tree) : res2 := mkRes2 "default" "apps" "Deployment" "web" ver false o.
Definition r_wid (n : string) (o : tree) : res2 := mkRes2 "default" "unit-test.test.com" "Widget" n "v1" true o.
Definition keepw : tree :=
  TM [("metadata", TM [("annotations", TM [("helm.sh/resource-policy", js "keep")])]); ("spec", TM [])].

Definition ex_store : store2 :=
  [(r2_key (r_dep "v1" ex_o), ex_l); (r2_key (r_wid "w1" w_o), w_l); (r2_key (r_wid "w2" w_o), keepw);
   ("default//ConfigMap/bystander", TM [("data", TM [("k", js "v")])])].

(* Deployment patched (its manifest entry moved from apps/v1beta2 to apps/v1: the same resource), w1 patched
   two-way, w2 dropped but kept (live keep policy), w3 created, the bystander untouched *)
Example update2_example :
  let '(o', r, muts) := k2_update false false ex_store
                          [r_dep "v1beta2" ex_o; r_wid "w1" w_o; r_wid "w2" w_o]
                          [r_dep "v1" ex_t; r_wid "w1" w_t; r_wid "w3" w_t] in
  r = (true, [r2_key (r_wid "w3" w_t)]) /\
  map fst o' = [r2_key (r_dep "v1" ex_o); r2_key (r_wid "w1" w_o); r2_key (r_wid "w2" w_o);
                "default//ConfigMap/bystander"; r2_key (r_wid "w3" w_t)] /\
  aget (r2_key (r_wid "w2" w_o)) o' = Some keepw /\
  aget (r2_key (r_wid "w3" w_t)) o' = Some w_t /\
  NoDup (map r2_key [r_dep "v1" ex_t; r_wid "w1" w_t; r_wid "w3" w_t]).
Proof.
  vm_compute. repeat split; try reflexivity.
  repeat constructor; simpl; intuition discriminate.
Qed.

Example update2_versions_related :
  Forall2 same_but_ver [r_dep "v1beta2" ex_o; r_wid "w1" w_o] [r_dep "v1" ex_o; r_wid "w1" w_o].
Proof. repeat constructor. Qed.

(* ---- --recreate-pods (round 5) ---- *)
Definition pod (labels : list (string * tree)) : tree :=
  TM [("metadata", TM [("labels", TM labels)]); ("spec", TM [])].
Definition r_svc (n : string) (o : tree) : res2 := mkRes2 "default" "" "Service" n "v1" false o.
Definition svc_sel : tree := TM [("metadata", TM []); ("spec", TM [("selector", TM [("app", js "web"); ("tier", js "db")])])].
Definition svc_nosel : tree := TM [("metadata", TM []); ("spec", TM [("type", js "ExternalName")])].
Definition dep_sel : tree := TM [("metadata", TM []); ("spec", TM [("selector", TM [("matchLabels", TM [("app", js "web")])])])].

Definition rc_store : store2 :=
  [("default/apps/Deployment/web", dep_sel); ("default//Service/web", svc_sel); ("default//Service/ext", svc_nosel);
   ("default//Pod/web-1", pod [("app", js "web")]); ("default//Pod/web-db", pod [("app", js "web"); ("tier", js "db")]);
   ("default//Pod/stranger", pod [("app", js "other")]); ("default//Pod/bare", pod []);
   ("other//Pod/web-elsewhere", pod [("app", js "web")])].

(* the Deployment's and the Service's pods go; the selector-less Service selects nothing; the stranger, the
   unlabelled pod and the pod of another namespace stay *)
Example recreate_example :
  NoDup (akeys rc_store) /\
  map fst (fst (k2_recreate rc_store [r_dep "v1" dep_sel; r_svc "web" svc_sel; r_svc "ext" svc_nosel])) =
    ["default/apps/Deployment/web"; "default//Service/web"; "default//Service/ext";
     "default//Pod/stranger"; "default//Pod/bare"; "other//Pod/web-elsewhere"] /\
  selector_of (r_svc "ext" svc_nosel) svc_nosel = None.
Proof.
  split; [|vm_compute; auto].
  vm_compute. repeat constructor; simpl; intuition discriminate.
Qed.

(* C02, round 4 — the THREE-WAY JSON merge patch kube.Client.UpdateThreeWayMerge sends for unstructured /
   custom kinds (install --take-ownership; Engine/Obj2.v: j3 = apply
   MergePatch(keepNulls(diff(old, new)), dropNulls(diff(live, new))) to live), for ALL (original, target,
   live) whose maps are maps:

     every member path of the target whose value is not a map holds, in the result, the target's value
     or a value DeepEqual to it (the live object's own, when it already agreed) — whatever the live object
     held, whatever the original said.  No proviso: this path corrects drift (j3_specified).

   All inductions are on the PATH; the facts needed about patches are stated along the path only
   ([carries]: the additions hold the value; [harmless]: the deletions do not touch it). *)
From Coq Require Import List String Bool Arith Lia.
From Helm Require Import Common.Assoc Engine.Obj2 Engine.Merge3Proofs Engine.MergeJsonProofs.
Import ListNotations.

(* ------------------------------------------------------------------ *)
(* the level functions, named                                           *)

Fixpoint kn_level (x : list (string * ptree)) : list (string * ptree) :=
  match x with
  | [] => []
  | (k, pv) :: r =>
      match pv with
      | PNull => (k, PNull) :: kn_level r
      | PLeaf _ => kn_level r
      | PMap _ => match keep_nullsP pv with [] => kn_level r | s => (k, PMap s) :: kn_level r end
      end
  end.
Lemma keep_nulls_eq m : keep_nulls m = kn_level m.
Proof. reflexivity. Qed.

Fixpoint dn_level (x : list (string * ptree)) : list (string * ptree) :=
  match x with
  | [] => []
  | (k, pv) :: r =>
      match pv with
      | PNull => dn_level r
      | PLeaf _ => (k, pv) :: dn_level r
      | PMap [] => (k, pv) :: dn_level r
      | PMap _ => match drop_nullsP pv with [] => dn_level r | s => (k, PMap s) :: dn_level r end
      end
  end.
Lemma drop_nulls_eq m : drop_nulls m = dn_level m.
Proof. reflexivity. Qed.

Definition pm_step (k : string) (pv : ptree) (acc : list (string * ptree)) : list (string * ptree) :=
  match pv with
  | PNull => adel k acc
  | PMap _ => match aget k acc with
              | Some (PMap dm) => aset k (PMap (pmergeP dm pv)) acc
              | _ => aset k pv acc
              end
  | PLeaf _ => aset k pv acc
  end.
Fixpoint pm_level (x : list (string * ptree)) (acc : list (string * ptree)) : list (string * ptree) :=
  match x with [] => acc | (k, pv) :: r => pm_level r (pm_step k pv acc) end.
Lemma pmerge_eq doc p : pmerge doc p = pm_level p doc.
Proof. reflexivity. Qed.

(* what keepNulls / dropNulls make of one entry *)
Definition kn1 (pv : ptree) : option ptree :=
  match pv with
  | PNull => Some PNull
  | PLeaf _ => None
  | PMap s => match keep_nulls s with [] => None | s' => Some (PMap s') end
  end.

Definition dn1 (pv : ptree) : option ptree :=
  match pv with
  | PNull => None
  | PLeaf _ => Some pv
  | PMap [] => Some pv
  | PMap s => match drop_nulls s with [] => None | s' => Some (PMap s') end
  end.

(* a filter-map on entries that keeps keys: lookups commute *)
Section FilterMap.
  Variable f : ptree -> option ptree.
  Fixpoint fm_level (x : list (string * ptree)) : list (string * ptree) :=
    match x with
    | [] => []
    | (k, pv) :: r => match f pv with Some q => (k, q) :: fm_level r | None => fm_level r end
    end.

  Lemma fm_keys x k : In k (akeys (fm_level x)) -> In k (akeys x).
  Proof.
    unfold akeys. induction x as [|[k' pv] r IH]; cbn [fm_level]; auto.
    destruct (f pv); cbn [map fst]; intros H.
    - destruct H as [H|H]; [now left|right; auto].
    - right. auto.
  Qed.

  Lemma fm_nodup x : NoDup (akeys x) -> NoDup (akeys (fm_level x)).
  Proof.
    unfold akeys. induction x as [|[k' pv] r IH]; cbn [fm_level map fst]; intros H; [constructor|].
    inversion H; subst. destruct (f pv); cbn [map fst]; auto.
    constructor; auto. intros X. apply fm_keys in X. contradiction.
  Qed.

  Lemma aget_fm x k :
    NoDup (akeys x) -> aget k (fm_level x) = match aget k x with Some pv => f pv | None => None end.
  Proof.
    unfold akeys. induction x as [|[k' pv] r IH]; cbn [fm_level map fst aget]; intros H; [reflexivity|].
    inversion H as [|? ? Hni Hnd]; subst.
    destruct (String.eqb k k') eqn:E.
    - apply String.eqb_eq in E. subst k'.
      destruct (f pv) eqn:F; cbn [aget]; [now rewrite String.eqb_refl|].
      apply aget_notin. intros X. apply fm_keys in X. contradiction.
    - destruct (f pv); cbn [aget]; rewrite ?E; auto.
  Qed.
End FilterMap.

Lemma kn_level_fm x : kn_level x = fm_level kn1 x.
Proof.
  induction x as [|[k pv] r IH]; [reflexivity|]. cbn [kn_level fm_level]. rewrite IH.
  destruct pv as [|t|s]; cbn [kn1]; auto.
  unfold keep_nulls. destruct (keep_nullsP (PMap s)); reflexivity.
Qed.

Lemma dn_level_fm x : dn_level x = fm_level dn1 x.
Proof.
  induction x as [|[k pv] r IH]; [reflexivity|]. cbn [dn_level fm_level]. rewrite IH.
  destruct pv as [|t|s]; cbn [dn1]; auto. destruct s as [|p0 s]; auto.
  unfold drop_nulls. destruct (drop_nullsP (PMap (p0 :: s))); reflexivity.
Qed.

Lemma aget_keep_nulls x k :
  NoDup (akeys x) -> aget k (keep_nulls x) = match aget k x with Some pv => kn1 pv | None => None end.
Proof. intros H. rewrite keep_nulls_eq, kn_level_fm. now apply aget_fm. Qed.

Lemma aget_drop_nulls x k :
  NoDup (akeys x) -> aget k (drop_nulls x) = match aget k x with Some pv => dn1 pv | None => None end.
Proof. intros H. rewrite drop_nulls_eq, dn_level_fm. now apply aget_fm. Qed.

Lemma keep_nulls_nodup x : NoDup (akeys x) -> NoDup (akeys (keep_nulls x)).
Proof. intros H. rewrite keep_nulls_eq, kn_level_fm. now apply fm_nodup. Qed.

Lemma drop_nulls_nodup x : NoDup (akeys x) -> NoDup (akeys (drop_nulls x)).
Proof. intros H. rewrite drop_nulls_eq, dn_level_fm. now apply fm_nodup. Qed.

Lemma drop_nulls_no_null x k : aget k (drop_nulls x) <> Some PNull.
Proof.
  rewrite drop_nulls_eq, dn_level_fm.
  induction x as [|[k' pv] r IH]; cbn [fm_level aget]; [discriminate|].
  destruct (dn1 pv) as [q|] eqn:D; auto. cbn [aget].
  destruct (String.eqb k k'); auto.
  intros X. inversion X; subst q.
  destruct pv as [|t|s]; cbn [dn1] in D; try discriminate.
  destruct s; [discriminate|]. destruct (drop_nulls (p :: s)); discriminate.
Qed.

(* ------------------------------------------------------------------ *)
(* merging the additions into the deletions, one level                  *)

Lemma pm_level_nodup : forall x acc, NoDup (akeys acc) -> NoDup (akeys (pm_level x acc)).
Proof.
  induction x as [|[k pv] r IH]; intros acc H; [exact H|].
  cbn [pm_level]. apply IH. unfold pm_step.
  destruct pv as [|t|s].
  - now apply NoDup_akeys_adel.
  - now apply NoDup_akeys_aset.
  - destruct (aget k acc) as [[|t|dm]|]; now apply NoDup_akeys_aset.
Qed.

Definition pm1 (pv : ptree) (old : option ptree) : option ptree :=
  match pv with
  | PNull => None
  | PLeaf _ => Some pv
  | PMap sub => match old with
                | Some (PMap dm) => Some (PMap (pmerge dm sub))
                | _ => Some pv
                end
  end.

Lemma aget_pm_step k pv acc : aget k (pm_step k pv acc) = pm1 pv (aget k acc).
Proof.
  unfold pm_step, pm1. destruct pv as [|t|s].
  - apply aget_adel_eq.
  - apply aget_aset_eq.
  - destruct (aget k acc) as [[|t|dm]|]; apply aget_aset_eq.
Qed.

Lemma aget_pm_step_neq k k' pv acc : k' <> k -> aget k (pm_step k' pv acc) = aget k acc.
Proof.
  intros H. unfold pm_step. destruct pv as [|t|s].
  - now apply aget_adel_neq.
  - now apply aget_aset_neq.
  - destruct (aget k' acc) as [[|t|dm]|]; now apply aget_aset_neq.
Qed.

Theorem aget_pmerge : forall p doc k,
  NoDup (akeys p) ->
  aget k (pmerge doc p) = match aget k p with
                          | Some pv => pm1 pv (aget k doc)
                          | None => aget k doc
                          end.
Proof.
  intros p doc k. rewrite pmerge_eq. revert doc.
  unfold akeys. induction p as [|[k' pv] r IH]; intros doc H; [reflexivity|].
  cbn [map fst] in H. inversion H as [|? ? Hni Hnd]; subst.
  cbn [pm_level aget]. rewrite IH by assumption.
  destruct (String.eqb k k') eqn:E.
  - apply String.eqb_eq in E. subst k'.
    rewrite (aget_notin k r Hni). apply aget_pm_step.
  - assert (k' <> k) by (intros X; subst; rewrite String.eqb_refl in E; discriminate).
    now rewrite (aget_pm_step_neq k k' pv doc).
Qed.

Lemma aset_absent_app {V} k (v : V) l : aget k l = None -> aset k v l = l ++ [(k, v)].
Proof.
  induction l as [|[k' v'] t IH]; cbn [aset aget app]; auto.
  destruct (String.eqb k k'); [discriminate|]. intros H. f_equal. auto.
Qed.

(* nothing to merge into: the additions stand as they are *)
Lemma pm_level_fresh : forall x acc,
  NoDup (akeys acc ++ akeys x) -> (forall k, aget k x <> Some PNull) ->
  pm_level x acc = acc ++ x.
Proof.
  induction x as [|[k pv] r IH]; intros acc Hnd Hnn; [now rewrite app_nil_r|].
  cbn [pm_level].
  assert (Hk : aget k acc = None).
  { apply aget_notin. intros X. unfold akeys in Hnd. cbn [map fst] in Hnd.
    apply NoDup_remove_2 in Hnd. apply Hnd. rewrite in_app_iff. now left. }
  assert (Hstep : pm_step k pv acc = acc ++ [(k, pv)]).
  { unfold pm_step. destruct pv as [|t|s].
    - exfalso. apply (Hnn k). cbn [aget]. now rewrite String.eqb_refl.
    - now apply aset_absent_app.
    - rewrite Hk. now apply aset_absent_app. }
  rewrite Hstep, IH.
  - now rewrite <- app_assoc.
  - unfold akeys in *. rewrite map_app. cbn [map fst] in *. now rewrite <- app_assoc.
  - intros k0 X. apply (Hnn k0). cbn [aget].
    destruct (String.eqb k0 k) eqn:E; auto.
    apply String.eqb_eq in E. subst k0. exfalso.
    unfold akeys in Hnd. cbn [map fst] in Hnd. apply NoDup_remove_2 in Hnd. apply Hnd.
    rewrite in_app_iff. right. apply aget_In in X. change k with (fst (k, PNull)). now apply in_map.
Qed.

Lemma pmerge_nil p : NoDup (akeys p) -> (forall k, aget k p <> Some PNull) -> pmerge [] p = p.
Proof. intros H N. rewrite pmerge_eq. now apply (pm_level_fresh p []). Qed.

(* ------------------------------------------------------------------ *)
(* along a path                                                         *)

(* the additions hold value v at path r *)
Fixpoint carries (r : list string) (v : tree) (X : list (string * ptree)) : Prop :=
  match r with
  | [] => False
  | k :: r' =>
      NoDup (akeys X) /\
      match r' with
      | [] => aget k X = Some (PLeaf v)
      | _ => exists s, aget k X = Some (PMap s) /\ carries r' v s
      end
  end.

(* the deletions do not touch path r: along it they hold maps of deletions, or nothing *)
Fixpoint harmless (r : list string) (K : list (string * ptree)) : Prop :=
  match r with
  | [] => True
  | k :: r' =>
      NoDup (akeys K) /\
      match aget k K with
      | None => True
      | Some (PMap s) => r' <> [] /\ harmless r' s
      | Some _ => False
      end
  end.

Lemma harmless_nil r : harmless r [].
Proof. destruct r; cbn [harmless aget]; auto. split; [constructor|exact I]. Qed.

Lemma carries_nonempty r v X : carries r v X -> X <> [].
Proof.
  destruct r as [|k r']; cbn [carries]; [tauto|]. intros [_ H] E. subst X.
  destruct r' as [|k2 r2]; cbn [aget] in H; [discriminate|]. destruct H as [s0 [H _]]. discriminate.
Qed.

Lemma japply_carries : forall r v X acc,
  carries r v X -> mget r (TM (japply_level X acc)) = Some v.
Proof.
  induction r as [|k r' IH]; intros v X acc C; cbn [carries] in C; [contradiction|].
  destruct C as [Hnd C]. cbn [mget]. rewrite aget_japply_level by assumption.
  destruct r' as [|k2 r2].
  - rewrite C. reflexivity.
  - destruct C as [s [A C]]. rewrite A, japply_PMap. apply IH. exact C.
Qed.

Lemma japply_harmless : forall r K acc w,
  r <> [] -> harmless r K -> mget r (TM acc) = Some w -> mget r (TM (japply_level K acc)) = Some w.
Proof.
  induction r as [|k r' IH]; intros K acc w Hr H M; [congruence|].
  cbn [harmless] in H. destruct H as [Hnd H]. cbn [mget] in M |- *.
  rewrite aget_japply_level by assumption.
  destruct (aget k K) as [[|t|s]|]; try contradiction; auto.
  destruct H as [Hne H].
  destruct (aget k acc) as [c|]; [|discriminate].
  rewrite japply_PMap.
  destruct r' as [|k2 r2]; [congruence|].
  destruct c as [s0|m|a|m]; cbn [mget] in M; try discriminate.
  cbn [kidsM]. apply IH; auto; discriminate.
Qed.

(* ------------------------------------------------------------------ *)
(* the three things the difference can say about a member of the target *)

Lemma entry_cases a k c :
  (entry a k c = None /\
     exists av, aget k a = Some av /\
       ((exists am cm, av = TM am /\ c = TM cm /\ jdiff am cm = []) \/
        (nonmap c = true /\ teqv av c = true)))
  \/ (entry a k c = Some (embed c) /\
        (aget k a = None \/ exists av, aget k a = Some av /\ (nonmap av = true \/ nonmap c = true)))
  \/ (exists am cm p0 d, aget k a = Some (TM am) /\ c = TM cm /\ jdiff am cm = p0 :: d /\
                         entry a k c = Some (PMap (p0 :: d))).
Proof.
  unfold entry. destruct (aget k a) as [av|]; [|right; left; auto].
  destruct av as [s|am|l|ak], c as [s'|cm|l'|ck].
  6: { destruct (jdiff am cm) as [|p0 d] eqn:D.
       - left. split; [reflexivity|]. eexists. split; [reflexivity|]. left. eauto.
       - right. right. exists am, cm, p0, d. auto. }
  all: destruct (teqv _ _) eqn:T;
    [ first [ cbn [teqv] in T; discriminate T
            | left; split; [reflexivity|]; eexists; split; [reflexivity|]; right; split; [reflexivity|exact T] ]
    | right; left; split; [reflexivity|]; right; eexists; split; [reflexivity|]; cbn [nonmap]; auto ].
Qed.

Lemma mget_step k r tm v :
  mget (k :: r) (TM tm) = Some v -> exists c, aget k tm = Some c /\ mget r c = Some v.
Proof. cbn [mget]. destruct (aget k tm) as [c|]; [eauto|discriminate]. Qed.

Lemma mget_into_map r c v : mget r c = Some v -> nonmap v = true -> r <> [] -> exists cm, c = TM cm.
Proof.
  destruct r as [|k r]; [congruence|]. intros H _ _.
  destruct c as [s|cm|a|m]; cbn [mget] in H; try discriminate. eauto.
Qed.

(* ------------------------------------------------------------------ *)
(* a document added whole: the additions carry it, the deletions avoid it *)

Lemma dn_emb_carries : forall r cm v,
  wf_tree (TM cm) = true -> mget r (TM cm) = Some v -> nonmap v = true ->
  carries r v (drop_nulls (emb_level cm)).
Proof.
  induction r as [|k r IH]; intros cm v Hwf H N.
  - cbn [mget] in H. inversion H; subst v. discriminate.
  - destruct (wf_TM_inv cm Hwf) as [Hnd Hkids].
    destruct (mget_step k r cm v H) as [c [A M]].
    cbn [carries]. split.
    { apply drop_nulls_nodup. now rewrite akeys_emb_level. }
    assert (G : aget k (drop_nulls (emb_level cm)) = dn1 (embed c)).
    { rewrite aget_drop_nulls by (now rewrite akeys_emb_level). now rewrite aget_emb_level, A. }
    rewrite G. destruct r as [|k2 r2].
    + cbn [mget] in M. inversion M; subst c. now rewrite (embed_nonmap v N).
    + destruct (mget_into_map (k2 :: r2) c v M N) as [cm1 ->]; [discriminate|].
      pose proof (IH cm1 v (Hkids k _ A) M N) as C.
      rewrite embed_TM. cbn [dn1].
      destruct (emb_level cm1) as [|p0 l] eqn:E.
      * exfalso. apply (carries_nonempty _ _ _ C). reflexivity.
      * destruct (drop_nulls (p0 :: l)) as [|q0 l'] eqn:D.
        -- exfalso. apply (carries_nonempty _ _ _ C). reflexivity.
        -- eauto.
Qed.

Lemma kn_emb_harmless : forall r cm v,
  wf_tree (TM cm) = true -> mget r (TM cm) = Some v -> nonmap v = true ->
  harmless r (keep_nulls (emb_level cm)).
Proof.
  induction r as [|k r IH]; intros cm v Hwf H N; [exact I|].
  destruct (wf_TM_inv cm Hwf) as [Hnd Hkids].
  destruct (mget_step k r cm v H) as [c [A M]].
  cbn [harmless]. split.
  { apply keep_nulls_nodup. now rewrite akeys_emb_level. }
  rewrite aget_keep_nulls by (now rewrite akeys_emb_level). rewrite aget_emb_level, A.
  destruct r as [|k2 r2].
  - cbn [mget] in M. inversion M; subst c. now rewrite (embed_nonmap v N).
  - destruct (mget_into_map (k2 :: r2) c v M N) as [cm1 ->]; [discriminate|].
    rewrite embed_TM. cbn [kn1].
    pose proof (IH cm1 v (Hkids k _ A) M N) as Hh.
    destruct (keep_nulls (emb_level cm1)); [exact I|]. split; [discriminate|exact Hh].
Qed.

Lemma kn_harmless : forall r am bm v,
  wf_tree (TM am) = true -> wf_tree (TM bm) = true ->
  mget r (TM bm) = Some v -> nonmap v = true ->
  harmless r (keep_nulls (jdiff am bm)).
Proof.
  induction r as [|k r IH]; intros am bm v Ha Hb H N; [exact I|].
  destruct (wf_TM_inv am Ha) as [Hna Hka]. destruct (wf_TM_inv bm Hb) as [Hnb Hkb].
  destruct (mget_step k r bm v H) as [c [B M]].
  cbn [harmless]. split.
  { apply keep_nulls_nodup. now apply jdiff_nodup. }
  rewrite aget_keep_nulls by (now apply jdiff_nodup). rewrite aget_jdiff, B by assumption.
  destruct (entry_cases am k c) as [[E _]|[[E _]|[am1 [cm1 [p0 [d [A [-> [D E]]]]]]]]]; rewrite E.
  - exact I.
  - destruct r as [|k2 r2].
    + cbn [mget] in M. inversion M; subst c. now rewrite (embed_nonmap v N).
    + destruct (mget_into_map (k2 :: r2) c v M N) as [cm1 ->]; [discriminate|].
      rewrite embed_TM. cbn [kn1].
      pose proof (kn_emb_harmless (k2 :: r2) cm1 v (Hkb k _ B) M N) as Hh.
      destruct (keep_nulls (emb_level cm1)); [exact I|]. split; [discriminate|exact Hh].
  - cbn [kn1]. rewrite <- D.
    pose proof (IH am1 cm1 v (Hka k _ A) (Hkb k _ B) M N) as Hh.
    destruct (keep_nulls (jdiff am1 cm1)); [exact I|]. split; [|exact Hh].
    intros ->. cbn [mget] in M. inversion M; subst v. discriminate.
Qed.

Lemma pm_carries : forall r v K D,
  harmless r K -> carries r v D -> carries r v (pmerge K D).
Proof.
  induction r as [|k r IH]; intros v K D Hh C; [contradiction|].
  cbn [harmless] in Hh. destruct Hh as [HnK Hh]. cbn [carries] in C |- *. destruct C as [HnD C].
  split; [rewrite pmerge_eq; now apply pm_level_nodup|].
  rewrite aget_pmerge by assumption.
  destruct r as [|k2 r2].
  - rewrite C. reflexivity.
  - destruct C as [s [A C]]. rewrite A. cbn [pm1].
    destruct (aget k K) as [[|t|dm]|]; try contradiction.
    + destruct Hh as [_ Hh]. eexists. split; [reflexivity|]. now apply IH.
    + eauto.
Qed.

(* ------------------------------------------------------------------ *)
(* no addition at a member: the live object already agrees there        *)

Lemma dn_nil_same : forall r lm tm v,
  wf_tree (TM lm) = true -> wf_tree (TM tm) = true ->
  mget r (TM tm) = Some v -> nonmap v = true ->
  match r with [] => True | k :: _ => aget k (drop_nulls (jdiff lm tm)) = None end ->
  exists v', mget r (TM lm) = Some v' /\ teqv v' v = true.
Proof.
  induction r as [|k r IH]; intros lm tm v Hl Ht H N Hnone.
  - cbn [mget] in H. inversion H; subst v. discriminate.
  - destruct (wf_TM_inv lm Hl) as [Hnl Hkl]. destruct (wf_TM_inv tm Ht) as [Hnt Hkt].
    destruct (mget_step k r tm v H) as [c [B M]].
    rewrite aget_drop_nulls in Hnone by (now apply jdiff_nodup).
    rewrite aget_jdiff, B in Hnone by assumption.
    assert (Hembed : dn1 (embed c) <> None).
    { destruct r as [|k2 r2].
      - cbn [mget] in M. inversion M; subst c. rewrite (embed_nonmap v N). discriminate.
      - destruct (mget_into_map (k2 :: r2) c v M N) as [cm1 ->]; [discriminate|].
        pose proof (dn_emb_carries (k2 :: r2) cm1 v (Hkt k _ B) M N) as C.
        rewrite embed_TM. cbn [dn1].
        destruct (emb_level cm1) as [|p0 l]; [discriminate|].
        destruct (drop_nulls (p0 :: l)) eqn:D; [|discriminate].
        exfalso. apply (carries_nonempty _ _ _ C). reflexivity. }
    destruct (entry_cases lm k c) as [[E [lv [L Hc]]]|[[E _]|[lm1 [cm1 [p0 [d [L [-> [D E]]]]]]]]]; rewrite E in Hnone.
    + destruct Hc as [[lm1 [cm1 [-> [-> D]]]]|[Nc T]].
      * destruct r as [|k2 r2].
        { cbn [mget] in M. inversion M; subst v. discriminate. }
        destruct (IH lm1 cm1 v (Hkl k _ L) (Hkt k _ B) M N) as [v' [M' T']].
        { rewrite D. reflexivity. }
        exists v'. split; auto. cbn [mget]. now rewrite L.
      * destruct (mget_nonmap_nil r c v M Nc) as [-> ->].
        exists lv. split; auto. cbn [mget]. now rewrite L.
    + contradiction.
    + cbn [dn1] in Hnone.
      destruct (drop_nulls (p0 :: d)) as [|q0 l'] eqn:DN; [|discriminate].
      destruct r as [|k2 r2].
      { cbn [mget] in M. inversion M; subst v. discriminate. }
      destruct (IH lm1 cm1 v (Hkl k _ L) (Hkt k _ B) M N) as [v' [M' T']].
      { rewrite D, DN. reflexivity. }
      exists v'. split; auto. cbn [mget]. now rewrite L.
Qed.

(* ------------------------------------------------------------------ *)
(* the three-way patch: every specified member path is right            *)

Lemma j3_level_spec : forall r tm lm K v,
  wf_tree (TM tm) = true -> wf_tree (TM lm) = true ->
  mget r (TM tm) = Some v -> nonmap v = true ->
  harmless r K ->
  exists v', mget r (TM (japply_level (pmerge K (drop_nulls (jdiff lm tm))) lm)) = Some v' /\
             (v' = v \/ teqv v' v = true).
Proof.
  induction r as [|k r IH]; intros tm lm K v Ht Hl H N Hh.
  - cbn [mget] in H. inversion H; subst v. discriminate.
  - destruct (wf_TM_inv lm Hl) as [Hnl Hkl]. destruct (wf_TM_inv tm Ht) as [Hnt Hkt].
    destruct (mget_step k r tm v H) as [c [B M]].
    pose proof Hh as Hh0. cbn [harmless] in Hh. destruct Hh as [HnK Hk].
    assert (HnD : NoDup (akeys (drop_nulls (jdiff lm tm)))) by (apply drop_nulls_nodup; now apply jdiff_nodup).
    assert (HnP : NoDup (akeys (pmerge K (drop_nulls (jdiff lm tm))))) by (rewrite pmerge_eq; now apply pm_level_nodup).
    cbn [mget]. rewrite aget_japply_level by assumption. rewrite aget_pmerge by assumption.
    destruct (aget k (drop_nulls (jdiff lm tm))) as [dv|] eqn:DV.
    + (* the additions say something about k *)
      pose proof DV as DV0.
      rewrite aget_drop_nulls in DV by (now apply jdiff_nodup).
      rewrite aget_jdiff, B in DV by assumption.
      destruct (entry_cases lm k c) as [[E _]|[[E _]|[lm1 [cm1 [p0 [d [L [-> [D E]]]]]]]]]; rewrite E in DV.
      * discriminate.
      * (* the target's value, whole *)
        destruct r as [|k2 r2].
        -- cbn [mget] in M. inversion M; subst c. rewrite (embed_nonmap v N) in DV. cbn [dn1] in DV.
           inversion DV; subst dv. cbn [pm1 japply]. exists v. auto.
        -- destruct (mget_into_map (k2 :: r2) c v M N) as [cm1 ->]; [discriminate|].
           pose proof (dn_emb_carries (k2 :: r2) cm1 v (Hkt k _ B) M N) as C.
           rewrite embed_TM in DV. cbn [dn1] in DV.
           assert (Hdv : exists s, dv = PMap s /\ carries (k2 :: r2) v s).
           { destruct (emb_level cm1) as [|q0 l] eqn:EL.
             - exfalso. apply (carries_nonempty _ _ _ C). reflexivity.
             - destruct (drop_nulls (q0 :: l)) as [|q1 l'] eqn:DN.
               + exfalso. apply (carries_nonempty _ _ _ C). reflexivity.
               + inversion DV. eauto. }
           destruct Hdv as [s [-> Cs]]. cbn [pm1].
           destruct (aget k K) as [[|t|dm]|]; try contradiction.
           ++ destruct Hk as [_ Hk]. rewrite japply_PMap. exists v. split; auto.
              apply japply_carries. now apply pm_carries.
           ++ rewrite japply_PMap. exists v. split; auto. now apply japply_carries.
      * (* both maps, a difference below *)
        cbn [dn1] in DV.
        destruct (drop_nulls (p0 :: d)) as [|q0 l'] eqn:DN; [discriminate|].
        inversion DV; subst dv. cbn [pm1].
        destruct r as [|k2 r2].
        { cbn [mget] in M. inversion M; subst v. discriminate. }
        rewrite <- DN, <- D.
        destruct (aget k K) as [[|t|dm]|]; try contradiction.
        -- destruct Hk as [_ Hk]. rewrite japply_PMap, L. cbn [kidsM].
           exact (IH cm1 lm1 dm v (Hkt k _ B) (Hkl k _ L) M N Hk).
        -- rewrite japply_PMap, L. cbn [kidsM].
           destruct (IH cm1 lm1 [] v (Hkt k _ B) (Hkl k _ L) M N (harmless_nil _)) as [v' [M' T']].
           rewrite pmerge_nil in M'.
           ++ eauto.
           ++ apply drop_nulls_nodup. apply jdiff_nodup.
              ** exact (proj1 (wf_TM_inv lm1 (Hkl k _ L))).
              ** exact (proj1 (wf_TM_inv cm1 (Hkt k _ B))).
           ++ intros k0. apply drop_nulls_no_null.
    + (* no addition at k: the live object already agrees; the deletions leave the path alone *)
      destruct (dn_nil_same (k :: r) lm tm v Hl Ht H N DV) as [v' [M' T']].
      destruct (aget k K) as [[|t|s]|] eqn:AK; try contradiction.
      * destruct Hk as [Hne Hk]. rewrite japply_PMap.
        cbn [mget] in M'. destruct (aget k lm) as [lc|] eqn:L; [|discriminate].
        destruct r as [|k2 r2]; [congruence|].
        destruct lc as [s0|lm1|a|m]; cbn [mget] in M'; try discriminate.
        cbn [kidsM]. exists v'. split; auto.
        apply japply_harmless; auto.
      * cbn [mget] in M'. exists v'. split; auto.
Qed.

Theorem j3_specified : forall p om tm lm v,
  wf_tree (TM om) = true -> wf_tree (TM tm) = true -> wf_tree (TM lm) = true ->
  mget p (TM tm) = Some v -> nonmap v = true ->
  exists v', mget p (j3 (TM om) (TM tm) (TM lm)) = Some v' /\ (v' = v \/ teqv v' v = true).
Proof.
  intros p om tm lm v Ho Ht Hl H N. unfold j3, j3_patch. cbn [kidsM].
  apply j3_level_spec; auto. now apply (kn_harmless p om tm v).
Qed.

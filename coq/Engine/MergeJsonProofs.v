(* C02, round 4 — proofs about the TWO-WAY JSON merge patch kube.Client.Update sends for unstructured /
   custom kinds (Engine/Obj2.v: j2 = apply (jsonpatch.CreateMergePatch (old manifest, new manifest)) to live),
   for ALL (original, target, live) whose maps are maps (no member name twice):

     one level of the result, member by member (j2_level_get);
     a member path of the target whose value is not a map (scalar or list: what a JSON merge patch
       replaces as a whole) holds the target's value in the result PROVIDED the target changed it with
       respect to the original, or the live object already held it (j2_specified);
     the exception is real: a value both manifests agree on and the live object lost is not restored
       (Engine/MergeExamples.v, j2_unchanged_drift_refuted) — known finding K8-C02;
     members only the live object has are kept, members the target dropped are removed, along paths on
       which all three are maps (j2_foreign, j2_dropped).

   JSON paths go through maps only: lists are values ([mget]). *)
From Coq Require Import List String Bool Arith Lia.
From Helm Require Import Common.Assoc Engine.Obj2 Engine.Merge3Proofs.
Import ListNotations.

(* ------------------------------------------------------------------ *)
(* member paths                                                         *)

Fixpoint mget (p : list string) (t : tree) : option tree :=
  match p with
  | [] => Some t
  | k :: r => match t with
              | TM m => match aget k m with Some c => mget r c | None => None end
              | _ => None
              end
  end.

Definition nonmap (t : tree) : bool := match t with TM _ => false | _ => true end.

Lemma mget_tget p t v : mget p t = Some v -> tget p t = Some v.
Proof.
  revert t. induction p as [|k r IH]; intros t H; [exact H|].
  destruct t as [s|m|a|m]; cbn [mget tget] in *; try discriminate.
  destruct (aget k m); [auto|discriminate].
Qed.

Lemma mget_nonmap_nil r c v : mget r c = Some v -> nonmap c = true -> r = [] /\ v = c.
Proof.
  destruct r as [|k r]; cbn [mget]; intros H N.
  - inversion H. auto.
  - destruct c; cbn [nonmap] in N; discriminate.
Qed.

(* the original gives the member path the same value (as DeepEqual sees it) *)
Definition same_at (p : list string) (o v : tree) : bool :=
  match mget p o with Some ov => teqv ov v | None => false end.

(* ------------------------------------------------------------------ *)
(* well-formed maps                                                     *)

Lemma nodupb_NoDup l : nodupb l = true -> NoDup l.
Proof.
  induction l as [|x t IH]; simpl; intros H; constructor.
  - apply andb_true_iff in H. destruct H as [H _]. apply negb_true_iff in H.
    intros Hin. assert (existsb (String.eqb x) t = true); [|congruence].
    apply existsb_exists. exists x. split; auto. apply String.eqb_refl.
  - apply IH. apply andb_true_iff in H. tauto.
Qed.

Fixpoint wf_kids (x : list (string * tree)) : bool :=
  match x with [] => true | (_, v) :: s => wf_tree v && wf_kids s end.

Lemma wf_TM m : wf_tree (TM m) = nodupb (map fst m) && wf_kids m.
Proof.
  reflexivity.
Qed.

Lemma wf_kids_get k m c : wf_kids m = true -> aget k m = Some c -> wf_tree c = true.
Proof.
  induction m as [|[k' v] r IH]; cbn [wf_kids aget]; [discriminate|].
  intros H. apply andb_true_iff in H. destruct H as [Hv Hr].
  destruct (String.eqb k k'); intros A; [inversion A; now subst|auto].
Qed.

Lemma wf_TM_inv m : wf_tree (TM m) = true ->
  NoDup (akeys m) /\ (forall k c, aget k m = Some c -> wf_tree c = true).
Proof.
  rewrite wf_TM. intros H. apply andb_true_iff in H. destruct H as [Hn Hk]. split.
  - now apply nodupb_NoDup.
  - intros k c. now apply wf_kids_get.
Qed.

(* ------------------------------------------------------------------ *)
(* lists of keys                                                        *)

Lemma NoDup_app_intro {A} (l l' : list A) :
  NoDup l -> NoDup l' -> (forall x, In x l -> ~ In x l') -> NoDup (l ++ l').
Proof.
  induction l as [|a t IH]; simpl; intros H1 H2 H; auto.
  inversion H1; subst. constructor.
  - rewrite in_app_iff. intros [X|X]; [contradiction|]. apply (H a); auto.
  - apply IH; auto.
Qed.

Lemma NoDup_filter {A} (P : A -> bool) l : NoDup l -> NoDup (filter P l).
Proof.
  induction l as [|a t IH]; simpl; intros H; auto. inversion H; subst.
  destruct (P a); auto. constructor; auto. intros X. apply filter_In in X. tauto.
Qed.

Lemma aget_notin {V} k (l : list (string * V)) : ~ In k (akeys l) -> aget k l = None.
Proof.
  intros H. destruct (aget k l) eqn:E; auto. exfalso. apply H.
  apply aget_In in E. unfold akeys. change k with (fst (k, v)). now apply in_map.
Qed.

(* ------------------------------------------------------------------ *)
(* embed                                                                *)

Fixpoint emb_level (x : list (string * tree)) : list (string * ptree) :=
  match x with [] => [] | (k, v) :: r => (k, embed v) :: emb_level r end.

Lemma embed_TM m : embed (TM m) = PMap (emb_level m).
Proof.
  reflexivity.
Qed.

Lemma embed_nonmap t : nonmap t = true -> embed t = PLeaf t.
Proof. destruct t; cbn [nonmap embed]; auto. discriminate. Qed.

Lemma akeys_emb_level m : akeys (emb_level m) = akeys m.
Proof. unfold akeys. induction m as [|[k v] r IH]; [reflexivity|]. cbn [emb_level map fst]. now rewrite IH. Qed.

Lemma aget_emb_level k m : aget k (emb_level m) = match aget k m with Some c => Some (embed c) | None => None end.
Proof.
  induction m as [|[k' v] r IH]; [reflexivity|]. cbn [emb_level aget]. destruct (String.eqb k k'); auto.
Qed.

(* ------------------------------------------------------------------ *)
(* the difference, one level                                            *)

(* what the patch says about member k of the target, whose value is bv *)
Definition entry (a : list (string * tree)) (k : string) (bv : tree) : option ptree :=
  match aget k a with
  | None => Some (embed bv)
  | Some av =>
      match av, bv with
      | TM am, TM bm => match jdiff am bm with [] => None | d => Some (PMap d) end
      | _, _ => if teqv av bv then None else Some (embed bv)
      end
  end.

Fixpoint jd_level (a : list (string * tree)) (x : list (string * tree)) : list (string * ptree) :=
  match x with
  | [] => []
  | (k, bv) :: r => match entry a k bv with
                    | Some pv => (k, pv) :: jd_level a r
                    | None => jd_level a r
                    end
  end.

Lemma jdiff_unfold a b :
  jdiff a b = jd_level a b ++ map (fun kv => (fst kv, PNull)) (filter (fun kv => negb (amem (fst kv) b)) a).
Proof.
  unfold jdiff. cbn [jdiffT]. f_equal.
  induction b as [|[k bv] r IH]; [reflexivity|].
  cbn [jd_level]. unfold entry.
  destruct (aget k a) as [av|]; [|rewrite IH; reflexivity].
  destruct av as [s|am|l|ak], bv as [s'|bm|l'|bk];
    try (destruct (teqv _ _); rewrite IH; reflexivity).
  unfold jdiff. destruct (jdiffT am (TM bm)); rewrite IH; reflexivity.
Qed.

Lemma jd_level_keys a x k : In k (akeys (jd_level a x)) -> In k (akeys x).
Proof.
  unfold akeys. induction x as [|[k' bv] r IH]; cbn [jd_level]; auto.
  destruct (entry a k' bv); cbn [map fst]; intros H.
  - destruct H as [H|H]; [now left|right; auto].
  - right. auto.
Qed.

Lemma jd_level_nodup a x : NoDup (akeys x) -> NoDup (akeys (jd_level a x)).
Proof.
  unfold akeys. induction x as [|[k' bv] r IH]; cbn [jd_level map fst]; intros H; [constructor|].
  inversion H; subst. destruct (entry a k' bv); cbn [map fst]; auto.
  constructor; auto. intros X. apply jd_level_keys in X. contradiction.
Qed.

Lemma aget_jd_level a x k :
  NoDup (akeys x) ->
  aget k (jd_level a x) = match aget k x with Some bv => entry a k bv | None => None end.
Proof.
  unfold akeys. induction x as [|[k' bv] r IH]; cbn [jd_level map fst aget]; intros H; [reflexivity|].
  inversion H as [|? ? Hni Hnd]; subst.
  destruct (String.eqb k k') eqn:E.
  - apply String.eqb_eq in E. subst k'.
    destruct (entry a k bv) eqn:En; cbn [aget]; [now rewrite String.eqb_refl|].
    apply aget_notin. intros X. apply jd_level_keys in X. contradiction.
  - destruct (entry a k' bv); cbn [aget]; rewrite ?E; auto.
Qed.

Lemma aget_dels (a b : list (string * tree)) k :
  aget k (map (fun kv : string * tree => (fst kv, PNull)) (filter (fun kv => negb (amem (fst kv) b)) a))
  = if amem k b then None else if amem k a then Some PNull else None.
Proof.
  rewrite (aget_map_key (fun _ => PNull) k).
  rewrite (aget_filter_key (fun x => negb (amem x b)) k a).
  destruct (amem k b); cbn [negb]; auto.
  unfold amem. destruct (aget k a); auto.
Qed.

Theorem aget_jdiff a b k :
  NoDup (akeys b) ->
  aget k (jdiff a b) = match aget k b with
                       | Some bv => entry a k bv
                       | None => if amem k a then Some PNull else None
                       end.
Proof.
  intros Hb. rewrite jdiff_unfold, aget_app, aget_jd_level, aget_dels by assumption.
  unfold amem at 1. destruct (aget k b) as [bv|]; auto.
  now destruct (entry a k bv).
Qed.

Lemma jdiff_nodup a b : NoDup (akeys a) -> NoDup (akeys b) -> NoDup (akeys (jdiff a b)).
Proof.
  intros Ha Hb. rewrite jdiff_unfold. unfold akeys. rewrite map_app. apply NoDup_app_intro.
  - now apply jd_level_nodup.
  - rewrite map_map. cbn [fst].
    change (NoDup (akeys (filter (fun kv => negb (amem (fst kv) b)) a))).
    rewrite (akeys_filter_key (fun x => negb (amem x b)) a). now apply NoDup_filter.
  - intros x Hx Hd. apply jd_level_keys in Hx.
    rewrite map_map in Hd. cbn [fst] in Hd.
    change (In x (akeys (filter (fun kv => negb (amem (fst kv) b)) a))) in Hd.
    rewrite (akeys_filter_key (fun y => negb (amem y b)) a) in Hd.
    apply filter_In in Hd. destruct Hd as [_ Hd]. apply negb_true_iff in Hd.
    rewrite (amem_of_key x b Hx) in Hd. discriminate.
Qed.

(* ------------------------------------------------------------------ *)
(* applying a patch, one level                                          *)

Lemma japply_PMap cur pm :
  japply cur (PMap pm) = Some (TM (japply_level pm (kidsM cur))).
Proof.
  destruct cur as [[s|m|a|m]|]; reflexivity.
Qed.

Theorem aget_japply_level : forall p acc k,
  NoDup (akeys p) ->
  aget k (japply_level p acc) = match aget k p with
                                | Some pv => japply (aget k acc) pv
                                | None => aget k acc
                                end.
Proof.
  unfold akeys. induction p as [|[k' pv] r IH]; intros acc k H; [reflexivity|].
  cbn [map fst] in H. inversion H as [|? ? Hni Hnd]; subst.
  cbn [japply_level aget]. rewrite IH by assumption.
  destruct (String.eqb k k') eqn:E.
  - apply String.eqb_eq in E. subst k'.
    rewrite (aget_notin k r Hni).
    destruct (japply (aget k acc) pv); [apply aget_aset_eq|apply aget_adel_eq].
  - assert (k' <> k) by (intros X; subst; rewrite String.eqb_refl in E; discriminate).
    assert (A : aget k (match japply (aget k' acc) pv with
                        | Some v => aset k' v acc
                        | None => adel k' acc
                        end) = aget k acc).
    { destruct (japply (aget k' acc) pv); [now apply aget_aset_neq|now apply aget_adel_neq]. }
    now rewrite A.
Qed.

(* one level of the object after the two-way patch, member by member *)
Theorem j2_level_get a b lm k :
  NoDup (akeys a) -> NoDup (akeys b) ->
  aget k (japply_level (jdiff a b) lm) =
    match aget k b with
    | Some bv => match entry a k bv with
                 | Some pv => japply (aget k lm) pv
                 | None => aget k lm            (* both manifests agree: the live member is left alone *)
                 end
    | None => if amem k a then None else aget k lm
    end.
Proof.
  intros Ha Hb. rewrite aget_japply_level by (now apply jdiff_nodup).
  rewrite aget_jdiff by assumption.
  destruct (aget k b) as [bv|]; auto.
  destruct (amem k a); reflexivity.
Qed.

(* ------------------------------------------------------------------ *)
(* a document applied as a patch lands whole                            *)

Lemma japply_embed_get : forall r c cur v,
  wf_tree c = true -> mget r c = Some v -> nonmap v = true ->
  exists x, japply cur (embed c) = Some x /\ mget r x = Some v.
Proof.
  induction r as [|k r IH]; intros c cur v Hwf H N.
  - cbn [mget] in H. inversion H; subst v. rewrite (embed_nonmap c N). cbn [japply]. eauto.
  - destruct c as [s|m|a|m]; cbn [mget] in H; try discriminate.
    destruct (aget k m) as [cc|] eqn:A; [|discriminate].
    destruct (wf_TM_inv m Hwf) as [Hnd Hkids].
    rewrite embed_TM, japply_PMap.
    destruct (IH cc (aget k (kidsM cur)) v (Hkids k cc A) H N) as [x [Hx Hm]].
    eexists. split; [reflexivity|]. cbn [mget].
    rewrite aget_japply_level by (rewrite akeys_emb_level; exact Hnd).
    rewrite aget_emb_level, A, Hx. exact Hm.
Qed.

(* ------------------------------------------------------------------ *)
(* an empty difference: the original already says what the target says  *)

Lemma jdiff_nil_same : forall r am bm v,
  wf_tree (TM am) = true -> wf_tree (TM bm) = true ->
  jdiff am bm = [] -> mget r (TM bm) = Some v -> nonmap v = true ->
  same_at r (TM am) v = true.
Proof.
  induction r as [|k r IH]; intros am bm v Ha Hb D H N.
  - cbn [mget] in H. inversion H; subst v. discriminate.
  - cbn [mget] in H. destruct (aget k bm) as [c|] eqn:B; [|discriminate].
    destruct (wf_TM_inv am Ha) as [Hna Hka]. destruct (wf_TM_inv bm Hb) as [Hnb Hkb].
    pose proof (aget_jdiff am bm k Hnb) as G. rewrite D, B in G. cbn [aget] in G.
    unfold entry in G. unfold same_at. cbn [mget].
    destruct (aget k am) as [av|] eqn:A; [|discriminate].
    destruct c as [s'|bm'|l'|bk].
    2: { destruct av as [s|am'|l|ak]; try (cbn [teqv] in G; discriminate).
         destruct (jdiff am' bm') eqn:D'; [|discriminate].
         exact (IH am' bm' v (Hka k _ A) (Hkb k _ B) D' H N). }
    all: destruct (mget_nonmap_nil r _ v H eq_refl) as [-> ->]; cbn [mget];
      destruct av as [s|am'|l|ak];
      match type of G with None = (if ?c then _ else _) => destruct c eqn:T; [reflexivity|discriminate] end.
Qed.

(* ------------------------------------------------------------------ *)
(* what the target specifies                                            *)

(* the two values are not both maps: the patch carries the target's value unless DeepEqual *)
Lemma j2_leaf_case k r am av c lm v :
  aget k am = Some av ->
  (forall am' bm', ~ (av = TM am' /\ c = TM bm')) ->
  wf_tree c = true -> mget r c = Some v -> nonmap v = true ->
  (same_at (k :: r) (TM am) v = false \/ mget (k :: r) (TM lm) = Some v) ->
  match match (if teqv av c then None else Some (embed c)) with
        | Some pv => japply (aget k lm) pv
        | None => aget k lm
        end with
  | Some x => mget r x
  | None => None
  end = Some v.
Proof.
  intros A Hnot Hwf H N Hyp.
  destruct (teqv av c) eqn:T.
  - (* unchanged: then c is not a map (a map equals only a map), the path ends here, and the live
       object must already hold the value *)
    assert (Nc : nonmap c = true).
    { destruct c as [s'|bm'|l'|bk]; auto. destruct av as [s|am'|l|ak]; cbn [teqv] in T; try discriminate.
      exfalso. apply (Hnot am' bm'). auto. }
    destruct (mget_nonmap_nil r c v H Nc) as [-> ->].
    destruct Hyp as [Hyp|Hyp].
    + unfold same_at in Hyp. cbn [mget] in Hyp. rewrite A in Hyp. congruence.
    + cbn [mget] in Hyp. destruct (aget k lm) as [lc|]; [|discriminate]. exact Hyp.
  - destruct (japply_embed_get r c (aget k lm) v Hwf H N) as [x [Hx Hm]].
    now rewrite Hx.
Qed.

Lemma j2_level_spec : forall r am bm lm v,
  wf_tree (TM am) = true -> wf_tree (TM bm) = true ->
  mget r (TM bm) = Some v -> nonmap v = true ->
  (same_at r (TM am) v = false \/ mget r (TM lm) = Some v) ->
  mget r (TM (japply_level (jdiff am bm) lm)) = Some v.
Proof.
  induction r as [|k r IH]; intros am bm lm v Ha Hb H N Hyp.
  - cbn [mget] in H. inversion H; subst v. discriminate.
  - destruct (wf_TM_inv am Ha) as [Hna Hka]. destruct (wf_TM_inv bm Hb) as [Hnb Hkb].
    cbn [mget] in H |- *. destruct (aget k bm) as [c|] eqn:B; [|discriminate].
    rewrite j2_level_get, B by assumption. unfold entry.
    destruct (aget k am) as [av|] eqn:A.
    + assert (Hsame : same_at (k :: r) (TM am) v = same_at r av v).
      { unfold same_at. cbn [mget]. now rewrite A. }
      assert (Hleaf : (forall am' bm', ~ (av = TM am' /\ c = TM bm')) ->
                match match (if teqv av c then None else Some (embed c)) with
                      | Some pv => japply (aget k lm) pv
                      | None => aget k lm
                      end with
                | Some x => mget r x
                | None => None
                end = Some v).
      { intros Hnot. exact (j2_leaf_case k r am av c lm v A Hnot (Hkb k _ B) H N Hyp). }
      destruct av as [s|am'|l|ak].
      2: destruct c as [s'|bm'|l'|bk].
      3: { (* both maps *)
        destruct (jdiff am' bm') as [|d0 d] eqn:D.
        * destruct Hyp as [Hyp|Hyp].
          -- rewrite Hsame in Hyp.
             rewrite (jdiff_nil_same r am' bm' v (Hka k _ A) (Hkb k _ B) D H N) in Hyp. discriminate.
          -- cbn [mget] in Hyp. destruct (aget k lm) as [lc|]; [|discriminate]. exact Hyp.
        * rewrite <- D. rewrite japply_PMap.
          apply (IH am' bm' (kidsM (aget k lm)) v (Hka k _ A) (Hkb k _ B) H N).
          destruct Hyp as [Hyp|Hyp]; [left; now rewrite <- Hsame|right].
          cbn [mget] in Hyp. destruct (aget k lm) as [lc|]; [|discriminate].
          destruct r as [|k2 r2].
          { cbn [mget] in H. inversion H; subst v. discriminate. }
          destruct lc as [s|lm'|l|lk]; cbn [mget] in Hyp; try discriminate. exact Hyp. }
      all: try (destruct c; apply Hleaf; intros am0 bm0 [X Y]; discriminate);
           apply Hleaf; intros am0 bm0 [X Y]; discriminate.
    + destruct (japply_embed_get r c (aget k lm) v (Hkb k c B) H N) as [x [Hx Hm]].
      now rewrite Hx.
Qed.

Theorem j2_specified : forall p om tm lm v,
  wf_tree (TM om) = true -> wf_tree (TM tm) = true ->
  mget p (TM tm) = Some v -> nonmap v = true ->
  (same_at p (TM om) v = false \/ mget p (TM lm) = Some v) ->
  mget p (j2 (TM om) (TM tm) (TM lm)) = Some v.
Proof. intros. unfold j2. cbn [kidsM]. now apply j2_level_spec. Qed.

(* ------------------------------------------------------------------ *)
(* foreign and dropped members, along paths on which all three are maps *)

Fixpoint maps3 (q : list string) (o t l : tree) : Prop :=
  match o, t, l with
  | TM om, TM tm, TM lm =>
      match q with
      | [] => True
      | k :: r => match aget k om, aget k tm, aget k lm with
                  | Some oc, Some c, Some lc => maps3 r oc c lc
                  | _, _, _ => False
                  end
      end
  | _, _, _ => False
  end.

Lemma j2_level_foreign : forall q am bm lm k r,
  wf_tree (TM am) = true -> wf_tree (TM bm) = true ->
  maps3 q (TM am) (TM bm) (TM lm) ->
  mget (q ++ [k]) (TM bm) = None -> mget (q ++ [k]) (TM am) = None ->
  mget (q ++ k :: r) (TM (japply_level (jdiff am bm) lm)) = mget (q ++ k :: r) (TM lm).
Proof.
  induction q as [|k0 q IH]; intros am bm lm k r Ha Hb M Ht Ho;
    destruct (wf_TM_inv am Ha) as [Hna Hka]; destruct (wf_TM_inv bm Hb) as [Hnb Hkb].
  - cbn [app mget] in *. rewrite j2_level_get by assumption.
    destruct (aget k bm); [discriminate|].
    assert (amem k am = false) as ->; [|reflexivity].
    apply amem_false_iff2. destruct (aget k am); [discriminate|reflexivity].
  - cbn [app mget maps3] in *.
    destruct (aget k0 am) as [oc|] eqn:A; [|contradiction].
    destruct (aget k0 bm) as [c|] eqn:B; [|contradiction].
    destruct (aget k0 lm) as [lc|] eqn:L; [|contradiction].
    destruct oc as [s|am'|l|ak]; try (destruct q; cbn [maps3] in M; contradiction).
    destruct c as [s|bm'|l|bk]; try (destruct q; cbn [maps3] in M; contradiction).
    destruct lc as [s|lm'|l|lk]; try (destruct q; cbn [maps3] in M; contradiction).
    rewrite j2_level_get, B by assumption. unfold entry. rewrite A.
    destruct (jdiff am' bm') as [|d0 d] eqn:D.
    + now rewrite L.
    + rewrite <- D, japply_PMap, L. cbn [kidsM].
      apply IH; auto; [exact (Hka k0 _ A)|exact (Hkb k0 _ B)].
Qed.

Theorem j2_foreign : forall q om tm lm k r,
  wf_tree (TM om) = true -> wf_tree (TM tm) = true ->
  maps3 q (TM om) (TM tm) (TM lm) ->
  mget (q ++ [k]) (TM tm) = None -> mget (q ++ [k]) (TM om) = None ->
  mget (q ++ k :: r) (j2 (TM om) (TM tm) (TM lm)) = mget (q ++ k :: r) (TM lm).
Proof. intros. unfold j2. cbn [kidsM]. now apply j2_level_foreign. Qed.

(* an empty difference drops nothing *)
Lemma jdiff_nil_keeps : forall q am bm k,
  wf_tree (TM am) = true -> wf_tree (TM bm) = true ->
  jdiff am bm = [] ->
  mget (q ++ [k]) (TM am) <> None ->
  (forall j, j < List.length q -> exists x y, mget (firstn (S j) q) (TM am) = Some (TM x) /\ mget (firstn (S j) q) (TM bm) = Some (TM y)) ->
  mget (q ++ [k]) (TM bm) <> None.
Proof.
  induction q as [|k0 q IH]; intros am bm k Ha Hb D Ho Hmaps;
    destruct (wf_TM_inv am Ha) as [Hna Hka]; destruct (wf_TM_inv bm Hb) as [Hnb Hkb].
  - cbn [app mget] in *.
    pose proof (aget_jdiff am bm k Hnb) as G. rewrite D in G. cbn [aget] in G.
    destruct (aget k bm); [discriminate|].
    destruct (aget k am) eqn:A; [|congruence].
    assert (amem k am = true) as X by (apply amem_true_iff2; congruence).
    rewrite X in G. discriminate.
  - cbn [app mget] in *.
    destruct (Hmaps 0 (Nat.lt_0_succ _)) as [x [y [Hx Hy]]]. cbn [firstn mget] in Hx, Hy.
    destruct (aget k0 am) as [oc|] eqn:A; [|discriminate].
    destruct (aget k0 bm) as [c|] eqn:B; [|discriminate].
    inversion Hx; subst oc. inversion Hy; subst c.
    pose proof (aget_jdiff am bm k0 Hnb) as G. rewrite D, B in G. cbn [aget] in G.
    unfold entry in G. rewrite A in G.
    destruct (jdiff x y) eqn:D'; [|discriminate].
    apply (IH x y k (Hka k0 _ A) (Hkb k0 _ B) D' Ho).
    intros j Hj. destruct (Hmaps (S j) (proj1 (Nat.succ_lt_mono _ _) Hj)) as [x' [y' [Hx' Hy']]].
    cbn [firstn mget] in Hx', Hy'. rewrite A in Hx'. rewrite B in Hy'. eauto.
Qed.

Lemma maps3_prefix : forall q om tm lm,
  maps3 q (TM om) (TM tm) (TM lm) ->
  forall j, j < List.length q ->
    exists x y, mget (firstn (S j) q) (TM om) = Some (TM x) /\ mget (firstn (S j) q) (TM tm) = Some (TM y).
Proof.
  induction q as [|k0 q IH]; intros om tm lm M j Hj; [cbn in Hj; lia|].
  cbn [maps3] in M.
  destruct (aget k0 om) as [oc|] eqn:A; [|contradiction].
  destruct (aget k0 tm) as [c|] eqn:B; [|contradiction].
  destruct (aget k0 lm) as [lc|] eqn:L; [|contradiction].
  destruct oc as [s|om'|l|ak]; try (destruct q; cbn [maps3] in M; contradiction).
  destruct c as [s|tm'|l|bk]; try (destruct q; cbn [maps3] in M; contradiction).
  destruct lc as [s|lm'|l|lk]; try (destruct q; cbn [maps3] in M; contradiction).
  destruct j as [|j].
  - cbn [firstn mget]. rewrite A, B. eauto.
  - cbn [List.length] in Hj. apply Nat.succ_lt_mono in Hj.
    destruct (IH om' tm' lm' M j Hj) as [x [y [Hx Hy]]].
    exists x, y. cbn [firstn mget]. cbn [firstn] in Hx, Hy. now rewrite A, B.
Qed.

Lemma j2_level_dropped : forall q am bm lm k r,
  wf_tree (TM am) = true -> wf_tree (TM bm) = true ->
  maps3 q (TM am) (TM bm) (TM lm) ->
  mget (q ++ [k]) (TM bm) = None -> mget (q ++ [k]) (TM am) <> None ->
  mget (q ++ k :: r) (TM (japply_level (jdiff am bm) lm)) = None.
Proof.
  induction q as [|k0 q IH]; intros am bm lm k r Ha Hb M Ht Ho;
    destruct (wf_TM_inv am Ha) as [Hna Hka]; destruct (wf_TM_inv bm Hb) as [Hnb Hkb].
  - cbn [app mget] in *. rewrite j2_level_get by assumption.
    destruct (aget k bm); [discriminate|].
    assert (amem k am = true) as ->; [|reflexivity].
    apply amem_true_iff2. destruct (aget k am); congruence.
  - cbn [app mget maps3] in *.
    destruct (aget k0 am) as [oc|] eqn:A; [|contradiction].
    destruct (aget k0 bm) as [c|] eqn:B; [|contradiction].
    destruct (aget k0 lm) as [lc|] eqn:L; [|contradiction].
    destruct oc as [s|am'|l|ak]; try (destruct q; cbn [maps3] in M; contradiction).
    destruct c as [s|bm'|l|bk]; try (destruct q; cbn [maps3] in M; contradiction).
    destruct lc as [s|lm'|l|lk]; try (destruct q; cbn [maps3] in M; contradiction).
    rewrite j2_level_get, B by assumption. unfold entry. rewrite A.
    destruct (jdiff am' bm') as [|d0 d] eqn:D.
    + exfalso.
      apply (jdiff_nil_keeps q am' bm' k (Hka k0 _ A) (Hkb k0 _ B) D Ho); auto.
      exact (maps3_prefix q am' bm' lm' M).
    + rewrite <- D, japply_PMap, L. cbn [kidsM].
      apply IH; auto; [exact (Hka k0 _ A)|exact (Hkb k0 _ B)].
Qed.

Theorem j2_dropped : forall q om tm lm k r,
  wf_tree (TM om) = true -> wf_tree (TM tm) = true ->
  maps3 q (TM om) (TM tm) (TM lm) ->
  mget (q ++ [k]) (TM tm) = None -> mget (q ++ [k]) (TM om) <> None ->
  mget (q ++ k :: r) (j2 (TM om) (TM tm) (TM lm)) = None.
Proof. intros. unfold j2. cbn [kidsM]. now apply j2_level_dropped. Qed.

(* C12 — proofs about the path from annotation strings to the hooks the engine runs
   (Engine/HookMeta.v): full characterisation of the weight (strconv.Atoi with fallback 0) for
   ALL strings, the parsed events / policies of a document, agreement of the engine's hook
   record with hooks.go's decisions over the parsed strings, and the execution order of
   execHook restated over the annotation strings of the created resources. *)
From Coq Require Import List String Ascii Bool Arith ZArith Lia Permutation Sorted.
From Helm Require Import Common.Assoc Engine.Types Engine.Eff Engine.Ops Engine.Cluster Engine.Seq
  Engine.HooksProofsSort Engine.HooksProofsTrace Engine.HooksProofsOrder Engine.HookMeta Gen.Events.
From Helm Require Text.Split Text.Classify Text.ClassifyProofs.
Import ListNotations.
Local Open Scope string_scope.

(* the proofs hold for any content of the regenerated tables, except where a finite obligation
   over a table is computed (events_table_known, the examples) *)
Local Opaque hook_events hook_annotation hook_weight_annotation hook_delete_annotation
  hook_output_log_annotation.

(* ================================================================== *)
(* 1. the weight: decimal integers and nothing else                     *)

Definition is_digit (c : ascii) : bool :=
  let n := nat_of_ascii c in (Nat.leb 48 n && Nat.leb n 57)%bool.

Fixpoint all_digits (s : string) : bool :=
  match s with
  | EmptyString => true
  | String c r => (is_digit c && all_digits r)%bool
  end.

Definition digit_z (c : ascii) : Z := Z.of_nat (nat_of_ascii c - 48).

(* positional decimal value of a digit string (most significant digit first) *)
Fixpoint dec_val_acc (s : string) (acc : Z) : Z :=
  match s with
  | EmptyString => acc
  | String c r => dec_val_acc r (acc * 10 + digit_z c)
  end.
Definition dec_val (s : string) : Z := dec_val_acc s 0.

(* optional single sign *)
Definition split_sign (s : string) : bool * string :=
  match s with
  | String c r =>
      if Ascii.eqb c "+" then (false, r) else if Ascii.eqb c "-" then (true, r) else (false, s)
  | EmptyString => (false, EmptyString)
  end.

(* an optionally signed, non-empty run of decimal digits: no space, no underscore, no prefix *)
Definition wf_int (s : string) : bool :=
  let (_, b) := split_sign s in
  (match b with EmptyString => false | _ => true end && all_digits b)%bool.

Definition int_val (s : string) : Z :=
  let (neg, b) := split_sign s in if neg then (- dec_val b)%Z else dec_val b.

Definition min_int : Z := (-9223372036854775808)%Z.
Definition max_int : Z := 9223372036854775807%Z.
Definition in_int (z : Z) : bool := (Z.leb min_int z && Z.leb z max_int)%bool.

Lemma digit_of_spec c :
  Classify.digit_of c = if is_digit c then Some (digit_z c) else None.
Proof. reflexivity. Qed.

Lemma digits_val_spec s : forall acc,
  Classify.digits_val s acc = if all_digits s then Some (dec_val_acc s acc) else None.
Proof.
  induction s as [|c r IH]; intros acc; simpl; auto.
  rewrite digit_of_spec. destruct (is_digit c); simpl; auto.
Qed.

Lemma is_byte_eqb n c : Split.is_byte n c = Nat.eqb (nat_of_ascii c) n.
Proof. reflexivity. Qed.

Lemma eqb_plus c : Ascii.eqb c "+" = Split.is_byte 43 c.
Proof.
  rewrite is_byte_eqb. destruct (Ascii.eqb c "+") eqn:E.
  - apply Ascii.eqb_eq in E. subst. reflexivity.
  - symmetry. apply Nat.eqb_neq. intros H. apply Ascii.eqb_neq in E. apply E.
    rewrite <- (ascii_nat_embedding c), H. reflexivity.
Qed.

Lemma eqb_minus c : Ascii.eqb c "-" = Split.is_byte 45 c.
Proof.
  rewrite is_byte_eqb. destruct (Ascii.eqb c "-") eqn:E.
  - apply Ascii.eqb_eq in E. subst. reflexivity.
  - symmetry. apply Nat.eqb_neq. intros H. apply Ascii.eqb_neq in E. apply E.
    rewrite <- (ascii_nat_embedding c), H. reflexivity.
Qed.

(* strconv.Atoi, for every string *)
Theorem atoi_spec s :
  Classify.atoi_z s = if (wf_int s && in_int (int_val s))%bool then Some (int_val s) else None.
Proof.
  unfold Classify.atoi_z, wf_int, int_val, split_sign.
  destruct s as [|c r]; [reflexivity|].
  rewrite <- eqb_plus, <- eqb_minus.
  destruct (Ascii.eqb c "+") eqn:Ep; [|destruct (Ascii.eqb c "-") eqn:Em].
  - destruct r as [|c' r']; [reflexivity|].
    rewrite digits_val_spec. fold (dec_val (String c' r')).
    destruct (all_digits (String c' r')); simpl; [|reflexivity].
    unfold in_int, min_int, max_int. reflexivity.
  - destruct r as [|c' r']; [reflexivity|].
    rewrite digits_val_spec. fold (dec_val (String c' r')).
    destruct (all_digits (String c' r')); simpl; [|reflexivity].
    unfold in_int, min_int, max_int. reflexivity.
  - rewrite digits_val_spec. fold (dec_val (String c r)).
    destruct (all_digits (String c r)); simpl; [|reflexivity].
    unfold in_int, min_int, max_int. reflexivity.
Qed.

(* calculateHookWeight on the annotation string, for every string: its decimal value when it is
   an optionally signed run of digits within the range of int, 0 otherwise *)
Theorem weight_of_spec s :
  weight_of s = if (wf_int s && in_int (int_val s))%bool then int_val s else 0%Z.
Proof. unfold weight_of. rewrite atoi_spec. destruct (wf_int s && in_int (int_val s))%bool; reflexivity. Qed.

Corollary weight_of_decimal s :
  wf_int s = true -> (min_int <= int_val s <= max_int)%Z -> weight_of s = int_val s.
Proof.
  intros W R. rewrite weight_of_spec, W. unfold in_int.
  destruct R as [R1 R2]. apply Z.leb_le in R1, R2. now rewrite R1, R2.
Qed.

Corollary weight_of_not_decimal s : wf_int s = false -> weight_of s = 0%Z.
Proof. intros W. now rewrite weight_of_spec, W. Qed.

Corollary weight_of_out_of_range s : in_int (int_val s) = false -> weight_of s = 0%Z.
Proof. intros W. rewrite weight_of_spec, W. now rewrite andb_false_r. Qed.

(* the value is the positional decimal value: appending a digit multiplies by ten ... *)
Lemma dec_val_acc_app s t : forall acc, dec_val_acc (s ++ t) acc = dec_val_acc t (dec_val_acc s acc).
Proof. induction s as [|c r IH]; intros acc; simpl; auto. Qed.

Lemma dec_val_snoc s c : dec_val (s ++ String c EmptyString) = (10 * dec_val s + digit_z c)%Z.
Proof. unfold dec_val. rewrite dec_val_acc_app. cbn [dec_val_acc]. lia. Qed.

(* ... and leading zeros do not matter (no octal reading) *)
Lemma dec_val_leading_zero s : dec_val (String "0" s) = dec_val s.
Proof. reflexivity. Qed.

Lemma weight_of_leading_zero s :
  all_digits s = true -> s <> EmptyString -> weight_of (String "0" s) = weight_of s.
Proof.
  intros D N. rewrite !weight_of_spec.
  assert (W0 : wf_int (String "0" s) = true) by (unfold wf_int; simpl; exact D).
  assert (V0 : int_val (String "0" s) = dec_val s) by reflexivity.
  destruct s as [|c r]; [congruence|].
  assert (Hc : Ascii.eqb c "+" = false /\ Ascii.eqb c "-" = false).
  { simpl in D. apply andb_prop in D. destruct D as [D _]. split; apply Ascii.eqb_neq; intros ->; discriminate D. }
  destruct Hc as [Hp Hm].
  assert (W : wf_int (String c r) = true) by (unfold wf_int, split_sign; rewrite Hp, Hm; exact D).
  assert (V : int_val (String c r) = dec_val (String c r)) by (unfold int_val, split_sign; now rewrite Hp, Hm).
  now rewrite W0, W, V0, V.
Qed.

(* digit strings are non-negative, so that a sign decides the sign *)
Lemma dec_val_acc_nonneg s : forall acc, (0 <= acc)%Z -> (0 <= dec_val_acc s acc)%Z.
Proof.
  induction s as [|c r IH]; intros acc H; simpl; auto. apply IH. unfold digit_z. lia.
Qed.

Lemma dec_val_nonneg s : (0 <= dec_val s)%Z.
Proof. apply dec_val_acc_nonneg. lia. Qed.

(* the strings of the task, one by one *)
Example weight_examples :
  map weight_of ["5"; "+5"; "-5"; "-0"; "007"; "010"; "08"; "09"; "-08"; " 5"; "5 "; "0x10"; "0o7"; "0b1"; "1_0";
                 "1e3"; "1.5"; ""; "-"; "+"; "+-5"; "--5"; "abc";
                 "9223372036854775807"; "9223372036854775808"; "-9223372036854775808"; "-9223372036854775809";
                 "000000000000000000000000000007"]
  = [5; 5; -5; 0; 7; 10; 8; 9; -8; 0; 0; 0; 0; 0; 0;
     0; 0; 0; 0; 0; 0; 0; 0;
     9223372036854775807; 0; -9223372036854775808; 0;
     7]%Z.
Proof. vm_compute. reflexivity. Qed.

(* ================================================================== *)
(* 2. what a document parses to                                         *)

Lemma doc_hook_spec r :
  doc_hook r =
  match ann_of r with
  | [] => None
  | ann =>
      match aget hook_annotation ann with
      | None => None
      | Some types =>
          match Classify.parse_events (Classify.split_comma types) with
          | None => None
          | Some evs =>
              Some (Classify.mkHook (r_name r) (r_kind r) "" "" evs (Classify.hook_weight ann)
                      (Classify.annotation_values ann hook_delete_annotation)
                      (Classify.annotation_values ann hook_output_log_annotation))
          end
      end
  end.
Proof.
  unfold doc_hook, doc_class, Classify.classify, head_of_res.
  cbn [Classify.h_meta Classify.h_kind].
  destruct (ann_of r) as [|a l]; [reflexivity|].
  destruct (aget hook_annotation (a :: l)); [|reflexivity].
  destruct (Classify.parse_events _); reflexivity.
Qed.

(* the weight of the parsed hook is the weight of the annotation string; a missing annotation
   is the empty string *)
Definition weight_annotation (r : res) : string :=
  match aget hook_weight_annotation (ann_of r) with Some w => w | None => EmptyString end.

Lemma doc_weight_spec r : doc_weight r = weight_of (weight_annotation r).
Proof.
  unfold doc_weight, Classify.hook_weight, weight_annotation, weight_of.
  destruct (aget hook_weight_annotation (ann_of r)); reflexivity.
Qed.

Lemma doc_hook_inv r h :
  doc_hook r = Some h ->
  exists types evs,
    aget hook_annotation (ann_of r) = Some types /\
    Classify.parse_events (Classify.split_comma types) = Some evs /\
    h = Classify.mkHook (r_name r) (r_kind r) "" "" evs (Classify.hook_weight (ann_of r))
          (Classify.annotation_values (ann_of r) hook_delete_annotation)
          (Classify.annotation_values (ann_of r) hook_output_log_annotation).
Proof.
  rewrite doc_hook_spec. destruct (ann_of r) as [|a l] eqn:E; cbv iota beta zeta; [intros X; discriminate X|].
  destruct (aget hook_annotation (a :: l)) as [types|]; cbv iota beta; [|intros X; discriminate X].
  destruct (Classify.parse_events _) as [evs|] eqn:P; cbv iota beta; [|intros X; discriminate X].
  intros H. inversion H. eauto.
Qed.

Lemma doc_hook_weight r h : doc_hook r = Some h -> Classify.hk_weight h = doc_weight r.
Proof. intros H. apply doc_hook_inv in H. destruct H as (t & evs & _ & _ & ->). reflexivity. Qed.

Lemma in_hooks_of_docs h docs :
  In h (hooks_of_docs docs) <-> exists r ph, In r docs /\ doc_hook r = Some ph /\ h = engine_hook r ph.
Proof.
  unfold hooks_of_docs. rewrite in_flat_map. split.
  - intros (r & Hr & Hh). unfold hook_of_doc in Hh. destruct (doc_hook r) as [ph|] eqn:E; [|destruct Hh].
    destruct Hh as [<-|[]]. eauto.
  - intros (r & ph & Hr & E & ->). exists r. split; auto. unfold hook_of_doc. rewrite E. now left.
Qed.

(* every hook the engine gets: its resource is its document, its weight the weight of the
   document's annotation string *)
Lemma hooks_of_docs_weight h docs :
  In h (hooks_of_docs docs) ->
  In (h_res h) docs /\ h_weight h = weight_of (weight_annotation (h_res h)).
Proof.
  rewrite in_hooks_of_docs. intros (r & ph & Hr & E & ->). simpl. split; auto.
  rewrite (doc_hook_weight _ _ E). apply doc_weight_spec.
Qed.

(* -- events: the table of manifest_sorter.go maps onto the nine events of the engine -- *)
Lemma event_of_string_str e : event_of_string (event_str e) = Some e.
Proof. destruct e; reflexivity. Qed.

Lemma event_of_string_some s e : event_of_string s = Some e -> event_str e = s.
Proof.
  unfold event_of_string. intros H. apply find_some in H. destruct H as [_ H].
  now apply String.eqb_eq in H.
Qed.

(* finite obligation over the regenerated table: every value of [events] is an event *)
Lemma events_table_known :
  forallb (fun kv => match event_of_string (snd kv) with Some _ => true | None => false end) hook_events = true.
Proof. vm_compute. reflexivity. Qed.

Lemma aget_in {V} k (l : list (string * V)) v : aget k l = Some v -> In (k, v) l.
Proof.
  induction l as [|[k' v'] t IH]; simpl; [discriminate|].
  destruct (String.eqb k k') eqn:E.
  - intros H. inversion H. subst. apply String.eqb_eq in E. subst. now left.
  - intros H. right. auto.
Qed.

Lemma parse_events_values toks : forall evs,
  Classify.parse_events toks = Some evs ->
  Forall (fun s => exists e, event_of_string s = Some e) evs.
Proof.
  induction toks as [|t r IH]; simpl; intros evs H.
  - inversion H. constructor.
  - destruct (aget (Classify.norm_token t) hook_events) as [e|] eqn:E; [|discriminate].
    destruct (Classify.parse_events r) as [es|]; [|discriminate]. inversion H; subst.
    constructor; auto.
    apply aget_in in E. pose proof events_table_known as K. rewrite forallb_forall in K.
    specialize (K _ E). simpl in K. destruct (event_of_string e); [eauto|discriminate].
Qed.

Lemma keep_some_events evs :
  Forall (fun s => exists e, event_of_string s = Some e) evs ->
  map event_str (keep_some event_of_string evs) = evs.
Proof.
  induction 1 as [|s l [e He] _ IH]; simpl; auto.
  rewrite He. simpl. rewrite IH. f_equal. now apply event_of_string_some.
Qed.

(* no event is lost or invented on the way to the engine's record *)
Lemma engine_hook_events r h :
  doc_hook r = Some h -> map event_str (h_events (engine_hook r h)) = Classify.hk_events h.
Proof.
  intros H. apply doc_hook_inv in H. destruct H as (t & evs & _ & P & ->). simpl.
  apply keep_some_events. eapply parse_events_values; eauto.
Qed.

Lemma event_str_inj a b : event_str a = event_str b -> a = b.
Proof.
  intros H. pose proof (event_of_string_str a) as A. rewrite H, event_of_string_str in A. congruence.
Qed.

Lemma event_eqb_eq a b : event_eqb a b = true <-> a = b.
Proof. destruct a, b; simpl; split; intros H; congruence. Qed.

Lemma count_events ev evs :
  Forall (fun s => exists e, event_of_string s = Some e) evs ->
  count_occ string_dec evs (event_str ev)
  = List.length (filter (event_eqb ev) (keep_some event_of_string evs)).
Proof.
  induction 1 as [|s l [e He] _ IH]; simpl; auto.
  rewrite He. simpl. pose proof (event_of_string_some _ _ He) as S. subst s.
  destruct (string_dec (event_str e) (event_str ev)) as [Q|Q].
  - apply event_str_inj in Q. subst.
    replace (event_eqb ev ev) with true by (symmetry; now apply event_eqb_eq). simpl. now rewrite IH.
  - destruct (event_eqb ev e) eqn:B; auto.
    apply event_eqb_eq in B. subst. congruence.
Qed.

Lemma in_map_event_str ev l : In (event_str ev) (map event_str l) <-> In ev l.
Proof.
  split; [|apply in_map].
  rewrite in_map_iff. intros (e & He & Hin).
  assert (e = ev); [|now subst].
  pose proof (event_of_string_str e) as A. rewrite He, event_of_string_str in A. now inversion A.
Qed.

(* -- delete policies -- *)
Lemma policy_of_string_str p : policy_of_string (policy_str p) = Some p.
Proof. destruct p; reflexivity. Qed.

Lemma policy_of_string_some s p : policy_of_string s = Some p -> policy_str p = s.
Proof.
  unfold policy_of_string. intros H. apply find_some in H. destruct H as [_ H].
  now apply String.eqb_eq in H.
Qed.

Lemma policy_eqb_eq a b : policy_eqb a b = true <-> a = b.
Proof. destruct a, b; simpl; split; intros H; congruence. Qed.

Lemma existsb_keep_policies p del :
  existsb (policy_eqb p) (keep_some policy_of_string del) = existsb (String.eqb (policy_str p)) del.
Proof.
  induction del as [|s t IH]; simpl; auto.
  destruct (policy_of_string s) as [q|] eqn:E; simpl.
  - rewrite IH. f_equal. apply policy_of_string_some in E. subst s.
    destruct (policy_eqb p q) eqn:Q.
    + apply policy_eqb_eq in Q. subst. symmetry. apply String.eqb_refl.
    + symmetry. apply String.eqb_neq. intros H.
      assert (p = q); [|subst; destruct q; discriminate Q].
      pose proof (policy_of_string_str p) as A. rewrite H, policy_of_string_str in A. now inversion A.
  - rewrite IH. destruct (String.eqb (policy_str p) s) eqn:Q; auto.
    apply String.eqb_eq in Q. subst. now rewrite policy_of_string_str in E.
Qed.

Lemma keep_policies_nonempty del :
  del <> [] -> policy_expressible del = true -> keep_some policy_of_string del <> [].
Proof.
  intros N H. destruct del as [|s0 t0]; [congruence|]. unfold policy_expressible in H.
  remember (s0 :: t0) as l. clear Heql N s0 t0.
  induction l as [|s t IH]; simpl in *; [discriminate|].
  destruct (policy_of_string s); [discriminate|]. simpl in H. auto.
Qed.

(* hooks.go over the parsed strings and the engine's hook record take the same deletion
   decisions whenever the delete-policy annotation is absent or names a known policy *)
Theorem engine_hook_has_policy r h p :
  policy_expressible (Classify.hk_delete h) = true ->
  has_policy (engine_hook r h) p = real_has_policy (Classify.hk_delete h) p.
Proof.
  intros X. unfold has_policy, effective_policies, real_has_policy, real_effective. simpl.
  destruct (Classify.hk_delete h) as [|s t] eqn:D.
  - simpl. destruct p; reflexivity.
  - rewrite <- D in *.
    pose proof (keep_policies_nonempty (Classify.hk_delete h)) as N.
    destruct (keep_some policy_of_string (Classify.hk_delete h)) as [|q qs] eqn:K.
    + exfalso. apply N; auto. rewrite D. discriminate.
    + rewrite <- K. rewrite existsb_keep_policies. rewrite D. reflexivity.
Qed.

(* ... and only then: an annotation of unknown tokens (here "foo") switches the default
   before-hook-creation off in hooks.go; the three-constructor record falls back to it *)
Example unknown_only_not_expressible :
  let r := mkRes "ConfigMap" "hx" [("a:helm.sh/hook", "pre-install"); ("a:helm.sh/hook-delete-policy", "foo")] in
  exists h, doc_hook r = Some h /\ Classify.hk_delete h = ["foo"] /\ policy_expressible (Classify.hk_delete h) = false /\
    real_has_policy (Classify.hk_delete h) BeforeHookCreation = false /\
    has_policy (engine_hook r h) BeforeHookCreation = true.
Proof. vm_compute. eexists. repeat split. Qed.

(* the same for the empty annotation value *)
Example empty_policy_annotation_disables_default :
  let r := mkRes "ConfigMap" "hx" [("a:helm.sh/hook", "pre-install"); ("a:helm.sh/hook-delete-policy", "")] in
  exists h, doc_hook r = Some h /\ Classify.hk_delete h = [""] /\
    forallb (fun p => negb (real_has_policy (Classify.hk_delete h) p)) all_policies = true.
Proof. vm_compute. eexists. repeat split. Qed.

(* non-vacuity of the hypothesis *)
Example policy_expressible_example :
  let r := mkRes "ConfigMap" "hx" [("a:helm.sh/hook", " Pre-Install ,POST-INSTALL"); ("a:helm.sh/hook-delete-policy", "foo, Hook-Succeeded ");
                                   ("a:helm.sh/hook-weight", "010")] in
  exists h, doc_hook r = Some h /\ policy_expressible (Classify.hk_delete h) = true /\
    hook_of_doc r = [mkHook r [PreInstall; PostInstall] 10 [HookSucceeded]].
Proof. vm_compute. eexists. repeat split. Qed.

(* -- output-log policy: which hooks get their pods' logs fetched -- *)
Theorem output_logs_spec kind name log p sel :
  output_logs_by_policy kind name log p = Some sel <->
  In p log /\ ((kind = "Job" /\ sel = LogByLabel ("job-name=" ++ name))
               \/ (kind = "Pod" /\ sel = LogByField ("metadata.name=" ++ name))).
Proof.
  unfold output_logs_by_policy, hook_has_output_log_policy.
  destruct (existsb (String.eqb p) log) eqn:E.
  - assert (I : In p log).
    { apply existsb_exists in E. destruct E as (x & Hx & Hp). apply String.eqb_eq in Hp. now subst. }
    destruct (String.eqb kind "Job") eqn:J; [|destruct (String.eqb kind "Pod") eqn:P].
    + apply String.eqb_eq in J. subst. split.
      * intros H. inversion H. auto.
      * intros [_ [[_ ->]|[H _]]]; [reflexivity|discriminate H].
    + apply String.eqb_eq in P. subst. split.
      * intros H. inversion H. auto.
      * intros [_ [[H _]|[_ ->]]]; [discriminate H|reflexivity].
    + apply String.eqb_neq in J, P. split; [discriminate|]. intros [_ [[H _]|[H _]]]; congruence.
  - split; [discriminate|]. intros [I _]. exfalso.
    assert (existsb (String.eqb p) log = true); [|congruence].
    apply existsb_exists. exists p. split; auto. apply String.eqb_refl.
Qed.

(* ================================================================== *)
(* 3. execution order, from the annotation strings of the created resources *)

(* the resources created (or refused) in a trace, in order *)
Definition created (tr : list cev) : list res :=
  flat_map (fun c => match c with CCreate rs _ => rs | _ => [] end) tr.

(* ascending by the weight the annotation string spells, ties by name *)
Definition doc_le (a b : res) : Prop :=
  (weight_of (weight_annotation a) < weight_of (weight_annotation b))%Z
  \/ (weight_of (weight_annotation a) = weight_of (weight_annotation b) /\ str_ltb (r_name b) (r_name a) = false).

Lemma hook_le_doc_le a b :
  h_weight a = weight_of (weight_annotation (h_res a)) ->
  h_weight b = weight_of (weight_annotation (h_res b)) ->
  hook_le a b -> doc_le (h_res a) (h_res b).
Proof.
  unfold hook_le, hook_less, doc_le, h_name. intros <- <- H.
  destruct (Z.eqb (h_weight b) (h_weight a)) eqn:E.
  - apply Z.eqb_eq in E. right. split; auto.
  - apply Z.eqb_neq in E. apply Z.ltb_ge in H. left. lia.
Qed.

Lemma sorted_map_res l :
  Forall (fun h => h_weight h = weight_of (weight_annotation (h_res h))) l ->
  StronglySorted hook_le l -> StronglySorted doc_le (map h_res l).
Proof.
  intros F S. induction S as [|a l S IH HA]; simpl; constructor.
  - apply IH. now inversion F.
  - inversion F; subst. rewrite Forall_forall in *. intros r Hr.
    apply in_map_iff in Hr. destruct Hr as (b & <- & Hb). apply hook_le_doc_le; auto.
Qed.

Lemma sorted_prefix {A} (R : A -> A -> Prop) l1 l2 : StronglySorted R (l1 ++ l2) -> StronglySorted R l1.
Proof.
  induction l1 as [|a l IH]; simpl; intros H; [constructor|].
  inversion H; subst. constructor; auto. rewrite Forall_forall in *. intros x Hx. apply H3. apply in_or_app. now left.
Qed.

Lemma created_cw_ok ev pre : created (flat_map (cw_ok ev) pre) = map h_res pre.
Proof. induction pre as [|h t IH]; simpl; auto. now rewrite IH. Qed.

Lemma created_app a b : created (a ++ b) = (created a ++ created b)%list.
Proof. unfold created. apply flat_map_app. Qed.

(* the creations of an execution of execHook are those of a prefix of the sorted selection *)
Lemma created_prefix rl ev tr b :
  exec (exec_hook rl ev) tr b ->
  exists pre rest, sort_hooks (hooks_for ev (hooks rl)) = (pre ++ rest)%list /\
    created (cwview tr) = map h_res pre /\ (b = true -> rest = []).
Proof.
  intros H. apply exec_hook_order in H. destruct H as (pre & rest & E & [[C R]|(h & rest' & -> & -> & C)]).
  - exists pre, rest. split; auto. split.
    + rewrite C. apply created_cw_ok.
    + intros ->. destruct R as [R|R]; [auto|discriminate].
  - exists (pre ++ [h])%list, rest'. split; [now rewrite <- app_assoc|]. split; [|discriminate].
    destruct C as [C|C]; rewrite C, created_app; fold (cw_ok ev); rewrite created_cw_ok, map_app; reflexivity.
Qed.

Lemma repeat_map {A B} (x : B) (l : list A) : map (fun _ => x) l = repeat x (List.length l).
Proof. induction l; simpl; congruence. Qed.

(* C12_order restated from the strings: whatever the cluster answers, the hook resources of an
   event are created in ascending order of the decimal weight their annotation spells (0 when
   it is not a decimal integer), ties by name; each is a hook document of the chart that names
   the event; and when the event completes, every such document was created once per mention *)
Theorem order_from_annotations docs rl ev tr b :
  hooks rl = hooks_of_docs docs ->
  exec (exec_hook rl ev) tr b ->
  StronglySorted doc_le (created (cwview tr))
  /\ Forall (fun r => In r docs /\ exists h, doc_hook r = Some h /\ In (event_str ev) (Classify.hk_events h))
            (created (cwview tr))
  /\ (b = true ->
      Permutation (created (cwview tr))
        (flat_map (fun r => match doc_hook r with
                            | Some h => repeat r (count_occ string_dec (Classify.hk_events h) (event_str ev))
                            | None => []
                            end) docs)).
Proof.
  intros HD H. destruct (created_prefix _ _ _ _ H) as (pre & rest & E & C & R).
  assert (InAll : forall h, In h (pre ++ rest)%list -> In h (hooks_of_docs docs) /\ In ev (h_events h)).
  { intros h Hh. rewrite <- E in Hh. apply in_sorted_hooks in Hh. now rewrite HD in Hh. }
  rewrite C. split; [|split].
  - apply sorted_map_res.
    + rewrite Forall_forall. intros h Hh.
      destruct (InAll h) as [I _]; [apply in_or_app; now left|].
      now apply hooks_of_docs_weight in I.
    + apply (sorted_prefix _ pre rest). rewrite <- E. apply sort_hooks_sorted.
  - rewrite Forall_forall. intros r Hr. apply in_map_iff in Hr. destruct Hr as (h & <- & Hh).
    destruct (InAll h) as [I Ev]; [apply in_or_app; now left|].
    apply in_hooks_of_docs in I. destruct I as (r & ph & Hr & Dh & ->). simpl. split; auto.
    exists ph. split; auto. rewrite <- (engine_hook_events _ _ Dh). now apply in_map_event_str.
  - intros ->. rewrite (R eq_refl), app_nil_r in E. rewrite <- E.
    etransitivity; [apply Permutation_map, sort_hooks_perm|].
    rewrite HD. unfold hooks_for, hooks_of_docs.
    clear. induction docs as [|r t IH]; simpl; auto.
    rewrite flat_map_app, map_app. apply Permutation_app; auto.
    unfold hook_of_doc. destruct (doc_hook r) as [ph|] eqn:Dh; simpl; auto.
    rewrite app_nil_r, map_map. simpl. rewrite repeat_map.
    rewrite <- (count_events ev (Classify.hk_events ph)); [reflexivity|].
    apply doc_hook_inv in Dh. destruct Dh as (ty & evs & _ & P & ->). simpl.
    eapply parse_events_values; eauto.
Qed.

(* non-vacuity: zero-padded weights, a run in which the third creation is refused *)
Definition pad_docs : list res :=
  [ mkRes "ConfigMap" "ha" [("a:helm.sh/hook", "pre-install"); ("a:helm.sh/hook-weight", "010")];
    mkRes "ConfigMap" "hb" [("a:helm.sh/hook", "pre-install"); ("a:helm.sh/hook-weight", "9")];
    mkRes "ConfigMap" "hc" [("a:helm.sh/hook", "PRE-INSTALL , post-install"); ("a:helm.sh/hook-weight", "08")];
    mkRes "ConfigMap" "hd" [("a:helm.sh/hook", "pre-install"); ("a:helm.sh/hook-weight", "0x10")];
    mkRes "ConfigMap" "he" [("a:helm.sh/hook", "pre-install,bogus"); ("a:helm.sh/hook-weight", "-5")] ].

Example pad_order :
  map h_name (sort_hooks (hooks_for PreInstall (hooks_of_docs pad_docs))) = ["hd"; "hc"; "hb"; "ha"]
  /\ map h_weight (sort_hooks (hooks_for PreInstall (hooks_of_docs pad_docs))) = [0; 8; 9; 10]%Z.
Proof. vm_compute. split; reflexivity. Qed.

(* ---- log fetches of an operation: two Job / Pod hooks on pre-install ---- *)
Definition log_docs : list res :=
  [ mkRes "Job" "hj" [("a:helm.sh/hook", "pre-install"); ("a:helm.sh/hook-weight", "1");
                      ("a:helm.sh/hook-output-log-policy", "hook-succeeded, Hook-Failed")];
    mkRes "Pod" "hp" [("a:helm.sh/hook", "pre-install"); ("a:helm.sh/hook-weight", "02");
                      ("a:helm.sh/hook-output-log-policy", "hook-succeeded")];
    mkRes "ConfigMap" "hc" [("a:helm.sh/hook", "pre-install"); ("a:helm.sh/hook-weight", "3");
                            ("a:helm.sh/hook-output-log-policy", "hook-succeeded,hook-failed")] ].

(* all succeed: logs of the Pod, then of the Job (last to first; nothing for the ConfigMap);
   the Pod's watch fails: nothing (it does not list hook-failed); the Job's fails: its logs *)
Example log_fetch_examples :
  op_levs (hooks_of_docs log_docs) PreInstall PostInstall [("Job/hj", true); ("Pod/hp", true); ("ConfigMap/hc", true)]
  = [LWatch "Job/hj" true; LWatch "Pod/hp" true; LWatch "ConfigMap/hc" true;
     LFetch (LogByField "metadata.name=hp"); LOut; LFetch (LogByLabel "job-name=hj"); LOut]
  /\ op_levs (hooks_of_docs log_docs) PreInstall PostInstall [("Job/hj", true); ("Pod/hp", false)]
     = [LWatch "Job/hj" true; LWatch "Pod/hp" false]
  /\ op_levs (hooks_of_docs log_docs) PreInstall PostInstall [("Job/hj", false)]
     = [LWatch "Job/hj" false; LFetch (LogByLabel "job-name=hj"); LOut].
Proof. vm_compute. repeat split. Qed.

(* C03 — the full atomic-upgrade clause under the object-store cluster: hooks disabled (K9
   excluded), one cluster fault that is not a DELETE fault, the failed target omits no
   resource of the revision rolled back to (K6 excluded): the failed upgrade ends with a NEW
   revision that is deployed, carries the manifest of the highest revision that was
   superseded or deployed, and the cluster matches it. *)
From Coq Require Import List String Bool Arith ZArith Lia Permutation.
From Helm Require Import Common.Assoc Engine.Types Engine.Eff Engine.Ops Engine.Cluster Engine.Seq
  Engine.SeqProofs Engine.HooksProofsTrace Engine.HooksProofsGate Engine.ContainLedger Engine.ContainProofs
  Engine.ContainDeployed Engine.ContainCluster Engine.ContainWorld Engine.ContainAtomic Engine.ContainRollback
  Engine.ContainAtomicUp Engine.ContainAtomicReplace Engine.MatchDefs Engine.MatchUpdate.
Import ListNotations.
Local Open Scope prog_scope.

Notation lupd := ContainLedger.upd.

(* ---- kube_handle, call by call ---- *)
Section Calls.
  Variable rn ns : string.

  Lemma kh_update c t k :
    kresp_of rn ns (KUpdate c t) k = snd (fst (k_update k c t)) /\
    kstate_of rn ns (KUpdate c t) k = fst (fst (k_update k c t)).
  Proof.
    unfold kresp_of, kstate_of. cbn [kube_handle].
    destruct (k_update k c t) as [[k' r] m]. auto.
  Qed.

  Lemma kh_wait rs k :
    kresp_of rn ns (KWait rs) k = negb (waitfail k) /\
    kfault (kstate_of rn ns (KWait rs) k) = kfault k /\
    waitfail (kstate_of rn ns (KWait rs) k) = false /\
    objs (kstate_of rn ns (KWait rs) k) = objs k.
  Proof.
    unfold kresp_of, kstate_of. cbn [kube_handle]. destruct (waitfail k) eqn:E; simpl; auto.
  Qed.

  Lemma kh_existing rs take k :
    kresp_of rn ns (KExisting rs take) k = snd (k_existing rn ns k rs take []) /\
    kstate_of rn ns (KExisting rs take) k = fst (k_existing rn ns k rs take []).
  Proof.
    unfold kresp_of, kstate_of. cbn [kube_handle].
    destruct (k_existing rn ns k rs take []) as [k' r]. auto.
  Qed.

  Lemma kh_delete rs k : rs <> [] ->
    kresp_of rn ns (KDelete rs) k = snd (fst (k_delete k rs true [])) /\
    kstate_of rn ns (KDelete rs) k = fst (fst (k_delete k rs true [])).
  Proof.
    intros Hne. unfold kresp_of, kstate_of. destruct rs as [|x t]; [congruence|]. cbn [kube_handle].
    destruct (k_delete k (x :: t) true []) as [[k' ok] m]. auto.
  Qed.

  (* an ownership check that answers leaves the state alone and reports every live resource *)
  Lemma k_existing_some : forall rs k take acc k' l,
    k_existing rn ns k rs take acc = (k', Some l) ->
    k' = k /\ (forall r, In r acc -> In r l) /\
    (forall r, In r rs -> aget (rkey r) (objs k) <> None -> In r l).
  Proof.
    induction rs as [|x t IH]; simpl; intros k take acc k' l H.
    - inversion H; subst. repeat split; auto. intros r [].
    - destruct (fault_hits k VGet (rkey x)); [discriminate|].
      destruct (aget (rkey x) (objs k)) as [live|] eqn:E.
      + destruct (take || owned_by rn ns live); [|discriminate].
        apply IH in H. destruct H as (-> & Hacc & Hlive). repeat split; auto.
        * intros r Hr. apply Hacc. apply in_or_app. now left.
        * intros r [<-|Hr] Hl; auto. apply Hacc. apply in_or_app. right. now left.
      + apply IH in H. destruct H as (-> & Hacc & Hlive). repeat split; auto.
        intros r [<-|Hr] Hl; auto. congruence.
  Qed.
End Calls.

(* ---- Client.update under a pending fault ---- *)
Lemma in_keys_find_res key rs : in_keys key rs = true -> find_res key rs <> None.
Proof.
  unfold in_keys, find_res. induction rs as [|r t IH]; simpl; [discriminate|].
  destruct (String.eqb (rkey r) key); simpl; auto. discriminate.
Qed.

Lemma find_res_app key a b : find_res key a <> None \/ find_res key b <> None -> find_res key (a ++ b) <> None.
Proof.
  unfold find_res. induction a as [|r t IH]; simpl.
  - intros [H|H]; auto.
  - destruct (String.eqb (rkey r) key); [discriminate|]. exact IH.
Qed.

Lemma In_find_res r rs : In r rs -> find_res (rkey r) rs <> None.
Proof.
  unfold find_res. induction rs as [|x t IH]; simpl; [tauto|].
  intros [->|H].
  - rewrite String.eqb_refl. discriminate.
  - destruct (String.eqb (rkey x) (rkey r)); [discriminate|auto].
Qed.

Lemma kut_wait : forall tgt k cur created pe muts,
  waitfail (fst (fst (fst (fst (k_update_targets k cur tgt created pe muts))))) = waitfail k.
Proof.
  induction tgt as [|r t IH]; simpl; intros k cur created pe muts; auto.
  destruct (fault_hits k VGet (rkey r)); auto.
  destruct (aget (rkey r) (objs k)).
  - destruct (find_res (rkey r) cur); auto.
    destruct (patch_needed (r_fields r0) (r_fields r) f); [|apply IH].
    destruct (fault_hits k VPatch (rkey r)); rewrite IH; auto.
  - destruct (fault_hits k VCreate (rkey r)); auto. rewrite IH. auto.
Qed.

Lemma kud_wait : forall dels k muts, waitfail (fst (k_update_deletes k dels muts)) = waitfail k.
Proof.
  induction dels as [|r t IH]; simpl; intros k muts; auto.
  destruct (fault_hits k VGet (rkey r)); [rewrite IH; auto|].
  destruct (aget (rkey r) (objs k)); [|apply IH].
  destruct (live_keep f); [apply IH|].
  destruct (fault_hits k VDelete (rkey r)); rewrite IH; auto.
Qed.

Lemma k_update_wait k cur tgt : waitfail (fst (fst (k_update k cur tgt))) = waitfail k.
Proof.
  unfold k_update.
  pose proof (kut_wait tgt k cur [] false []) as H.
  destruct (k_update_targets k cur tgt [] false []) as [[[[k1 hard] pe] cr] m]. simpl in H.
  destruct (hard || pe); simpl; auto.
  pose proof (kud_wait (filter (fun o => negb (in_keys (rkey o) tgt)) cur) k1 m) as H2.
  destruct (k_update_deletes k1 _ m) as [k2 m2]. simpl in *. congruence.
Qed.

(* a failing first phase with no unknown live target has consumed the fault *)
Lemma kut_consumed : forall tgt k cur created pe muts k1 hard pe' cr' m',
  NoDup (map rkey tgt) ->
  (forall t, In t tgt -> aget (rkey t) (objs k) <> None -> find_res (rkey t) cur <> None) ->
  k_update_targets k cur tgt created pe muts = (k1, hard, pe', cr', m') ->
  hard = true \/ (pe = false /\ pe' = true) -> kfault k1 = None.
Proof.
  induction tgt as [|r t IH]; intros k cur created pe muts k1 hard pe' cr' m' Hnd Hfind H Hfail; simpl in H.
  - inversion H; subst. destruct Hfail as [E|[E1 E2]]; congruence.
  - apply NoDup_keys_cons in Hnd. destruct Hnd as (_ & Hnd & Hdiff).
    assert (Hsame : forall v t', In t' t -> aget (rkey t') (aset (rkey r) v (objs k)) = aget (rkey t') (objs k)).
    { intros v t' Ht'. apply aget_aset_neq. now apply Hdiff. }
    destruct (fault_hits k VGet (rkey r)); [inversion H; subst; reflexivity|].
    destruct (aget (rkey r) (objs k)) as [live|] eqn:El.
    + destruct (find_res (rkey r) cur) as [o|] eqn:Ef.
      2:{ exfalso. apply (Hfind r (or_introl eq_refl)); [rewrite El; discriminate|exact Ef]. }
      destruct (patch_needed (r_fields o) (r_fields r) live).
      * destruct (fault_hits k VPatch (rkey r)).
        -- apply k_update_targets_nofault in H; [tauto|apply nofault_clear].
        -- eapply IH; [exact Hnd| |exact H|exact Hfail].
           intros t' Ht' Hl. apply Hfind; [now right|]. cbn [objs set_objs] in Hl. now rewrite Hsame in Hl.
      * eapply IH; [exact Hnd| |exact H|exact Hfail]. intros t' Ht'. apply Hfind. now right.
    + destruct (fault_hits k VCreate (rkey r)); [inversion H; subst; reflexivity|].
      eapply IH; [exact Hnd| |exact H|exact Hfail].
      intros t' Ht' Hl. apply Hfind; [now right|]. cbn [objs set_objs] in Hl. now rewrite Hsame in Hl.
Qed.

Lemma k_update_fail_consumed k cur tgt k' cr m :
  NoDup (map rkey tgt) ->
  (forall t, In t tgt -> aget (rkey t) (objs k) <> None -> find_res (rkey t) cur <> None) ->
  k_update k cur tgt = (k', (false, cr), m) ->
  kfault k' = None /\ kfault k <> None.
Proof.
  intros Hnd Hfind H. split.
  - unfold k_update in H.
    destruct (k_update_targets k cur tgt [] false []) as [[[[k1 hard] pe] cr1] m1] eqn:T.
    destruct (hard || pe) eqn:E.
    + inversion H; subst. eapply kut_consumed; [exact Hnd|exact Hfind|exact T|].
      apply orb_true_iff in E. destruct E as [->| ->]; auto.
    + destruct (k_update_deletes k1 _ m1) as [k2 m2]. inversion H.
  - intros Hn.
    pose proof (proj1 (update_fails_iff k cur tgt Hn Hnd)) as G. rewrite H in G. simpl in G.
    destruct (G eq_refl) as (t & Ht & Hl & Hf). exact (Hfind t Ht Hl Hf).
Qed.

Lemma existsb_find_rev v l : find (fun r => Nat.eqb (rev r) v) l <> None -> existsb (fun r => Nat.eqb (rev r) v) l = true.
Proof.
  induction l as [|x t IH]; simpl; [tauto|]. destruct (Nat.eqb (rev x) v); simpl; auto.
Qed.

Lemma in_upd_self x l : has_rev (rev x) l = true -> In x (lupd x l).
Proof.
  intros Hh. unfold lupd. rewrite Hh. unfold has_rev in Hh. apply existsb_exists in Hh.
  destruct Hh as (y & Hy & E). unfold replace_rev. apply in_map_iff. exists y. split; auto. now rewrite E.
Qed.

Section Full.
  Variable rn ns : string.
  Notation wrun := (wrun rn ns).

  Ltac wbind H l1 k1 a H1 := apply wrun_bind_inv in H; destruct H as (l1 & k1 & a & H1 & H).
  Ltac wret H := apply wrun_ret_inv in H; destruct H as (? & ? & ?); subst.
  Ltac wsto H := apply wrun_storage_inv in H; [|reflexivity].
  Ltac wclu H := apply wrun_cluster_inv in H; [|reflexivity].
  Ltac case_if H := match type of H with ContainWorld.wrun _ _ (if ?c then _ else _) _ _ _ _ _ => destruct c eqn:? end.

  Lemma wrun_supdate {A} x (kk : serr -> prog A) l k l' k' a :
    wrun (Eff (SUpdate x) kk) l k l' k' a ->
    wrun (kk (if has_rev (rev x) l then SOk else SNotFound)) (lupd x l) k l' k' a.
  Proof.
    intros H. wsto H. unfold sresp, sled in H. cbn [storage_apply] in H. unfold lupd.
    destruct (has_rev (rev x) l); exact H.
  Qed.

  Lemma wrun_record_release x l k l' k' u :
    wrun (record_release x) l k l' k' u -> l' = lupd x l /\ k' = k.
  Proof.
    unfold record_release. intros H. wsto H. wret H.
    unfold sled, lupd. cbn [storage_apply]. destruct (has_rev (rev x) l); auto.
  Qed.

  Lemma wrun_supersede_all : forall ds l k l' k' u,
    wrun (supersede_all ds) l k l' k' u -> l' = supersede ds l /\ k' = k.
  Proof.
    induction ds as [|d t IH]; simpl; intros l k l' k' u H.
    - wret H. auto.
    - wsto H. unfold sresp, sled in H. cbn [storage_apply] in H.
      fold (lupd (with_status d SSuperseded) l).
      destruct (has_rev (rev (with_status d SSuperseded)) l) eqn:E; cbn [fst snd] in H; apply IH in H;
        unfold lupd; rewrite E; exact H.
  Qed.

  (* the automatic rollback, from a calm cluster, with hooks disabled, succeeds *)
  Definition recovery_flags (ver : nat) : flags := mkFlags false false false false 0 true false false false ver.

  Lemma rollback_succeeds ver l k l' k' out cur pr :
    ver <> 0 -> kfault k = None -> waitfail k = false ->
    max_rev_of l = Some cur -> find (fun r => Nat.eqb (rev r) ver) l = Some pr ->
    has_rev (S (rev cur)) l = false ->
    NoDup (map rkey (manifest pr)) ->
    (forall t, In t (manifest pr) -> in_keys (rkey t) (manifest cur) = true) ->
    wrun (rollback rn ns (recovery_flags ver)) l k l' k' out ->
    out = OOk /\
    In (with_status (tgt_of cur pr) SDeployed) l' /\
    exists k1 cr muts,
      k_update k (manifest cur) (stamp_all rn ns (manifest pr)) = (k1, (true, cr), muts) /\ objs k' = objs k1.
  Proof.
    intros Hver Hnf Hwf Hmax Hfind Hfresh Hnd Hk6 H.
    unfold rollback in H. cbn [f_dry_run f_version f_max_history recovery_flags f_cleanup] in H.
    cbv beta iota zeta in H.
    wsto H. unfold sresp, sled in H. cbn [storage_apply fst snd] in H. rewrite Hmax in H.
    destruct ver as [|ver']; [congruence|]. set (ver := S ver') in *.
    wsto H. unfold sresp, sled in H. cbn [storage_apply fst snd] in H.
    rewrite (existsb_find_rev ver l) in H by (rewrite Hfind; discriminate). cbn [negb] in H.
    wsto H. unfold sresp, sled in H. cbn [storage_apply fst snd] in H. rewrite Hfind in H.
    fold (tgt_of cur pr) in H. set (tgt := tgt_of cur pr) in *.
    wbind H ld kd e He.
    unfold storage_create, perform in He. wsto He. unfold sresp, sled in He. cbn [storage_apply] in He.
    change (rev tgt) with (S (rev cur)) in He. rewrite Hfresh in He. cbn [fst snd] in He. wret He.
    set (l2 := (l ++ [tgt])%list) in *.
    assert (Hh : forall ev, run_hooks (recovery_flags ver) tgt ev = Ret true).
    { intros ev. apply run_hooks_nothing. left. reflexivity. }
    rewrite !Hh in H. cbn [bind negb] in H. cbv beta iota in H.
    (* the update *)
    wclu H.
    destruct (kh_update rn ns (manifest cur) (stamp_all rn ns (manifest tgt)) k) as [Er Es].
    rewrite Er, Es in H. clear Er Es.
    change (manifest tgt) with (manifest pr) in H.
    destruct (k_update k (manifest cur) (stamp_all rn ns (manifest pr))) as [[k1 [ok cr]] muts] eqn:EU.
    cbn [fst snd] in H.
    assert (Hnd' : NoDup (map rkey (stamp_all rn ns (manifest pr)))).
    { unfold stamp_all. rewrite map_map. simpl. exact Hnd. }
    assert (Hok : ok = true).
    { destruct ok; auto. exfalso.
      pose proof (proj1 (update_fails_iff k (manifest cur) _ Hnf Hnd')) as G. rewrite EU in G. simpl in G.
      destruct (G eq_refl) as (t & Ht & _ & Hf).
      unfold stamp_all in Ht. apply in_map_iff in Ht. destruct Ht as (t0 & <- & Ht0).
      apply (in_keys_find_res _ _ (Hk6 t0 Ht0)). exact Hf. }
    subst ok. cbn [negb] in H. cbv beta iota in H.
    destruct (k_update_nofault _ _ _ _ _ _ _ Hnf EU) as (Hnf1 & _ & Hw1 & _).
    (* the wait *)
    unfold perform in H. cbn [bind] in H. wclu H.
    destruct (kh_wait rn ns (stamp_all rn ns (manifest pr)) k1) as (Er & Ef & Ew & Eo).
    rewrite Er, Hw1, Hwf in H. cbn [negb] in H. cbv beta iota in H.
    set (k2 := kstate_of rn ns (KWait (stamp_all rn ns (manifest pr))) k1) in *.
    (* the records *)
    wsto H. unfold sresp, sled in H. cbn [storage_apply fst snd] in H.
    wbind H l5 k5 u Hs. apply wrun_supersede_all in Hs. destruct Hs as [-> ->].
    wsto H. unfold sresp, sled in H. cbn [storage_apply] in H.
    assert (Hh2 : has_rev (rev (with_status tgt SDeployed))
                          (supersede (filter (fun r => status_eqb (st r) SDeployed) l2) l2) = true).
    { apply has_rev_revs. rewrite revs_supersede. unfold l2, revs. rewrite map_app. apply in_or_app. right. now left. }
    rewrite Hh2 in H. cbn [fst snd] in H. wret H.
    split; auto. split.
    - fold (lupd (with_status tgt SDeployed) (supersede (filter (fun r => status_eqb (st r) SDeployed) l2) l2)).
      pose proof (in_upd_self (with_status tgt SDeployed) _ Hh2) as G. unfold lupd in G. rewrite Hh2 in G. exact G.
    - exists k1, cr, muts. split; auto.
  Qed.
End Full.

Lemma find_unique_rev g : forall l, NoDup (revs l) -> In g l -> find (fun r => Nat.eqb (rev r) (rev g)) l = Some g.
Proof.
  induction l as [|x t IH]; simpl; intros Hn Hin; [contradiction|].
  inversion Hn as [|? ? Hnot Hn']; subst.
  destruct Hin as [->|Hin].
  - now rewrite Nat.eqb_refl.
  - destruct (Nat.eqb (rev x) (rev g)) eqn:E; auto.
    apply Nat.eqb_eq in E. exfalso. apply Hnot. rewrite E. unfold revs. now apply in_map.
Qed.

Definition isgood (r : release) : bool := status_eqb (st r) SSuperseded || status_eqb (st r) SDeployed.

Section FullUpgrade.
  Variable rn ns : string.
  Notation wrun := (wrun rn ns).

  Ltac wbind H l1 k1 a H1 := apply wrun_bind_inv in H; destruct H as (l1 & k1 & a & H1 & H).
  Ltac wret H := apply wrun_ret_inv in H; destruct H as (? & ? & ?); subst.
  Ltac wsto H := apply wrun_storage_inv in H; [|reflexivity].
  Ltac wclu H := apply wrun_cluster_inv in H; [|reflexivity].
  Ltac case_if H := match type of H with ContainWorld.wrun _ _ (if ?c then _ else _) _ _ _ _ _ => destruct c eqn:? end.

  (* what the recovery achieves: the new deployed revision and the update that produced the
     final cluster *)
  Definition restored (mani : list res) (up g : release) (l' : list release) (k' : kstate) : Prop :=
    In (with_status (tgt_of (with_status up SFailed) g) SDeployed) l' /\
    exists kr k1 cr muts,
      kfault kr = None /\
      k_update kr mani (stamp_all rn ns (manifest g)) = (k1, (true, cr), muts) /\ objs k' = objs k1.

  Lemma upgrade_fail_restores fl up created l0 last g k l' k' out :
    f_atomic fl = true -> f_no_hooks fl = true ->
    NoDup (revs l0) -> (forall x, In x l0 -> rev x <> 0) ->
    max_rev_of l0 = Some last -> rev up = S (rev last) ->
    max_rev_of (filter isgood l0) = Some g ->
    NoDup (map rkey (manifest g)) ->
    (forall t, In t (manifest g) -> in_keys (rkey t) (manifest up) = true) ->
    kfault k = None -> waitfail k = false ->
    wrun (upgrade_fail rn ns fl up created) (l0 ++ [up]) k l' k' out ->
    restored (manifest up) up g l' k'.
  Proof.
    intros Hat Hnh Hnd Hnz Hlast Hrev Hg HndG Hk6 Hnf Hwf H.
    assert (Hlt : forall x, In x l0 -> rev x < rev up).
    { intros x Hx. pose proof (max_rev_of_ge _ _ Hlast _ Hx). lia. }
    assert (Hh : has_rev (rev up) l0 = false).
    { destruct (has_rev (rev up) l0) eqn:E; auto. apply has_rev_revs in E.
      unfold revs in E. apply in_map_iff in E. destruct E as (x & Ex & Hx). specialize (Hlt x Hx). lia. }
    unfold upgrade_fail in H. rewrite Hat, Hnh in H.
    wbind H l1 k1 u Hr. apply wrun_record_release in Hr. destruct Hr as [-> ->].
    rewrite (upd_snoc_status up SFailed l0 Hh) in H.
    set (upF := with_status up SFailed) in *.
    set (l3 := (l0 ++ [upF])%list) in *.
    wbind H l4 k4 cleaned Hc.
    assert (l4 = l3 /\ cleaned = true /\ kfault k4 = None /\ waitfail k4 = false) as (-> & -> & Hnf4 & Hwf4).
    { case_if Hc.
      - apply andb_true_iff in Heqb. destruct Heqb as [_ Hne].
        assert (Hne' : created <> []) by (destruct created; [discriminate|discriminate]).
        unfold perform in Hc. wclu Hc. wret Hc.
        destruct (kh_delete rn ns created k Hne') as [Er Es]. rewrite Er, Es.
        destruct (k_delete k created true []) as [[kd okd] md] eqn:ED. cbn [fst snd].
        destruct (k_delete_nofault _ _ _ _ _ _ _ Hnf ED) as (Hn' & _ & Hw' & -> & _).
        repeat split; auto. congruence.
      - wret Hc. auto. }
    clear Hc. cbv beta iota delta [negb] in H.
    wsto H. unfold sresp, sled in H. cbn [storage_apply fst snd] in H.
    assert (Egood : filter (fun r => status_eqb (st r) SSuperseded || status_eqb (st r) SDeployed) l3 = filter isgood l0).
    { unfold l3. rewrite filter_app. simpl. rewrite app_nil_r. reflexivity. }
    rewrite Egood, Hg in H.
    assert (Hgin : In g l0).
    { apply max_rev_of_in in Hg. apply filter_In in Hg. tauto. }
    wbind H l5 k5 r Hroll. wret H.
    fold (recovery_flags (rev g)) in Hroll.
    assert (Hnd3 : NoDup (revs l3)) by (apply nodup_snoc; auto).
    assert (Hmax3 : max_rev_of l3 = Some upF) by (apply max_rev_of_snoc; exact Hlt).
    assert (Hfind3 : find (fun r => Nat.eqb (rev r) (rev g)) l3 = Some g).
    { apply find_unique_rev; auto. unfold l3. apply in_or_app. now left. }
    assert (Hfresh3 : has_rev (S (rev upF)) l3 = false).
    { destruct (has_rev (S (rev upF)) l3) eqn:E; auto. apply has_rev_revs in E.
      unfold l3, revs in E. rewrite map_app in E. apply in_app_or in E. simpl in E.
      destruct E as [E|[E|[]]]; [|lia].
      apply in_map_iff in E. destruct E as (x & Ex & Hx). specialize (Hlt x Hx). lia. }
    destruct (rollback_succeeds rn ns (rev g) l3 k4 l5 k5 r upF g (Hnz g Hgin) Hnf4 Hwf4 Hmax3 Hfind3 Hfresh3 HndG Hk6 Hroll)
      as (_ & Hin & k1 & cr & muts & EU & Eo).
    split; auto. exists k4, k1, cr, muts. auto.
  Qed.

  Theorem atomic_upgrade_wrun fl cid vid mani hks l0 k0 l' k' c last g :
    f_atomic fl = true -> f_dry_run fl = false -> f_no_hooks fl = true -> f_max_history fl = 0 ->
    NoDup (revs l0) -> (forall x, In x l0 -> rev x <> 0) ->
    max_rev_of l0 = Some last -> max_rev_of (filter isgood l0) = Some g ->
    NoDup (map rkey mani) -> NoDup (map rkey (manifest g)) ->
    (forall t, In t (manifest g) -> in_keys (rkey t) mani = true) ->
    ((kfault k0 = None /\ waitfail k0 = true) \/ (waitfail k0 = false /\ nodel k0)) ->
    (exists y, In y l' /\ ~ In (rev y) (revs l0)) ->
    wrun (upgrade rn ns fl cid vid mani hks) l0 k0 l' k' (OErr c) ->
    restored mani (mkRelease (S (rev last)) SPendingUpgrade cid vid mani hks) g l' k'.
  Proof.
    intros Hat Hdry Hnh Hmh Hnd Hnz Hlast Hg HndM HndG Hk6 Hfault Hnew H.
    assert (Href : l' = l0 -> False).
    { intros ->. destruct Hnew as (y & Hy & Hn). apply Hn. unfold revs. now apply in_map. }
    unfold upgrade in H. rewrite Hdry, Hmh in H. cbv beta iota zeta in H.
    wsto H. unfold sresp, sled in H. cbn [storage_apply fst snd] in H. rewrite Hlast in H.
    case_if H; [wret H; exfalso; auto|].
    wbind H la ka cur Ha.
    assert (la = l0 /\ ka = k0 /\ forall current, cur = Some current -> In current l0) as (-> & -> & Hcur).
    { case_if Ha.
      - wret Ha. repeat split; auto. intros current E. inversion E; subst. now apply max_rev_of_in.
      - wsto Ha. unfold sresp, sled in Ha. cbn [storage_apply fst snd] in Ha.
        destruct (max_rev_of (filter (fun r => status_eqb (st r) SDeployed) l0)) as [dd|] eqn:Hdd.
        + wret Ha. repeat split; auto. intros current E. inversion E; subst.
          apply max_rev_of_in in Hdd. apply filter_In in Hdd. tauto.
        + case_if Ha; wret Ha; repeat split; auto; intros current E; inversion E; subst.
          now apply max_rev_of_in. }
    clear Ha.
    destruct cur as [current|]; [|wret H; exfalso; auto].
    specialize (Hcur _ eq_refl).
    (* ownership check *)
    unfold perform in H. cbn [bind] in H. wclu H.
    set (tbc := filter (fun r => negb (in_keys (rkey r) (manifest current))) (stamp_all rn ns mani)) in *.
    destruct (kh_existing rn ns tbc (f_take_ownership fl) k0) as [Er Es]. rewrite Er, Es in H. clear Er Es.
    destruct (k_existing rn ns k0 tbc (f_take_ownership fl) []) as [kx [adopted|]] eqn:EK; cbn [fst snd] in H.
    2:{ wret H. exfalso. auto. }
    destruct (k_existing_some rn ns _ _ _ _ _ _ EK) as (-> & _ & Hcomplete).
    (* the revision is stored *)
    wsto H. unfold sresp, sled in H. cbn [storage_apply] in H.
    set (up := mkRelease (S (rev last)) SPendingUpgrade cid vid mani hks) in *.
    assert (Hh : has_rev (rev up) l0 = false).
    { destruct (has_rev (rev up) l0) eqn:E; auto. apply has_rev_revs in E.
      unfold revs in E. apply in_map_iff in E. destruct E as (x & Ex & Hx).
      pose proof (max_rev_of_ge _ _ Hlast _ Hx). simpl in Ex. lia. }
    rewrite Hh in H. cbn [fst snd] in H.
    set (l2 := (l0 ++ [up])%list) in *.
    assert (Hhooks : forall ev, run_hooks fl up ev = Ret true).
    { intros ev. apply run_hooks_nothing. now left. }
    rewrite !Hhooks in H. cbn [bind negb] in H. cbv beta iota in H.
    assert (Hnd2 : NoDup (revs l2)) by (apply nodup_snoc; auto).
    assert (Hc2 : lupd current l2 = l2).
    { apply upd_member_stable; auto. unfold l2. apply in_or_app. now left. }
    (* no live target is unknown to the update: it is in the current manifest or was adopted *)
    set (curres := (manifest current ++ adopted)%list) in *.
    assert (Hknown : forall t, In t (stamp_all rn ns mani) -> aget (rkey t) (objs k0) <> None ->
                               find_res (rkey t) curres <> None).
    { intros t Ht Hl. unfold curres. apply find_res_app.
      destruct (in_keys (rkey t) (manifest current)) eqn:E.
      - left. now apply in_keys_find_res.
      - right. apply In_find_res. apply Hcomplete; auto. unfold tbc. apply filter_In. split; auto.
        now rewrite E. }
    assert (HndT : NoDup (map rkey (stamp_all rn ns mani))).
    { unfold stamp_all. rewrite map_map. simpl. exact HndM. }
    assert (Hfin : forall kf created lx kx o, kfault kf = None -> waitfail kf = false ->
              wrun (bind (record_release current) (fun _ => upgrade_fail rn ns fl up created)) l2 kf lx kx o ->
              restored mani up g lx kx).
    { intros kf created lx kx o Hn Hw Hf.
      wbind Hf l3 k3 u Hr. apply wrun_record_release in Hr. destruct Hr as [-> ->]. rewrite Hc2 in Hf.
      eapply (upgrade_fail_restores fl up created l0 last g kf); eauto. }
    (* the update *)
    wclu H.
    destruct (kh_update rn ns curres (stamp_all rn ns mani) k0) as [Er Es]. rewrite Er, Es in H. clear Er Es.
    pose proof (k_update_wait k0 curres (stamp_all rn ns mani)) as Hw2.
    destruct (k_update k0 curres (stamp_all rn ns mani)) as [[k2 [ok cr]] muts] eqn:EU. cbn [fst snd] in H, Hw2.
    destruct ok; cbn [negb] in H; cbv beta iota in H.
    2:{ destruct (k_update_fail_consumed _ _ _ _ _ _ HndT Hknown EU) as [Hn2 Hn0].
        eapply Hfin; [exact Hn2| |exact H].
        rewrite Hw2. destruct Hfault as [[E _]|[E _]]; [congruence|exact E]. }
    (* the wait *)
    unfold perform in H. cbn [bind] in H. wclu H.
    destruct (kh_wait rn ns (stamp_all rn ns mani) k2) as (Er & Ef & Ew & Eo). rewrite Er in H.
    destruct (waitfail k2) eqn:Ewf; cbn [negb] in H; cbv beta iota in H.
    - eapply Hfin; [|exact Ew|exact H]. rewrite Ef.
      destruct Hfault as [[E _]|[E _]]; [|congruence].
      destruct (k_update_nofault _ _ _ _ _ _ _ E EU) as (Hn2 & _). exact Hn2.
    - (* everything succeeded: not an error *)
      exfalso.
      apply wrun_supdate in H. apply wrun_supdate in H.
      assert (Hh6 : has_rev (rev (with_status up SDeployed)) (lupd (with_status current SSuperseded) l2) = true).
      { apply has_rev_revs. rewrite revs_upd. unfold l2, revs. rewrite map_app. apply in_or_app. right. now left. }
      rewrite Hh6 in H. apply wrun_ret_inv in H. destruct H as (_ & _ & E). discriminate.
  Qed.
End FullUpgrade.

From Helm Require Import Engine.MatchRun Engine.MatchOps Engine.MatchSuccess.

(* exactly the cluster faults of the property that can make the upgrade itself fail: the
   readiness wait, or one rejected request that is not a DELETE (a rejected DELETE is swallowed
   by the update, K7, or would hit the recovery: a second failure); hook faults are moot with
   hooks disabled *)
Definition one_fault (cf : cfaults) : Prop :=
  (cf_k cf = None /\ cf_wait cf = true) \/ (cf_wait cf = false /\ forall key, cf_k cf <> Some (VDelete, key)).

Theorem atomic_upgrade :
  forall rn ns fl cid vid mani hks cf w w' c t last g,
    f_atomic fl = true -> f_dry_run fl = false -> f_no_hooks fl = true -> f_max_history fl = 0 ->
    NoDup (revs (w_led w)) -> (forall x, In x (w_led w) -> rev x <> 0) ->
    max_rev_of (w_led w) = Some last ->
    max_rev_of (filter (fun r => status_eqb (st r) SSuperseded || status_eqb (st r) SDeployed) (w_led w)) = Some g ->
    NoDup (map rkey mani) -> NoDup (map rkey (manifest g)) ->
    (forall r, In r (manifest g) -> NoDup (akeys (r_fields r))) ->
    (forall r, In r (manifest g) -> in_keys (rkey r) mani = true) ->
    one_fault cf ->
    run_store_op rn ns (mkOp (OpUpgrade fl cid vid mani hks) ContainLedger.nofault cf) w = (w', OErr c, t) ->
    (exists y, In y (w_led w') /\ ~ In (rev y) (revs (w_led w))) ->
    exists y, In y (w_led w') /\ rev y = S (S (rev last)) /\ st y = SDeployed /\
      manifest y = manifest g /\ hooks y = hooks g /\ chart_id y = chart_id g /\ config_id y = config_id g /\
      (forall r, In r (manifest g) ->
         exists live', aget (rkey r) (w_objs w') = Some live' /\
                       fields_sub (r_fields (stamp rn ns r)) live' = true) /\
      (forall o, In o mani -> in_keys (rkey o) (manifest g) = false ->
         aget (rkey o) (w_objs w') = None \/
         exists live, aget (rkey o) (w_objs w') = Some live /\ live_keep live = true).
Proof.
  intros rn ns fl cid vid mani hks cf w w' c t last g Hat Hdry Hnh Hmh Hnd Hnz Hlast Hg HndM HndG HwfG Hk6 Hone H Hnew.
  unfold run_store_op in H. cbn [oc_op oc_sf oc_cf] in H.
  set (k0 := mkK (w_objs w) (cf_k cf) (cf_h cf) (cf_wait cf)) in *.
  destruct (run_op kstate (kube_handle rn ns) dead_resp rn ns (OpUpgrade fl cid vid mani hks) ContainLedger.nofault (w_led w) k0)
    as [[[l k] o] t'] eqn:E.
  inversion H; subst. clear H.
  unfold run_op in E. cbn [op_prog] in E.
  destruct (run kstate (kube_handle rn ns) dead_resp ContainLedger.nofault (upgrade rn ns fl cid vid mani hks)
                (mkR (w_led w) k0 0 0 false [])) as [s o'] eqn:E2.
  apply run_wrun in E2; [|reflexivity]. destruct E2 as [Hw Hd]. cbn [led ks] in Hw.
  rewrite Hd in E. inversion E; subst. clear E. cbn [w_led w_objs] in *.
  assert (Hf0 : (kfault k0 = None /\ waitfail k0 = true) \/ (waitfail k0 = false /\ nodel k0)).
  { unfold k0, nodel. cbn [kfault waitfail]. destruct Hone as [[E1 E2]|[E1 E2]]; [left; auto|right]. split; auto.
    destruct (cf_k cf) as [[v key]|] eqn:Ek; auto. destruct v; auto. exfalso. now apply (E2 key). }
  destruct (atomic_upgrade_wrun rn ns fl cid vid mani hks (w_led w) k0 (led s) (ks s) c last g
              Hat Hdry Hnh Hmh Hnd Hnz Hlast Hg HndM HndG Hk6 Hf0 Hnew Hw)
    as (Hin & kr & k1 & cr & muts & Hnf & EU & Eo).
  eexists. split; [exact Hin|]. cbn [rev st manifest hooks chart_id config_id with_status tgt_of].
  repeat split; auto.
  - (* the cluster holds the restored manifest *)
    assert (Hnd' : NoDup (map rkey (stamp_all rn ns (manifest g)))) by (now rewrite keys_stamp_all).
    assert (Hwf' : forall x, In x (stamp_all rn ns (manifest g)) -> NoDup (akeys (r_fields x))).
    { intros x Hx. unfold stamp_all in Hx. apply in_map_iff in Hx. destruct Hx as [r [<- Hr]]. apply wf_stamp. auto. }
    destruct (update_matches _ _ _ _ _ _ Hnf Hnd' Hwf' EU) as (Ui & _ & _).
    intros r Hr. destruct (Ui (stamp rn ns r)) as (live' & Hl & Hs & _); [unfold stamp_all; now apply in_map|].
    exists live'. rewrite Eo. rewrite rkey_stamp in Hl. auto.
  - assert (Hnd' : NoDup (map rkey (stamp_all rn ns (manifest g)))) by (now rewrite keys_stamp_all).
    assert (Hwf' : forall x, In x (stamp_all rn ns (manifest g)) -> NoDup (akeys (r_fields x))).
    { intros x Hx. unfold stamp_all in Hx. apply in_map_iff in Hx. destruct Hx as [r [<- Hr]]. apply wf_stamp. auto. }
    destruct (update_matches _ _ _ _ _ _ Hnf Hnd' Hwf' EU) as (_ & Uii & _).
    intros x Hx Hk. specialize (Uii x Hx). rewrite in_keys_stamp_all in Uii. specialize (Uii Hk).
    rewrite Eo. destruct (aget (rkey x) (objs kr)) as [live|]; auto.
    destruct (live_keep live) eqn:Ek; auto. right. exists live. auto.
Qed.

(* ---- example: install {a,b}; upgrade --atomic --no-hooks to {a',b',c} with PATCH b rejected ---- *)
From Helm Require Import Engine.Contain.
Local Open Scope string_scope.
Definition fu_w1 : world :=
  fst (fst (run_store_op "rel" "default" (mkOp (OpInstall fl0 1 1 [cmr "a" "v1"; cmr "b" "v1"] []) ContainLedger.nofault no_cf) (mkW [] []))).
Definition fu_fl : flags := mkFlags true false false false 0 true false false false 0.
Definition fu_mani : list res := [cmr "a" "v2"; cmr "b" "v2"; cmr "c" "v2"].
Definition fu_cf : cfaults := mkCF (Some (VPatch, "ConfigMap/b")) None false.
Definition fu_g : release := mkRelease 1 SDeployed 1 1 [cmr "a" "v1"; cmr "b" "v1"] [].

Lemma atomic_upgrade_full_example :
  f_atomic fu_fl = true /\ f_dry_run fu_fl = false /\ f_no_hooks fu_fl = true /\ f_max_history fu_fl = 0 /\
  NoDup (revs (w_led fu_w1)) /\ (forall x, In x (w_led fu_w1) -> rev x <> 0) /\
  max_rev_of (w_led fu_w1) = Some fu_g /\
  max_rev_of (filter (fun r => status_eqb (st r) SSuperseded || status_eqb (st r) SDeployed) (w_led fu_w1)) = Some fu_g /\
  NoDup (map rkey fu_mani) /\ NoDup (map rkey (manifest fu_g)) /\
  (forall r, In r (manifest fu_g) -> in_keys (rkey r) fu_mani = true) /\
  one_fault fu_cf /\
  exists w' t,
    run_store_op "rel" "default" (mkOp (OpUpgrade fu_fl 2 2 fu_mani []) ContainLedger.nofault fu_cf) fu_w1 = (w', OErr EOtherErr, t) /\
    statuses (w_led w') = [(1, SSuperseded); (2, SFailed); (3, SDeployed)] /\
    map (fun kv => (fst kv, aget "d:k" (snd kv))) (w_objs w') = [("ConfigMap/a", Some "v1"); ("ConfigMap/b", Some "v1")].
Proof.
  split; [reflexivity|]. split; [reflexivity|]. split; [reflexivity|]. split; [reflexivity|].
  split; [vm_compute; repeat constructor; simpl; tauto|].
  split; [vm_compute; intros x [<-|[]]; discriminate|].
  split; [vm_compute; reflexivity|]. split; [vm_compute; reflexivity|].
  split; [vm_compute; repeat constructor; simpl; intuition discriminate|].
  split; [vm_compute; repeat constructor; simpl; intuition discriminate|].
  split; [intros r [<-|[<-|[]]]; reflexivity|].
  split; [right; split; [reflexivity|intros key; discriminate]|].
  eexists. eexists. vm_compute. repeat split.
Qed.

(* The model programs of Engine/Ops.v follow the skeleton extracted from /repo on this run:
   the finite checks of Engine/SkeletonProofs*.v once more, against Gen/ActionSkeleton.v
   (a few seconds; recompiled only when the translator output changes).  vm_cast_no_check:
   the evaluation happens once, at Qed, in the kernel's VM (notes/SKEL.md, "Kernel conversion"). *)
From Coq Require Import List String Bool Arith.
From Helm Require Import Engine.Types Engine.Eff Engine.Ops Engine.Skeleton Engine.SkeletonModel
                         Engine.SkeletonProofs Engine.SkeletonSource Gen.ActionSkeleton.
Import ListNotations.

Lemma src_ok_install : check_op_ok OInstall skeleton rskeleton = true.
Proof. vm_cast_no_check (eq_refl true). Qed.
Lemma src_ok_upgrade : check_op_ok OUpgrade skeleton rskeleton = true.
Proof. vm_cast_no_check (eq_refl true). Qed.
Lemma src_ok_rollback : check_op_ok ORollback skeleton rskeleton = true.
Proof. vm_cast_no_check (eq_refl true). Qed.
Lemma src_ok_uninstall : check_op_ok OUninstall skeleton rskeleton = true.
Proof. vm_cast_no_check (eq_refl true). Qed.

Lemma src_fail_install : check_op_fail OInstall skeleton rskeleton = true.
Proof. vm_cast_no_check (eq_refl true). Qed.
Lemma src_fail_upgrade : check_op_fail OUpgrade skeleton rskeleton = true.
Proof. vm_cast_no_check (eq_refl true). Qed.
Lemma src_fail_rollback : check_op_fail ORollback skeleton rskeleton = true.
Proof. vm_cast_no_check (eq_refl true). Qed.
Lemma src_fail_uninstall : check_op_fail OUninstall skeleton rskeleton = true.
Proof. vm_cast_no_check (eq_refl true). Qed.

Lemma model_follows_source_lemma :
  forall o fl l ad,
    In fl (flag_space o) -> In l ledgers ->
    follows skeleton rskeleton (mkScen o fl l ad) [] = true.
Proof.
  intros [] fl l ad.
  - exact (check_op_ok_lift OInstall skeleton rskeleton src_ok_install fl l ad).
  - exact (check_op_ok_lift OUpgrade skeleton rskeleton src_ok_upgrade fl l ad).
  - exact (check_op_ok_lift ORollback skeleton rskeleton src_ok_rollback fl l ad).
  - exact (check_op_ok_lift OUninstall skeleton rskeleton src_ok_uninstall fl l ad).
Qed.

Lemma model_failures_follow_source_lemma :
  forall o fl l,
    In fl (fail_flag_space o) -> In l (fail_ledgers o) ->
    follows skeleton rskeleton (mkScen o fl l false) [] = true /\
    forall n, n < List.length (model_trace (mkScen o fl l false) []) ->
              follows skeleton rskeleton (mkScen o fl l false) [n] = true.
Proof.
  intros [] fl l.
  - exact (check_op_fail_lift OInstall skeleton rskeleton src_fail_install fl l).
  - exact (check_op_fail_lift OUpgrade skeleton rskeleton src_fail_upgrade fl l).
  - exact (check_op_fail_lift ORollback skeleton rskeleton src_fail_rollback fl l).
  - exact (check_op_fail_lift OUninstall skeleton rskeleton src_fail_uninstall fl l).
Qed.
